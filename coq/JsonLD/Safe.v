(* JsonLD/Safe.v — executable model for property C15 (safe mode never silently
   drops a field).  NO proofs in this file.

   What is modelled (json-gold v0.5.1-0.20241210232033, package ld, as called by
   /repo/merklize/merklize.go):

   * JSON documents as trees ([json]); object members in the order given (the
     harness writes them in sorted key order = GetOrderedKeys).
   * the active context as far as it decides the fate of an object KEY:
     Context.parse (context.go:126: arrays, null, remote contexts by URL through
     a loader table, @vocab, @propagate, previousContext), createTermDefinition
     (context.go:541: null definitions, simple string terms, expanded definitions
     with @id / @type / @container / @context / @prefix, keyword aliases, compact
     IRIs with dependency resolution through `defined`), ExpandIri for document
     keys (context.go:1012), RevertToPreviousContext;
   * the document walk of JsonLdApi.Expand / expandObject (api_expand.go:29, 312):
     property-scoped contexts, reverting of type-scoped contexts in nested node
     objects, embedded @context, type-scoped contexts chosen by the (sorted) @type
     values, and step 7.3: a key whose expansion is empty or neither contains ':'
     nor is a keyword is DROPPED (SafeMode = false) or is an ERROR (SafeMode =
     true); descent through @graph, @included, @reverse, @nest, @list, @set and
     through every property value; no descent into @json-typed terms.
     api_expand.go:563/570/649 IGNORE the error of the recursive Expand under the
     keywords @list, @set and @default ("expandedValue, _ = api.Expand(...)"):
     the model records this as the [swallowed] flag of an occurrence.
   * the option plumbing of MerklizeJSONLD (merklize.go:1544-1611): default
     safeMode = true, WithSafeMode, WithDocumentLoader / IPFS options / the
     process-wide default loader (possibly nil), a loader that answers differently
     during Normalize and during Compact, newJSONLDOptions, proc.Normalize (which builds
     FRESH options for ToRDF, processor.go:572, so SafeMode is NOT forwarded to the
     expansion that produces the entries) and the final proc.Compact(obj, nil,
     options), the only place where safe mode can reject.

   * the steps after the dataset exists (merklize.go:1590-1611, 1414-1430):
     EntriesFromRDFWithHasher (its error is returned), one KeyValueMtEntries + mt.Add
     per entry (the first error is returned), on a tree that is a new one or the
     caller's ([mtree]: leaves, number of Add calls, the Add call that fails; Add on an
     occupied key fails).  [merklize_gen] with [faults] = the same pipeline with one
     of these checks switched off: refutation witnesses only.

   NOT modelled (abstract parameters of [merklize_doc], see the record [backend]):
   the result of expansion, ToRDF, URDNA2015, WHICH entries EntriesFromRDF returns
   (RDF/Model.v models that), the hashes of an entry, compaction; the tree's root.
   Out of the subset (the model answers Err "unsupported..."): @reverse term
   definitions, @import, container maps (@index/@language/@id/@type containers with
   an object value).  Ignored: @protected, @base, @language, @direction, @version,
   @nest/@index members of term definitions, the IRI-like-term consistency check.
   IsAbsoluteIri (url.Parse) is approximated by RFC 3986 scheme syntax. *)
From Coq Require Import List String Ascii Bool Arith NArith ZArith.
From GSP Require Import Base.Prelude.
Import ListNotations.
Open Scope string_scope.
Open Scope list_scope.
Infix "+++" := String.append (right associativity, at level 60).

(* ------------------------------------------------------------------ JSON *)
Inductive json :=
| JNull
| JBool (b : bool)
| JNum (lex : string)
| JStr (s : string)
| JArr (l : list json)
| JObj (m : list (string * json)).

Definition sassoc {V} (k : string) (l : list (string * V)) : option V := assoc String.eqb k l.
Definition sset {V} (k : string) (v : V) (l : list (string * V)) := upsert String.eqb k v l.
Definition sdel {V} (k : string) (l : list (string * V)) := remove_key (V:=V) String.eqb k l.
Definition has_key {V} (k : string) (l : list (string * V)) : bool :=
  match sassoc k l with Some _ => true | None => false end.

Definition arrayify (v : json) : list json :=
  match v with JArr l => l | _ => [v] end.

(* --------------------------------------------------------------- strings *)
Definition colon : ascii := ":"%char.

(* (text before the first ':', text after it) *)
Fixpoint split_colon (s : string) : option (string * string) :=
  match s with
  | EmptyString => None
  | String c t =>
      if Ascii.eqb c colon then Some (EmptyString, t)
      else match split_colon t with
           | Some (p, q) => Some (String c p, q)
           | None => None
           end
  end.
Definition has_colon (s : string) : bool :=
  match split_colon s with Some _ => true | None => false end.

Definition is_alpha (c : ascii) : bool :=
  let n := nat_of_ascii c in
  (Nat.leb 65 n && Nat.leb n 90) || (Nat.leb 97 n && Nat.leb n 122).
Definition is_scheme_char (c : ascii) : bool :=
  is_alpha c || is_digit c ||
  Ascii.eqb c "+"%char || Ascii.eqb c "-"%char || Ascii.eqb c "."%char.
Fixpoint all_chars (p : ascii -> bool) (s : string) : bool :=
  match s with EmptyString => true | String c t => p c && all_chars p t end.

(* ignoredKeywordPattern = ^@[a-zA-Z]+$ *)
Definition kwlike (s : string) : bool :=
  match s with
  | String c (String d t) => Ascii.eqb c "@"%char && all_chars is_alpha (String d t)
  | _ => false
  end.

Definition keywords : list string :=
  ["@base"; "@container"; "@context"; "@default"; "@direction"; "@embed"; "@explicit";
   "@json"; "@id"; "@included"; "@index"; "@first"; "@graph"; "@import"; "@language";
   "@list"; "@nest"; "@none"; "@omitDefault"; "@prefix"; "@preserve"; "@propagate";
   "@protected"; "@requireAll"; "@reverse"; "@set"; "@type"; "@value"; "@version"; "@vocab"].
Definition str_in (s : string) (l : list string) : bool := existsb (String.eqb s) l.
Definition is_keyword (s : string) : bool := str_in s keywords.

Definition starts_with (p s : string) : bool := String.prefix p s.

(* IsAbsoluteIri: "_:" prefix, or url.Parse succeeds with a scheme — approximated
   by the scheme syntax ALPHA *( ALPHA / DIGIT / "+" / "-" / "." ) ":" *)
Definition is_absolute_iri (s : string) : bool :=
  starts_with "_:" s ||
  match split_colon s with
  | Some (String c p, _) => is_alpha c && all_chars is_scheme_char p
  | _ => false
  end.

Fixpoint last_char (s : string) : option ascii :=
  match s with
  | EmptyString => None
  | String c EmptyString => Some c
  | String _ t => last_char t
  end.
Definition gen_delim (c : ascii) : bool :=
  existsb (Ascii.eqb c) [":"; "/"; "?"; "#"; "["; "]"; "@"]%char.
Definition ends_with_gen_delim (s : string) : bool :=
  match last_char s with Some c => gen_delim c | None => false end.

(* --------------------------------------------------------------- context *)
Record tdef := mk_tdef {
  td_iri : string;               (* IRI mapping: a keyword (alias) or an IRI *)
  td_prefix : bool;              (* "_prefix" *)
  td_json : bool;                (* type mapping is @json *)
  td_container : list string;    (* container mapping *)
  td_ctx : option json           (* scoped context, kept raw and parsed on use *)
}.

(* termDefinitions: None = the term is explicitly mapped to null *)
Definition termmap := list (string * option tdef).

Inductive ctx := Ctx (terms : termmap) (vocab : option string) (prev : option ctx).
Definition c_terms (c : ctx) := let 'Ctx t _ _ := c in t.
Definition c_vocab (c : ctx) := let 'Ctx _ v _ := c in v.
Definition c_prev (c : ctx) := let 'Ctx _ _ p := c in p.
Definition empty_ctx : ctx := Ctx [] None None.

(* GetTermDefinition(key): a nil definition behaves like a missing one *)
Definition term_def (c : ctx) (k : string) : option tdef :=
  match sassoc k (c_terms c) with Some (Some d) => Some d | _ => None end.

(* RevertToPreviousContext *)
Definition revert (c : ctx) : ctx :=
  match c_prev c with Some p => p | None => c end.

Definition vocab_or (vocab : option string) (k : string) : string :=
  match vocab with Some v => v +++ k | None => k end.

(* ExpandIri(key, relative=false, vocab=true, nil, nil) for a document key *)
Definition expand_key (c : ctx) (k : string) : string :=
  if is_keyword k then k
  else if kwlike k then ""
  else match sassoc k (c_terms c) with
  | Some (Some d) => td_iri d
  | Some None => ""
  | None =>
      match split_colon k with
      | Some (EmptyString, _) => vocab_or (c_vocab c) k
      | Some (p, sfx) =>
          if String.eqb p "_" || starts_with "//" sfx then k
          else match sassoc p (c_terms c) with
               | Some (Some d) =>
                   if negb (String.eqb (td_iri d) "") && td_prefix d then td_iri d +++ sfx
                   else if is_absolute_iri k then k else vocab_or (c_vocab c) k
               | _ => if is_absolute_iri k then k else vocab_or (c_vocab c) k
               end
      | None => vocab_or (c_vocab c) k
      end
  end.

(* context.go:1064: a key "p:x" whose prefix p is explicitly mapped to null makes
   json-gold panic (type assertion on a nil interface) *)
Definition key_panics (c : ctx) (k : string) : bool :=
  if is_keyword k || kwlike k then false
  else match sassoc k (c_terms c) with
  | Some _ => false
  | None =>
      match split_colon k with
      | Some (EmptyString, _) => false
      | Some (p, sfx) =>
          if String.eqb p "_" || starts_with "//" sfx then false
          else match sassoc p (c_terms c) with Some None => true | _ => false end
      | None => false
      end
  end.

(* api_expand.go:361 (step 7.3): the key is dropped / rejected *)
Definition undefined_exp (e : string) : bool :=
  String.eqb e "" || (negb (has_colon e) && negb (is_keyword e)).
Definition key_defined (c : ctx) (k : string) : bool := negb (undefined_exp (expand_key c k)).

(* what the property text asks for: a keyword, or an absolute IRI that is not a
   blank node identifier (json-gold's test above is weaker: any ':' passes) *)
Definition key_absolute (c : ctx) (k : string) : bool :=
  let e := expand_key c k in
  is_keyword e || (is_absolute_iri e && negb (starts_with "_:" e)).

(* the shape json-gold's test lets through although it is no absolute IRI: the
   expansion contains ':' but is a blank node identifier ("_:b") or has no scheme
   (":x", ":") — known finding D27 *)
Definition colon_not_absolute (c : ctx) (k : string) : bool :=
  let e := expand_key c k in
  has_colon e && negb (is_keyword e) && negb (is_absolute_iri e && negb (starts_with "_:" e)).

(* ---- term definitions ---- *)
Definition dstate := (termmap * list (string * bool))%type.

Definition valid_def_keys : list string :=
  ["@container"; "@id"; "@language"; "@reverse"; "@type"; "@context"; "@direction";
   "@index"; "@nest"; "@prefix"; "@protected"].
Definition valid_containers : list string :=
  ["@list"; "@set"; "@index"; "@language"; "@graph"; "@id"; "@type"].

Definition is_null_def (v : json) : bool :=
  match v with
  | JNull => true
  | JObj m => match sassoc "@id" m with Some JNull => true | _ => false end
  | _ => false
  end.

Definition container_of (v : option json) : res (list string) :=
  match v with
  | None => Ok []
  | Some (JStr s) => if str_in s valid_containers then Ok [s] else Err "invalid container mapping"
  | Some (JArr l) =>
      fold_right (fun x acc =>
        a <- acc ;;
        match x with
        | JStr s => if str_in s valid_containers then Ok (s :: a) else Err "invalid container mapping"
        | _ => Panic "container member is not a string"
        end) (Ok []) l
  | Some _ => Panic "container is not a string"
  end.

Inductive id_outcome := IdIgnored | IdNone | IdSome (iri : string) (pfx : bool).

(* createTermDefinition and ExpandIri(value, false, true, context, defined) *)
Fixpoint define (fuel : nat) (vocab : option string) (local : list (string * json))
         (st : dstate) (term : string) {struct fuel} : res dstate :=
  match fuel with
  | O => Diverge
  | S f =>
  let '(terms, defd) := st in
  match sassoc term defd with
  | Some true => Ok st
  | Some false => Err "cyclic IRI mapping"
  | None =>
    let defd := sset term false defd in
    match sassoc term local with
    | None => Err "term missing from the local context"
    | Some value =>
      if is_null_def value then Ok (sset term None terms, sset term true defd)
      else
      match (match value with
             | JStr s => Some ([("@id", JStr s)], true)
             | JObj m => Some (m, false)
             | _ => None end) with
      | None => Err "invalid term definition"
      | Some (m, simple) =>
        if is_keyword term then Err "keyword redefinition"
        else if kwlike term then Ok (terms, defd)
        else
        let terms := sdel term terms in
        if negb (forallb (fun kv => str_in (fst kv) valid_def_keys) m) then Err "invalid term definition"
        else if has_key "@reverse" m then Err "unsupported: @reverse term definition"
        else
        let term_colon := match split_colon term with
                          | Some (String _ _ as p, sfx) => Some (p, sfx) | _ => None end in
        (* 13) @id *)
        r1 <- match sassoc "@id" m with
              | None => Ok (terms, defd, IdNone)
              | Some (JStr idStr) =>
                  if String.eqb term idStr then Ok (terms, defd, IdNone)
                  else if negb (is_keyword idStr) && kwlike idStr then Ok (terms, defd, IdIgnored)
                  else
                    x <- expand_iri_c f vocab local (terms, defd) idStr ;;
                    let '(st1, e) := x in
                    if is_keyword e || is_absolute_iri e then
                      if String.eqb e "@context" then Err "invalid keyword alias"
                      else
                        let pfx := match term_colon with Some _ => false | None => true end
                                   && ends_with_gen_delim e && simple in
                        Ok (fst st1, snd st1, IdSome e pfx)
                    else Err "invalid IRI mapping"
              | Some _ => Err "invalid IRI mapping"
              end ;;
        let '(terms, defd, ido) := r1 in
        match ido with
        | IdIgnored => Ok (terms, defd)
        | _ =>
        (* 14/15) no @id: compact IRI, @vocab, or error *)
        r2 <- match ido with
              | IdSome e p => Ok (terms, defd, e, p)
              | _ =>
                match term_colon with
                | Some (p, sfx) =>
                    st2 <- (if has_key p local then define f vocab local (terms, defd) p
                            else Ok (terms, defd)) ;;
                    match sassoc p (fst st2) with
                    | Some (Some d) => Ok (fst st2, snd st2, td_iri d +++ sfx, false)
                    | Some None => Panic "nil term definition used as prefix"
                    | None => Ok (fst st2, snd st2, term, false)
                    end
                | None =>
                    match vocab with
                    | Some v => Ok (terms, defd, v +++ term, false)
                    | None => Err "relative term definition without vocab mapping"
                    end
                end
              end ;;
        let '(terms, defd, iri, pfx) := r2 in
        let defd := sset term true defd in
        (* 10) @type *)
        r3 <- match sassoc "@type" m with
              | None => Ok (terms, defd, false)
              | Some (JStr ty) =>
                  if str_in ty ["@id"; "@vocab"; "@none"] then Ok (terms, defd, false)
                  else if String.eqb ty "@json" then Ok (terms, defd, true)
                  else
                    x <- expand_iri_c f vocab local (terms, defd) ty ;;
                    let '(st3, e) := x in
                    if negb (is_absolute_iri e) || starts_with "_:" e then Err "invalid type mapping"
                    else Ok (fst st3, snd st3, false)
              | Some _ => Err "invalid type mapping"
              end ;;
        let '(terms, defd, isjson) := r3 in
        cont <- container_of (sassoc "@container" m) ;;
        pfx2 <- match sassoc "@prefix" m with
                | None => Ok pfx
                | Some (JBool b) =>
                    if is_keyword iri then Err "keywords may not be used as prefixes" else Ok b
                | Some _ => Err "invalid @prefix value"
                end ;;
        if String.eqb iri "@context" || String.eqb iri "@preserve" then Err "invalid keyword alias"
        else
        Ok (sset term (Some (mk_tdef iri pfx2 isjson cont (sassoc "@context" m))) terms, defd)
        end
      end
    end
  end
  end

with expand_iri_c (fuel : nat) (vocab : option string) (local : list (string * json))
         (st : dstate) (value : string) {struct fuel} : res (dstate * string) :=
  match fuel with
  | O => Diverge
  | S f =>
  if is_keyword value then Ok (st, value)
  else if kwlike value then Ok (st, "")
  else
  st1 <- (if has_key value local && negb (match sassoc value (snd st) with Some true => true | _ => false end)
          then define f vocab local st value else Ok st) ;;
  match sassoc value (fst st1) with
  | Some (Some d) => Ok (st1, td_iri d)
  | Some None => Ok (st1, "")
  | None =>
    let fallback (st2 : dstate) : res (dstate * string) :=
      match vocab with
      | Some v => Ok (st2, v +++ value)
      | None => if is_keyword value || is_absolute_iri value then Ok (st2, value)
                else Err "not an absolute IRI"
      end in
    match split_colon value with
    | Some (String _ _ as p, sfx) =>
        if String.eqb p "_" || starts_with "//" sfx then Ok (st1, value)
        else
        st2 <- (if has_key p local && negb (match sassoc p (snd st1) with Some true => true | _ => false end)
                then define f vocab local st1 p else Ok st1) ;;
        match sassoc p (fst st2) with
        | Some (Some d) =>
            if negb (String.eqb (td_iri d) "") && td_prefix d then Ok (st2, td_iri d +++ sfx)
            else if is_absolute_iri value then Ok (st2, value) else fallback st2
        | Some None => Panic "nil term definition used as prefix"
        | None => if is_absolute_iri value then Ok (st2, value) else fallback st2
        end
    | _ => fallback st1
    end
  end
  end.

Definition non_term_def_keys : list string :=
  ["@base"; "@direction"; "@import"; "@language"; "@protected"; "@propagate"; "@version"; "@vocab"].

Section WithLoader.
  (* the document loader: URL -> the remote document (an object with "@context") *)
  (* Ok doc: served; Err: the fetch fails; Panic: a nil DocumentLoader is dereferenced *)
  Variable loader : string -> res json.
  (* fuel for context processing (nesting of remote contexts, term dependencies) *)
  Variable cf : nat.

  (* one context object (context.go:224-386) applied to [result] *)
  Definition apply_ctx_object (result : ctx) (m0 : list (string * json)) : res ctx :=
    m <- match sassoc "@context" m0 with
         | None | Some JNull => Ok m0
         | Some (JObj m') => Ok m'
         | Some _ => Err "invalid local context"
         end ;;
    if has_key "@import" m then Err "unsupported: @import" else
    match sassoc "@propagate" m with
    | Some (JBool _) | None =>
      vocab <- match sassoc "@vocab" m with
               | None => Ok (c_vocab result)
               | Some JNull => Ok None
               | Some (JStr v) => Ok (Some v)
               | Some _ => Err "invalid vocab mapping"
               end ;;
      st <- fold_left (fun acc kv =>
              st <- acc ;;
              if str_in (fst kv) non_term_def_keys then Ok st
              else define cf vocab m st (fst kv))
            m (Ok (c_terms result, [])) ;;
      Ok (Ctx (fst st) vocab (c_prev result))
    | Some _ => Err "invalid @propagate value"
    end.

  (* Context.parse(localContext, _, _, propagate, _, _) *)
  Fixpoint parse (fuel : nat) (c : ctx) (local : json) (propagate : bool) {struct fuel} : res ctx :=
    match fuel with
    | O => Diverge
    | S f =>
      let contexts := arrayify local in
      match contexts with
      | [] => Ok c
      | first :: _ =>
        let propagate :=
          match first with
          | JObj m => match sassoc "@propagate" m with Some (JBool b) => b | _ => propagate end
          | _ => propagate
          end in
        let result0 :=
          match c_prev c with
          | None => if propagate then c else Ctx (c_terms c) (c_vocab c) (Some c)
          | Some _ => c
          end in
        fold_left (fun acc cx =>
          result <- acc ;;
          match cx with
          | JNull => Ok (Ctx [] None (if propagate then None else Some result))
          | JStr url =>
              match loader url with
              | Ok (JObj rm) =>
                  match sassoc "@context" rm with
                  | Some rc => parse f result rc true
                  | None => Err "invalid remote context"
                  end
              | Ok _ => Err "invalid remote context"
              | Err _ => Err "loading remote context failed"
              | Panic w => Panic w
              | Diverge => Diverge
              end
          | JObj m => apply_ctx_object result m
          | _ => Err "invalid local context"
          end) contexts (Ok result0)
      end
    end.

  Definition parse_ctx (c : ctx) (local : json) (propagate : bool) : res ctx :=
    parse cf c local propagate.

  (* ---- the context of a node object: api_expand.go:79-192 ---- *)

  Definition str_list_of (v : json) : res (list string) :=
    match v with
    | JStr s => Ok [s]
    | JArr l =>
        r <- fold_right (fun x acc =>
               a <- acc ;;
               match x with JStr s => Ok (s :: a) | _ => Err "invalid type value" end) (Ok []) l ;;
        Ok (sort_strings r)
    | _ => Err "invalid type value"
    end.

  (* must the type-scoped context be reverted for this object? (api_expand.go:97-121) *)
  Definition must_revert (c : ctx) (m : list (string * json)) : bool :=
    match c_prev c with
    | None => true          (* reverting is the identity then *)
    | Some _ =>
        if Nat.leb (List.length m) 2 && negb (has_key "@context" m) then
          (fix scan (ms : list (string * json)) : bool :=
             match ms with
             | [] => true
             | (k, _) :: t =>
                 let e := expand_key c k in
                 if String.eqb e "@value" then false
                 else if String.eqb e "@id" && Nat.eqb (List.length m) 1 then false
                 else scan t
             end) m
        else true
    end.

  Definition node_ctx (c : ctx) (ap : string) (m : list (string * json)) : res ctx :=
    let psc := match term_def c ap with Some d => td_ctx d | None => None end in
    let c1 := if must_revert c m then revert c else c in
    c2 <- match psc with Some pc => parse_ctx c1 pc true | None => Ok c1 end ;;
    c3 <- match sassoc "@context" m with Some ec => parse_ctx c2 ec true | None => Ok c2 end ;;
    (* type-scoped contexts: keys are expanded in the context built so far, the
       type terms are looked up in c3 (typeScopedContext) *)
    fold_left (fun acc kv =>
      cur <- acc ;;
      if String.eqb (expand_key cur (fst kv)) "@type" then
        types <- str_list_of (snd kv) ;;
        fold_left (fun acc2 tt =>
          cur2 <- acc2 ;;
          match term_def c3 tt with
          | Some d => match td_ctx d with
                      | Some tc => parse_ctx cur2 tc false
                      | None => Ok cur2
                      end
          | None => Ok cur2
          end) types (Ok cur)
      else Ok cur) m (Ok c3).

  (* ---- the walk ---- *)
  Inductive pelem := PK (k : string) | PI (i : N).
  Definition path := list pelem.
  (* an occurrence of an undefined key: where, and whether the error json-gold
     raises for it in safe mode is swallowed by an enclosing @list/@set/@default *)
  Definition occ := (path * bool)%type.

  (* what expandObject does with one member *)
  Inductive action :=
  | ASkip                                   (* not a property; value not expanded *)
  | AUndef                                  (* step 7.3 *)
  | AWalk (c : ctx) (ap : string) (sw : bool)  (* Expand(c, ap, value); sw: error ignored *)
  | ANest                                   (* members are expanded as members of this node *)
  | AFail (r : res unit).                   (* Err / Panic raised here *)

  Definition is_obj (v : json) : bool := match v with JObj _ => true | _ => false end.

  Definition member_action (c : ctx) (ap : string) (k : string) (v : json) : action :=
    if String.eqb k "@context" then ASkip
    else if key_panics c k then AFail (Panic "nil term definition used as prefix")
    else
    let e := expand_key c k in
    if undefined_exp e then AUndef
    else if is_keyword e then
      if String.eqb e "@graph" then AWalk c "@graph" false
      else if String.eqb e "@included" then AWalk c ap false
      else if String.eqb e "@list" then
        if String.eqb ap "" || String.eqb ap "@graph" then ASkip else AWalk c ap true
      else if String.eqb e "@set" then AWalk c ap true
      else if String.eqb e "@default" then AWalk c "@default" true
      else if String.eqb e "@reverse" then
        if is_obj v then AWalk c "@reverse" false else AFail (Err "invalid @reverse value")
      else if String.eqb e "@nest" then ANest
      else ASkip
    else
      match term_def c k with
      | None => AWalk c k false
      | Some d =>
          match (match td_ctx d with Some pc => parse_ctx c pc true | None => Ok c end) with
          | Ok tc =>
              if is_obj v && existsb (fun x => str_in x (td_container d)) ["@language"; "@index"; "@id"; "@type"]
              then AFail (Err "unsupported: container map")
              else if td_json d then ASkip
              else AWalk tc k false
          | Err t => AFail (Err t)
          | Panic w => AFail (Panic w)
          | Diverge => AFail Diverge
          end
      end.

  Definition cast_fail {A} (r : res unit) : res A :=
    match r with Ok _ => Err "internal" | Err t => Err t | Panic w => Panic w | Diverge => Diverge end.

  (* prefix every reported path with the step taken to reach the value *)
  Definition tag (e : pelem) (os : list occ) : list occ :=
    map (fun o => (e :: fst o, snd o)) os.

  (* [nest] = true: [v] is the value of an @nest member; its members belong to the
     node whose context is [c] (no new node context).  Result: the undefined keys
     REACHED by expansion, in document order, as paths relative to [v]. *)
  Fixpoint walk (c : ctx) (ap : string) (nest sw : bool) (v : json) {struct v}
    : res (list occ) :=
    match v with
    | JArr l =>
        (fix items (l : list json) (i : N) {struct l} : res (list occ) :=
           match l with
           | [] => Ok []
           | x :: t =>
               a <- walk c ap nest sw x ;;
               b <- items t (N.succ i) ;;
               Ok (tag (PI i) a ++ b)
           end) l 0%N
    | JObj m =>
        cn <- (if nest then Ok c else node_ctx c ap m) ;;
        (fix members (ms : list (string * json)) {struct ms} : res (list occ) :=
           match ms with
           | [] => Ok []
           | (k, x) :: t =>
               a <- match member_action cn ap k x with
                    | ASkip => Ok []
                    | AUndef => Ok [([PK k], sw)]
                    | AWalk c' ap' s' => r <- walk c' ap' false (sw || s') x ;; Ok (tag (PK k) r)
                    | ANest => r <- walk cn ap true sw x ;; Ok (tag (PK k) r)
                    | AFail r => cast_fail r
                    end ;;
               b <- members t ;;
               Ok (a ++ b)
           end) m
    | _ => Ok []
    end.

  (* the document without the members expansion drops (SafeMode = false) *)
  Fixpoint strip (c : ctx) (ap : string) (nest : bool) (v : json) {struct v} : json :=
    match v with
    | JArr l => JArr (map (strip c ap nest) l)
    | JObj m =>
        match (if nest then Ok c else node_ctx c ap m) with
        | Ok cn =>
            JObj ((fix members (ms : list (string * json)) {struct ms} : list (string * json) :=
               match ms with
               | [] => []
               | (k, x) :: t =>
                   match member_action cn ap k x with
                   | AUndef => members t
                   | AWalk c' ap' _ => (k, strip c' ap' false x) :: members t
                   | ANest => (k, strip cn ap true x) :: members t
                   | ASkip | AFail _ => (k, x) :: members t
                   end
               end) m)
        | _ => v
        end
    | _ => v
    end.

  (* the top level call: processor.go:151-179 — empty active context, no active property *)
  Definition undefined_occ (d : json) : res (list occ) := walk empty_ctx "" false false d.
  Definition strip_undefined (d : json) : json := strip empty_ctx "" false d.
  Definition unswallowed (o : occ) : bool := negb (snd o).
  (* does expansion with SafeMode = true fail with "invalid property"? *)
  Definition safe_rejects (d : json) : res bool :=
    os <- undefined_occ d ;; Ok (existsb unswallowed os).

End WithLoader.

(* ------------------------------------------------------ MerklizeJSONLD *)
(* How a document loader answers during one phase of a merklization. *)
Definition lview := string -> res json.
(* options.DocumentLoader = nil: json-gold dereferences it at the first remote context *)
Definition nil_view : lview := fun _ => Panic "nil DocumentLoader".

(* A document loader is a stateful object (caches, hosts that come and go): what
   matters here is how it answers while proc.Normalize runs and how it answers
   while the final proc.Compact runs.  Nothing relates the two views. *)
Record dloader := { dl_normalize : lview; dl_compact : lview }.
Definition view_normalize (l : option dloader) : lview :=
  match l with Some d => dl_normalize d | None => nil_view end.
Definition view_compact (l : option dloader) : lview :=
  match l with Some d => dl_compact d | None => nil_view end.

(* The merkle tree as far as MerklizeJSONLD is concerned: the leaves added so far,
   the number of Add calls so far, and — for a caller-supplied tree whose storage
   may fail — the index (0-based) of the Add call that fails.  Keys and values are
   field elements. *)
Record mtree := { t_leaves : list (Z * Z); t_adds : nat; t_fail_at : option nat }.
Definition fresh_tree : mtree := {| t_leaves := []; t_adds := 0; t_fail_at := None |}.
(* MerkleTree.Add: a storage failure, or go-merkletree's ErrEntryIndexAlreadyExists *)
Definition tree_add (t : mtree) (k v : Z) : res mtree :=
  if match t_fail_at t with Some n => Nat.eqb n (t_adds t) | None => false end
  then Err "tree storage failure"
  else if existsb (fun kv => Z.eqb (fst kv) k) (t_leaves t) then Err "entry index already exists"
  else Ok {| t_leaves := t_leaves t ++ [(k, v)]; t_adds := S (t_adds t); t_fail_at := t_fail_at t |}.
(* the same tree after an Add that failed *)
Definition tree_skip (t : mtree) : mtree :=
  {| t_leaves := t_leaves t; t_adds := S (t_adds t); t_fail_at := t_fail_at t |}.

(* External code below the modelled level.  E: expanded document, DS: normalised
   dataset, En: an RDFEntry, C: compacted document. *)
Record backend (E DS En C : Type) := {
  b_expand  : lview -> json -> res E;   (* JsonLdApi.Expand with SafeMode = false *)
  b_to_rdf  : E -> res DS;              (* api.ToRDF + URDNA2015 normalisation *)
  b_entries : DS -> res (list En);      (* EntriesFromRDFWithHasher (RDF/Model.v: entries_from_rdf) *)
  b_kv      : En -> res (Z * Z);        (* RDFEntry.KeyValueMtEntries: hashes of path and value *)
  b_compact : E -> res C                (* api.Compact against the empty context *)
}.
Arguments b_expand {E DS En C}.
Arguments b_to_rdf {E DS En C}.
Arguments b_entries {E DS En C}.
Arguments b_kv {E DS En C}.
Arguments b_compact {E DS En C}.

Section Pipeline.
  (* fuel for context processing *)
  Variable cf : nat.
  Context {E DS En C : Type} (B : backend E DS En C).

  (* JsonLdProcessor.expand under options with the given SafeMode and a loader
     answering like [ld].  The two modes run the same code except at step 7.3.  In
     safe mode a context that cannot be loaded / processed is an error before any
     key is looked at (the scan fails). *)
  Definition expand (safe : bool) (ld : lview) (d : json) : res E :=
    if safe then
      rej <- safe_rejects ld cf d ;;
      if rej then Err "invalid property" else b_expand B ld d
    else b_expand B ld d.

  (* ld.JsonLdOptions as far as this property is concerned *)
  Record ld_options := { ld_safe_mode : bool; ld_document_loader : option dloader }.
  (* merklize.go:1898 newJSONLDOptions(safeMode, docLoader): both fields are set
     whatever docLoader is (nil included) *)
  Definition new_jsonld_options (safe : bool) (dl : option dloader) : ld_options :=
    {| ld_safe_mode := safe; ld_document_loader := dl |}.
  (* merklize.go:75 Options.JSONLDOptions(): always safe *)
  Definition options_jsonld_options (dl : option dloader) : ld_options := new_jsonld_options true dl.

  (* processor.go:545 Normalize: toRDFOpts := NewJsonLdOptions(opts.Base) — a fresh
     options value whose SafeMode is false, whatever [opts] says; only the
     DocumentLoader is copied over *)
  Definition proc_normalize (opts : ld_options) (d : json) : res DS :=
    let to_rdf_opts := {| ld_safe_mode := false; ld_document_loader := ld_document_loader opts |} in
    e <- expand (ld_safe_mode to_rdf_opts) (view_normalize (ld_document_loader to_rdf_opts)) d ;;
    b_to_rdf B e.
  (* processor.go:34 Compact: opts.Copy() keeps SafeMode and DocumentLoader *)
  Definition proc_compact (opts : ld_options) (d : json) : res C :=
    e <- expand (ld_safe_mode opts) (view_compact (ld_document_loader opts)) d ;;
    b_compact B e.

  (* The three places where MerklizeJSONLD / AddEntriesToMerkleTree check an error
     after the dataset exists.  [faults] switches a check off (all false = the code
     as it is); the switched-off variants are the seeded changes C15-k and C15-m and
     only serve as refutation witnesses. *)
  Record faults := { f_ignore_entries_err : bool; f_ignore_add_err : bool }.
  Definition no_faults : faults := {| f_ignore_entries_err := false; f_ignore_add_err := false |}.

  (* merklize.go:1414 AddEntriesToMerkleTree: for each entry, KeyValueMtEntries then
     mt.Add; the first error is returned *)
  Fixpoint add_entries (fl : faults) (t : mtree) (es : list En) : res mtree :=
    match es with
    | [] => Ok t
    | e :: rest =>
        kv <- b_kv B e ;;
        match tree_add t (fst kv) (snd kv) with
        | Ok t' => add_entries fl t' rest
        | Err x => if f_ignore_add_err fl then add_entries fl (tree_skip t) rest else Err x
        | Panic w => Panic w
        | Diverge => Diverge
        end
    end.

  (* merklize.go:1590-1609: EntriesFromRDFWithHasher (error returned), the entries
     map (needs every key hash), AddEntriesToMerkleTree (error returned).  What the
     caller gets: the entries and the tree. *)
  Definition result := (list En * mtree)%type.
  Definition build (fl : faults) (t0 : mtree) (ds : DS) : res result :=
    es <- match b_entries B ds with
          | Err x => if f_ignore_entries_err fl then Ok [] else Err x
          | r => r
          end ;;
    t <- add_entries fl t0 es ;;
    Ok (es, t).

  (* merklize.go:1578-1611: any error of the final Compact is returned *)
  Definition merklize_gen (fl : faults) (safe : bool) (dl : option dloader) (t0 : mtree) (d : json)
    : res result :=
    let options := new_jsonld_options safe dl in
    ds <- proc_normalize options d ;;
    r <- build fl t0 ds ;;
    _ <- proc_compact options d ;;
    Ok r.
  Definition merklize_doc := merklize_gen no_faults.

  (* Merklizer fields that matter here; every other option (hasher, tree) is [OOther].
     [mz_ipfs]: the loader loaders.NewDocumentLoader(ipfsCli, ipfsGW) would build, if
     an IPFS client or gateway was configured. *)
  Record merklizer := {
    mz_safe_mode : bool;
    mz_document_loader : option dloader;
    mz_ipfs : option dloader;
    mz_tree : option mtree         (* WithMerkleTree; none: a new in-memory tree *)
  }.
  Inductive mz_option :=
  | WithSafeMode (b : bool)
  | WithDocumentLoader (l : option dloader)      (* nil allowed *)
  | WithIPFS (l : dloader)                       (* WithIPFSClient / WithIPFSGateway *)
  | WithMerkleTree (t : mtree)
  | OOther.
  Definition apply_option (m : merklizer) (o : mz_option) : merklizer :=
    match o with
    | WithSafeMode b => {| mz_safe_mode := b; mz_document_loader := mz_document_loader m; mz_ipfs := mz_ipfs m; mz_tree := mz_tree m |}
    | WithDocumentLoader l => {| mz_safe_mode := mz_safe_mode m; mz_document_loader := l; mz_ipfs := mz_ipfs m; mz_tree := mz_tree m |}
    | WithIPFS l => {| mz_safe_mode := mz_safe_mode m; mz_document_loader := mz_document_loader m; mz_ipfs := Some l; mz_tree := mz_tree m |}
    | WithMerkleTree t => {| mz_safe_mode := mz_safe_mode m; mz_document_loader := mz_document_loader m; mz_ipfs := mz_ipfs m; mz_tree := Some t |}
    | OOther => m
    end.
  (* merklize.go:1547: mz := &Merklizer{safeMode: true}; for _, o := range opts { o(mz) } *)
  Definition new_merklizer (opts : list mz_option) : merklizer :=
    fold_left apply_option opts {| mz_safe_mode := true; mz_document_loader := None; mz_ipfs := None; mz_tree := None |}.
  (* merklize.go:1553: if mz.mt == nil, a new in-memory tree *)
  Definition get_tree (m : merklizer) : mtree :=
    match mz_tree m with Some t => t | None => fresh_tree end.
  (* merklize.go:1631 getDocumentLoader; [default] = the process-wide
     defaultDocumentLoader (SetDocumentLoader may have set it to nil) *)
  Definition get_document_loader (default : option dloader) (m : merklizer) : option dloader :=
    match mz_document_loader m with
    | Some l => Some l
    | None => match mz_ipfs m with Some l => Some l | None => default end
    end.
  Definition MerklizeJSONLD (default : option dloader) (opts : list mz_option) (d : json) : res result :=
    let m := new_merklizer opts in
    merklize_doc (mz_safe_mode m) (get_document_loader default m) (get_tree m) d.

  (* verifiable/credential.go:449 W3CCredential.Merklize: the credential is
     marshalled, "proof" deleted, and the options are passed on unchanged.
     [vc_doc] is the document that results (abstract: encoding/json). *)
  Definition W3CCredential_Merklize (default : option dloader) (vc_doc : json) (opts : list mz_option) : res result :=
    MerklizeJSONLD default opts vc_doc.
  (* credential.go:494-511 ToCoreClaim: nil options -> MerklizerOpts nil *)
  Definition ToCoreClaim_merklize (default : option dloader) (vc_doc : json)
             (core_opts : option (list mz_option)) : res result :=
    W3CCredential_Merklize default vc_doc (match core_opts with Some o => o | None => [] end).
  (* credential.go:64,91-127 VerifyProof -> verifyCredentialCoreClaim -> ToCoreClaim
     with verifyConfig.merklizeOptions (no public option sets it: nil) *)
  Definition VerifyProof_merklize (default : option dloader) (vc_doc : json)
             (merklize_options : list mz_option) : res result :=
    ToCoreClaim_merklize default vc_doc (Some merklize_options).
End Pipeline.
