(* JsonLD/KeyModel.v — the resolvers' results as merklize.Path VALUES (parts + the hasher
   field the code sets) and their tree keys.  The Path record, Path.MtEntry (hash_path /
   path_mt_entry) and Path construction are those of Merklizer/Model.v (imported, not
   duplicated).  No proofs here.

     Options.getHasher                      get_hasher           (merklize.go 61-66)
     Options.NewPathFromDocument            path_from_document_p (137-157: Path{parts, hasher: o.getHasher()})
     Merklizer.ResolveDocPath               = path_from_document_p with the merklizer's hasher
     Options.PathFromContext                path_from_context_p  (85-89: Path{hasher: o.getHasher()})
     Options.FieldPathFromContext           field_path_from_context_p (109: Path{parts, hasher: o.getHasher()})
     Path.Prepend                           path_prepend         (same hasher, parts in front)
     RDFEntry key of a stored entry         entry_path           (Path{hasher: the merklizer's hasher}) *)
From Coq Require Import ZArith List String Ascii Bool.
From GSP Require Import Base.Prelude Value.Model RDF.Model Merklizer.Model JsonLD.Model JsonLD.Resolvers.
Import ListNotations.
Open Scope list_scope.

(* Options{Hasher: o}.getHasher(): o, or the package default Hd *)
Definition get_hasher (Hd : hasher) (o : option hasher) : hasher := hasher_or Hd o.

Definition with_options_hasher (Hd : hasher) (o : option hasher) (r : res (list part)) : res path :=
  ps <- r ;; Ok (mkpath ps (Some (get_hasher Hd o))).

Definition path_from_document_p (Hd : hasher) (o : option hasher) (ld : loader) (doc : json) (pi : list string)
  : res path := with_options_hasher Hd o (path_from_document ld doc pi).

Definition path_from_context_p (Hd : hasher) (o : option hasher) (ld : loader) (cj : json) (pi : list string)
  : res path := with_options_hasher Hd o (path_from_context ld cj pi).

Definition field_path_from_context_p (Hd : hasher) (o : option hasher) (ld : loader) (cj : json)
  (ty field : list string) : res path := with_options_hasher Hd o (field_path_from_context ld cj ty field).

(* Path.Prepend(parts...) *)
Definition path_prepend (pre : list part) (p : path) : path := mkpath (pre ++ p_parts p) (p_hasher p).

(* the key path of the entry MerklizeJSONLD stores for the field a dotted path denotes *)
Definition entry_path (Hm : hasher) (ld : loader) (doc : json) (pi : list string) : res path :=
  l <- doc_field ld doc pi ;; Ok (mkpath (fst (fst l)) (Some Hm)).

(* the tree key the API reports: Path.MtEntry *)
Definition path_key (Hd : hasher) (p : res path) : res Z := q <- p ;; path_mt_entry Hd q.
