(* JsonLD/SafeTheory.v — specification and proofs for C15 over the model of
   JsonLD/Safe.v.

   Spec side: [occurs] / [reach] say, independently of the executable walk, where a
   member (key) sits in a document and which active context governs it.  The
   theorems relate them to [merklize_doc].  json-gold's expansion result, ToRDF,
   URDNA2015, the entries and the tree are the abstract [backend]; the only
   assumption ever made about it is stated explicitly where used
   ([expand_ignores_undefined], C15_unsafe). *)
From Coq Require Import List String Ascii Bool Arith NArith Lia.
From GSP Require Import Base.Prelude JsonLD.Safe.
Import ListNotations.
Open Scope string_scope.
Open Scope list_scope.

(* ------------------------------------------------------------------ res *)
Lemma bind_ok {A B} (r : res A) (f : A -> res B) (b : B) :
  bind r f = Ok b -> exists a, r = Ok a /\ f a = Ok b.
Proof. destruct r as [a| | |]; cbn; intro H; try discriminate. exists a; auto. Qed.

Section Theory.
  Variable loader : string -> option json.
  Variable cf : nat.

  Notation walk' := (walk loader cf).
  Notation action_of := (member_action loader cf).

  (* the context governing the members of an object *)
  Definition ctx_here (c : ctx) (ap : string) (nest : bool) (m : list (string * json)) : res ctx :=
    if nest then Ok c else node_ctx loader cf c ap m.

  (* ---- the walk, in a form convenient for proofs ---- *)
  Fixpoint items_of (W : path -> json -> res (list occ)) (pre : path) (l : list json) (i : N)
    : res (list occ) :=
    match l with
    | [] => Ok []
    | x :: t =>
        a <- W (pre ++ [PI i]) x ;;
        b <- items_of W pre t (N.succ i) ;;
        Ok (a ++ b)
    end.

  Definition member_walk (cn : ctx) (ap : string) (sw : bool) (pre : path) (k : string) (x : json)
    : res (list occ) :=
    match action_of cn ap k x with
    | ASkip => Ok []
    | AUndef => Ok [(pre ++ [PK k], sw)]
    | AWalk c' ap' s' => walk' c' ap' false (sw || s') (pre ++ [PK k]) x
    | ANest => walk' cn ap true sw (pre ++ [PK k]) x
    | AFail r => cast_fail r
    end.

  Fixpoint members_of (F : string -> json -> res (list occ)) (ms : list (string * json))
    : res (list occ) :=
    match ms with
    | [] => Ok []
    | (k, x) :: t =>
        a <- F k x ;;
        b <- members_of F t ;;
        Ok (a ++ b)
    end.

  Lemma walk_arr c ap nest sw pre l :
    walk' c ap nest sw pre (JArr l) = items_of (fun p x => walk' c ap nest sw p x) pre l 0%N.
  Proof.
    cbn [walk]. generalize 0%N. induction l as [|x t IH]; intro i; cbn; [reflexivity|].
    destruct (walk' c ap nest sw (pre ++ [PI i]) x); cbn; try reflexivity.
    rewrite IH. reflexivity.
  Qed.

  Lemma walk_obj c ap nest sw pre m :
    walk' c ap nest sw pre (JObj m) =
    (cn <- ctx_here c ap nest m ;; members_of (member_walk cn ap sw pre) m).
  Proof.
    cbn [walk]. unfold ctx_here.
    destruct (if nest then Ok c else node_ctx loader cf c ap m) as [cn| | |]; cbn [bind]; try reflexivity.
    induction m as [|[k x] t IH]; cbn; [reflexivity|].
    unfold member_walk at 1.
    destruct (action_of cn ap k x); cbn; rewrite ?IH; reflexivity.
  Qed.

  Lemma items_nth W pre l : forall i0 os j x,
    items_of W pre l i0 = Ok os -> nth_error l j = Some x ->
    exists a, W (pre ++ [PI (i0 + N.of_nat j)%N]) x = Ok a /\ incl a os.
  Proof.
    induction l as [|y t IH]; intros i0 os j x H Hn.
    - destruct j; discriminate.
    - cbn in H. apply bind_ok in H. destruct H as [a [Ha H]].
      apply bind_ok in H. destruct H as [b [Hb H]]. inversion H; subst os.
      destruct j as [|j]; cbn in Hn.
      + inversion Hn; subst y. exists a. split.
        * replace (i0 + N.of_nat 0)%N with i0 by lia. exact Ha.
        * apply incl_appl, incl_refl.
      + destruct (IH _ _ _ _ Hb Hn) as [a' [Ha' Hi]]. exists a'. split.
        * replace (i0 + N.of_nat (S j))%N with (N.succ i0 + N.of_nat j)%N by lia. exact Ha'.
        * apply incl_appr. exact Hi.
  Qed.

  Lemma members_in F ms : forall os k x,
    members_of F ms = Ok os -> In (k, x) ms ->
    exists a, F k x = Ok a /\ incl a os.
  Proof.
    induction ms as [|[k0 x0] t IH]; intros os k x H Hin; [contradiction|].
    cbn in H. apply bind_ok in H. destruct H as [a [Ha H]].
    apply bind_ok in H. destruct H as [b [Hb H]]. inversion H; subst os.
    destruct Hin as [E|Hin].
    - inversion E; subst. exists a. split; [exact Ha|apply incl_appl, incl_refl].
    - destruct (IH _ _ _ Hb Hin) as [a' [Ha' Hi]]. exists a'. split; [exact Ha'|apply incl_appr; exact Hi].
  Qed.

  (* ---- where members occur ---- *)
  (* [occurs c ap nest sw pre v p cn k s]: expanding value [v] (active context [c],
     active property [ap], at path [pre]) meets a member with key [k] at path [p];
     [cn] is the active context its key is expanded in; [s] tells whether it lies
     inside the value of an @list/@set/@default keyword member (where json-gold
     ignores errors).  [under]: may the position lie below an undefined member
     (which expansion never visits)? *)
  Inductive occurs (under : bool)
    : ctx -> string -> bool -> bool -> path -> json -> path -> ctx -> string -> bool -> Prop :=
  | occ_item c ap nest sw pre l i x p cn k s :
      nth_error l i = Some x ->
      occurs under c ap nest sw (pre ++ [PI (N.of_nat i)]) x p cn k s ->
      occurs under c ap nest sw pre (JArr l) p cn k s
  | occ_here c ap nest sw pre m cn k x :
      ctx_here c ap nest m = Ok cn -> In (k, x) m -> k <> "@context" ->
      occurs under c ap nest sw pre (JObj m) (pre ++ [PK k]) cn k sw
  | occ_walk c ap nest sw pre m cn k x c' ap' s' p cn' k' s :
      ctx_here c ap nest m = Ok cn -> In (k, x) m ->
      action_of cn ap k x = AWalk c' ap' s' ->
      occurs under c' ap' false (sw || s') (pre ++ [PK k]) x p cn' k' s ->
      occurs under c ap nest sw pre (JObj m) p cn' k' s
  | occ_nest c ap nest sw pre m cn k x p cn' k' s :
      ctx_here c ap nest m = Ok cn -> In (k, x) m ->
      action_of cn ap k x = ANest ->
      occurs under cn ap true sw (pre ++ [PK k]) x p cn' k' s ->
      occurs under c ap nest sw pre (JObj m) p cn' k' s
  | occ_under c ap nest sw pre m cn k x p cn' k' s :
      under = true ->
      ctx_here c ap nest m = Ok cn -> In (k, x) m ->
      action_of cn ap k x = AUndef ->
      occurs under cn k false sw (pre ++ [PK k]) x p cn' k' s ->
      occurs under c ap nest sw pre (JObj m) p cn' k' s.

  (* members expansion reaches / members anywhere in the document *)
  Definition reach := occurs false.
  Definition anywhere := occurs true.

  Lemma reach_anywhere c ap nest sw pre v p cn k s :
    reach c ap nest sw pre v p cn k s -> anywhere c ap nest sw pre v p cn k s.
  Proof.
    unfold reach, anywhere. induction 1.
    - eapply occ_item; eauto.
    - eapply occ_here; eauto.
    - eapply occ_walk; eauto.
    - eapply occ_nest; eauto.
    - discriminate.
  Qed.

  (* the swallow flag only grows on the way down *)
  Lemma occurs_flag under c ap nest sw pre v p cn k s :
    occurs under c ap nest sw pre v p cn k s -> s = false -> sw = false.
  Proof.
    induction 1; intro Hs; auto.
    specialize (IHoccurs Hs). apply orb_false_iff in IHoccurs. tauto.
  Qed.

  Lemma action_of_undefined cn ap k x :
    k <> "@context" -> key_defined cn k = false ->
    action_of cn ap k x = AUndef \/ exists r, action_of cn ap k x = AFail r /\ forall A, is_ok (@cast_fail A r) = false.
  Proof.
    intros Hk Hd. unfold member_action.
    destruct (String.eqb k "@context") eqn:E; [apply String.eqb_eq in E; contradiction|].
    destruct (key_panics cn k).
    - right. eexists. split; [reflexivity|]. intro A. reflexivity.
    - left. unfold key_defined in Hd. apply negb_false_iff in Hd. rewrite Hd. reflexivity.
  Qed.

  (* completeness of the walk: an undefined member that expansion reaches is reported,
     with its path and its swallow flag *)
  Lemma walk_complete c ap nest sw pre v p cn k s :
    reach c ap nest sw pre v p cn k s -> key_defined cn k = false ->
    forall os, walk' c ap nest sw pre v = Ok os -> In (p, s) os.
  Proof.
    unfold reach. induction 1; intros Hd os Hw.
    - rewrite walk_arr in Hw.
      destruct (items_nth _ _ _ _ _ _ _ Hw H) as [a [Ha Hi]].
      rewrite N.add_0_l in Ha. apply Hi. apply IHoccurs; assumption.
    - rewrite walk_obj in Hw. rewrite H in Hw. cbn [bind] in Hw.
      destruct (members_in _ _ _ _ _ Hw H0) as [a [Ha Hi]].
      unfold member_walk in Ha.
      destruct (action_of_undefined cn ap k x H1 Hd) as [E|[r [E Hr]]]; rewrite E in Ha.
      + inversion Ha; subst a. apply Hi. left. reflexivity.
      + specialize (Hr (list occ)). rewrite Ha in Hr. discriminate.
    - rewrite walk_obj in Hw. rewrite H in Hw. cbn [bind] in Hw.
      destruct (members_in _ _ _ _ _ Hw H0) as [a [Ha Hi]].
      unfold member_walk in Ha. rewrite H1 in Ha. apply Hi. apply IHoccurs; assumption.
    - rewrite walk_obj in Hw. rewrite H in Hw. cbn [bind] in Hw.
      destruct (members_in _ _ _ _ _ Hw H0) as [a [Ha Hi]].
      unfold member_walk in Ha. rewrite H1 in Ha. apply Hi. apply IHoccurs; assumption.
    - discriminate.
  Qed.

  (* an undefined member ANYWHERE outside @list/@set/@default values makes the walk
     report some unswallowed occurrence (itself, or the first undefined member
     above it) *)
  Lemma walk_rejects c ap nest sw pre v p cn k s :
    anywhere c ap nest sw pre v p cn k s -> key_defined cn k = false -> s = false ->
    forall os, walk' c ap nest sw pre v = Ok os -> existsb unswallowed os = true.
  Proof.
    unfold anywhere. induction 1; intros Hd Hs os Hw.
    - rewrite walk_arr in Hw.
      destruct (items_nth _ _ _ _ _ _ _ Hw H) as [a [Ha Hi]].
      rewrite N.add_0_l in Ha. specialize (IHoccurs Hd Hs a Ha).
      apply existsb_exists in IHoccurs. destruct IHoccurs as [o [Ho Hu]].
      apply existsb_exists. exists o. split; [apply Hi; exact Ho|exact Hu].
    - rewrite walk_obj in Hw. rewrite H in Hw. cbn [bind] in Hw.
      destruct (members_in _ _ _ _ _ Hw H0) as [a [Ha Hi]].
      unfold member_walk in Ha.
      destruct (action_of_undefined cn ap k x H1 Hd) as [E|[r [E Hr]]]; rewrite E in Ha.
      + inversion Ha; subst a. apply existsb_exists. exists (pre ++ [PK k], sw). split.
        * apply Hi. left. reflexivity.
        * unfold unswallowed. cbn. rewrite Hs. reflexivity.
      + specialize (Hr (list occ)). rewrite Ha in Hr. discriminate.
    - rewrite walk_obj in Hw. rewrite H in Hw. cbn [bind] in Hw.
      destruct (members_in _ _ _ _ _ Hw H0) as [a [Ha Hi]].
      unfold member_walk in Ha. rewrite H1 in Ha.
      specialize (IHoccurs Hd Hs a Ha).
      apply existsb_exists in IHoccurs. destruct IHoccurs as [o [Ho Hu]].
      apply existsb_exists. exists o. split; [apply Hi; exact Ho|exact Hu].
    - rewrite walk_obj in Hw. rewrite H in Hw. cbn [bind] in Hw.
      destruct (members_in _ _ _ _ _ Hw H0) as [a [Ha Hi]].
      unfold member_walk in Ha. rewrite H1 in Ha.
      specialize (IHoccurs Hd Hs a Ha).
      apply existsb_exists in IHoccurs. destruct IHoccurs as [o [Ho Hu]].
      apply existsb_exists. exists o. split; [apply Hi; exact Ho|exact Hu].
    - (* below an undefined member: that member itself is reported *)
      rewrite walk_obj in Hw. rewrite H0 in Hw. cbn [bind] in Hw.
      destruct (members_in _ _ _ _ _ Hw H1) as [a [Ha Hi]].
      unfold member_walk in Ha. rewrite H2 in Ha. inversion Ha; subst a.
      pose proof (occurs_flag _ _ _ _ _ _ _ _ _ _ _ H3 Hs) as Hsw.
      apply existsb_exists. exists (pre ++ [PK k], sw). split.
      + apply Hi. left. reflexivity.
      + unfold unswallowed. cbn. rewrite Hsw. reflexivity.
  Qed.

  (* soundness of the walk: whatever it reports is an undefined member it reached *)
  Lemma members_of_in F ms : forall os o,
    members_of F ms = Ok os -> In o os ->
    exists k x a, In (k, x) ms /\ F k x = Ok a /\ In o a.
  Proof.
    induction ms as [|[k0 x0] t IH]; intros os o H Hin.
    - cbn in H. inversion H; subst. contradiction.
    - cbn in H. apply bind_ok in H. destruct H as [a [Ha H]].
      apply bind_ok in H. destruct H as [b [Hb H]]. inversion H; subst os.
      apply in_app_or in Hin. destruct Hin as [Hin|Hin].
      + exists k0, x0, a. split; [left; reflexivity|]. split; assumption.
      + destruct (IH _ _ Hb Hin) as [k [x [a' [H1 [H2 H3]]]]].
        exists k, x, a'. split; [right; exact H1|]. split; assumption.
  Qed.

  Lemma items_of_in W pre l : forall i0 os o,
    items_of W pre l i0 = Ok os -> In o os ->
    exists j x a, nth_error l j = Some x /\ W (pre ++ [PI (i0 + N.of_nat j)%N]) x = Ok a /\ In o a.
  Proof.
    induction l as [|y t IH]; intros i0 os o H Hin.
    - cbn in H. inversion H; subst. contradiction.
    - cbn in H. apply bind_ok in H. destruct H as [a [Ha H]].
      apply bind_ok in H. destruct H as [b [Hb H]]. inversion H; subst os.
      apply in_app_or in Hin. destruct Hin as [Hin|Hin].
      + exists 0, y, a. split; [reflexivity|]. split; [|assumption].
        replace (i0 + N.of_nat 0)%N with i0 by lia. exact Ha.
      + destruct (IH _ _ _ Hb Hin) as [j [x [a' [H1 [H2 H3]]]]].
        exists (S j), x, a'. split; [exact H1|]. split; [|assumption].
        replace (i0 + N.of_nat (S j))%N with (N.succ i0 + N.of_nat j)%N by lia. exact H2.
  Qed.

  Lemma action_undef_inv cn ap k x :
    action_of cn ap k x = AUndef -> k <> "@context" /\ key_defined cn k = false.
  Proof.
    unfold member_action. destruct (String.eqb k "@context") eqn:E; [discriminate|].
    destruct (key_panics cn k); [discriminate|].
    unfold key_defined. destruct (undefined_exp (expand_key cn k)) eqn:U.
    - intros _. split; [|reflexivity]. intro Hk. subst k. discriminate.
    - destruct (is_keyword (expand_key cn k)).
      + repeat match goal with |- context [if ?b then _ else _] => destruct b end; discriminate.
      + destruct (term_def cn k); [|discriminate].
        destruct (match td_ctx t with Some pc => parse_ctx loader cf cn pc true | None => Ok cn end);
          try discriminate.
        repeat match goal with |- context [if ?b then _ else _] => destruct b end; discriminate.
  Qed.

  (* a well-founded measure for the soundness induction *)
  Fixpoint jsize (v : json) : nat :=
    match v with
    | JArr l => S (fold_right (fun x n => jsize x + n) 0 l)
    | JObj m => S (fold_right (fun (kx : string * json) n => jsize (snd kx) + n) 0 m)
    | _ => 1
    end.
  Lemma jsize_nth l : forall j x, nth_error l j = Some x ->
    jsize x < S (fold_right (fun x n => jsize x + n) 0 l).
  Proof.
    induction l as [|y t IH]; intros j x H; destruct j; cbn in *; try discriminate.
    - inversion H; subst. lia.
    - specialize (IH _ _ H). lia.
  Qed.
  Lemma jsize_in m : forall k x, In (k, x) m ->
    jsize x < S (fold_right (fun (kx : string * json) n => jsize (snd kx) + n) 0 m).
  Proof.
    induction m as [|[k0 x0] t IH]; intros k x H; [contradiction|].
    cbn. destruct H as [E|H].
    - inversion E; subst. lia.
    - specialize (IH _ _ H). lia.
  Qed.

  Lemma walk_sound_n : forall n v, jsize v <= n ->
    forall c ap nest sw pre os p s,
    walk' c ap nest sw pre v = Ok os -> In (p, s) os ->
    exists cn k, reach c ap nest sw pre v p cn k s /\ key_defined cn k = false.
  Proof.
    induction n as [|n IH]; intros v Hn c ap nest sw pre os p s Hw Hin.
    - destruct v; cbn in Hn; lia.
    - destruct v as [| | | |l|m]; try (cbn in Hw; inversion Hw; subst; contradiction).
      + rewrite walk_arr in Hw.
        destruct (items_of_in _ _ _ _ _ _ Hw Hin) as [j [x [a [Hj [Ha Hia]]]]].
        rewrite N.add_0_l in Ha.
        assert (Hx : jsize x <= n) by (pose proof (jsize_nth _ _ _ Hj); cbn in Hn; lia).
        destruct (IH x Hx _ _ _ _ _ _ _ _ Ha Hia) as [cn [k [Hr Hd]]].
        exists cn, k. split; [|exact Hd]. eapply occ_item; eauto.
      + rewrite walk_obj in Hw. apply bind_ok in Hw. destruct Hw as [cn [Hc Hw]].
        destruct (members_of_in _ _ _ _ Hw Hin) as [k [x [a [Hk [Ha Hia]]]]].
        assert (Hx : jsize x <= n) by (pose proof (jsize_in _ _ _ Hk); cbn in Hn; lia).
        unfold member_walk in Ha.
        destruct (action_of cn ap k x) as [| |c' ap' s'| |r] eqn:E.
        * inversion Ha; subst. contradiction.
        * inversion Ha; subst a. destruct Hia as [Hia|[]]. inversion Hia; subst p s.
          destruct (action_undef_inv _ _ _ _ E) as [Hk1 Hk2].
          exists cn, k. split; [|exact Hk2]. eapply occ_here; eauto.
        * destruct (IH x Hx _ _ _ _ _ _ _ _ Ha Hia) as [cn' [k' [Hr Hd]]].
          exists cn', k'. split; [|exact Hd]. eapply occ_walk; eauto.
        * destruct (IH x Hx _ _ _ _ _ _ _ _ Ha Hia) as [cn' [k' [Hr Hd]]].
          exists cn', k'. split; [|exact Hd]. eapply occ_nest; eauto.
        * destruct r; cbn in Ha; discriminate.
  Qed.

  Lemma walk_sound c ap nest sw pre v os p s :
    walk' c ap nest sw pre v = Ok os -> In (p, s) os ->
    exists cn k, reach c ap nest sw pre v p cn k s /\ key_defined cn k = false.
  Proof. intros. eapply walk_sound_n; eauto. Qed.

  (* ---- documents ---- *)
  Definition doc_member (under : bool) (d : json) (p : path) (cn : ctx) (k : string) (s : bool) : Prop :=
    occurs under empty_ctx "" false false [] d p cn k s.

  Section Backend.
    Context {E DS R C : Type} (B : backend E DS R C).
    Notation merklize := (merklize_doc loader cf B).

    Lemma merklize_true_ok d r :
      merklize true d = Ok r ->
      exists os, undefined_occ loader cf d = Ok os /\ existsb unswallowed os = false.
    Proof.
      unfold merklize_doc, proc_normalize, proc_compact, expand, new_jsonld_options. cbn.
      intro H. apply bind_ok in H. destruct H as [ds [_ H]].
      apply bind_ok in H. destruct H as [r' [_ H]].
      apply bind_ok in H. destruct H as [cc [H _]].
      apply bind_ok in H. destruct H as [e [H _]].
      apply bind_ok in H. destruct H as [rej [Hr H]].
      unfold safe_rejects in Hr. apply bind_ok in Hr. destruct Hr as [os [Hos Hr]].
      inversion Hr; subst rej. exists os. split; [exact Hos|].
      destruct (existsb unswallowed os); [discriminate|reflexivity].
    Qed.

    (* C15_safe, as far as it holds for the code as it is: a successful safe-mode
       merklization implies that every member anywhere in the document — top level,
       nested, in array items, below @graph / @included / @reverse / @nest — that is
       not inside an @list/@set/@default VALUE has a key that json-gold accepts
       (keyword, or expansion containing ':') *)
    Theorem safe_ok_all_defined d r :
      merklize true d = Ok r ->
      forall p cn k, doc_member true d p cn k false -> key_defined cn k = true.
    Proof.
      intros H p cn k Ho. destruct (merklize_true_ok _ _ H) as [os [Hos Hex]].
      destruct (key_defined cn k) eqn:Hd; [reflexivity|].
      unfold undefined_occ in Hos.
      pose proof (walk_rejects _ _ _ _ _ _ _ _ _ _ Ho Hd eq_refl _ Hos) as Hx.
      rewrite Hx in Hex. discriminate.
    Qed.

    (* C15_safe in full, under the hypothesis that excludes exactly the two known
       shapes: the member is not inside an @list/@set/@default value (D26, flag
       false) and its key is not of the "contains ':' but is no absolute IRI" shape
       (D27).  Then the key is a keyword or expands to an absolute, non-blank IRI. *)
    Lemma defined_absolute cn k :
      key_defined cn k = true -> colon_not_absolute cn k = false -> key_absolute cn k = true.
    Proof.
      unfold key_defined, colon_not_absolute, key_absolute, undefined_exp.
      destruct (is_keyword (expand_key cn k)); [intros; reflexivity|].
      destruct (String.eqb (expand_key cn k) ""); [discriminate|].
      destruct (has_colon (expand_key cn k)); cbn; [|discriminate].
      intros _ H. apply negb_false_iff in H. rewrite H. reflexivity.
    Qed.

    Theorem safe_ok_all_absolute d r :
      merklize true d = Ok r ->
      forall p cn k, doc_member true d p cn k false -> colon_not_absolute cn k = false ->
      key_absolute cn k = true.
    Proof.
      intros H p cn k Ho Hc. apply defined_absolute; [|exact Hc].
      eapply safe_ok_all_defined; eauto.
    Qed.

    (* C15_safe_rejects *)
    Theorem safe_rejects_undefined d p cn k :
      doc_member true d p cn k false -> key_defined cn k = false ->
      forall r, merklize true d <> Ok r.
    Proof.
      intros Ho Hd r H. pose proof (safe_ok_all_defined _ _ H _ _ _ Ho) as Hx.
      rewrite Hx in Hd. discriminate.
    Qed.

    Theorem safe_rejects_undefined_err d p cn k os r' :
      doc_member true d p cn k false -> key_defined cn k = false ->
      undefined_occ loader cf d = Ok os ->
      merklize false d = Ok r' ->
      merklize true d = Err "invalid property".
    Proof.
      intros Ho Hd Hos Hu.
      pose proof (walk_rejects _ _ _ _ _ _ _ _ _ _ Ho Hd eq_refl _ Hos) as Hx.
      revert Hu.
      unfold merklize_doc, proc_normalize, proc_compact, expand, new_jsonld_options, safe_rejects. cbn.
      destruct (b_expand B d) as [e| | |]; cbn; try discriminate.
      destruct (b_to_rdf B e) as [ds| | |]; cbn; try discriminate.
      destruct (b_merk B ds) as [r0| | |]; cbn; try discriminate.
      intros _. rewrite Hos. cbn. rewrite Hx. reflexivity.
    Qed.

    (* no spurious rejection: if every member expansion reaches is defined, safe mode
       behaves exactly like unsafe mode *)
    Theorem modes_agree_when_defined d os :
      undefined_occ loader cf d = Ok os ->
      (forall p cn k s, reach empty_ctx "" false false [] d p cn k s -> key_defined cn k = true) ->
      merklize true d = merklize false d.
    Proof.
      intros Hos Hall.
      assert (os = []) as ->.
      { destruct os as [|[p s] t]; [reflexivity|].
        destruct (walk_sound _ _ _ _ _ _ _ p s Hos (or_introl eq_refl)) as [cn [k [Hr Hd]]].
        rewrite (Hall _ _ _ _ Hr) in Hd. discriminate. }
      unfold merklize_doc, proc_normalize, proc_compact, expand, new_jsonld_options, safe_rejects. cbn.
      rewrite Hos. reflexivity.
    Qed.

    (* the refutation of the full statement: an undefined member inside an @set value
       is invisible to safe mode — both modes give the same result *)
    Theorem swallowed_invisible d os :
      undefined_occ loader cf d = Ok os -> existsb unswallowed os = false ->
      merklize true d = merklize false d.
    Proof.
      intros Hos Hex.
      unfold merklize_doc, proc_normalize, proc_compact, expand, new_jsonld_options, safe_rejects. cbn.
      rewrite Hos. cbn. rewrite Hex. reflexivity.
    Qed.

    (* C15_unsafe — under the stated interface property of json-gold's expansion *)
    Definition expand_ignores_undefined : Prop :=
      forall d, b_expand B d = b_expand B (strip_undefined loader cf d).

    Theorem unsafe_is_stripped :
      expand_ignores_undefined ->
      forall d, merklize false d = merklize false (strip_undefined loader cf d).
    Proof.
      intros Hi d.
      unfold merklize_doc, proc_normalize, proc_compact, expand, new_jsonld_options. cbn.
      rewrite <- (Hi d). reflexivity.
    Qed.

    (* ---- option plumbing ---- *)
    Definition effective_safe (opts : list mz_option) : bool :=
      fold_left (fun acc o => match o with WithSafeMode b => b | OOther => acc end) opts true.

    Lemma new_merklizer_safe opts :
      mz_safe_mode (new_merklizer opts) = effective_safe opts.
    Proof.
      unfold new_merklizer, effective_safe.
      generalize true. induction opts as [|o t IH]; intro b; cbn; [reflexivity|].
      destruct o; cbn; apply IH.
    Qed.

    Theorem plumbing_MerklizeJSONLD opts d :
      MerklizeJSONLD loader cf B opts d = merklize (effective_safe opts) d.
    Proof. unfold MerklizeJSONLD. rewrite new_merklizer_safe. reflexivity. Qed.

    Theorem plumbing_W3C vc opts :
      W3CCredential_Merklize loader cf B vc opts = merklize (effective_safe opts) vc.
    Proof. apply plumbing_MerklizeJSONLD. Qed.

    Theorem plumbing_ToCoreClaim vc copts :
      ToCoreClaim_merklize loader cf B vc copts =
      merklize (effective_safe (match copts with Some o => o | None => [] end)) vc.
    Proof. apply plumbing_MerklizeJSONLD. Qed.

    Theorem plumbing_VerifyProof vc mopts :
      VerifyProof_merklize loader cf B vc mopts = merklize (effective_safe mopts) vc.
    Proof. apply plumbing_MerklizeJSONLD. Qed.

    Lemma effective_safe_last opts b :
      effective_safe (opts ++ [WithSafeMode b]) = b.
    Proof. unfold effective_safe. rewrite fold_left_app. reflexivity. Qed.

    Lemma effective_safe_no_option opts :
      (forall o, In o opts -> o = OOther) -> effective_safe opts = true.
    Proof.
      unfold effective_safe. generalize true.
      induction opts as [|o t IH]; intros b H; cbn; [reflexivity|].
      rewrite (H o (or_introl eq_refl)). apply IH. intros o' Ho'. apply H. right. exact Ho'.
    Qed.

    (* Normalize never sees the mode; Compact does *)
    Lemma normalize_ignores_mode o1 o2 d :
      proc_normalize loader cf B o1 d = proc_normalize loader cf B o2 d.
    Proof. reflexivity. Qed.

    Lemma compact_sees_mode safe d :
      proc_compact loader cf B (new_jsonld_options safe) d =
      (e <- expand loader cf B safe d ;; b_compact B e).
    Proof. reflexivity. Qed.

    (* C15_default: with no option at all every entry point is safe *)
    Theorem default_safe d :
      MerklizeJSONLD loader cf B [] d = merklize true d /\
      W3CCredential_Merklize loader cf B d [] = merklize true d /\
      ToCoreClaim_merklize loader cf B d None = merklize true d /\
      VerifyProof_merklize loader cf B d [] = merklize true d /\
      ld_safe_mode options_jsonld_options = true.
    Proof. repeat split. Qed.

    (* C15_plumbing: every entry point that merklizes runs merklize_doc in the mode
       selected by the caller's options (the last WithSafeMode wins, none = safe) *)
    Theorem plumbing_all opts d :
      MerklizeJSONLD loader cf B opts d = merklize (effective_safe opts) d /\
      W3CCredential_Merklize loader cf B d opts = merklize (effective_safe opts) d /\
      ToCoreClaim_merklize loader cf B d (Some opts) = merklize (effective_safe opts) d /\
      VerifyProof_merklize loader cf B d opts = merklize (effective_safe opts) d.
    Proof.
      repeat split; [apply plumbing_MerklizeJSONLD|apply plumbing_W3C|
                     apply (plumbing_ToCoreClaim d (Some opts))|apply plumbing_VerifyProof].
    Qed.
  End Backend.
End Theory.

(* ------------------------------------------------------------ non-vacuity *)
Module Examples.
  Definition no_loader (u : string) : option json := None.
  Definition cx : json :=
    JObj [("ex", JStr "http://ex.org/v#"); ("name", JStr "ex:name");
          ("T", JObj [("@id", JStr "ex:T"); ("@context", JObj [("tp", JStr "ex:tp")])]);
          ("child", JObj [("@id", JStr "ex:child"); ("@context", JObj [("cp", JStr "ex:cp")])]);
          ("id", JStr "@id"); ("type", JStr "@type")].
  Definition doc (m : list (string * json)) : json := JObj (("@context", cx) :: m).

  (* a backend that always succeeds: the document is its own root *)
  Definition idB : backend json json json unit :=
    {| b_expand := fun d => Ok d; b_to_rdf := fun d => Ok d; b_merk := fun d => Ok d;
       b_compact := fun _ => Ok tt |}.

  Definition good := doc [("name", JStr "a"); ("child", JArr [JObj [("cp", JStr "r"); ("ex:q", JNum "1")]])].
  Definition bad_nested := doc [("name", JStr "a"); ("child", JArr [JObj [("cp", JStr "r"); ("zzz", JNum "1")]])].
  Definition bad_scope := doc [("type", JStr "T"); ("tp", JStr "in"); ("child", JObj [("tp", JStr "out")])].
  Definition bad_in_set := doc [("child", JObj [("@set", JArr [JObj [("cp", JStr "r"); ("zzz", JNum "1")]])])].
  Definition blank_prop := doc [("name", JStr "a"); ("_:p", JStr "b")].

  Example good_accepted : merklize_doc no_loader 20 idB true good = Ok good.
  Proof. vm_compute. reflexivity. Qed.
  Example bad_nested_rejected :
    merklize_doc no_loader 20 idB true bad_nested = Err "invalid property" /\
    undefined_occ no_loader 20 bad_nested = Ok [([PK "child"; PI 0%N; PK "zzz"], false)] /\
    merklize_doc no_loader 20 idB false bad_nested = Ok bad_nested.
  Proof. vm_compute. repeat split. Qed.
  Example bad_scope_rejected :
    undefined_occ no_loader 20 bad_scope = Ok [([PK "child"; PK "tp"], false)].
  Proof. vm_compute. reflexivity. Qed.
  Example stripped_nested :
    strip_undefined no_loader 20 bad_nested = doc [("name", JStr "a"); ("child", JArr [JObj [("cp", JStr "r")]])].
  Proof. vm_compute. reflexivity. Qed.

  (* the hypotheses of the theorems are satisfiable *)
  Example bad_nested_member :
    exists cn p, doc_member no_loader 20 true bad_nested p cn "zzz" false
               /\ p = [PK "child"; PI 0%N; PK "zzz"] /\ key_defined cn "zzz" = false.
  Proof.
    eexists. eexists. split; [|split].
    - unfold doc_member, bad_nested, doc.
      eapply occ_walk with (k := "child"); [vm_compute; reflexivity|right; right; left; reflexivity|vm_compute; reflexivity|].
      eapply occ_item with (i := 0); [reflexivity|].
      eapply occ_here; [vm_compute; reflexivity|right; left; reflexivity|discriminate].
    - vm_compute. reflexivity.
    - vm_compute. reflexivity.
  Qed.

  (* REFUTATION of the full C15_safe on the code as it is (json-gold ignores the
     error of the nested Expand under @set): safe mode accepts a document in which
     the undefined member zzz occurs *)
  Example in_set_accepted :
    merklize_doc no_loader 20 idB true bad_in_set = Ok bad_in_set /\
    undefined_occ no_loader 20 bad_in_set = Ok [([PK "child"; PK "@set"; PI 0%N; PK "zzz"], true)].
  Proof. vm_compute. split; reflexivity. Qed.

  (* json-gold's notion of "defined" is weaker than "expands to an absolute IRI" *)
  Example blank_property_passes :
    merklize_doc no_loader 20 idB true blank_prop = Ok blank_prop /\
    key_absolute (Ctx [] None None) "_:p" = false /\ key_defined (Ctx [] None None) "_:p" = true.
  Proof. vm_compute. repeat split. Qed.

  Example default_is_safe :
    MerklizeJSONLD no_loader 20 idB [] bad_nested = Err "invalid property" /\
    MerklizeJSONLD no_loader 20 idB [OOther; WithSafeMode false] bad_nested = Ok bad_nested /\
    MerklizeJSONLD no_loader 20 idB [WithSafeMode false; OOther; WithSafeMode true] bad_nested = Err "invalid property".
  Proof. vm_compute. repeat split. Qed.
End Examples.
