(* JsonLD/SafeTheory.v — specification and proofs for C15 over the model of
   JsonLD/Safe.v.

   Spec side: [occurs] / [reach] say, independently of the executable walk, where a
   member (key) sits in a document and which active context governs it.  The
   theorems relate them to [merklize_doc].  json-gold's expansion result, ToRDF,
   URDNA2015, the entries and the tree are the abstract [backend]; the only
   assumption ever made about it is stated explicitly where used
   ([expand_ignores_undefined], C15_unsafe). *)
From Coq Require Import List String Ascii Bool Arith NArith ZArith Lia Permutation.
From GSP Require Import Base.Prelude JsonLD.Safe.
Import ListNotations.
Open Scope string_scope.
Open Scope list_scope.

(* ------------------------------------------------------------------ res *)
Lemma bind_ok {A B} (r : res A) (f : A -> res B) (b : B) :
  bind r f = Ok b -> exists a, r = Ok a /\ f a = Ok b.
Proof. destruct r as [a| | |]; cbn; intro H; try discriminate. exists a; auto. Qed.

Section Theory.
  Variable loader : string -> res json.
  Variable cf : nat.

  Notation walk' := (walk loader cf).
  Notation action_of := (member_action loader cf).

  (* the context governing the members of an object *)
  Definition ctx_here (c : ctx) (ap : string) (nest : bool) (m : list (string * json)) : res ctx :=
    if nest then Ok c else node_ctx loader cf c ap m.

  (* ---- the walk, in a form convenient for proofs ---- *)
  Fixpoint items_of (W : json -> res (list occ)) (l : list json) (i : N) : res (list occ) :=
    match l with
    | [] => Ok []
    | x :: t =>
        a <- W x ;;
        b <- items_of W t (N.succ i) ;;
        Ok (tag (PI i) a ++ b)
    end.

  Definition member_walk (cn : ctx) (ap : string) (sw : bool) (k : string) (x : json)
    : res (list occ) :=
    match action_of cn ap k x with
    | ASkip => Ok []
    | AUndef => Ok [([PK k], sw)]
    | AWalk c' ap' s' => r <- walk' c' ap' false (sw || s') x ;; Ok (tag (PK k) r)
    | ANest => r <- walk' cn ap true sw x ;; Ok (tag (PK k) r)
    | AFail r => cast_fail r
    end.

  Fixpoint members_of (F : string -> json -> res (list occ)) (ms : list (string * json))
    : res (list occ) :=
    match ms with
    | [] => Ok []
    | (k, x) :: t =>
        a <- F k x ;;
        b <- members_of F t ;;
        Ok (a ++ b)
    end.

  Lemma walk_arr c ap nest sw l :
    walk' c ap nest sw (JArr l) = items_of (walk' c ap nest sw) l 0%N.
  Proof.
    cbn [walk]. generalize 0%N. induction l as [|x t IH]; intro i; cbn; [reflexivity|].
    destruct (walk' c ap nest sw x); cbn; try reflexivity.
    rewrite IH. reflexivity.
  Qed.

  Lemma walk_obj c ap nest sw m :
    walk' c ap nest sw (JObj m) =
    (cn <- ctx_here c ap nest m ;; members_of (member_walk cn ap sw) m).
  Proof.
    cbn [walk]. unfold ctx_here.
    destruct (if nest then Ok c else node_ctx loader cf c ap m) as [cn| | |]; cbn [bind]; try reflexivity.
    induction m as [|[k x] t IH]; cbn; [reflexivity|].
    unfold member_walk at 1.
    destruct (action_of cn ap k x); cbn; rewrite ?IH; reflexivity.
  Qed.

  Lemma in_tag e o os : In o os -> In (e :: fst o, snd o) (tag e os).
  Proof. intro H. unfold tag. apply in_map_iff. exists o. auto. Qed.
  Lemma in_tag_inv e q os : In q (tag e os) -> exists o, In o os /\ q = (e :: fst o, snd o).
  Proof. unfold tag. intro H. apply in_map_iff in H. destruct H as [o [E H]]. exists o. auto. Qed.

  Lemma items_nth W l : forall i0 os j x,
    items_of W l i0 = Ok os -> nth_error l j = Some x ->
    exists a, W x = Ok a /\ incl (tag (PI (i0 + N.of_nat j)%N) a) os.
  Proof.
    induction l as [|y t IH]; intros i0 os j x H Hn.
    - destruct j; discriminate.
    - cbn in H. apply bind_ok in H. destruct H as [a [Ha H]].
      apply bind_ok in H. destruct H as [b [Hb H]]. inversion H; subst os.
      destruct j as [|j]; cbn in Hn.
      + inversion Hn; subst y. exists a. split; [exact Ha|].
        replace (i0 + N.of_nat 0)%N with i0 by lia. apply incl_appl, incl_refl.
      + destruct (IH _ _ _ _ Hb Hn) as [a' [Ha' Hi]]. exists a'. split; [exact Ha'|].
        replace (i0 + N.of_nat (S j))%N with (N.succ i0 + N.of_nat j)%N by lia.
        apply incl_appr. exact Hi.
  Qed.

  Lemma members_in F ms : forall os k x,
    members_of F ms = Ok os -> In (k, x) ms ->
    exists a, F k x = Ok a /\ incl a os.
  Proof.
    induction ms as [|[k0 x0] t IH]; intros os k x H Hin; [contradiction|].
    cbn in H. apply bind_ok in H. destruct H as [a [Ha H]].
    apply bind_ok in H. destruct H as [b [Hb H]]. inversion H; subst os.
    destruct Hin as [E|Hin].
    - inversion E; subst. exists a. split; [exact Ha|apply incl_appl, incl_refl].
    - destruct (IH _ _ _ Hb Hin) as [a' [Ha' Hi]]. exists a'. split; [exact Ha'|apply incl_appr; exact Hi].
  Qed.

  (* ---- where members occur ---- *)
  (* [occurs under c ap nest sw v p cn k s]: expanding value [v] (active context [c],
     active property [ap]) meets a member with key [k] at path [p] (relative to [v]);
     [cn] is the active context its key is expanded in; [s] tells whether it lies
     inside the value of an @list/@set/@default keyword member (where json-gold
     ignores errors; [sw] is that flag for [v] itself).  [under]: may the position
     lie below an undefined member (which expansion never visits)? *)
  Inductive occurs (under : bool)
    : ctx -> string -> bool -> bool -> json -> path -> ctx -> string -> bool -> Prop :=
  | occ_item c ap nest sw l i x p cn k s :
      nth_error l i = Some x ->
      occurs under c ap nest sw x p cn k s ->
      occurs under c ap nest sw (JArr l) (PI (N.of_nat i) :: p) cn k s
  | occ_here c ap nest sw m cn k x :
      ctx_here c ap nest m = Ok cn -> In (k, x) m -> k <> "@context" ->
      occurs under c ap nest sw (JObj m) [PK k] cn k sw
  | occ_walk c ap nest sw m cn k x c' ap' s' p cn' k' s :
      ctx_here c ap nest m = Ok cn -> In (k, x) m ->
      action_of cn ap k x = AWalk c' ap' s' ->
      occurs under c' ap' false (sw || s') x p cn' k' s ->
      occurs under c ap nest sw (JObj m) (PK k :: p) cn' k' s
  | occ_nest c ap nest sw m cn k x p cn' k' s :
      ctx_here c ap nest m = Ok cn -> In (k, x) m ->
      action_of cn ap k x = ANest ->
      occurs under cn ap true sw x p cn' k' s ->
      occurs under c ap nest sw (JObj m) (PK k :: p) cn' k' s
  | occ_under c ap nest sw m cn k x p cn' k' s :
      under = true ->
      ctx_here c ap nest m = Ok cn -> In (k, x) m ->
      action_of cn ap k x = AUndef ->
      occurs under cn k false sw x p cn' k' s ->
      occurs under c ap nest sw (JObj m) (PK k :: p) cn' k' s.

  (* members expansion reaches / members anywhere in the document *)
  Definition reach := occurs false.
  Definition anywhere := occurs true.

  Lemma reach_anywhere c ap nest sw v p cn k s :
    reach c ap nest sw v p cn k s -> anywhere c ap nest sw v p cn k s.
  Proof.
    unfold reach, anywhere. induction 1.
    - eapply occ_item; eauto.
    - eapply occ_here; eauto.
    - eapply occ_walk; eauto.
    - eapply occ_nest; eauto.
    - discriminate.
  Qed.

  (* the swallow flag only grows on the way down *)
  Lemma occurs_flag under c ap nest sw v p cn k s :
    occurs under c ap nest sw v p cn k s -> s = false -> sw = false.
  Proof.
    induction 1; intro Hs; auto.
    specialize (IHoccurs Hs). apply orb_false_iff in IHoccurs. tauto.
  Qed.

  Lemma action_of_undefined cn ap k x :
    k <> "@context" -> key_defined cn k = false ->
    action_of cn ap k x = AUndef \/ exists r, action_of cn ap k x = AFail r /\ forall A, is_ok (@cast_fail A r) = false.
  Proof.
    intros Hk Hd. unfold member_action.
    destruct (String.eqb k "@context") eqn:E; [apply String.eqb_eq in E; contradiction|].
    destruct (key_panics cn k).
    - right. eexists. split; [reflexivity|]. intro A. reflexivity.
    - left. unfold key_defined in Hd. apply negb_false_iff in Hd. rewrite Hd. reflexivity.
  Qed.

  (* completeness of the walk: an undefined member that expansion reaches is reported,
     with its path and its swallow flag *)
  Lemma walk_complete c ap nest sw v p cn k s :
    reach c ap nest sw v p cn k s -> key_defined cn k = false ->
    forall os, walk' c ap nest sw v = Ok os -> In (p, s) os.
  Proof.
    unfold reach. induction 1; intros Hd os Hw.
    - rewrite walk_arr in Hw.
      destruct (items_nth _ _ _ _ _ _ Hw H) as [a [Ha Hi]].
      rewrite N.add_0_l in Hi. apply Hi.
      apply (in_tag (PI (N.of_nat i)) (p, s)). apply IHoccurs; assumption.
    - rewrite walk_obj in Hw. rewrite H in Hw. cbn [bind] in Hw.
      destruct (members_in _ _ _ _ _ Hw H0) as [a [Ha Hi]].
      unfold member_walk in Ha.
      destruct (action_of_undefined cn ap k x H1 Hd) as [E|[r [E Hr]]]; rewrite E in Ha.
      + inversion Ha; subst a. apply Hi. left. reflexivity.
      + specialize (Hr (list occ)). rewrite Ha in Hr. discriminate.
    - rewrite walk_obj in Hw. rewrite H in Hw. cbn [bind] in Hw.
      destruct (members_in _ _ _ _ _ Hw H0) as [a [Ha Hi]].
      unfold member_walk in Ha. rewrite H1 in Ha.
      apply bind_ok in Ha. destruct Ha as [r [Hr Ha]]. inversion Ha; subst a.
      apply Hi. apply (in_tag (PK k) (p, s)). apply IHoccurs; assumption.
    - rewrite walk_obj in Hw. rewrite H in Hw. cbn [bind] in Hw.
      destruct (members_in _ _ _ _ _ Hw H0) as [a [Ha Hi]].
      unfold member_walk in Ha. rewrite H1 in Ha.
      apply bind_ok in Ha. destruct Ha as [r [Hr Ha]]. inversion Ha; subst a.
      apply Hi. apply (in_tag (PK k) (p, s)). apply IHoccurs; assumption.
    - discriminate.
  Qed.

  Lemma exists_unswallowed_tag e r :
    existsb unswallowed r = true -> existsb unswallowed (tag e r) = true.
  Proof.
    intro H. apply existsb_exists in H. destruct H as [o [Ho Hu]].
    apply existsb_exists. exists (e :: fst o, snd o). split; [apply in_tag; exact Ho|exact Hu].
  Qed.
  Lemma exists_unswallowed_incl a os :
    incl a os -> existsb unswallowed a = true -> existsb unswallowed os = true.
  Proof.
    intros Hi H. apply existsb_exists in H. destruct H as [o [Ho Hu]].
    apply existsb_exists. exists o. split; [apply Hi; exact Ho|exact Hu].
  Qed.

  (* an undefined member ANYWHERE outside @list/@set/@default values makes the walk
     report some unswallowed occurrence (itself, or the first undefined member
     above it) *)
  Lemma walk_rejects c ap nest sw v p cn k s :
    anywhere c ap nest sw v p cn k s -> key_defined cn k = false -> s = false ->
    forall os, walk' c ap nest sw v = Ok os -> existsb unswallowed os = true.
  Proof.
    unfold anywhere. induction 1; intros Hd Hs os Hw.
    - rewrite walk_arr in Hw.
      destruct (items_nth _ _ _ _ _ _ Hw H) as [a [Ha Hi]].
      eapply exists_unswallowed_incl; [exact Hi|]. apply exists_unswallowed_tag. eauto.
    - rewrite walk_obj in Hw. rewrite H in Hw. cbn [bind] in Hw.
      destruct (members_in _ _ _ _ _ Hw H0) as [a [Ha Hi]].
      unfold member_walk in Ha.
      destruct (action_of_undefined cn ap k x H1 Hd) as [E|[r [E Hr]]]; rewrite E in Ha.
      + inversion Ha; subst a. apply existsb_exists. exists ([PK k], sw). split.
        * apply Hi. left. reflexivity.
        * unfold unswallowed. cbn. rewrite Hs. reflexivity.
      + specialize (Hr (list occ)). rewrite Ha in Hr. discriminate.
    - rewrite walk_obj in Hw. rewrite H in Hw. cbn [bind] in Hw.
      destruct (members_in _ _ _ _ _ Hw H0) as [a [Ha Hi]].
      unfold member_walk in Ha. rewrite H1 in Ha.
      apply bind_ok in Ha. destruct Ha as [r [Hr Ha]]. inversion Ha; subst a.
      eapply exists_unswallowed_incl; [exact Hi|]. apply exists_unswallowed_tag. eauto.
    - rewrite walk_obj in Hw. rewrite H in Hw. cbn [bind] in Hw.
      destruct (members_in _ _ _ _ _ Hw H0) as [a [Ha Hi]].
      unfold member_walk in Ha. rewrite H1 in Ha.
      apply bind_ok in Ha. destruct Ha as [r [Hr Ha]]. inversion Ha; subst a.
      eapply exists_unswallowed_incl; [exact Hi|]. apply exists_unswallowed_tag. eauto.
    - (* below an undefined member: that member itself is reported *)
      rewrite walk_obj in Hw. rewrite H0 in Hw. cbn [bind] in Hw.
      destruct (members_in _ _ _ _ _ Hw H1) as [a [Ha Hi]].
      unfold member_walk in Ha. rewrite H2 in Ha. inversion Ha; subst a.
      pose proof (occurs_flag _ _ _ _ _ _ _ _ _ _ H3 Hs) as Hsw.
      apply existsb_exists. exists ([PK k], sw). split.
      + apply Hi. left. reflexivity.
      + unfold unswallowed. cbn. rewrite Hsw. reflexivity.
  Qed.

  (* soundness of the walk: whatever it reports is an undefined member it reached *)
  Lemma members_of_in F ms : forall os o,
    members_of F ms = Ok os -> In o os ->
    exists k x a, In (k, x) ms /\ F k x = Ok a /\ In o a.
  Proof.
    induction ms as [|[k0 x0] t IH]; intros os o H Hin.
    - cbn in H. inversion H; subst. contradiction.
    - cbn in H. apply bind_ok in H. destruct H as [a [Ha H]].
      apply bind_ok in H. destruct H as [b [Hb H]]. inversion H; subst os.
      apply in_app_or in Hin. destruct Hin as [Hin|Hin].
      + exists k0, x0, a. split; [left; reflexivity|]. split; assumption.
      + destruct (IH _ _ Hb Hin) as [k [x [a' [H1 [H2 H3]]]]].
        exists k, x, a'. split; [right; exact H1|]. split; assumption.
  Qed.

  Lemma items_of_in W l : forall i0 os o,
    items_of W l i0 = Ok os -> In o os ->
    exists j x a, nth_error l j = Some x /\ W x = Ok a /\ In o (tag (PI (i0 + N.of_nat j)%N) a).
  Proof.
    induction l as [|y t IH]; intros i0 os o H Hin.
    - cbn in H. inversion H; subst. contradiction.
    - cbn in H. apply bind_ok in H. destruct H as [a [Ha H]].
      apply bind_ok in H. destruct H as [b [Hb H]]. inversion H; subst os.
      apply in_app_or in Hin. destruct Hin as [Hin|Hin].
      + exists 0, y, a. split; [reflexivity|]. split; [exact Ha|].
        replace (i0 + N.of_nat 0)%N with i0 by lia. exact Hin.
      + destruct (IH _ _ _ Hb Hin) as [j [x [a' [H1 [H2 H3]]]]].
        exists (S j), x, a'. split; [exact H1|]. split; [exact H2|].
        replace (i0 + N.of_nat (S j))%N with (N.succ i0 + N.of_nat j)%N by lia. exact H3.
  Qed.

  Lemma action_undef_inv cn ap k x :
    action_of cn ap k x = AUndef -> k <> "@context" /\ key_defined cn k = false.
  Proof.
    unfold member_action. destruct (String.eqb k "@context") eqn:E; [discriminate|].
    destruct (key_panics cn k); [discriminate|].
    unfold key_defined. destruct (undefined_exp (expand_key cn k)) eqn:U.
    - intros _. split; [|reflexivity]. intro Hk. subst k. discriminate.
    - destruct (is_keyword (expand_key cn k)).
      + repeat match goal with |- context [if ?b then _ else _] => destruct b end; discriminate.
      + destruct (term_def cn k); [|discriminate].
        destruct (match td_ctx t with Some pc => parse_ctx loader cf cn pc true | None => Ok cn end);
          try discriminate.
        repeat match goal with |- context [if ?b then _ else _] => destruct b end; discriminate.
  Qed.

  (* a well-founded measure for inductions over documents *)
  Fixpoint jsize (v : json) : nat :=
    match v with
    | JArr l => S (fold_right (fun x n => jsize x + n) 0 l)
    | JObj m => S (fold_right (fun (kx : string * json) n => jsize (snd kx) + n) 0 m)
    | _ => 1
    end.
  Lemma jsize_nth l : forall j x, nth_error l j = Some x ->
    jsize x < S (fold_right (fun x n => jsize x + n) 0 l).
  Proof.
    induction l as [|y t IH]; intros j x H; destruct j; cbn in *; try discriminate.
    - inversion H; subst. lia.
    - specialize (IH _ _ H). lia.
  Qed.
  Lemma jsize_in m : forall k x, In (k, x) m ->
    jsize x < S (fold_right (fun (kx : string * json) n => jsize (snd kx) + n) 0 m).
  Proof.
    induction m as [|[k0 x0] t IH]; intros k x H; [contradiction|].
    cbn. destruct H as [E|H].
    - inversion E; subst. lia.
    - specialize (IH _ _ H). lia.
  Qed.

  Lemma walk_sound_n : forall n v, jsize v <= n ->
    forall c ap nest sw os p s,
    walk' c ap nest sw v = Ok os -> In (p, s) os ->
    exists cn k, reach c ap nest sw v p cn k s /\ key_defined cn k = false.
  Proof.
    induction n as [|n IH]; intros v Hn c ap nest sw os p s Hw Hin.
    - destruct v; cbn in Hn; lia.
    - destruct v as [| | | |l|m]; try (cbn in Hw; inversion Hw; subst; contradiction).
      + rewrite walk_arr in Hw.
        destruct (items_of_in _ _ _ _ _ Hw Hin) as [j [x [a [Hj [Ha Hia]]]]].
        rewrite N.add_0_l in Hia.
        apply in_tag_inv in Hia. destruct Hia as [[p0 s0] [Ho E]]. cbn in E. inversion E; subst p s.
        assert (Hx : jsize x <= n) by (pose proof (jsize_nth _ _ _ Hj); cbn in Hn; lia).
        destruct (IH x Hx _ _ _ _ _ _ _ Ha Ho) as [cn [k [Hr Hd]]].
        exists cn, k. split; [|exact Hd]. eapply occ_item; eauto.
      + rewrite walk_obj in Hw. apply bind_ok in Hw. destruct Hw as [cn [Hc Hw]].
        destruct (members_of_in _ _ _ _ Hw Hin) as [k [x [a [Hk [Ha Hia]]]]].
        assert (Hx : jsize x <= n) by (pose proof (jsize_in _ _ _ Hk); cbn in Hn; lia).
        unfold member_walk in Ha.
        destruct (action_of cn ap k x) as [| |c' ap' s'| |r] eqn:E.
        * inversion Ha; subst. contradiction.
        * inversion Ha; subst a. destruct Hia as [Hia|[]]. inversion Hia; subst p s.
          destruct (action_undef_inv _ _ _ _ E) as [Hk1 Hk2].
          exists cn, k. split; [|exact Hk2]. eapply occ_here; eauto.
        * apply bind_ok in Ha. destruct Ha as [r [Hr Ha]]. inversion Ha; subst a.
          apply in_tag_inv in Hia. destruct Hia as [[p0 s0] [Ho E']]. cbn in E'. inversion E'; subst p s.
          destruct (IH x Hx _ _ _ _ _ _ _ Hr Ho) as [cn' [k' [Hr' Hd]]].
          exists cn', k'. split; [|exact Hd]. eapply occ_walk; eauto.
        * apply bind_ok in Ha. destruct Ha as [r [Hr Ha]]. inversion Ha; subst a.
          apply in_tag_inv in Hia. destruct Hia as [[p0 s0] [Ho E']]. cbn in E'. inversion E'; subst p s.
          destruct (IH x Hx _ _ _ _ _ _ _ Hr Ho) as [cn' [k' [Hr' Hd]]].
          exists cn', k'. split; [|exact Hd]. eapply occ_nest; eauto.
        * destruct r; cbn in Ha; discriminate.
  Qed.

  Lemma walk_sound c ap nest sw v os p s :
    walk' c ap nest sw v = Ok os -> In (p, s) os ->
    exists cn k, reach c ap nest sw v p cn k s /\ key_defined cn k = false.
  Proof. intros. eapply walk_sound_n; eauto. Qed.

  (* ---- the stripped document = structural deletion of the reported members ---- *)
  Definition pelem_eqb (a b : pelem) : bool :=
    match a, b with
    | PK x, PK y => String.eqb x y
    | PI x, PI y => N.eqb x y
    | _, _ => false
    end.
  Lemma pelem_eqb_refl a : pelem_eqb a a = true.
  Proof. destruct a; cbn; [apply String.eqb_refl|apply N.eqb_refl]. Qed.
  Lemma pelem_eqb_eq a b : pelem_eqb a b = true -> a = b.
  Proof.
    destruct a, b; cbn; try discriminate; intro H.
    - apply String.eqb_eq in H. subst. reflexivity.
    - apply N.eqb_eq in H. subst. reflexivity.
  Qed.
  Lemma pelem_eqb_neq a b : a <> b -> pelem_eqb a b = false.
  Proof. intro H. destruct (pelem_eqb a b) eqn:E; [apply pelem_eqb_eq in E; contradiction|reflexivity]. Qed.

  Definition pcons (e : pelem) (p : path) : path := e :: p.
  Definition paths_of (os : list occ) : list path := map fst os.
  Lemma paths_of_app a b : paths_of (a ++ b) = paths_of a ++ paths_of b.
  Proof. apply map_app. Qed.

  (* the paths of [P] that go through step [e], with that step removed *)
  Definition sub (e : pelem) (P : list path) : list path :=
    flat_map (fun p => match p with h :: t => if pelem_eqb h e then [t] else [] | [] => [] end) P.
  (* is the one-step path [e] in [P]? *)
  Definition here (e : pelem) (P : list path) : bool :=
    existsb (fun p => match p with [h] => pelem_eqb h e | _ => false end) P.

  Fixpoint rm_items (R : list path -> json -> json) (P : list path) (l : list json) (i : N) : list json :=
    match l with
    | [] => []
    | x :: t => R (sub (PI i) P) x :: rm_items R P t (N.succ i)
    end.
  Fixpoint rm_ms (R : list path -> json -> json) (P : list path) (ms : list (string * json))
    : list (string * json) :=
    match ms with
    | [] => []
    | (k, x) :: t =>
        if here (PK k) P then rm_ms R P t else (k, R (sub (PK k) P) x) :: rm_ms R P t
    end.

  (* context-free: delete exactly the object members named by the paths in [P] *)
  Fixpoint remove_members (P : list path) (v : json) {struct v} : json :=
    match v with
    | JArr l =>
        JArr ((fix go (l : list json) (i : N) {struct l} : list json :=
                 match l with
                 | [] => []
                 | x :: t => remove_members (sub (PI i) P) x :: go t (N.succ i)
                 end) l 0%N)
    | JObj m =>
        JObj ((fix go (ms : list (string * json)) {struct ms} : list (string * json) :=
                 match ms with
                 | [] => []
                 | (k, x) :: t =>
                     if here (PK k) P then go t else (k, remove_members (sub (PK k) P) x) :: go t
                 end) m)
    | _ => v
    end.

  Lemma remove_arr P l : remove_members P (JArr l) = JArr (rm_items remove_members P l 0%N).
  Proof.
    cbn [remove_members]. f_equal. generalize 0%N.
    induction l as [|x t IH]; intro i; cbn; [reflexivity|]. rewrite IH. reflexivity.
  Qed.
  Lemma remove_obj P m : remove_members P (JObj m) = JObj (rm_ms remove_members P m).
  Proof.
    cbn [remove_members]. f_equal.
    induction m as [|[k x] t IH]; cbn; [reflexivity|]. rewrite IH. reflexivity.
  Qed.

  (* strip, in the same style *)
  Definition member_strip (cn : ctx) (ap k : string) (x : json) : option (string * json) :=
    match action_of cn ap k x with
    | AUndef => None
    | AWalk c' ap' _ => Some (k, strip loader cf c' ap' false x)
    | ANest => Some (k, strip loader cf cn ap true x)
    | ASkip | AFail _ => Some (k, x)
    end.
  Fixpoint strip_ms (cn : ctx) (ap : string) (ms : list (string * json)) : list (string * json) :=
    match ms with
    | [] => []
    | (k, x) :: t =>
        match member_strip cn ap k x with
        | None => strip_ms cn ap t
        | Some kv => kv :: strip_ms cn ap t
        end
    end.
  Lemma strip_arr c ap nest l :
    strip loader cf c ap nest (JArr l) = JArr (map (strip loader cf c ap nest) l).
  Proof. reflexivity. Qed.
  Lemma strip_obj c ap nest m :
    strip loader cf c ap nest (JObj m) =
    match ctx_here c ap nest m with Ok cn => JObj (strip_ms cn ap m) | _ => JObj m end.
  Proof.
    cbn [strip]. unfold ctx_here.
    destruct (if nest then Ok c else node_ctx loader cf c ap m) as [cn| | |]; try reflexivity.
    f_equal. induction m as [|[k x] t IH]; cbn; [reflexivity|].
    unfold member_strip. destruct (action_of cn ap k x); rewrite IH; reflexivity.
  Qed.

  (* algebra of sub / here *)
  Lemma sub_app e P1 P2 : sub e (P1 ++ P2) = sub e P1 ++ sub e P2.
  Proof. unfold sub. apply flat_map_app. Qed.
  Lemma here_app e P1 P2 : here e (P1 ++ P2) = here e P1 || here e P2.
  Proof. unfold here. apply existsb_app. Qed.
  Lemma paths_tag e a : paths_of (tag e a) = map (pcons e) (paths_of a).
  Proof. unfold paths_of, tag. rewrite !map_map. reflexivity. Qed.
  Lemma sub_cons_same e Q : sub e (map (pcons e) Q) = Q.
  Proof.
    unfold sub. induction Q as [|q t IH]; cbn; [reflexivity|].
    rewrite pelem_eqb_refl. cbn. rewrite IH. reflexivity.
  Qed.
  Lemma sub_cons_other e e' Q : e' <> e -> sub e (map (pcons e') Q) = [].
  Proof.
    intro H. unfold sub. induction Q as [|q t IH]; cbn; [reflexivity|].
    rewrite (pelem_eqb_neq _ _ H). cbn. exact IH.
  Qed.
  Lemma here_cons_other e e' Q : e' <> e -> here e (map (pcons e') Q) = false.
  Proof.
    intro H. unfold here. induction Q as [|q t IH]; cbn; [reflexivity|].
    rewrite IH. destruct q; [|reflexivity]. rewrite (pelem_eqb_neq _ _ H). reflexivity.
  Qed.
  Lemma here_cons_nonempty e e' Q : (forall q, In q Q -> q <> []) -> here e (map (pcons e') Q) = false.
  Proof.
    intro H. unfold here. induction Q as [|q t IH]; cbn; [reflexivity|].
    rewrite IH by (intros q' Hq'; apply H; right; exact Hq').
    destruct q; [exfalso; apply (H []); [left; reflexivity|reflexivity]|reflexivity].
  Qed.

  Lemma sub_nil e : sub e [] = [].
  Proof. reflexivity. Qed.
  Lemma here_nil e : here e [] = false.
  Proof. reflexivity. Qed.

  Lemma remove_nil_n : forall n v, jsize v <= n -> remove_members [] v = v.
  Proof.
    induction n as [|n IH]; intros v Hn; [destruct v; cbn in Hn; lia|].
    destruct v as [| | | |l|m]; try reflexivity.
    - rewrite remove_arr. f_equal. cbn in Hn. generalize 0%N.
      induction l as [|x t IHl]; intro i; cbn [rm_items]; [reflexivity|].
      cbn in Hn. rewrite sub_nil. rewrite (IH x) by lia. rewrite IHl by lia. reflexivity.
    - rewrite remove_obj. f_equal. cbn in Hn.
      induction m as [|[k x] t IHm]; cbn [rm_ms]; [reflexivity|].
      cbn in Hn. rewrite here_nil, sub_nil. rewrite (IH x) by lia. rewrite IHm by lia. reflexivity.
  Qed.
  Lemma remove_nil v : remove_members [] v = v.
  Proof. eapply remove_nil_n; eauto. Qed.

  (* reported paths are never empty, and start with the step into the member / item *)
  Lemma member_walk_heads cn ap sw k x a :
    member_walk cn ap sw k x = Ok a -> exists Q : list path, paths_of a = map (pcons (PK k)) Q.
  Proof.
    unfold member_walk. destruct (action_of cn ap k x) as [| |c' ap' s'| |r]; intro H.
    - inversion H. exists []. reflexivity.
    - inversion H. exists [[]]. reflexivity.
    - apply bind_ok in H. destruct H as [r [_ H]]. inversion H. exists (paths_of r). apply paths_tag.
    - apply bind_ok in H. destruct H as [r [_ H]]. inversion H. exists (paths_of r). apply paths_tag.
    - destruct r; cbn in H; discriminate.
  Qed.

  Lemma walk_nonempty c ap nest sw v os :
    walk' c ap nest sw v = Ok os -> forall q, In q (paths_of os) -> q <> [].
  Proof.
    intros Hw q Hq. unfold paths_of in Hq. apply in_map_iff in Hq. destruct Hq as [[p s] [E Hin]]. cbn in E. subst p.
    destruct v as [| | | |l|m]; try (cbn in Hw; inversion Hw; subst; contradiction).
    - rewrite walk_arr in Hw.
      destruct (items_of_in _ _ _ _ _ Hw Hin) as [j [x [a [_ [_ Hia]]]]].
      apply in_tag_inv in Hia. destruct Hia as [o [_ E]]. inversion E. discriminate.
    - rewrite walk_obj in Hw. apply bind_ok in Hw. destruct Hw as [cn [_ Hw]].
      destruct (members_of_in _ _ _ _ Hw Hin) as [k [x [a [_ [Ha Hia]]]]].
      destruct (member_walk_heads _ _ _ _ _ _ Ha) as [Q HQ].
      assert (In q (paths_of a)) as Hq by (unfold paths_of; apply in_map_iff; exists (q, s); auto).
      rewrite HQ in Hq. apply in_map_iff in Hq. destruct Hq as [t [E _]]. subst q. discriminate.
  Qed.

  (* later items / members do not interfere with an earlier step *)
  Lemma items_later W l : forall i1 b j,
    items_of W l i1 = Ok b -> (j < i1)%N -> sub (PI j) (paths_of b) = [].
  Proof.
    induction l as [|x t IH]; intros i1 b j H Hj.
    - cbn in H. inversion H. reflexivity.
    - cbn in H. apply bind_ok in H. destruct H as [a [_ H]].
      apply bind_ok in H. destruct H as [b' [Hb H]]. inversion H; subst b.
      rewrite paths_of_app, sub_app, paths_tag, sub_cons_other.
      + cbn. apply (IH _ _ _ Hb). lia.
      + intro E. inversion E. lia.
  Qed.
  Lemma members_later cn ap sw ms : forall b k,
    members_of (member_walk cn ap sw) ms = Ok b -> ~ In k (map fst ms) ->
    sub (PK k) (paths_of b) = [] /\ here (PK k) (paths_of b) = false.
  Proof.
    induction ms as [|[k0 x0] t IH]; intros b k H Hk.
    - cbn in H. inversion H. split; reflexivity.
    - cbn in H. apply bind_ok in H. destruct H as [a [Ha H]].
      apply bind_ok in H. destruct H as [b' [Hb H]]. inversion H; subst b.
      destruct (member_walk_heads _ _ _ _ _ _ Ha) as [Q HQ].
      assert (PK k0 <> PK k) as Hne by (intro E; inversion E; subst; apply Hk; left; reflexivity).
      destruct (IH _ _ Hb (fun Hin => Hk (or_intror Hin))) as [I1 I2].
      rewrite paths_of_app, sub_app, here_app, HQ, I1, I2.
      rewrite (sub_cons_other _ _ _ Hne), (here_cons_other _ _ _ Hne). split; reflexivity.
  Qed.

  (* well-formed documents: object keys are unique (as in any Go map) *)
  Fixpoint wf (v : json) : Prop :=
    match v with
    | JArr l => fold_right (fun x acc => wf x /\ acc) True l
    | JObj m => NoDup (map fst m) /\ fold_right (fun (kx : string * json) acc => wf (snd kx) /\ acc) True m
    | _ => True
    end.

  Lemma strip_is_removal_n : forall n v, jsize v <= n -> wf v ->
    forall c ap nest sw os, walk' c ap nest sw v = Ok os ->
    strip loader cf c ap nest v = remove_members (paths_of os) v.
  Proof.
    induction n as [|n IH]; intros v Hn Hwf c ap nest sw os Hw; [destruct v; cbn in Hn; lia|].
    destruct v as [| | | |l|m]; try reflexivity.
    - (* arrays *)
      rewrite walk_arr in Hw. rewrite strip_arr, remove_arr. f_equal.
      cbn in Hn. cbn [wf] in Hwf.
      enough (Hgen : forall i0 Q os,
                items_of (walk' c ap nest sw) l i0 = Ok os ->
                (forall j, (i0 <= j)%N -> sub (PI j) Q = []) ->
                map (strip loader cf c ap nest) l = rm_items remove_members (Q ++ paths_of os) l i0).
      { apply (Hgen 0%N [] os Hw). intros; reflexivity. }
      clear os Hw.
      induction l as [|x t IHl]; intros i0 Q os Hw HQ; [reflexivity|].
      cbn in Hw. apply bind_ok in Hw. destruct Hw as [a [Ha Hw]].
      apply bind_ok in Hw. destruct Hw as [b [Hb Hw]]. inversion Hw; subst os. clear Hw.
      cbn in Hn. cbn in Hwf. destruct Hwf as [Hwx Hwt].
      cbn [map rm_items]. f_equal.
      + rewrite paths_of_app, !sub_app, paths_tag, sub_cons_same.
        rewrite (HQ i0) by lia. rewrite (items_later _ _ _ _ i0 Hb) by lia.
        rewrite app_nil_r. cbn. apply (IH x ltac:(lia) Hwx _ _ _ _ _ Ha).
      + rewrite paths_of_app, app_assoc. apply IHl; [lia|exact Hwt|exact Hb|].
        intros j Hj. rewrite sub_app, paths_tag, (HQ j) by lia. cbn.
        apply sub_cons_other. intro E. inversion E. lia.
    - (* objects *)
      rewrite walk_obj in Hw. apply bind_ok in Hw. destruct Hw as [cn [Hc Hw]].
      rewrite strip_obj, Hc, remove_obj. f_equal.
      cbn in Hn. cbn [wf] in Hwf. destruct Hwf as [Hnd Hwf].
      clear Hc.
      enough (Hgen : forall Q os,
                members_of (member_walk cn ap sw) m = Ok os ->
                (forall k, In k (map fst m) -> sub (PK k) Q = [] /\ here (PK k) Q = false) ->
                strip_ms cn ap m = rm_ms remove_members (Q ++ paths_of os) m).
      { apply (Hgen [] os Hw). intros; split; reflexivity. }
      clear os Hw.
      induction m as [|[k x] t IHm]; intros Q os Hw HQ; [reflexivity|].
      cbn in Hw. apply bind_ok in Hw. destruct Hw as [a [Ha Hw]].
      apply bind_ok in Hw. destruct Hw as [b [Hb Hw]]. inversion Hw; subst os. clear Hw.
      cbn in Hn. cbn in Hwf. destruct Hwf as [Hwx Hwt].
      cbn in Hnd. inversion Hnd as [|? ? Hk Hnd']; subst.
      destruct (HQ k (or_introl eq_refl)) as [Q1 Q2].
      destruct (members_later _ _ _ _ _ _ Hb Hk) as [B1 B2].
      assert (Htail : forall Q', (forall k', In k' (map fst t) ->
                        sub (PK k') Q' = [] /\ here (PK k') Q' = false) ->
                      strip_ms cn ap t = rm_ms remove_members (Q' ++ paths_of b) t).
      { intros Q' HQ'. apply IHm; [lia|exact Hnd'|exact Hwt|exact Hb|exact HQ']. }
      assert (HQa : forall k', In k' (map fst t) ->
                sub (PK k') (Q ++ paths_of a) = [] /\ here (PK k') (Q ++ paths_of a) = false).
      { intros k' Hk'. destruct (HQ k' (or_intror Hk')) as [I1 I2].
        destruct (member_walk_heads _ _ _ _ _ _ Ha) as [Qa HQa].
        assert (PK k <> PK k') as Hne by (intro E; inversion E; subst; contradiction).
        rewrite sub_app, here_app, I1, I2, HQa.
        rewrite (sub_cons_other _ _ _ Hne), (here_cons_other _ _ _ Hne). split; reflexivity. }
      cbn [strip_ms rm_ms].
      rewrite paths_of_app, !here_app, !sub_app, Q1, Q2, B1, B2, app_nil_r, orb_false_r. cbn [app orb].
      rewrite (app_assoc Q (paths_of a) (paths_of b)).
      unfold member_strip. unfold member_walk in Ha.
      destruct (action_of cn ap k x) as [| |c' ap' s'| |r] eqn:E.
      + inversion Ha; subst a. cbn. rewrite remove_nil. rewrite app_nil_r in *.
        f_equal. apply Htail. intros k' Hk'. apply (HQ k' (or_intror Hk')).
      + inversion Ha; subst a.
        assert (Hh : here (PK k) (paths_of [([PK k], sw)]) = true)
          by (unfold here, paths_of; cbn; rewrite String.eqb_refl; reflexivity).
        rewrite Hh. apply Htail. exact HQa.
      + apply bind_ok in Ha. destruct Ha as [r [Hr Ha]]. inversion Ha; subst a.
        rewrite paths_tag, sub_cons_same.
        rewrite (here_cons_nonempty _ _ _ (walk_nonempty _ _ _ _ _ _ Hr)).
        f_equal; [|rewrite <- paths_tag; apply Htail; rewrite paths_tag; rewrite paths_tag in HQa; exact HQa].
        f_equal. apply (IH x ltac:(lia) Hwx _ _ _ _ _ Hr).
      + apply bind_ok in Ha. destruct Ha as [r [Hr Ha]]. inversion Ha; subst a.
        rewrite paths_tag, sub_cons_same.
        rewrite (here_cons_nonempty _ _ _ (walk_nonempty _ _ _ _ _ _ Hr)).
        f_equal; [|rewrite <- paths_tag; apply Htail; rewrite paths_tag; rewrite paths_tag in HQa; exact HQa].
        f_equal. apply (IH x ltac:(lia) Hwx _ _ _ _ _ Hr).
      + destruct r; cbn in Ha; discriminate.
  Qed.

  Theorem strip_is_removal d os :
    wf d -> undefined_occ loader cf d = Ok os ->
    strip_undefined loader cf d = remove_members (paths_of os) d.
  Proof. intros Hwf Hos. eapply strip_is_removal_n; eauto. Qed.

  (* ---- documents ---- *)
  Definition doc_member (under : bool) (d : json) (p : path) (cn : ctx) (k : string) (s : bool) : Prop :=
    occurs under empty_ctx "" false false d p cn k s.

  Lemma defined_absolute cn k :
    key_defined cn k = true -> colon_not_absolute cn k = false -> key_absolute cn k = true.
  Proof.
    unfold key_defined, colon_not_absolute, key_absolute, undefined_exp.
    destruct (is_keyword (expand_key cn k)); [intros; reflexivity|].
    destruct (String.eqb (expand_key cn k) ""); [discriminate|].
    destruct (has_colon (expand_key cn k)); cbn; [|discriminate].
    intros _ H. apply negb_false_iff in H. rewrite H. reflexivity.
  Qed.
End Theory.

(* ------------------------------------------------- MerklizeJSONLD theorems *)
Section Backend.
  Variable cf : nat.
  Context {E DS En C : Type} (B : backend E DS En C).
  (* the tree the merklization starts from: a new one, or the caller's *)
  Variable t0 : mtree.
  Notation merklize safe dl d := (merklize_doc cf B safe dl t0 d).

  (* a successful safe-mode run: the scan under the COMPACT-phase behaviour of the
     loader succeeded (every context loaded) and found nothing unswallowed *)
  Lemma merklize_true_ok dl d r :
    merklize true dl d = Ok r ->
    exists os, undefined_occ (view_compact dl) cf d = Ok os /\ existsb unswallowed os = false.
  Proof.
    unfold merklize_doc, merklize_gen, proc_normalize, proc_compact, expand, new_jsonld_options. cbn.
    intro H. apply bind_ok in H. destruct H as [ds [_ H]].
    apply bind_ok in H. destruct H as [r' [_ H]].
    apply bind_ok in H. destruct H as [cc [H _]].
    apply bind_ok in H. destruct H as [e [H _]].
    apply bind_ok in H. destruct H as [rej [Hr H]].
    unfold safe_rejects in Hr. apply bind_ok in Hr. destruct Hr as [os [Hos Hr]].
    inversion Hr; subst rej. exists os. split; [exact Hos|].
    destruct (existsb unswallowed os); [discriminate|reflexivity].
  Qed.

  (* C15_safe_partial: for EVERY loader behaviour (dl arbitrary, nil included) *)
  Theorem safe_ok_all_defined dl d r :
    merklize true dl d = Ok r ->
    forall p cn k, doc_member (view_compact dl) cf true d p cn k false -> key_defined cn k = true.
  Proof.
    intros H p cn k Ho. destruct (merklize_true_ok _ _ _ H) as [os [Hos Hex]].
    destruct (key_defined cn k) eqn:Hd; [reflexivity|].
    unfold undefined_occ in Hos.
    pose proof (walk_rejects _ _ _ _ _ _ _ _ _ _ _ Ho Hd eq_refl _ Hos) as Hx.
    rewrite Hx in Hex. discriminate.
  Qed.

  Theorem safe_ok_all_absolute dl d r :
    merklize true dl d = Ok r ->
    forall p cn k, doc_member (view_compact dl) cf true d p cn k false ->
    colon_not_absolute cn k = false -> key_absolute cn k = true.
  Proof.
    intros H p cn k Ho Hc. apply defined_absolute; [|exact Hc].
    eapply safe_ok_all_defined; eauto.
  Qed.

  (* a context that cannot be loaded or processed while Compact runs — whatever
     happened during Normalize — makes safe mode fail: never Ok *)
  Theorem safe_compact_phase_failure dl d :
    (forall os, undefined_occ (view_compact dl) cf d <> Ok os) ->
    forall r, merklize true dl d <> Ok r.
  Proof.
    intros Hf r H. destruct (merklize_true_ok _ _ _ H) as [os [Hos _]]. exact (Hf os Hos).
  Qed.

  (* C15_safe_rejects *)
  Theorem safe_rejects_undefined dl d p cn k :
    doc_member (view_compact dl) cf true d p cn k false -> key_defined cn k = false ->
    forall r, merklize true dl d <> Ok r.
  Proof.
    intros Ho Hd r H. pose proof (safe_ok_all_defined _ _ _ H _ _ _ Ho) as Hx.
    rewrite Hx in Hd. discriminate.
  Qed.

  Theorem safe_rejects_undefined_err dl d p cn k os r' :
    doc_member (view_compact dl) cf true d p cn k false -> key_defined cn k = false ->
    undefined_occ (view_compact dl) cf d = Ok os ->
    merklize false dl d = Ok r' ->
    merklize true dl d = Err "invalid property".
  Proof.
    intros Ho Hd Hos Hu.
    pose proof (walk_rejects _ _ _ _ _ _ _ _ _ _ _ Ho Hd eq_refl _ Hos) as Hx.
    revert Hu.
    unfold merklize_doc, merklize_gen, proc_normalize, proc_compact, expand, new_jsonld_options, safe_rejects. cbn.
    destruct (b_expand B (view_normalize dl) d) as [e| | |]; cbn; try discriminate.
    destruct (b_to_rdf B e) as [ds| | |]; cbn; try discriminate.
    destruct (build B no_faults t0 ds) as [r0| | |]; cbn; try discriminate.
    intros _. rewrite Hos. cbn. rewrite Hx. reflexivity.
  Qed.

  (* no spurious rejection: if every member expansion reaches is defined, safe mode
     behaves exactly like unsafe mode *)
  Theorem modes_agree_when_defined dl d os :
    undefined_occ (view_compact dl) cf d = Ok os ->
    (forall p cn k s, reach (view_compact dl) cf empty_ctx "" false false d p cn k s ->
                      key_defined cn k = true) ->
    merklize true dl d = merklize false dl d.
  Proof.
    intros Hos Hall.
    assert (os = []) as ->.
    { destruct os as [|[p s] t]; [reflexivity|].
      destruct (walk_sound _ _ _ _ _ _ _ _ p s Hos (or_introl eq_refl)) as [cn [k [Hr Hd]]].
      rewrite (Hall _ _ _ _ Hr) in Hd. discriminate. }
    unfold merklize_doc, merklize_gen, proc_normalize, proc_compact, expand, new_jsonld_options, safe_rejects. cbn.
    rewrite Hos. reflexivity.
  Qed.

  (* the refutation of the full statement: an undefined member inside an @set value
     is invisible to safe mode — both modes give the same result *)
  Theorem swallowed_invisible dl d os :
    undefined_occ (view_compact dl) cf d = Ok os -> existsb unswallowed os = false ->
    merklize true dl d = merklize false dl d.
  Proof.
    intros Hos Hex.
    unfold merklize_doc, merklize_gen, proc_normalize, proc_compact, expand, new_jsonld_options, safe_rejects. cbn.
    rewrite Hos. cbn. rewrite Hex. reflexivity.
  Qed.

  (* C15_unsafe — under the stated interface property of json-gold's expansion, for
     a loader that answers the same way in both phases *)
  Definition expand_ignores_undefined : Prop :=
    forall ld d, b_expand B ld d = b_expand B ld (strip_undefined ld cf d).
  Definition steady (ld : lview) : option dloader := Some {| dl_normalize := ld; dl_compact := ld |}.

  Theorem unsafe_is_stripped :
    expand_ignores_undefined ->
    forall ld d, merklize false (steady ld) d = merklize false (steady ld) (strip_undefined ld cf d).
  Proof.
    intros Hi ld d.
    unfold merklize_doc, merklize_gen, proc_normalize, proc_compact, expand, new_jsonld_options, steady. cbn.
    rewrite <- (Hi ld d). reflexivity.
  Qed.

  (* ... and the stripped document is, context-free, the document with exactly the
     members deleted that the scan reports (which are exactly the undefined members
     expansion reaches: walk_sound / walk_complete) *)
  Theorem unsafe_is_removal :
    expand_ignores_undefined ->
    forall ld d os, wf d -> undefined_occ ld cf d = Ok os ->
    merklize false (steady ld) d = merklize false (steady ld) (remove_members (map fst os) d).
  Proof.
    intros Hi ld d os Hwf Hos. rewrite (unsafe_is_stripped Hi ld d).
    rewrite (strip_is_removal ld cf d os Hwf Hos). reflexivity.
  Qed.

  (* ---- success covers the document ---- *)
  Lemma tree_add_ok t k v t' :
    tree_add t k v = Ok t' ->
    t_leaves t' = t_leaves t ++ [(k, v)] /\ t_adds t' = S (t_adds t) /\ t_fail_at t' = t_fail_at t /\
    t_fail_at t <> Some (t_adds t).
  Proof.
    unfold tree_add.
    destruct (t_fail_at t) as [n|] eqn:Ef.
    - destruct (Nat.eqb n (t_adds t)) eqn:En'; [discriminate|].
      destruct (existsb _ _); [discriminate|]. intro H. inversion H; subst; cbn.
      repeat split; auto. intro E'. inversion E'; subst. rewrite Nat.eqb_refl in En'. discriminate.
    - destruct (existsb _ _); [discriminate|]. intro H. inversion H; subst; cbn.
      repeat split; auto. discriminate.
  Qed.

  (* AddEntriesToMerkleTree as it is: success means every entry became a leaf, nothing
     else was added, the leaves present before are kept, and no Add call hit the
     failing step of the tree *)
  Lemma add_entries_ok es : forall t t',
    add_entries B no_faults t es = Ok t' ->
    (forall e, In e es -> exists k v, b_kv B e = Ok (k, v) /\ In (k, v) (t_leaves t')) /\
    List.length (t_leaves t') = List.length (t_leaves t) + List.length es /\
    incl (t_leaves t) (t_leaves t') /\
    t_adds t' = t_adds t + List.length es /\
    t_fail_at t' = t_fail_at t /\
    (forall n, t_fail_at t = Some n -> ~ (t_adds t <= n < t_adds t + List.length es)).
  Proof.
    induction es as [|e rest IH]; intros t t' H.
    - cbn in H. inversion H; subst. cbn [List.length].
      split; [intros e []|]. split; [lia|]. split; [apply incl_refl|]. split; [lia|].
      split; [reflexivity|]. intros n _. lia.
    - cbn in H. apply bind_ok in H. destruct H as [[k v] [Hkv H]]. cbn in H.
      destruct (tree_add t k v) as [t1| | |] eqn:Ea; try discriminate.
      destruct (tree_add_ok _ _ _ _ Ea) as [L1 [A1 [F1 N1]]].
      destruct (IH _ _ H) as [I1 [I2 [I3 [I4 [I5 I6]]]]].
      repeat split.
      + intros e' [E'|Hin].
        * subst e'. exists k, v. split; [exact Hkv|]. apply I3. rewrite L1. apply in_or_app. right. left. reflexivity.
        * apply I1. exact Hin.
      + rewrite I2, L1, app_length. cbn. lia.
      + intros x Hx. apply I3. rewrite L1. apply in_or_app. left. exact Hx.
      + rewrite I4, A1. cbn. lia.
      + rewrite I5. exact F1.
      + intros n Hn. rewrite <- F1 in Hn. specialize (I6 n Hn). rewrite A1 in I6. cbn.
        intro Hr. assert (n = t_adds t \/ S (t_adds t) <= n < S (t_adds t) + List.length rest) as [E'|E'] by lia.
        * subst n. rewrite F1 in Hn. exact (N1 Hn).
        * exact (I6 E').
  Qed.

  (* every successful merklization, in either mode: the entries are exactly what
     EntriesFromRDF produced for the dataset of THIS document (no error of it or of
     any Add was skipped), each of them is a leaf of the returned tree, the tree grew
     by exactly that many leaves, and no Add hit a failing step *)
  Theorem success_covers_entries safe dl d es t :
    merklize safe dl d = Ok (es, t) ->
    (exists e ds, b_expand B (view_normalize dl) d = Ok e /\ b_to_rdf B e = Ok ds /\ b_entries B ds = Ok es) /\
    (forall en, In en es -> exists k v, b_kv B en = Ok (k, v) /\ In (k, v) (t_leaves t)) /\
    List.length (t_leaves t) = List.length (t_leaves t0) + List.length es /\
    incl (t_leaves t0) (t_leaves t) /\
    (forall n, t_fail_at t0 = Some n -> ~ (t_adds t0 <= n < t_adds t0 + List.length es)).
  Proof.
    unfold merklize_doc, merklize_gen, proc_normalize, new_jsonld_options. cbn.
    intro H. apply bind_ok in H. destruct H as [ds [Hn H]].
    apply bind_ok in H. destruct H as [[es' t'] [Hb H]].
    apply bind_ok in H. destruct H as [cc [_ H]]. inversion H; subst es' t'. clear H.
    apply bind_ok in Hn. destruct Hn as [e [He Hr]].
    unfold build in Hb. cbn in Hb.
    apply bind_ok in Hb. destruct Hb as [es1 [He1 Hb]].
    apply bind_ok in Hb. destruct Hb as [t1 [Ha Hb]]. inversion Hb; subst es1 t1. clear Hb.
    destruct (add_entries_ok _ _ _ Ha) as [I1 [I2 [I3 [_ [_ I6]]]]].
    split; [|repeat split; auto].
    exists e, ds. repeat split; auto.
    destruct (b_entries B ds); try discriminate; exact He1.
  Qed.

  (* an Add failure of the caller's tree is propagated: never Ok *)
  Theorem add_failure_propagated safe dl d es t n :
    merklize safe dl d = Ok (es, t) -> t_fail_at t0 = Some n ->
    ~ (t_adds t0 <= n < t_adds t0 + List.length es).
  Proof. intros H Hn. destruct (success_covers_entries _ _ _ _ _ H) as [_ [_ [_ [_ I]]]]. exact (I n Hn). Qed.

  (* the document level.  [doc_facts ld d]: the facts stated by the members of [d] that
     are defined (what C01 calls the facts of the document; produced by json-gold's
     expansion + ToRDF + URDNA2015 and EntriesFromRDF); [fact_of]: the fact an entry
     stands for.  The hypothesis is the document-level reading of C01 (dataset level:
     proved in RDF/; JSON-LD level: differential), restated here as an explicit
     interface property of the backend. *)
  Section Facts.
    Context {F : Type} (fact_of : En -> F) (doc_facts : lview -> json -> list F).
    Definition entries_are_facts : Prop :=
      forall ld d e ds es, b_expand B ld d = Ok e -> b_to_rdf B e = Ok ds -> b_entries B ds = Ok es ->
                           Permutation (map fact_of es) (doc_facts ld d).

    Theorem success_covers_document safe dl d es t :
      entries_are_facts ->
      merklize safe dl d = Ok (es, t) ->
      Permutation (map fact_of es) (doc_facts (view_normalize dl) d) /\
      List.length es = List.length (doc_facts (view_normalize dl) d) /\
      (forall f, In f (doc_facts (view_normalize dl) d) ->
         exists en k v, In en es /\ fact_of en = f /\ b_kv B en = Ok (k, v) /\ In (k, v) (t_leaves t)) /\
      List.length (t_leaves t) = List.length (t_leaves t0) + List.length (doc_facts (view_normalize dl) d).
    Proof.
      intros Hf H. destruct (success_covers_entries _ _ _ _ _ H) as [[e [ds [H1 [H2 H3]]]] [I1 [I2 _]]].
      pose proof (Hf _ _ _ _ _ H1 H2 H3) as P.
      assert (L : List.length es = List.length (doc_facts (view_normalize dl) d)).
      { rewrite <- (Permutation_length P). rewrite map_length. reflexivity. }
      repeat split; auto.
      - intros f Hin. apply (Permutation_in _ (Permutation_sym P)) in Hin.
        apply in_map_iff in Hin. destruct Hin as [en [E' Hen]].
        destruct (I1 en Hen) as [k [v [K1 K2]]]. exists en, k, v. auto.
      - rewrite I2, L. reflexivity.
    Qed.
  End Facts.

  (* C15_unsafe at the level of entries and tree *)
  Theorem unsafe_equals_stripped :
    expand_ignores_undefined ->
    forall ld d es t,
    merklize false (steady ld) d = Ok (es, t) ->
    merklize false (steady ld) (strip_undefined ld cf d) = Ok (es, t).
  Proof. intros Hi ld d es t H. rewrite <- (unsafe_is_stripped Hi ld d). exact H. Qed.
End Backend.

Section Plumbing.
  Variable cf : nat.
  Context {E DS En C : Type} (B : backend E DS En C).
  Notation merklize := (merklize_doc cf B).

  (* ---- option plumbing ---- *)
  Definition effective_safe (opts : list mz_option) : bool :=
    fold_left (fun acc o => match o with WithSafeMode b => b | _ => acc end) opts true.
  Definition effective_doc_loader (opts : list mz_option) : option dloader :=
    fold_left (fun acc o => match o with WithDocumentLoader l => l | _ => acc end) opts None.
  Definition effective_ipfs (opts : list mz_option) : option dloader :=
    fold_left (fun acc o => match o with WithIPFS l => Some l | _ => acc end) opts None.
  Definition effective_tree (opts : list mz_option) : mtree :=
    match fold_left (fun acc o => match o with WithMerkleTree t => Some t | _ => acc end) opts None with
    | Some t => t
    | None => fresh_tree
    end.
  (* merklize.go:1631 getDocumentLoader *)
  Definition effective_loader (default : option dloader) (opts : list mz_option) : option dloader :=
    match effective_doc_loader opts with
    | Some l => Some l
    | None => match effective_ipfs opts with Some l => Some l | None => default end
    end.

  Lemma fold_fields opts : forall m,
    mz_safe_mode (fold_left apply_option opts m) =
      fold_left (fun acc o => match o with WithSafeMode b => b | _ => acc end) opts (mz_safe_mode m) /\
    mz_document_loader (fold_left apply_option opts m) =
      fold_left (fun acc o => match o with WithDocumentLoader l => l | _ => acc end) opts (mz_document_loader m) /\
    mz_ipfs (fold_left apply_option opts m) =
      fold_left (fun acc o => match o with WithIPFS l => Some l | _ => acc end) opts (mz_ipfs m) /\
    mz_tree (fold_left apply_option opts m) =
      fold_left (fun acc o => match o with WithMerkleTree t => Some t | _ => acc end) opts (mz_tree m).
  Proof.
    induction opts as [|o t IH]; intro m; cbn [fold_left]; [auto|].
    destruct o as [b|l|l|tr|].
    - exact (IH (apply_option m (WithSafeMode b))).
    - exact (IH (apply_option m (WithDocumentLoader l))).
    - exact (IH (apply_option m (WithIPFS l))).
    - exact (IH (apply_option m (WithMerkleTree tr))).
    - exact (IH m).
  Qed.

  Lemma new_merklizer_fields opts :
    mz_safe_mode (new_merklizer opts) = effective_safe opts /\
    mz_document_loader (new_merklizer opts) = effective_doc_loader opts /\
    mz_ipfs (new_merklizer opts) = effective_ipfs opts /\
    get_tree (new_merklizer opts) = effective_tree opts.
  Proof.
    destruct (fold_fields opts {| mz_safe_mode := true; mz_document_loader := None; mz_ipfs := None; mz_tree := None |})
      as [H1 [H2 [H3 H4]]].
    repeat split; auto. unfold get_tree, effective_tree, new_merklizer. rewrite H4. reflexivity.
  Qed.

  (* the mode never depends on the loader configuration, and vice versa *)
  Theorem plumbing_MerklizeJSONLD default opts d :
    MerklizeJSONLD cf B default opts d =
    merklize (effective_safe opts) (effective_loader default opts) (effective_tree opts) d.
  Proof.
    unfold MerklizeJSONLD, get_document_loader, effective_loader.
    destruct (new_merklizer_fields opts) as [H1 [H2 [H3 H4]]]. rewrite H1, H2, H3, H4. reflexivity.
  Qed.

  Lemma effective_safe_last opts b :
    effective_safe (opts ++ [WithSafeMode b]) = b.
  Proof. unfold effective_safe. rewrite fold_left_app. reflexivity. Qed.

  Lemma effective_safe_no_option opts :
    (forall o, In o opts -> forall b, o <> WithSafeMode b) -> effective_safe opts = true.
  Proof.
    unfold effective_safe. generalize true.
    induction opts as [|o t IH]; intros b H; cbn; [reflexivity|].
    destruct o as [b'| | | |]; try (apply IH; intros o' Ho'; apply H; right; exact Ho').
    exfalso. apply (H (WithSafeMode b') (or_introl eq_refl) b'). reflexivity.
  Qed.

  (* newJSONLDOptions sets the mode whatever the loader is (nil included) *)
  Lemma new_options_mode safe dl : ld_safe_mode (new_jsonld_options safe dl) = safe.
  Proof. reflexivity. Qed.

  (* Normalize never sees the mode; Compact does *)
  Lemma normalize_ignores_mode s1 s2 dl d :
    proc_normalize cf B (new_jsonld_options s1 dl) d = proc_normalize cf B (new_jsonld_options s2 dl) d.
  Proof. reflexivity. Qed.

  Lemma compact_sees_mode safe dl d :
    proc_compact cf B (new_jsonld_options safe dl) d =
    (e <- expand cf B safe (view_compact dl) d ;; b_compact B e).
  Proof. reflexivity. Qed.

  (* C15_default: with no safe-mode option every entry point is safe, whatever the
     loader configuration (explicit loader, IPFS, process-wide default, nil) *)
  Theorem default_safe default opts d :
    (forall o, In o opts -> forall b, o <> WithSafeMode b) ->
    MerklizeJSONLD cf B default opts d = merklize true (effective_loader default opts) (effective_tree opts) d /\
    W3CCredential_Merklize cf B default d opts = merklize true (effective_loader default opts) (effective_tree opts) d /\
    ToCoreClaim_merklize cf B default d (Some opts) = merklize true (effective_loader default opts) (effective_tree opts) d /\
    ToCoreClaim_merklize cf B default d None = merklize true default fresh_tree d /\
    VerifyProof_merklize cf B default d opts = merklize true (effective_loader default opts) (effective_tree opts) d /\
    ld_safe_mode (options_jsonld_options default) = true.
  Proof.
    intro H. pose proof (plumbing_MerklizeJSONLD default opts d) as P.
    rewrite (effective_safe_no_option opts H) in P.
    repeat split; try exact P.
  Qed.

  (* C15_plumbing: every entry point that merklizes runs merklize_doc in the mode
     selected by the caller's options (the last WithSafeMode wins, none = safe) *)
  Theorem plumbing_all default opts d :
    MerklizeJSONLD cf B default opts d = merklize (effective_safe opts) (effective_loader default opts) (effective_tree opts) d /\
    W3CCredential_Merklize cf B default d opts = merklize (effective_safe opts) (effective_loader default opts) (effective_tree opts) d /\
    ToCoreClaim_merklize cf B default d (Some opts) = merklize (effective_safe opts) (effective_loader default opts) (effective_tree opts) d /\
    VerifyProof_merklize cf B default d opts = merklize (effective_safe opts) (effective_loader default opts) (effective_tree opts) d.
  Proof. repeat split; apply plumbing_MerklizeJSONLD. Qed.
End Plumbing.

(* ------------------------------------------------------------ non-vacuity *)
Module Examples.
  Definition no_loader : lview := fun _ => Err "offline".
  Definition steady_none : option dloader := steady no_loader.
  Definition cx : json :=
    JObj [("ex", JStr "http://ex.org/v#"); ("name", JStr "ex:name");
          ("T", JObj [("@id", JStr "ex:T"); ("@context", JObj [("tp", JStr "ex:tp")])]);
          ("child", JObj [("@id", JStr "ex:child"); ("@context", JObj [("cp", JStr "ex:cp")])]);
          ("id", JStr "@id"); ("type", JStr "@type")].
  Definition doc (m : list (string * json)) : json := JObj (("@context", cx) :: m).

  (* a backend that always succeeds: the document is its own root *)
  (* the backend that always succeeds: one entry per document, key 1, value 2 *)
  Definition idB : backend json json unit unit :=
    {| b_expand := fun _ d => Ok d; b_to_rdf := fun d => Ok d; b_entries := fun _ => Ok [tt];
       b_kv := fun _ => Ok (1%Z, 2%Z); b_compact := fun _ => Ok tt |}.
  Definition one_leaf : result (En := unit) :=
    ([tt], {| t_leaves := [(1%Z, 2%Z)]; t_adds := 1; t_fail_at := None |}).

  Definition good := doc [("name", JStr "a"); ("child", JArr [JObj [("cp", JStr "r"); ("ex:q", JNum "1")]])].
  Definition bad_nested := doc [("name", JStr "a"); ("child", JArr [JObj [("cp", JStr "r"); ("zzz", JNum "1")]])].
  Definition bad_scope := doc [("type", JStr "T"); ("tp", JStr "in"); ("child", JObj [("tp", JStr "out")])].
  Definition bad_in_set := doc [("child", JObj [("@set", JArr [JObj [("cp", JStr "r"); ("zzz", JNum "1")]])])].
  Definition blank_prop := doc [("name", JStr "a"); ("_:p", JStr "b")].

  Example good_accepted : merklize_doc 20 idB true steady_none fresh_tree good = Ok one_leaf.
  Proof. vm_compute. reflexivity. Qed.
  Example bad_nested_rejected :
    merklize_doc 20 idB true steady_none fresh_tree bad_nested = Err "invalid property" /\
    undefined_occ no_loader 20 bad_nested = Ok [([PK "child"; PI 0%N; PK "zzz"], false)] /\
    merklize_doc 20 idB false steady_none fresh_tree bad_nested = Ok one_leaf.
  Proof. vm_compute. repeat split. Qed.
  Example bad_scope_rejected :
    undefined_occ no_loader 20 bad_scope = Ok [([PK "child"; PK "tp"], false)].
  Proof. vm_compute. reflexivity. Qed.
  Example stripped_nested :
    strip_undefined no_loader 20 bad_nested = doc [("name", JStr "a"); ("child", JArr [JObj [("cp", JStr "r")]])].
  Proof. vm_compute. reflexivity. Qed.

  (* the hypotheses of the theorems are satisfiable *)
  Example bad_nested_member :
    exists cn p, doc_member no_loader 20 true bad_nested p cn "zzz" false
               /\ p = [PK "child"; PI 0%N; PK "zzz"] /\ key_defined cn "zzz" = false.
  Proof.
    eexists. eexists. split; [|split].
    - unfold doc_member, bad_nested, doc.
      eapply occ_walk with (k := "child"); [vm_compute; reflexivity|right; right; left; reflexivity|vm_compute; reflexivity|].
      eapply occ_item with (i := 0%nat); [reflexivity|].
      eapply occ_here; [vm_compute; reflexivity|right; left; reflexivity|discriminate].
    - vm_compute. reflexivity.
    - vm_compute. reflexivity.
  Qed.

  (* REFUTATION of the full C15_safe on the code as it is (json-gold ignores the
     error of the nested Expand under @set): safe mode accepts a document in which
     the undefined member zzz occurs *)
  Example in_set_accepted :
    merklize_doc 20 idB true steady_none fresh_tree bad_in_set = Ok one_leaf /\
    undefined_occ no_loader 20 bad_in_set = Ok [([PK "child"; PK "@set"; PI 0%N; PK "zzz"], true)].
  Proof. vm_compute. split; reflexivity. Qed.

  (* json-gold's notion of "defined" is weaker than "expands to an absolute IRI" *)
  Example blank_property_passes :
    merklize_doc 20 idB true steady_none fresh_tree blank_prop = Ok one_leaf /\
    key_absolute (Ctx [] None None) "_:p" = false /\ key_defined (Ctx [] None None) "_:p" = true.
  Proof. vm_compute. repeat split. Qed.

  Example default_is_safe :
    MerklizeJSONLD 20 idB None [] bad_nested = Err "invalid property" /\
    MerklizeJSONLD 20 idB None [OOther; WithSafeMode false] bad_nested = Ok one_leaf /\
    MerklizeJSONLD 20 idB None [WithSafeMode false; WithDocumentLoader None; WithSafeMode true] bad_nested
      = Err "invalid property".
  Proof. vm_compute. repeat split. Qed.

  (* a remote context served while Normalize runs and gone when Compact runs: safe
     mode must fail (it does: the scan cannot load the context), although the
     entries were already built *)
  Definition remote_doc : json :=
    JObj [("@context", JStr "https://ctx.example/c"); ("name", JStr "a"); ("zzz", JNum "1")].
  Definition serving : lview := fun u =>
    if String.eqb u "https://ctx.example/c" then Ok (JObj [("@context", cx)]) else Err "404".
  Definition flaky : option dloader := Some {| dl_normalize := serving; dl_compact := no_loader |}.
  Example flaky_loader_rejected :
    merklize_doc 20 idB true flaky fresh_tree remote_doc = Err "loading remote context failed" /\
    merklize_doc 20 idB true (steady serving) fresh_tree remote_doc = Err "invalid property" /\
    (forall os, undefined_occ (view_compact flaky) 20 remote_doc <> Ok os).
  Proof. vm_compute. repeat split. intros os H. discriminate. Qed.

  (* nil process-wide loader, inline contexts: still safe *)
  Example nil_loader_still_safe :
    MerklizeJSONLD 20 idB None [] bad_nested = Err "invalid property" /\
    MerklizeJSONLD 20 idB None [] good = Ok one_leaf.
  Proof. vm_compute. split; reflexivity. Qed.

  (* caller trees: a failing Add and a pre-populated path make the merklization fail *)
  Definition failing0 : mtree := {| t_leaves := []; t_adds := 0; t_fail_at := Some 0 |}.
  Definition populated : mtree := {| t_leaves := [(1%Z, 7%Z)]; t_adds := 1; t_fail_at := None |}.
  Example add_failure_is_an_error :
    merklize_doc 20 idB true steady_none failing0 good = Err "tree storage failure" /\
    merklize_doc 20 idB true steady_none populated good = Err "entry index already exists" /\
    MerklizeJSONLD 20 idB None [WithMerkleTree failing0] good = Err "tree storage failure".
  Proof. vm_compute. repeat split. Qed.

  (* REFUTATION witnesses for the seeded variants: with one error check switched off
     the pipeline reports success while a field is missing from the tree *)
  Definition errB : backend json json unit unit :=
    {| b_expand := fun _ d => Ok d; b_to_rdf := fun d => Ok d; b_entries := fun _ => Err "unparsable literal";
       b_kv := fun _ => Ok (1%Z, 2%Z); b_compact := fun _ => Ok tt |}.
  Example seeded_k_refuted :   (* error of EntriesFromRDF dropped: success with NO entries *)
    merklize_gen 20 errB {| f_ignore_entries_err := true; f_ignore_add_err := false |} true steady_none fresh_tree good
      = Ok ([], fresh_tree) /\
    merklize_doc 20 errB true steady_none fresh_tree good = Err "unparsable literal".
  Proof. vm_compute. split; reflexivity. Qed.
  Example seeded_m_refuted :   (* error of mt.Add dropped: success, the entry is not a leaf *)
    merklize_gen 20 idB {| f_ignore_entries_err := false; f_ignore_add_err := true |} true steady_none failing0 good
      = Ok ([tt], {| t_leaves := []; t_adds := 1; t_fail_at := Some 0 |}) /\
    merklize_doc 20 idB true steady_none failing0 good = Err "tree storage failure".
  Proof. vm_compute. split; reflexivity. Qed.
End Examples.
