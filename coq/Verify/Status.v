(* Verify/Status.v — executable model of revocation-status validation (property C09;
   also the last step of BJJ proof verification, C07).  NO proofs in this file
   (theorems: Verify/StatusTheory.v, restated in Properties/C09.v; per-run evaluation:
   Verify/StatusRun.v).

   Go code modelled (as it is in /repo now, statement by statement):
     verifiable/credential_status.go  ValidateCredentialStatus, rootFromMerkleTreeProof,
                                      verifyMerkleTreeProof, coerceCredentialStatus,
                                      resolveRevStatus, validateTreeState
     verifiable/resolver.go           CredentialStatusResolverRegistry.Register / Get / Delete
     verifiable/status_direct.go      IssuerResolver.Resolve

   Conventions
   * every Go pointer is an `option` (or the three-valued `hexf` for `*string` holding
     a 32-byte hex value: nil / does not decode / decodes to z);
   * Poseidon is the Section variable `poseidon : list Z -> Z`; the ONLY thing the
     model adds is the library's explicit argument check (`poseidon.Hash` answers an
     error when an input is >= Q), with Q the Section variable `q`;
   * the tree functions are those of SMT/Model.v with hl k v = Poseidon[k;v;1],
     hm l r = Poseidon[l;r]; the Go entry points incl. their argument checks are
     `mt_root_from_proof` / SMT.Model;
   * a Merkle proof as decoded from JSON is an `rproof`: existence flag, ALL siblings
     (depth = their number), NodeAux = nil | {Key,Value} each possibly nil. *)
From Coq Require Import ZArith List String Ascii Bool Arith.
From GSP Require Import Base.Prelude SMT.Model.
Import ListNotations.
Open Scope list_scope.
Open Scope Z_scope.

(* `*string` that should hold the hex form of a 32-byte hash *)
Inductive hexf := HNil | HBad | HVal (z : Z).

(* merkletree.NewHashFromHex, the decoder of the *string members: the abstraction `hexf`
   used everywhere else is hex_decode of the Go string (hexf_of_member) --
   strings.TrimPrefix(h, "0x"); hex.DecodeString (even length, [0-9a-fA-F]); exactly 32
   bytes; the bytes are the little-endian form of the number. *)
Definition hex_digit (c : ascii) : option Z :=
  let n := Z.of_nat (nat_of_ascii c) in
  if (48 <=? n) && (n <=? 57) then Some (n - 48)
  else if (97 <=? n) && (n <=? 102) then Some (n - 87)
  else if (65 <=? n) && (n <=? 70) then Some (n - 55)
  else None.

(* bytes of an even-length hex string, None = hex.DecodeString fails *)
Fixpoint hex_bytes (s : string) : option (list Z) :=
  match s with
  | EmptyString => Some []
  | String _ EmptyString => None
  | String a (String b r) =>
      match hex_digit a, hex_digit b, hex_bytes r with
      | Some x, Some y, Some t => Some (16 * x + y :: t)
      | _, _, _ => None
      end
  end.

Fixpoint le_value (bs : list Z) : Z :=
  match bs with [] => 0 | b :: r => b + 256 * le_value r end.

Definition trim_0x (s : string) : string :=
  match s with
  | String "0" (String "x" r) => r
  | _ => s
  end.

Definition hex_decode (s : string) : hexf :=
  match hex_bytes (trim_0x s) with
  | Some bs => if Nat.eqb (List.length bs) 32 then HVal (le_value bs) else HBad
  | None => HBad
  end.

(* a `*string` member of TreeState *)
Definition hexf_of_member (s : option string) : hexf :=
  match s with None => HNil | Some x => hex_decode x end.

Record rproof := mkrp {
  r_ex : bool;
  r_sibs : list Z;
  r_aux : option (option Z * option Z)
}.

(* TreeState / the four members of State that validateIssuerState looks at *)
Record tree_state := mkts { ts_state : hexf; ts_ctr : hexf; ts_rtr : hexf; ts_ror : hexf }.

(* RevocationStatus *)
Record answer := mkans { a_issuer : tree_state; a_mtp : rproof }.

(* CredentialStatus: only Type and RevocationNonce are looked at by the code under
   test (ID and StatusIssuer are passed through to the resolver) *)
Record cred_status := mkcs { cs_type : string; cs_nonce : Z }.

(* what coerceCredentialStatus may be handed (an `any`) *)
Inductive raw_status :=
| RSPtr (cs : option cred_status)     (* *CredentialStatus, possibly a nil pointer *)
| RSVal (cs : cred_status)            (* CredentialStatus *)
| RSObj (parsed : option cred_status) (* jsonObj; None = it does not re-decode as a CredentialStatus *)
| RSOther.                            (* anything else, incl. an absent member (nil interface) *)

(* a registered resolver: None = it answered an error *)
Definition resolver := cred_status -> option answer.
Definition registry := list (string * resolver).

(* error classes *)
Definition ERevoked     : string := "revoked"%string.          (* ErrCredentialIsRevoked *)
Definition EStateNil    : string := "state-nil"%string.
Definition EHex         : string := "hex"%string.              (* NewHashFromHex failed *)
Definition EPoseidon    : string := "poseidon-field"%string.   (* poseidon.Hash: input >= Q *)
Definition ETreeState   : string := "tree-state"%string.       (* state <> H(ctr,rtr,ror) *)
Definition EProof       : string := "proof-invalid"%string.    (* verifyMerkleTreeProof = false *)
Definition EProofNil    : string := "proof-nil"%string.
Definition EAuxPartial  : string := "proof-aux-incomplete"%string.
Definition EMalformed   : string := "proof-malformed"%string.  (* recovered library panic *)
Definition EStatusType  : string := "status-type-unregistered"%string.
Definition EResolver    : string := "status-resolver"%string.
Definition EStatusJSON  : string := "status-json"%string.
Definition EStatusNoTyp : string := "status-no-type"%string.
Definition EStatusFmt   : string := "status-format"%string.
Definition EHTTP        : string := "http-transport"%string.
Definition EHTTPCode    : string := "http-status-code"%string.
Definition EHTTPSize    : string := "http-body-size"%string.
Definition EHTTPRead    : string := "http-read"%string.
Definition EHTTPJSON    : string := "http-json"%string.
Definition EHTTPClose   : string := "http-close"%string.

Definition limit_reader_bytes : Z := 16384.

(* IssuerResolver.Resolve, given what the transport did *)
Inductive http_result :=
| HTransportErr                         (* NewRequest / Client.Do returned an error *)
| HResp (code : Z)                      (* status code *)
        (body_len : Z)                  (* number of bytes the body delivers *)
        (read_ok : bool)                (* false: the body reader fails before EOF / the limit *)
        (parsed : option answer)        (* json.Unmarshal of the (whole) body *)
        (close_ok : bool).              (* Body.Close() *)

Definition http_resolve (h : http_result) : res answer :=
  match h with
  | HTransportErr => Err EHTTP
  | HResp code len read_ok parsed close_ok =>
      (* the deferred Close only replaces a nil error *)
      let r :=
        if negb ((200 <=? code) && (code <? 300)) then Err EHTTPCode
        else if negb read_ok then Err EHTTPRead
        (* LimitedReader.N <= 0 after ReadAll  <->  at least 16384 bytes were available *)
        else if limit_reader_bytes <=? len then Err EHTTPSize
        else of_option parsed EHTTPJSON in
      match r with
      | Ok a => if close_ok then Ok a else Err EHTTPClose
      | other => other
      end
  end.

(* RevocationStatus.UnmarshalJSON / decodeMTP (verifiable/credential.go, mtp_json.go).
   The JSON text of the body, once its syntax and member types are accepted by
   encoding/json (not modelled), is a `wire_status`: the issuer members and the "mtp"
   member - absent/null, or its three members as written: the existence flag, the
   siblings (a null sibling is None) and node_aux.  decodeMTP refuses more than 240
   siblings and a null sibling; otherwise flag, siblings and node_aux are taken over
   INDEPENDENTLY of each other; an absent/null "mtp" leaves the zero Proof. *)
Record wire_mtp := mkwm {
  w_ex : bool;
  w_sibs : list (option Z);
  w_aux : option (option Z * option Z)
}.
Record wire_status := mkws { w_issuer : tree_state; w_mtp : option wire_mtp }.

Definition EMtpMany : string := "mtp-too-many-siblings"%string.
Definition EMtpNull : string := "mtp-null-sibling"%string.
Definition max_mtp_siblings : nat := 240.

Fixpoint all_some (l : list (option Z)) : option (list Z) :=
  match l with
  | [] => Some []
  | None :: _ => None
  | Some x :: r => match all_some r with Some t => Some (x :: t) | None => None end
  end.

Definition decode_mtp (w : option wire_mtp) : res rproof :=
  match w with
  | None => Ok (mkrp false [] None)
  | Some m =>
      if Nat.ltb max_mtp_siblings (List.length (w_sibs m)) then Err EMtpMany
      else match all_some (w_sibs m) with
           | None => Err EMtpNull
           | Some ss => Ok (mkrp (w_ex m) ss (w_aux m))
           end
  end.

Definition decode_status (w : wire_status) : res answer :=
  p <- decode_mtp (w_mtp w) ;; Ok (mkans (w_issuer w) p).

(* json.Unmarshal(body, &out) in IssuerResolver.Resolve: None = encoding/json refused the
   text (syntax, member types, a sibling that is not a field element in decimal) *)
Definition parse_status_body (w : option wire_status) : option answer :=
  match w with
  | None => None
  | Some ws => match decode_status ws with Ok a => Some a | _ => None end
  end.

(* IssuerResolver as a registry entry: what the transport did is `h` *)
Definition http_resolver (h : http_result) : resolver :=
  fun _ => match http_resolve h with Ok a => Some a | _ => None end.

Definition lookup_resolver (reg : registry) (ty : string) : option resolver :=
  assoc String.eqb ty reg.

(* Register: `r.resolvers[resolverType] = resolver` (creates the map when nil);
   Delete: `delete(r.resolvers, resolverType)` (no-op on a nil map).  A nil map and an
   empty map behave alike for Get, so both are []. *)
Definition reg_register (reg : registry) (ty : string) (r : resolver) : registry :=
  upsert String.eqb ty r reg.
Definition reg_delete (reg : registry) (ty : string) : registry :=
  remove_key String.eqb ty reg.

(* a CredentialStatusValidationOption: WithValidationStatusResolverRegistry(r) (r may be a
   nil pointer) or a caller-defined option that answers an error *)
Inductive vopt := OptRegistry (r : option registry) | OptFail.
Definition EOption : string := "status-option"%string.

(* the option loop of ValidateCredentialStatus: later options overwrite earlier ones,
   the first failing one aborts *)
Fixpoint apply_opts (cur : option registry) (opts : list vopt) : res (option registry) :=
  match opts with
  | [] => Ok cur
  | OptRegistry r :: rest => apply_opts r rest
  | OptFail :: _ => Err EOption
  end.

(* coerceCredentialStatus: the result is a POINTER (nil for a nil *CredentialStatus) *)
Definition coerce_status (r : raw_status) : res (option cred_status) :=
  match r with
  | RSPtr p => Ok p
  | RSVal cs => Ok (Some cs)
  | RSObj None => Err EStatusJSON
  | RSObj (Some cs) => if String.eqb (cs_type cs) "" then Err EStatusNoTyp else Ok (Some cs)
  | RSOther => Err EStatusFmt
  end.

Section Status.
Variable poseidon : list Z -> Z.
Variable q : Z.

Definition hl (k v : Z) : Z := poseidon [k; v; 1].
Definition hm (l r : Z) : Z := poseidon [l; r].

(* poseidon.Hash on 1..16 inputs: error iff an input is outside the field *)
Definition pos_hash (l : list Z) : res Z :=
  if existsb (fun x => q <=? x) l then Err EPoseidon else Ok (poseidon l).

(* a hex member that defaults to the zero hash when absent *)
Definition hex_or_zero (h : hexf) : res Z :=
  match h with HNil => Ok 0 | HBad => Err EHex | HVal z => Ok z end.

(* validateTreeState *)
Definition validate_tree_state (i : tree_state) : res bool :=
  match ts_state i with
  | HNil => Err EStateNil
  | st =>
      ctr <- hex_or_zero (ts_ctr i) ;;
      rtr <- hex_or_zero (ts_rtr i) ;;
      ror <- hex_or_zero (ts_ror i) ;;
      want <- pos_hash [ctr; rtr; ror] ;;
      match st with
      | HVal s => Ok (want =? s)
      | _ => Err EHex
      end
  end.

(* rootFromMerkleTreeProof: nil proof, incomplete NodeAux, recovered panic -> error *)
Definition root_from_mtp (p : option rproof) (k v : Z) : res Z :=
  match p with
  | None => Err EProofNil
  | Some rp =>
      match (match r_aux rp with
             | None => Some None
             | Some (Some ak, Some av) => Some (Some (ak, av))
             | Some _ => None
             end) with
      | None => Err EAuxPartial
      | Some a =>
          match mt_root_from_proof hl hm q (mkproof (r_ex rp) (r_sibs rp) a) k v with
          | Panic _ => Err EMalformed
          | other => other
          end
      end
  end.

(* verifyMerkleTreeProof (rootKey is never nil at the three call sites) *)
Definition verify_mtp (r : Z) (p : option rproof) (k v : Z) : bool :=
  match root_from_mtp p k v with
  | Ok r' => r' =? r
  | _ => false
  end.

(* ValidateCredentialStatus after option processing; the RevocationStatus value is
   returned next to every error in Go, here only on success *)
Definition validate_status (reg : registry) (cs : cred_status) : res answer :=
  match lookup_resolver reg (cs_type cs) with
  | None => Err EStatusType
  | Some rslv =>
      match rslv cs with
      | None => Err EResolver
      | Some ans =>
          ok <- validate_tree_state (a_issuer ans) ;;
          if negb ok then Err ETreeState else
          revroot <- hex_or_zero (ts_rtr (a_issuer ans)) ;;
          if negb (verify_mtp revroot (Some (a_mtp ans)) (cs_nonce cs) 0) then Err EProof
          else if r_ex (a_mtp ans) then Err ERevoked
          else Ok ans
      end
  end.

(* ValidateCredentialStatus(ctx, credStatus, opts...): DefaultCredentialStatusResolverRegistry
   is `dflt`; calling Get on a nil *CredentialStatusResolverRegistry dereferences nil *)
Definition validate_credential_status (dflt : registry) (opts : list vopt) (cs : cred_status)
  : res answer :=
  o <- apply_opts (Some dflt) opts ;;
  match o with
  | None => Panic "nil *CredentialStatusResolverRegistry"
  | Some reg => validate_status reg cs
  end.

End Status.
