(* Verify/Status.v — executable model of revocation-status validation (property C09;
   also the last step of BJJ proof verification, C07).  NO proofs in this file
   (theorems: Verify/StatusTheory.v, restated in Properties/C09.v; per-run evaluation:
   Verify/StatusRun.v).

   Go code modelled (as it is in /repo now, statement by statement):
     verifiable/credential_status.go  ValidateCredentialStatus, rootFromMerkleTreeProof,
                                      verifyMerkleTreeProof, coerceCredentialStatus,
                                      resolveRevStatus, validateTreeState
     verifiable/resolver.go           CredentialStatusResolverRegistry.Register / Get / Delete
     verifiable/status_direct.go      IssuerResolver.Resolve

   Conventions
   * every Go pointer is an `option` (or the three-valued `hexf` for `*string` holding
     a 32-byte hex value: nil / does not decode / decodes to z);
   * Poseidon is the Section variable `poseidon : list Z -> Z`; the ONLY thing the
     model adds is the library's explicit argument check (`poseidon.Hash` answers an
     error when an input is >= Q), with Q the Section variable `q`;
   * the tree functions are those of SMT/Model.v with hl k v = Poseidon[k;v;1],
     hm l r = Poseidon[l;r]; the Go entry points incl. their argument checks are
     `mt_root_from_proof` / SMT.Model;
   * a Merkle proof as decoded from JSON is an `rproof`: existence flag, ALL siblings
     (depth = their number), NodeAux = nil | {Key,Value} each possibly nil. *)
From Coq Require Import ZArith List String Ascii Bool Arith.
From GSP Require Import Base.Prelude SMT.Model.
Import ListNotations.
Open Scope list_scope.
Open Scope Z_scope.

(* `*string` that should hold the hex form of a 32-byte hash *)
Inductive hexf := HNil | HBad | HVal (z : Z).

(* merkletree.NewHashFromHex, the decoder of the *string members: the abstraction `hexf`
   used everywhere else is hex_decode of the Go string (hexf_of_member) --
   strings.TrimPrefix(h, "0x"); hex.DecodeString (even length, [0-9a-fA-F]); exactly 32
   bytes; the bytes are the little-endian form of the number. *)
Definition hex_digit (c : ascii) : option Z :=
  let n := Z.of_nat (nat_of_ascii c) in
  if (48 <=? n) && (n <=? 57) then Some (n - 48)
  else if (97 <=? n) && (n <=? 102) then Some (n - 87)
  else if (65 <=? n) && (n <=? 70) then Some (n - 55)
  else None.

(* bytes of an even-length hex string, None = hex.DecodeString fails *)
Fixpoint hex_bytes (s : string) : option (list Z) :=
  match s with
  | EmptyString => Some []
  | String _ EmptyString => None
  | String a (String b r) =>
      match hex_digit a, hex_digit b, hex_bytes r with
      | Some x, Some y, Some t => Some (16 * x + y :: t)
      | _, _, _ => None
      end
  end.

Fixpoint le_value (bs : list Z) : Z :=
  match bs with [] => 0 | b :: r => b + 256 * le_value r end.

Definition trim_0x (s : string) : string :=
  match s with
  | String "0" (String "x" r) => r
  | _ => s
  end.

Definition hex_decode (s : string) : hexf :=
  match hex_bytes (trim_0x s) with
  | Some bs => if Nat.eqb (List.length bs) 32 then HVal (le_value bs) else HBad
  | None => HBad
  end.

(* a `*string` member of TreeState *)
Definition hexf_of_member (s : option string) : hexf :=
  match s with None => HNil | Some x => hex_decode x end.

Record rproof := mkrp {
  r_ex : bool;
  r_sibs : list Z;
  r_aux : option (option Z * option Z)
}.

(* TreeState / the four members of State that validateIssuerState looks at *)
Record tree_state := mkts { ts_state : hexf; ts_ctr : hexf; ts_rtr : hexf; ts_ror : hexf }.

(* RevocationStatus *)
Record answer := mkans { a_issuer : tree_state; a_mtp : rproof }.

(* CredentialStatus: only Type and RevocationNonce are looked at by the code under
   test (ID and StatusIssuer are passed through to the resolver) *)
Record cred_status := mkcs { cs_type : string; cs_nonce : Z }.

(* what coerceCredentialStatus may be handed (an `any`) *)
Inductive raw_status :=
| RSPtr (cs : option cred_status)     (* *CredentialStatus, possibly a nil pointer *)
| RSVal (cs : cred_status)            (* CredentialStatus *)
| RSObj (parsed : option cred_status) (* jsonObj; None = it does not re-decode as a CredentialStatus *)
| RSOther.                            (* anything else, incl. an absent member (nil interface) *)

(* a registered resolver: None = it answered an error *)
Definition resolver := cred_status -> option answer.
Definition registry := list (string * resolver).

(* error classes *)
Definition ERevoked     : string := "revoked"%string.          (* ErrCredentialIsRevoked *)
Definition EStateNil    : string := "state-nil"%string.
Definition EHex         : string := "hex"%string.              (* NewHashFromHex failed *)
Definition EPoseidon    : string := "poseidon-field"%string.   (* poseidon.Hash: input >= Q *)
Definition ETreeState   : string := "tree-state"%string.       (* state <> H(ctr,rtr,ror) *)
Definition EProof       : string := "proof-invalid"%string.    (* verifyMerkleTreeProof = false *)
Definition EProofNil    : string := "proof-nil"%string.
Definition EAuxPartial  : string := "proof-aux-incomplete"%string.
Definition EMalformed   : string := "proof-malformed"%string.  (* recovered library panic *)
Definition EStatusType  : string := "status-type-unregistered"%string.
Definition EResolver    : string := "status-resolver"%string.
Definition EStatusJSON  : string := "status-json"%string.
Definition EStatusNoTyp : string := "status-no-type"%string.
Definition EStatusFmt   : string := "status-format"%string.
Definition EHTTP        : string := "http-transport"%string.
Definition EHTTPCode    : string := "http-status-code"%string.
Definition EHTTPSize    : string := "http-body-size"%string.
Definition EHTTPRead    : string := "http-read"%string.
Definition EHTTPJSON    : string := "http-json"%string.
Definition EHTTPClose   : string := "http-close"%string.

Definition limit_reader_bytes : Z := 16384.

(* IssuerResolver.Resolve, given what the transport did *)
Inductive http_result :=
| HTransportErr                         (* NewRequest / Client.Do returned an error *)
| HResp (code : Z)                      (* status code *)
        (body_len : Z)                  (* number of bytes the body delivers *)
        (read_ok : bool)                (* false: the body reader fails before EOF / the limit *)
        (parsed : option answer)        (* json.Unmarshal of the (whole) body *)
        (close_ok : bool).              (* Body.Close() *)

Definition http_resolve (h : http_result) : res answer :=
  match h with
  | HTransportErr => Err EHTTP
  | HResp code len read_ok parsed close_ok =>
      (* the deferred Close only replaces a nil error *)
      let r :=
        if negb ((200 <=? code) && (code <? 300)) then Err EHTTPCode
        else if negb read_ok then Err EHTTPRead
        (* LimitedReader.N <= 0 after ReadAll  <->  at least 16384 bytes were available *)
        else if limit_reader_bytes <=? len then Err EHTTPSize
        else of_option parsed EHTTPJSON in
      match r with
      | Ok a => if close_ok then Ok a else Err EHTTPClose
      | other => other
      end
  end.

(* RevocationStatus.UnmarshalJSON / decodeMTP (verifiable/credential.go, mtp_json.go).
   The JSON text of the body, once its syntax and member types are accepted by
   encoding/json (not modelled), is a `wire_status`: the issuer members and the "mtp"
   member - absent/null, or its three members as written: the existence flag, the
   siblings (a null sibling is None) and node_aux.  decodeMTP refuses more than 240
   siblings and a null sibling; otherwise flag, siblings and node_aux are taken over
   INDEPENDENTLY of each other; an absent/null "mtp" leaves the zero Proof. *)
Record wire_mtp := mkwm {
  w_ex : bool;
  w_sibs : list (option Z);
  w_aux : option (option Z * option Z)
}.
Record wire_status := mkws { w_issuer : tree_state; w_mtp : option wire_mtp }.

Definition EMtpMany : string := "mtp-too-many-siblings"%string.
Definition EMtpNull : string := "mtp-null-sibling"%string.
Definition max_mtp_siblings : nat := 240.

Fixpoint all_some (l : list (option Z)) : option (list Z) :=
  match l with
  | [] => Some []
  | None :: _ => None
  | Some x :: r => match all_some r with Some t => Some (x :: t) | None => None end
  end.

Definition decode_mtp (w : option wire_mtp) : res rproof :=
  match w with
  | None => Ok (mkrp false [] None)
  | Some m =>
      if Nat.ltb max_mtp_siblings (List.length (w_sibs m)) then Err EMtpMany
      else match all_some (w_sibs m) with
           | None => Err EMtpNull
           | Some ss => Ok (mkrp (w_ex m) ss (w_aux m))
           end
  end.

Definition decode_status (w : wire_status) : res answer :=
  p <- decode_mtp (w_mtp w) ;; Ok (mkans (w_issuer w) p).

(* json.Unmarshal(body, &out) in IssuerResolver.Resolve: None = encoding/json refused the
   text (syntax, member types, a sibling that is not a field element in decimal) *)
Definition parse_status_body (w : option wire_status) : option answer :=
  match w with
  | None => None
  | Some ws => match decode_status ws with Ok a => Some a | _ => None end
  end.

(* ---- "the body is exactly ONE JSON value" (json.Unmarshal begins with checkValid: the
   scanner of encoding/json run over the whole text; anything but white space after the
   first complete value is an error, as is any lexical error anywhere).  Bytes >= 0x80 are
   accepted inside strings (Go replaces invalid UTF-8), control bytes < 0x20 are not.
   The scanner's nesting limit (10000) cannot be reached by a text shorter than the body
   limit that is otherwise valid, so it is not modelled. ---- *)
Inductive jtok := JLBrace | JRBrace | JLBrack | JRBrack | JColon | JComma | JScalar (is_str : bool).

Definition ch (n : nat) : ascii := ascii_of_nat n.
Definition is_c (c : ascii) (n : nat) : bool := Nat.eqb (nat_of_ascii c) n.
Definition is_ws (c : ascii) : bool := is_c c 32 || is_c c 9 || is_c c 10 || is_c c 13.
Definition is_dig (c : ascii) : bool := Nat.leb 48 (nat_of_ascii c) && Nat.leb (nat_of_ascii c) 57.
Definition is_hexc (c : ascii) : bool := match hex_digit c with Some _ => true | None => false end.

(* after the opening quote: the rest after the closing quote *)
Fixpoint lex_str (l : list ascii) : option (list ascii) :=
  match l with
  | [] => None
  | c :: r =>
      if is_c c 34 then Some r
      else if is_c c 92 then
        match r with
        | [] => None
        | e :: r' =>
            if is_c e 34 || is_c e 92 || is_c e 47 || is_c e 98 || is_c e 102 || is_c e 110
               || is_c e 114 || is_c e 116 then lex_str r'
            else if is_c e 117 then
              match r' with
              | h1 :: h2 :: h3 :: h4 :: r'' =>
                  if is_hexc h1 && is_hexc h2 && is_hexc h3 && is_hexc h4 then lex_str r'' else None
              | _ => None
              end
            else None
        end
      else if Nat.ltb (nat_of_ascii c) 32 then None
      else lex_str r
  end.

Fixpoint skip_digits (l : list ascii) : nat * list ascii :=
  match l with
  | c :: r => if is_dig c then let '(n, t) := skip_digits r in (S n, t) else (O, l)
  | [] => (O, [])
  end.

Definition lex_exp (r : list ascii) : option (list ascii) :=
  match r with
  | e :: r' =>
      if is_c e 101 || is_c e 69 then
        let r1 := match r' with s :: x => if is_c s 43 || is_c s 45 then x else r' | [] => r' end in
        let '(n, r2) := skip_digits r1 in
        match n with O => None | _ => Some r2 end
      else Some r
  | [] => Some r
  end.

Definition lex_frac (r : list ascii) : option (list ascii) :=
  match r with
  | d :: r' =>
      if is_c d 46 then
        let '(n, r2) := skip_digits r' in
        match n with O => None | _ => lex_exp r2 end
      else lex_exp r
  | [] => Some r
  end.

(* -? (0 | [1-9][0-9]* ) (. [0-9]+)? ([eE] [+-]? [0-9]+)? *)
Definition lex_number (l : list ascii) : option (list ascii) :=
  let l1 := match l with m :: r => if is_c m 45 then r else l | [] => l end in
  match l1 with
  | c :: r =>
      if is_c c 48 then lex_frac r
      else if is_dig c then lex_frac (snd (skip_digits r))
      else None
  | [] => None
  end.

Fixpoint strip_prefix (p : list nat) (l : list ascii) : option (list ascii) :=
  match p with
  | [] => Some l
  | n :: p' => match l with c :: r => if is_c c n then strip_prefix p' r else None | [] => None end
  end.

Fixpoint jlex (fuel : nat) (l : list ascii) (acc : list jtok) : option (list jtok) :=
  match l with
  | [] => Some (rev acc)
  | c :: r =>
      match fuel with
      | O => None
      | S f =>
          if is_ws c then jlex f r acc
          else if is_c c 123 then jlex f r (JLBrace :: acc)
          else if is_c c 125 then jlex f r (JRBrace :: acc)
          else if is_c c 91 then jlex f r (JLBrack :: acc)
          else if is_c c 93 then jlex f r (JRBrack :: acc)
          else if is_c c 58 then jlex f r (JColon :: acc)
          else if is_c c 44 then jlex f r (JComma :: acc)
          else if is_c c 34 then
            match lex_str r with Some r' => jlex f r' (JScalar true :: acc) | None => None end
          else if is_c c 45 || is_dig c then
            match lex_number l with Some r' => jlex f r' (JScalar false :: acc) | None => None end
          else if is_c c 116 then
            match strip_prefix [114; 117; 101]%nat r with
            | Some r' => jlex f r' (JScalar false :: acc) | None => None end
          else if is_c c 102 then
            match strip_prefix [97; 108; 115; 101]%nat r with
            | Some r' => jlex f r' (JScalar false :: acc) | None => None end
          else if is_c c 110 then
            match strip_prefix [117; 108; 108]%nat r with
            | Some r' => jlex f r' (JScalar false :: acc) | None => None end
          else None
      end
  end.

(* the grammar over tokens: a pushdown automaton; the stack holds true for an object *)
Inductive jst := SVal | SValOrClose | SKeyOrClose | SKey | SColon | SAfter.

Definition jstep (st : option (jst * list bool)) (t : jtok) : option (jst * list bool) :=
  match st with
  | None => None
  | Some (s, stk) =>
      match s, t with
      | (SVal | SValOrClose), JScalar _ => Some (SAfter, stk)
      | (SVal | SValOrClose), JLBrace => Some (SKeyOrClose, true :: stk)
      | (SVal | SValOrClose), JLBrack => Some (SValOrClose, false :: stk)
      | SValOrClose, JRBrack => match stk with false :: k => Some (SAfter, k) | _ => None end
      | SKeyOrClose, JScalar true => Some (SColon, stk)
      | SKeyOrClose, JRBrace => match stk with true :: k => Some (SAfter, k) | _ => None end
      | SKey, JScalar true => Some (SColon, stk)
      | SColon, JColon => Some (SVal, stk)
      | SAfter, JComma => match stk with true :: _ => Some (SKey, stk) | false :: _ => Some (SVal, stk) | [] => None end
      | SAfter, JRBrace => match stk with true :: k => Some (SAfter, k) | _ => None end
      | SAfter, JRBrack => match stk with false :: k => Some (SAfter, k) | _ => None end
      | _, _ => None
      end
  end.

Definition jaccepts (toks : list jtok) : bool :=
  match fold_left jstep toks (Some (SVal, [])) with
  | Some (SAfter, []) => true
  | _ => false
  end.

Definition json_one_value (s : string) : bool :=
  let l := list_ascii_of_string s in
  match jlex (S (List.length l)) l [] with
  | Some toks => jaccepts toks
  | None => false
  end.

(* IssuerResolver.Resolve over the bytes of the body: `wire` is what encoding/json makes
   of the members of a text it accepts (not modelled); the Content-Length header is not
   consulted by the code, only the bytes the body delivers count *)
Definition http_resolve_body (code : Z) (body : string) (read_ok close_ok : bool)
                             (wire : option wire_status) : res answer :=
  let len := Z.of_nat (String.length body) in
  http_resolve (HResp code len read_ok
                  (if limit_reader_bytes <=? len then None
                   else if json_one_value body then parse_status_body wire else None)
                  close_ok).

(* IssuerResolver as a registry entry: what the transport did is `h` *)
Definition http_resolver (h : http_result) : resolver :=
  fun _ => match http_resolve h with Ok a => Some a | _ => None end.

Definition lookup_resolver (reg : registry) (ty : string) : option resolver :=
  assoc String.eqb ty reg.

(* Register: `r.resolvers[resolverType] = resolver` (creates the map when nil);
   Delete: `delete(r.resolvers, resolverType)` (no-op on a nil map).  A nil map and an
   empty map behave alike for Get, so both are []. *)
Definition reg_register (reg : registry) (ty : string) (r : resolver) : registry :=
  upsert String.eqb ty r reg.
Definition reg_delete (reg : registry) (ty : string) : registry :=
  remove_key String.eqb ty reg.

(* a history of Register / Delete calls on one registry, oldest first *)
Inductive regop := ORegister (ty : string) (r : resolver) | ODelete (ty : string).
Definition reg_step (reg : registry) (o : regop) : registry :=
  match o with ORegister ty r => reg_register reg ty r | ODelete ty => reg_delete reg ty end.
Definition reg_history (reg : registry) (ops : list regop) : registry := fold_left reg_step ops reg.

(* a CredentialStatusValidationOption: WithValidationStatusResolverRegistry(r) (r may be a
   nil pointer) or a caller-defined option that answers an error *)
Inductive vopt := OptRegistry (r : option registry) | OptFail.
Definition EOption : string := "status-option"%string.

(* the option loop of ValidateCredentialStatus: later options overwrite earlier ones,
   the first failing one aborts *)
Fixpoint apply_opts (cur : option registry) (opts : list vopt) : res (option registry) :=
  match opts with
  | [] => Ok cur
  | OptRegistry r :: rest => apply_opts r rest
  | OptFail :: _ => Err EOption
  end.

(* coerceCredentialStatus: the result is a POINTER (nil for a nil *CredentialStatus) *)
Definition coerce_status (r : raw_status) : res (option cred_status) :=
  match r with
  | RSPtr p => Ok p
  | RSVal cs => Ok (Some cs)
  | RSObj None => Err EStatusJSON
  | RSObj (Some cs) => if String.eqb (cs_type cs) "" then Err EStatusNoTyp else Ok (Some cs)
  | RSOther => Err EStatusFmt
  end.

Section Status.
Variable poseidon : list Z -> Z.
Variable q : Z.

Definition hl (k v : Z) : Z := poseidon [k; v; 1].
Definition hm (l r : Z) : Z := poseidon [l; r].

(* poseidon.Hash on 1..16 inputs: error iff an input is outside the field *)
Definition pos_hash (l : list Z) : res Z :=
  if existsb (fun x => q <=? x) l then Err EPoseidon else Ok (poseidon l).

(* a hex member that defaults to the zero hash when absent *)
Definition hex_or_zero (h : hexf) : res Z :=
  match h with HNil => Ok 0 | HBad => Err EHex | HVal z => Ok z end.

(* validateTreeState *)
Definition validate_tree_state (i : tree_state) : res bool :=
  match ts_state i with
  | HNil => Err EStateNil
  | st =>
      ctr <- hex_or_zero (ts_ctr i) ;;
      rtr <- hex_or_zero (ts_rtr i) ;;
      ror <- hex_or_zero (ts_ror i) ;;
      want <- pos_hash [ctr; rtr; ror] ;;
      match st with
      | HVal s => Ok (want =? s)
      | _ => Err EHex
      end
  end.

(* rootFromMerkleTreeProof: nil proof, incomplete NodeAux, recovered panic -> error *)
Definition root_from_mtp (p : option rproof) (k v : Z) : res Z :=
  match p with
  | None => Err EProofNil
  | Some rp =>
      match (match r_aux rp with
             | None => Some None
             | Some (Some ak, Some av) => Some (Some (ak, av))
             | Some _ => None
             end) with
      | None => Err EAuxPartial
      | Some a =>
          match mt_root_from_proof hl hm q (mkproof (r_ex rp) (r_sibs rp) a) k v with
          | Panic _ => Err EMalformed
          | other => other
          end
      end
  end.

(* verifyMerkleTreeProof (rootKey is never nil at the three call sites) *)
Definition verify_mtp (r : Z) (p : option rproof) (k v : Z) : bool :=
  match root_from_mtp p k v with
  | Ok r' => r' =? r
  | _ => false
  end.

(* ValidateCredentialStatus after option processing; the RevocationStatus value is
   returned next to every error in Go, here only on success *)
Definition validate_status (reg : registry) (cs : cred_status) : res answer :=
  match lookup_resolver reg (cs_type cs) with
  | None => Err EStatusType
  | Some rslv =>
      match rslv cs with
      | None => Err EResolver
      | Some ans =>
          ok <- validate_tree_state (a_issuer ans) ;;
          if negb ok then Err ETreeState else
          revroot <- hex_or_zero (ts_rtr (a_issuer ans)) ;;
          if negb (verify_mtp revroot (Some (a_mtp ans)) (cs_nonce cs) 0) then Err EProof
          else if r_ex (a_mtp ans) then Err ERevoked
          else Ok ans
      end
  end.

(* ValidateCredentialStatus(ctx, credStatus, opts...): DefaultCredentialStatusResolverRegistry
   is `dflt`; calling Get on a nil *CredentialStatusResolverRegistry dereferences nil *)
Definition validate_credential_status (dflt : registry) (opts : list vopt) (cs : cred_status)
  : res answer :=
  o <- apply_opts (Some dflt) opts ;;
  match o with
  | None => Panic "nil *CredentialStatusResolverRegistry"
  | Some reg => validate_status reg cs
  end.

End Status.
