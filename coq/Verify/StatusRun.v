(* Verify/StatusRun.v — evaluation of per-run case files for the revocation-status model
   (property C09).  No proofs here.

   Five kinds of cases, each carrying what /repo's implementation did:

     CValidate  one call of verifiable.ValidateCredentialStatus with a stub resolver
                registry (built by a sequence of Register/Delete calls) whose selected
                resolver answers a given RevocationStatus (honest or with ONE fault);
                observed: validateTreeState(answer.Issuer), rootFromMerkleTreeProof
                (&answer.MTP, nonce, 0) (both through the add-only hooks of
                verifiable/verif_hooks_c09.go) and the class of the final result.
     CHttp      one call of IssuerResolver.Resolve against a stub http.RoundTripper.
     CCoerce    one call of coerceCredentialStatus.
     CE2E       ValidateCredentialStatus -> registry -> IssuerResolver.Resolve -> stub
                transport, i.e. the composition of the above through real JSON.
     CHex       one call of merkletree.NewHashFromHex (validates the model's `hexf`
                abstraction: Status.hex_decode is the model of that library function).

   Poseidon is a per-case table of PRIMITIVE calls (inputs -> output) recorded by the
   harness.  A miss answers -1, which is not a field element: it is not a key of any
   table, so it propagates up to the recomputed root / state, where it is detected
   (`ts_miss`, and the root comparison) and reported as a disagreement. *)
From Coq Require Import ZArith List String Ascii Bool Uint63.
From GSP Require Import Base.Prelude Base.Decode SMT.Model Verify.Status.
Import ListNotations.
Open Scope list_scope.
Open Scope Z_scope.

Definition miss : Z := -1.

Fixpoint zlist_eqb (a b : list Z) : bool :=
  match a, b with
  | [], [] => true
  | x :: a', y :: b' => if Z.eqb x y then zlist_eqb a' b' else false
  | _, _ => false
  end.

Fixpoint lookp (k : list Z) (t : list (list Z * Z)) : Z :=
  match t with
  | [] => miss
  | (a, b) :: r => if zlist_eqb a k then b else lookp k r
  end.

Definition raw_tab := list (list limbs * limbs).
Definition mk_tab (t : raw_tab) : list (list Z * Z) :=
  map (fun e => (map z_of_limbs (fst e), z_of_limbs (snd e))) t.

(* ---- inputs as written by the harness ---- *)
Inductive raw_hexf := XNil | XBad | XVal (z : limbs).
Definition hexf_of (x : raw_hexf) : hexf :=
  match x with XNil => HNil | XBad => HBad | XVal z => HVal (z_of_limbs z) end.

Definition raw_aux := option (option limbs * option limbs).
Definition aux_of (a : raw_aux) : option (option Z * option Z) :=
  match a with
  | None => None
  | Some (k, v) => Some (option_map z_of_limbs k, option_map z_of_limbs v)
  end.

Inductive raw_answer :=
  mkra (st ctr rtr ror : raw_hexf) (ex : bool) (sibs : list limbs) (aux : raw_aux).
Definition answer_of (a : raw_answer) : answer :=
  match a with
  | mkra st ctr rtr ror e ss ax =>
      mkans (mkts (hexf_of st) (hexf_of ctr) (hexf_of rtr) (hexf_of ror))
            (mkrp e (map z_of_limbs ss) (aux_of ax))
  end.

(* the body of a status response as encoding/json sees it (recorded by an independent
   decode into mirror types, NOT through RevocationStatus.UnmarshalJSON) *)
Inductive raw_wmtp := mkrwm (ex : bool) (sibs : list (option limbs)) (aux : raw_aux).
Inductive raw_wire := mkrw (st ctr rtr ror : raw_hexf) (mtp : option raw_wmtp).
Definition wire_of (w : raw_wire) : wire_status :=
  match w with
  | mkrw st ctr rtr ror mtp =>
      mkws (mkts (hexf_of st) (hexf_of ctr) (hexf_of rtr) (hexf_of ror))
           (match mtp with
            | None => None
            | Some (mkrwm e ss ax) => Some (mkwm e (map (option_map z_of_limbs) ss) (aux_of ax))
            end)
  end.
Definition parsed_of (w : option raw_wire) : option answer :=
  parse_status_body (option_map wire_of w).

(* the answer of the decoy resolvers: the zero value of RevocationStatus *)
Definition empty_answer : answer := mkans (mkts HNil HNil HNil HNil) (mkrp false [] None).

(* registry scenario: Register(type, resolver of the given kind) / Delete(type)
   kind 0: answers the case's answer; 1: answers an error; 2: answers the zero value *)
Inductive rop := RReg (ty : string) (kind : int) | RDel (ty : string).

(* the answering stub resolver answers only when it is handed the credential status the
   caller passed to ValidateCredentialStatus (type and nonce), like the Go stub *)
Definition resolver_of (exp : cred_status) (a : answer) (kind : int) : resolver :=
  if Uint63.eqb kind 0%uint63 then
    (fun cs => if String.eqb (cs_type cs) (cs_type exp) && (cs_nonce cs =? cs_nonce exp)
               then Some a else None)
  else if Uint63.eqb kind 1%uint63 then (fun _ => None)
  else (fun _ => Some empty_answer).

(* the registry after the history (Status.reg_history, the function of C09_registry_history) *)
Definition regop_of (exp : cred_status) (a : answer) (o : rop) : regop :=
  match o with
  | RReg ty k => ORegister ty (resolver_of exp a k)
  | RDel ty => ODelete ty
  end.
Definition apply_rops (exp : cred_status) (a : answer) (reg : registry) (ops : list rop) : registry :=
  reg_history reg (map (regop_of exp a) ops).

(* what coerceCredentialStatus is given *)
Inductive raw_cs := mkrcs (ty : string) (nonce : limbs).
Definition cs_of (c : raw_cs) : cred_status :=
  match c with mkrcs ty n => mkcs ty (z_of_limbs n) end.
Inductive raw_shape :=
| ShPtr (c : option raw_cs) | ShVal (c : raw_cs) | ShObj (parsed : option raw_cs) | ShOther.
Definition shape_of (s : raw_shape) : raw_status :=
  match s with
  | ShPtr c => RSPtr (option_map cs_of c)
  | ShVal c => RSVal (cs_of c)
  | ShObj p => RSObj (option_map cs_of p)
  | ShOther => RSOther
  end.
(* observed: 0 = error; 1 = nil pointer, nil error; 2 = pointer to (type, nonce) *)
Inductive cobs := CoErr | CoNil | CoVal (c : raw_cs).

(* observed result of Resolve *)
Inductive hobs := HoOk (a : raw_answer) | HoErr | HoPanic.

Inductive scase :=
| CValidate (id : int) (tab : raw_tab)
    (optk : int)         (* 0: ops build the DEFAULT registry, no option;
                            1: ops build a registry passed by WithValidationStatusResolverRegistry,
                               the default registry holds an error resolver for the type;
                            2: as 1, followed by an option that fails;
                            3: WithValidationStatusResolverRegistry(nil) *)
    (ops : list rop) (ty : string) (nonce : limbs) (a : raw_answer)
    (o_ts : int)         (* validateTreeState: 0 (true,nil) 1 (false,nil) 2 error *)
    (o_root : option limbs) (* rootFromMerkleTreeProof(&mtp, nonce, 0): root / error *)
    (o_cls : int)        (* ValidateCredentialStatus: 0 nil, 1 ErrCredentialIsRevoked,
                            2 any other error, 3 panic *)
| CHttp (id : int) (transport_ok : bool) (code : limbs) (len : limbs) (read_ok : bool)
    (core : string) (padc padn : int) (* the bytes the body delivered: core ++ padc^padn *)
    (wire : option raw_wire)  (* the members as encoding/json sees them; None = refused *)
    (close_ok : bool) (obs : hobs)
| CCoerce (id : int) (sh : raw_shape) (obs : cobs)
| CHex (id : int) (s : string) (obs : raw_hexf)
| CE2E (id : int) (tab : raw_tab) (ty : string) (nonce : limbs)
    (* ValidateCredentialStatus with IssuerResolver registered for ty in the default
       registry and a stub transport answering (code, body): len = size of the body,
       wire = the body as encoding/json sees it; o_dec = json.Unmarshal of the whole body
       into a RevocationStatus (the decoded view the implementation works with) *)
    (code : limbs) (len : limbs) (wire : option raw_wire) (o_dec : hobs) (o_cls : int).

Definition case_id (c : scase) : int :=
  match c with
  | CValidate id _ _ _ _ _ _ _ _ _ => id
  | CHttp id _ _ _ _ _ _ _ _ _ _ => id
  | CCoerce id _ _ => id
  | CHex id _ _ => id
  | CE2E id _ _ _ _ _ _ _ _ => id
  end.

Definition nat_of_int (i : int) : nat := Z.to_nat (Uint63.to_Z i).
Fixpoint pad_string (n : nat) (c : ascii) : string :=
  match n with O => EmptyString | S m => String c (pad_string m c) end.

(* ---- comparison helpers ---- *)
Definition hexf_eqb (a b : hexf) : bool :=
  match a, b with
  | HNil, HNil => true
  | HBad, HBad => true
  | HVal x, HVal y => Z.eqb x y
  | _, _ => false
  end.
Definition oz_eqb (a b : option Z) : bool := option_eqb Z.eqb a b.
Definition raux_eqb (a b : option (option Z * option Z)) : bool :=
  match a, b with
  | None, None => true
  | Some (k, v), Some (k', v') => oz_eqb k k' && oz_eqb v v'
  | _, _ => false
  end.
Definition answer_eqb (a b : answer) : bool :=
  let i := a_issuer a in let j := a_issuer b in
  let p := a_mtp a in let p' := a_mtp b in
  hexf_eqb (ts_state i) (ts_state j) && hexf_eqb (ts_ctr i) (ts_ctr j)
  && hexf_eqb (ts_rtr i) (ts_rtr j) && hexf_eqb (ts_ror i) (ts_ror j)
  && Bool.eqb (r_ex p) (r_ex p') && zlist_eqb (r_sibs p) (r_sibs p')
  && raux_eqb (r_aux p) (r_aux p').

Definition cls_of {A} (r : res A) : int :=
  match r with
  | Ok _ => 0%uint63
  | Err t => if String.eqb t ERevoked then 1%uint63 else 2%uint63
  | Panic _ => 3%uint63
  | Diverge => 4%uint63
  end.

(* ---- evaluation ---- *)
Section Eval.
Variable q : Z.

(* did the state hash that validate_tree_state asks for miss the table?  (the model
   reaches that call only when State is set and the three roots decode) *)
Definition ts_miss (P : list Z -> Z) (i : tree_state) : bool :=
  match ts_state i with
  | HNil => false
  | _ =>
    match hex_or_zero (ts_ctr i), hex_or_zero (ts_rtr i), hex_or_zero (ts_ror i) with
    | Ok c, Ok r, Ok o =>
        match pos_hash P q [c; r; o] with Ok w => w =? miss | _ => false end
    | _, _, _ => false
    end
  end.

Definition agree (c : scase) : bool :=
  match c with
  | CValidate _ tab optk ops ty nonce ra o_ts o_root o_cls =>
      let t := mk_tab tab in
      let P := fun l => lookp l t in
      let a := answer_of ra in
      let n := z_of_limbs nonce in
      let cs := mkcs ty n in
      let reg := apply_rops cs a [] ops in
      let m_ts := match validate_tree_state P q (a_issuer a) with
                  | Ok true => 0%uint63 | Ok false => 1%uint63 | Err _ => 2%uint63
                  | _ => 3%uint63 end in
      let m_root_ok := match root_from_mtp P q (Some (a_mtp a)) n 0, o_root with
                       | Ok r, Some r' => r =? z_of_limbs r'
                       | Err _, None => true
                       | _, _ => false end in
      let dflt_err := reg_register [] ty (fun _ => None) in
      let m_res :=
        if Uint63.eqb optk 0%uint63 then validate_credential_status P q reg [] cs
        else if Uint63.eqb optk 1%uint63 then
          validate_credential_status P q dflt_err [OptRegistry (Some reg)] cs
        else if Uint63.eqb optk 2%uint63 then
          validate_credential_status P q dflt_err [OptRegistry (Some reg); OptFail] cs
        else validate_credential_status P q reg [OptRegistry None] cs in
      Uint63.eqb m_ts o_ts && m_root_ok && negb (ts_miss P (a_issuer a))
      && Uint63.eqb (cls_of m_res) o_cls
  | CHttp _ tok code len read_ok core padc padn wire close_ok obs =>
      let body := append core (pad_string (nat_of_int padn) (ascii_of_nat (nat_of_int padc))) in
      let r := if tok then http_resolve_body (z_of_limbs code) body read_ok close_ok
                             (option_map wire_of wire)
               else http_resolve HTransportErr in
      (Z.of_nat (String.length body) =? z_of_limbs len) &&
      match r, obs with
      | Ok a, HoOk a' => answer_eqb a (answer_of a')
      | Err _, HoErr => true
      | _, _ => false
      end
  | CCoerce _ sh obs =>
      match coerce_status (shape_of sh), obs with
      | Ok None, CoNil => true
      | Ok (Some cs), CoVal rc =>
          let cs' := cs_of rc in
          String.eqb (cs_type cs) (cs_type cs') && (cs_nonce cs =? cs_nonce cs')
      | Err _, CoErr => true
      | _, _ => false
      end
  | CHex _ s obs => hexf_eqb (hex_decode s) (hexf_of obs)
  | CE2E _ tab ty nonce code len wire o_dec o_cls =>
      let t := mk_tab tab in
      let P := fun l => lookp l t in
      let n := z_of_limbs nonce in
      let h := HResp (z_of_limbs code) (z_of_limbs len) true (parsed_of wire) true in
      let dec_ok := match parsed_of wire, o_dec with
                    | Some a, HoOk a' => answer_eqb a (answer_of a')
                    | None, HoErr => true
                    | _, _ => false end in
      let rslv := http_resolver h in
      let missed := match http_resolve h with
                    | Ok a => ts_miss P (a_issuer a)
                              || match root_from_mtp P q (Some (a_mtp a)) n 0 with
                                 | Ok r => r =? miss | _ => false end
                    | _ => false end in
      Uint63.eqb (cls_of (validate_credential_status P q (reg_register [] ty rslv) [] (mkcs ty n))) o_cls
      && negb missed && dec_ok
  end.
End Eval.

(* ids of the cases on which model and implementation disagree *)
Definition smismatches (q : limbs) (cs : list scase) : list int :=
  let qz := z_of_limbs q in
  fold_right (fun c acc => if agree qz c then acc else case_id c :: acc) [] cs.
