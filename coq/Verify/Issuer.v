(* Verify/Issuer.v — model pieces shared by the two proof verifiers (C07, C08):
   core claims, the issuer-state consistency check and the "published or genesis"
   decision.  NO proofs in this file.

   Go code modelled (as it is in /repo now):
     verifiable/credential.go  validateIssuerState; the block
                               ParseDID .. State.Value .. NewHashFromHex .. Resolve ..
                               getIden3StateInfo2023FromDIDDocument .. Published .. IDFromDID ..
                               CheckGenesisStateID
                               (identical in verifyBJJSignatureProof and
                               verifyIden3SparseMerkleTreeProof)
     go-iden3-core Claim.HiHv, GetRevocationNonce, RawSlotsAsInts

   External code is abstract (Section variables): Poseidon, the DID resolver, DID -> ID,
   CheckGenesisStateID.  `D` is the type of parsed DIDs. *)
From Coq Require Import ZArith List String Bool Arith.
From GSP Require Import Base.Prelude SMT.Model Verify.Status.
Import ListNotations.
Open Scope list_scope.
Open Scope Z_scope.

(* core.Claim: four index slots, four value slots *)
Record claim := mkclaim { i0 : Z; i1 : Z; i2 : Z; i3 : Z; v0 : Z; v1 : Z; v2 : Z; v3 : Z }.

(* GetRevocationNonce: the low 8 bytes of value slot 0 *)
Definition claim_nonce (c : claim) : Z := v0 c mod 2 ^ 64.

(* the `state` member of issuerData *)
Record istate := mkistate { st_value : hexf; st_ctr : hexf; st_rtr : hexf; st_ror : hexf }.

(* what the DID resolver answered *)
Inductive did_answer :=
| DErr                                      (* Resolve returned an error *)
| DDoc (info : option (option bool)).       (* None: no Iden3StateInfo2023 method;
                                               Some p: that method's `published` pointer *)

(* DIDDocument.verificationMethod as far as the verifier looks at it: the entry's type is
   "Iden3StateInfo2023" (with its `published` pointer) or anything else.
   getIden3StateInfo2023FromDIDDocument takes the FIRST entry of that type (copy + break). *)
Inductive vmethod := VMOther | VMStateInfo (published : option bool).
Fixpoint state_info (vms : list vmethod) : option (option bool) :=
  match vms with
  | [] => None
  | VMStateInfo p :: _ => Some p
  | VMOther :: r => state_info r
  end.
(* a resolved DID document *)
Definition did_doc (vms : list vmethod) : did_answer := DDoc (state_info vms).

Definition EDid        : string := "did-parse"%string.
Definition EStateUnset : string := "state-value-unset"%string.
Definition EStateHex   : string := "state-value-hex"%string.
Definition EResolve    : string := "did-resolve"%string.
Definition ENoStateInf : string := "did-doc-no-stateinfo"%string.
Definition EIdFromDid  : string := "id-from-did"%string.
Definition EGenesisErr : string := "genesis-check-error"%string.
Definition ENotGenesis : string := "not-published-not-genesis"%string.
Definition EIssuerSt   : string := "issuer-state-inconsistent"%string.

Section Issuer.
Variable poseidon : list Z -> Z.
Variable q : Z.
Variable D : Type.
Variable resolve_did : D -> Z -> did_answer.      (* DID, state put in the query *)
Variable id_from_did : D -> Z -> option Z.        (* core.IDFromDID of the DID carrying that query *)
Variable genesis_check : Z -> Z -> option bool.   (* core.CheckGenesisStateID id state; None = error *)

Notation pos_hash := (pos_hash poseidon q).

(* Claim.HIndex / HValue / HiHv *)
Definition claim_hi_hv (c : claim) : res (Z * Z) :=
  hi <- pos_hash [i0 c; i1 c; i2 c; i3 c] ;;
  hv <- pos_hash [v0 c; v1 c; v2 c; v3 c] ;;
  Ok (hi, hv).

(* validateIssuerState *)
Definition validate_issuer_state (s : istate) : res unit :=
  ok <- validate_tree_state poseidon q (mkts (st_value s) (st_ctr s) (st_rtr s) (st_ror s)) ;;
  if ok then Ok tt else Err EIssuerSt.

(* ParseDID .. CheckGenesisStateID; the result is the issuer state value *)
Definition check_state_published (did : option D) (s : istate) : res Z :=
  match did with
  | None => Err EDid
  | Some d =>
      match st_value s with
      | HNil => Err EStateUnset
      | HBad => Err EStateHex
      | HVal st =>
          match resolve_did d st with
          | DErr => Err EResolve
          | DDoc None => Err ENoStateInf
          | DDoc (Some (Some true)) => Ok st
          | DDoc (Some _) =>
              match id_from_did d st with
              | None => Err EIdFromDid
              | Some id =>
                  match genesis_check id st with
                  | None => Err EGenesisErr
                  | Some false => Err ENotGenesis
                  | Some true => Ok st
                  end
              end
          end
      end
  end.

End Issuer.
