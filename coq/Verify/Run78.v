(* Verify/Run78.v — evaluation of per-run case files for C07 / C08.
   The harness writes, per shard: tables of PRIMITIVE calls it made itself with the real
   libraries (one Poseidon hash, one BabyJubJub verification, one IDFromDID, one
   CheckGenesisStateID), the decoded members of every proof bundle, the scripted answers
   of the stub DID resolver / status resolvers, and what W3CCredential.VerifyProof did.
   `mismatches7` / `mismatches8` run the models (Verify/Top78.v, BJJ.v, SMTProof.v) on
   them and list the ids of the cases where model and implementation disagree.

   Oracle misses.  The models take total functions, so a missing table entry cannot be an
   outcome of the model itself.  It is detected separately: `closed7` / `closed8` walk the
   chain of primitive calls the bundle can give rise to (every call whose arguments are
   defined, whether or not the model reaches it) and require each to be in the tables; a
   case that is not closed is reported as a disagreement.  Independently a missing hash
   evaluates to -1 (never a hash value, never equal to a decoded member). *)
From Coq Require Import ZArith List String Bool Arith Uint63.
From GSP Require Import Base.Prelude Base.Decode SMT.Model Verify.Status Verify.Issuer
  Verify.BJJ Verify.SMTProof Verify.Top78 Verify.Hex78.
Import ListNotations.
Open Scope list_scope.
Open Scope Z_scope.

Definition zl := z_of_limbs.
Definition zi (i : int) : Z := Uint63.to_Z i.

(* ---------------- raw (limb-encoded) forms ---------------- *)
Definition mkcl (a b c d e f g h : limbs) : claim :=
  mkclaim (zl a) (zl b) (zl c) (zl d) (zl e) (zl f) (zl g) (zl h).
Definition mkrp_ (ex : bool) (sibs : list limbs) (aux : option (option limbs * option limbs)) : rproof :=
  mkrp ex (map zl sibs)
       (match aux with
        | None => None
        | Some (k, v) => Some (option_map zl k, option_map zl v)
        end).
(* the hash-valued members arrive as the strings that stand in the proof / in the status
   answer; their decoding (NewHashFromHex) is part of the model: Verify/Hex78.v *)
Definition mkst_ (v c r o : option string) : istate :=
  mkistate (hexf_of_str v) (hexf_of_str c) (hexf_of_str r) (hexf_of_str o).
Definition mkans_ (s c r o : option string) (p : rproof) : answer :=
  mkans (mkts (hexf_of_str s) (hexf_of_str c) (hexf_of_str r) (hexf_of_str o)) p.

(* issuerData.credentialStatus after JSON decoding *)
(* JSON values of a status object as written by the harness *)
Inductive rjv := RJNull | RJStr (s : string) | RJNum (n : limbs) | RJObj (o : list (string * rjv)) | RJBad.
Fixpoint jv_of (fuel : nat) (v : rjv) : jv :=
  match fuel with
  | O => JBad
  | S f =>
      match v with
      | RJNull => JNull | RJStr s => JStr s | RJNum n => JNum (zl n) | RJBad => JBad
      | RJObj o => JObj (map (fun kv => (fst kv, jv_of f (snd kv))) o)
      end
  end.
Fixpoint rjv_nums (fuel : nat) (v : rjv) : list Z :=
  match fuel with
  | O => []
  | S f =>
      match v with
      | RJNum n => [zl n]
      | RJObj o => flat_map (fun kv => rjv_nums f (snd kv)) o
      | _ => []
      end
  end.

Inductive rstatus :=
| SJson (o : list (string * rjv))             (* the status object as it stands in the proof *)
| SRaw (ty : string) (n : limbs)              (* object whose revocationNonce is the integer literal n *)
| SObj (parsed : option (string * limbs))     (* any other object, as the library decodes it *)
| SOther.

(* environment of one case: the scripts of the stub resolvers *)
Record env := mkenv_r {
  e_did : list ((Z * Z) * did_answer);      (* (DID number, state in the query) -> answer; else error *)
  e_reg : list (string * option answer)     (* registered status type -> answer (None = resolver error) *)
}.
Definition mkenv (d : list ((int * limbs) * did_answer)) (r : list (string * option answer)) : env :=
  mkenv_r (map (fun x => ((zi (fst (fst x)), zl (snd (fst x))), snd x)) d) r.

(* primitive-call tables of a shard *)
Record tables := mktab_r {
  t_q   : Z;
  t_pos : list (list Z * Z);               (* poseidon.Hash inputs -> output *)
  t_sig : list ((Z * Z * Z * Z) * bool);   (* (pk.X, pk.Y, msg, sig) -> VerifyPoseidon *)
  t_idd : list ((Z * Z) * option Z);       (* (DID number, state) -> core.IDFromDID(did?state=..).BigInt() *)
  t_gen : list ((Z * Z) * option bool);    (* (id, state) -> core.CheckGenesisStateID; None = error *)
  t_jrt : list (Z * option Z)              (* integer literal -> encoding/json any/float64 -> uint64 round trip *)
}.
Definition mktab (q : limbs) (pos : list (list limbs * limbs))
    (sg : list ((limbs * limbs * limbs * limbs) * bool))
    (idd : list ((int * limbs) * option limbs))
    (gen : list ((limbs * limbs) * option bool))
    (jrt : list (limbs * option limbs)) : tables :=
  mktab_r (zl q)
    (map (fun x => (map zl (fst x), zl (snd x))) pos)
    (map (fun x => let '(a, b, c, d) := fst x in ((zl a, zl b, zl c, zl d), snd x)) sg)
    (map (fun x => ((zi (fst (fst x)), zl (snd (fst x))), option_map zl (snd x))) idd)
    (map (fun x => ((zl (fst (fst x)), zl (snd (fst x))), snd x)) gen)
    (map (fun x => (zl (fst x), option_map zl (snd x))) jrt).

(* ---------------- lookups ---------------- *)
Fixpoint zlist_eqb (a b : list Z) : bool :=
  match a, b with
  | [], [] => true
  | x :: a', y :: b' => Z.eqb x y && zlist_eqb a' b'
  | _, _ => false
  end.
Fixpoint look_pos (k : list Z) (t : list (list Z * Z)) : option Z :=
  match t with
  | [] => None
  | (a, b) :: r => if zlist_eqb a k then Some b else look_pos k r
  end.
Definition z2_eqb (a b : Z * Z) : bool := Z.eqb (fst a) (fst b) && Z.eqb (snd a) (snd b).
Fixpoint look2 {V} (k : Z * Z) (t : list ((Z * Z) * V)) : option V :=
  match t with
  | [] => None
  | (a, b) :: r => if z2_eqb a k then Some b else look2 k r
  end.
Definition z4_eqb (a b : Z * Z * Z * Z) : bool :=
  let '(a1, a2, a3, a4) := a in let '(b1, b2, b3, b4) := b in
  Z.eqb a1 b1 && Z.eqb a2 b2 && Z.eqb a3 b3 && Z.eqb a4 b4.
Fixpoint look4 {V} (k : Z * Z * Z * Z) (t : list ((Z * Z * Z * Z) * V)) : option V :=
  match t with
  | [] => None
  | (a, b) :: r => if z4_eqb a k then Some b else look4 k r
  end.
Fixpoint look_s {V} (k : string) (t : list (string * V)) : option V :=
  match t with
  | [] => None
  | (a, b) :: r => if String.eqb a k then Some b else look_s k r
  end.

(* ---------------- oracles from tables ---------------- *)
Definition MISS : Z := -1.
Definition poseidon_t (T : tables) (l : list Z) : Z :=
  match look_pos l (t_pos T) with Some z => z | None => MISS end.
Definition sig_verify_t (T : tables) (x y m s : Z) : bool :=
  match look4 (x, y, m, s) (t_sig T) with Some b => b | None => false end.
Definition id_from_did_t (T : tables) (d st : Z) : option Z :=
  match look2 (d, st) (t_idd T) with Some o => o | None => None end.
Definition genesis_check_t (T : tables) (id st : Z) : option bool :=
  match look2 (id, st) (t_gen T) with Some o => o | None => None end.
(* the stub DID resolver answers an error for anything it has no script for *)
Definition resolve_did_e (E : env) (d st : Z) : did_answer :=
  match look2 (d, st) (e_did E) with Some a => a | None => DErr end.
(* the stub status resolvers ignore their argument *)
Definition registry_e (E : env) : registry :=
  map (fun x => (fst x, (fun _ : cred_status => snd x))) (e_reg E).

Fixpoint look1 {V} (k : Z) (t : list (Z * V)) : option V :=
  match t with
  | [] => None
  | (a, b) :: r => if Z.eqb a k then Some b else look1 k r
  end.
(* an integer literal that is not in the round-trip table is an ORACLE MISS: it is turned
   into the one input on which the model panics, so that it counts as a disagreement whenever
   the model consults the status entry *)
Definition status_of (T : tables) (r : rstatus) : raw_status :=
  match r with
  | SJson o =>
      (* every integer literal of the object must be in the round-trip table (else: oracle miss) *)
      if forallb (fun n => match look1 n (t_jrt T) with Some _ => true | None => false end)
                 (rjv_nums 8 (RJObj o))
      then status_of_json 8 (fun n => match look1 n (t_jrt T) with Some x => x | None => None end)
                          (map (fun kv => (fst kv, jv_of 8 (snd kv))) o)
      else RSPtr None
  | SRaw ty n =>
      match look1 (zl n) (t_jrt T) with
      | Some o => status_after_json (fun _ => o) ty (zl n)
      | None => RSPtr None
      end
  | SObj None => RSObj None
  | SObj (Some (ty, n)) => RSObj (Some (mkcs ty (zl n)))
  | SOther => RSOther
  end.

(* parsed DIDs are numbered by the harness *)
Definition DT := Z.
Definition SigT := Z.

Definition mkbjj_ (T : tables) (c : claim) (auth : option claim) (sig : option limbs) (mtp : option rproof)
    (st : istate) (did : option int) (s : rstatus) : bjj_bundle DT SigT :=
  mkbjj c auth (option_map zl sig) mtp st (option_map zi did) (status_of T s).
Definition mksmt_ (c : claim) (mtp : option rproof) (st : istate) (did : option int) : smt_bundle DT :=
  mksmt c mtp st (option_map zi did).

(* ---------------- closure of the tables (oracle-miss detection) ---------------- *)
Section Closed.
Variable T : tables.
Let q := t_q T.
Let P := poseidon_t T.

Definition inq_all (l : list Z) : bool := negb (existsb (fun x => q <=? x) l).
(* a hash the library would compute must be in the table *)
Definition has_pos (l : list Z) : bool :=
  if inq_all l then match look_pos l (t_pos T) with Some _ => true | None => false end else true.
(* value used for chaining: defined only if computable and present *)
Definition val_pos (l : list Z) : option Z :=
  if inq_all l then look_pos l (t_pos T) else None.

Definition claim_calls_ok (c : claim) : bool :=
  has_pos [i0 c; i1 c; i2 c; i3 c] && has_pos [v0 c; v1 c; v2 c; v3 c].
Definition claim_vals (c : claim) : option (Z * Z) :=
  match val_pos [i0 c; i1 c; i2 c; i3 c], val_pos [v0 c; v1 c; v2 c; v3 c] with
  | Some a, Some b => Some (a, b)
  | _, _ => None
  end.

(* the chain of middle-node hashes of RootFromProof, deepest first:
   returns (all present?, value at this level if defined) *)
Fixpoint up_closed (k : Z) (lvl : nat) (ss : list Z) (mid : option Z) : bool * option Z :=
  match ss with
  | [] => (true, mid)
  | s :: ss' =>
      let '(ok, m) := up_closed k (S lvl) ss' mid in
      match m with
      | None => (ok, None)
      | Some mv =>
          let args := if bit k lvl then [s; mv] else [mv; s] in
          (ok && has_pos args, val_pos args)
      end
  end.

(* every hash RootFromProof(p, k, v) can ask for *)
Definition mtp_closed (p : rproof) (k v : Z) : bool :=
  let k' := hash_of_z k in
  let v' := hash_of_z v in
  let leaf_ex := [k'; v'; 1] in
  let via (leaf : list Z) : bool :=
      has_pos leaf && fst (up_closed k' 0 (r_sibs p) (val_pos leaf)) in
  (* as an existence proof *)
  via leaf_ex &&
  (* as a non-existence proof *)
  match r_aux p with
  | None => fst (up_closed k' 0 (r_sibs p) (Some 0))
  | Some (Some ak, Some av) => via [ak; av; 1]
  | Some _ => true
  end.

Definition hz (h : hexf) : Z := match h with HVal z => z | _ => 0 end.
Definition state_closed (v c r o : hexf) : bool := has_pos [hz c; hz r; hz o].

Definition did_closed (did : option Z) (st : hexf) : bool :=
  match did, st with
  | Some d, HVal s =>
      match look2 (d, s) (t_idd T) with
      | None => false
      | Some None => true
      | Some (Some id) => match look2 (id, s) (t_gen T) with Some _ => true | None => false end
      end
  | _, _ => true
  end.

Definition answer_closed (nonce : Z) (a : option answer) : bool :=
  match a with
  | None => true
  | Some an =>
      let i := a_issuer an in
      state_closed (ts_state i) (ts_ctr i) (ts_rtr i) (ts_ror i) && mtp_closed (a_mtp an) nonce 0
  end.

Definition closed7 (E : env) (b : bjj_bundle DT SigT) : bool :=
  claim_calls_ok (b_claim b) &&
  match claim_vals (b_claim b) with
  | None => true
  | Some (hi, hv) =>
      has_pos [hi; hv] &&
      match val_pos [hi; hv], b_auth b, b_sig b with
      | Some m, Some a, Some s =>
          match look4 (i2 a, i3 a, m, s) (t_sig T) with Some _ => true | None => false end
      | _, _, _ => true
      end
  end &&
  match b_auth b with
  | None => true
  | Some a =>
      claim_calls_ok a &&
      match claim_vals a, b_mtp b with
      | Some (ahi, ahv), Some p => mtp_closed p ahi ahv
      | _, _ => true
      end
  end &&
  (let s := b_state b in state_closed (st_value s) (st_ctr s) (st_rtr s) (st_ror s)) &&
  did_closed (b_did b) (st_value (b_state b)) &&
  match b_status b with
  | RSObj (Some cs) => forallb (fun x => answer_closed (cs_nonce cs) (snd x)) (e_reg E)
  | _ => true
  end.

Definition closed8 (b : smt_bundle DT) : bool :=
  claim_calls_ok (s_claim b) &&
  match claim_vals (s_claim b), s_mtp b with
  | Some (hi, hv), Some p => mtp_closed p hi hv
  | _, _ => true
  end &&
  (let s := s_state b in state_closed (st_value s) (st_ctr s) (st_rtr s) (st_ror s)) &&
  did_closed (s_did b) (st_value (s_state b)).
End Closed.

(* ---------------- cases ---------------- *)
(* observation: 0 = VerifyProof returned nil, 1 = it returned an error (or the credential
   did not decode), 2 = it panicked *)
Definition agree78 (r : res unit) (o : int) : bool :=
  match r with
  | Ok _ => Uint63.eqb o 0
  | Err _ => Uint63.eqb o 1
  | _ => false      (* the models never predict a panic for JSON-decoded input *)
  end.

(* a case carries the credential's WHOLE proof list, in order; pe = one entry:
   (type is the requested one?, core claim decodes, binding holds, typed proof) *)
Definition pe {B} (istype claim binding : bool) (b : option B) : bool * vp_input B :=
  (istype, mkvp istype claim binding b).

Record case7 := mkcase7 { c7_id : int; c7_ps : list (bool * vp_input (bjj_bundle DT SigT)); c7_env : env; c7_obs : int }.
Definition c7 (id : int) (ps : list (bool * vp_input (bjj_bundle DT SigT))) (E : env) (o : int) : case7 :=
  mkcase7 id ps E o.
Definition c7_in (c : case7) := select_proof (c7_ps c).

Record case8 := mkcase8 { c8_id : int; c8_ps : list (bool * vp_input (smt_bundle DT)); c8_env : env; c8_obs : int }.
Definition c8 (id : int) (ps : list (bool * vp_input (smt_bundle DT))) (E : env) (o : int) : case8 :=
  mkcase8 id ps E o.
Definition c8_in (c : case8) := select_proof (c8_ps c).

Definition run7 (T : tables) (E : env) (i : vp_input (bjj_bundle DT SigT)) : res unit :=
  verify_proof_top
    (verify_bjj (poseidon_t T) (t_q T) DT SigT (sig_verify_t T) (resolve_did_e E)
                (id_from_did_t T) (genesis_check_t T) (registry_e E)) i.

Definition run8 (T : tables) (E : env) (i : vp_input (smt_bundle DT)) : res unit :=
  verify_proof_top
    (verify_smt (poseidon_t T) (t_q T) DT (resolve_did_e E) (id_from_did_t T) (genesis_check_t T)) i.

Definition mismatches7 (T : tables) (cs : list case7) : list int :=
  fold_right (fun c acc =>
      let closed := match vp_typed (c7_in c) with Some b => closed7 T (c7_env c) b | None => true end in
      if closed && agree78 (run7 T (c7_env c) (c7_in c)) (c7_obs c) then acc else c7_id c :: acc) [] cs.

Definition mismatches8 (T : tables) (cs : list case8) : list int :=
  fold_right (fun c acc =>
      let closed := match vp_typed (c8_in c) with Some b => closed8 T b | None => true end in
      if closed && agree78 (run8 T (c8_env c) (c8_in c)) (c8_obs c) then acc else c8_id c :: acc) [] cs.
