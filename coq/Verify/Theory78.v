(* Verify/Theory78.v — specifications and theorems for the two proof verifiers
   (properties C07 and C08).  Models: Verify/Issuer.v, Verify/BJJ.v, Verify/SMTProof.v,
   Verify/Top78.v (+ Verify/Status.v for the revocation check, SMT/Model.v for the tree).

   Everything external is a Section variable with NO hypothesis: Poseidon, the signature
   verification, the DID resolver, DID -> ID, the genesis check, the status-resolver
   registry.  The specifications are the properties' conjunctions written with `exists`
   over the decoded members, so that "a member is missing" is part of the statement. *)
From Coq Require Import ZArith List String Bool Arith Lia.
From GSP Require Import Base.Prelude SMT.Model Verify.Status Verify.Issuer Verify.BJJ
  Verify.SMTProof Verify.Top78.
Import ListNotations.
Open Scope list_scope.
Open Scope Z_scope.

(* ------------------------------------------------------------------ *)
(* generic helpers                                                      *)
(* ------------------------------------------------------------------ *)

Lemma v78_bind_ok_iff {A B} (r : res A) (k : A -> res B) (y : B) :
  bind r k = Ok y <-> exists a, r = Ok a /\ k a = Ok y.
Proof.
  split.
  - destruct r as [a| | |]; simpl; intros H; try discriminate. exists a; auto.
  - intros (a & -> & H). exact H.
Qed.

Lemma v78_existsb_false {A} (f : A -> bool) (l : list A) :
  existsb f l = false <-> Forall (fun x => f x = false) l.
Proof.
  induction l as [|a l IH]; simpl.
  - split; auto.
  - rewrite orb_false_iff, IH. split.
    + intros [Ha Hl]. constructor; auto.
    + intros H. inversion H; subst; auto.
Qed.

Lemma v78_of_option_ok {A} (o : option A) (t : string) (a : A) :
  of_option o t = Ok a <-> o = Some a.
Proof. destruct o; simpl; split; intros H; inversion H; subst; auto. Qed.

Lemma v78_unit_ok (r : res unit) : (exists u, r = Ok u) <-> r = Ok tt.
Proof. split; [intros ([] & H); exact H | intros H; exists tt; exact H]. Qed.

Section Theory78.
Variable poseidon : list Z -> Z.
Variable q : Z.
Variables D SigT : Type.
Variable sig_verify : Z -> Z -> Z -> SigT -> bool.
Variable resolve_did : D -> Z -> did_answer.
Variable id_from_did : D -> Z -> option Z.
Variable genesis_check : Z -> Z -> option bool.
Variable reg : registry.

Notation hl := (Status.hl poseidon).
Notation hm := (Status.hm poseidon).
Notation pos_hash := (pos_hash poseidon q).
Notation claim_hi_hv := (claim_hi_hv poseidon q).
Notation root_from_mtp := (root_from_mtp poseidon q).
Notation verify_mtp := (verify_mtp poseidon q).
Notation validate_tree_state := (validate_tree_state poseidon q).
Notation validate_issuer_state := (validate_issuer_state poseidon q).
Notation validate_status := (validate_status poseidon q).
Notation check_state_published := (check_state_published D resolve_did id_from_did genesis_check).
Notation verify_bjj := (verify_bjj poseidon q D SigT sig_verify resolve_did id_from_did genesis_check reg).
Notation verify_smt := (verify_smt poseidon q D resolve_did id_from_did genesis_check).

(* ================================================================== *)
(* 1. vocabulary of the specifications                                  *)
(* ================================================================== *)

(* the library's argument check: poseidon.Hash refuses inputs >= Q *)
Definition in_q (x : Z) : Prop := x < q.

(* h is the Poseidon hash of l, and the library computes it (all inputs < Q) *)
Definition hashes_to (l : list Z) (h : Z) : Prop := Forall in_q l /\ poseidon l = h.

(* (hi, hv) = Claim.HiHv() *)
Definition claim_hashes (c : claim) (hi hv : Z) : Prop :=
  hashes_to [i0 c; i1 c; i2 c; i3 c] hi /\ hashes_to [v0 c; v1 c; v2 c; v3 c] hv.

(* arguments for which merkletree.RootFromProof computes at all *)
Definition args_in_field (P : proof) (k v : Z) : Prop :=
  k < q /\ v < q /\
  (if ex P then hash_of_z k < q /\ hash_of_z v < q
   else match aux P with None => True | Some (ak, av) => ak < q /\ av < q end) /\
  (List.length (sibs P) <= notempties_bits)%nat /\
  Forall in_q (sibs P).

(* NodeAux as decoded from JSON: absent, or complete *)
Definition aux_of (a : option (option Z * option Z)) : option (option (Z * Z)) :=
  match a with
  | None => Some None
  | Some (Some ak, Some av) => Some (Some (ak, av))
  | Some _ => None
  end.

(* the Merkle proof p carries the pair (k, v) to the root r: the tree-level statement
   is SMT.Model.root_from_proof (hash_of_z is the identity on 0 <= z < 2^256) *)
Definition mtp_carries (p : rproof) (k v r : Z) : Prop :=
  exists a, aux_of (r_aux p) = Some a /\
    args_in_field (mkproof (r_ex p) (r_sibs p) a) k v /\
    root_from_proof hl hm (mkproof (r_ex p) (r_sibs p) a) (hash_of_z k) (hash_of_z v) = Some r.

(* Poseidon[claimsTreeRoot, revocationTreeRoot, rootOfRoots] = state, an absent root
   counting as zero; all four given in well-formed hex *)
Definition roots_hash_to (st ctr rtr ror : hexf) (s : Z) : Prop :=
  st = HVal s /\
  exists c r o, hex_or_zero ctr = Ok c /\ hex_or_zero rtr = Ok r /\ hex_or_zero ror = Ok o /\
                hashes_to [c; r; o] s.

Definition state_commits (s : istate) (st : Z) : Prop :=
  roots_hash_to (st_value s) (st_ctr s) (st_rtr s) (st_ror s) st.

(* the DID resolver reports the state published, or (it answered a document with an
   Iden3StateInfo2023 method that does not say "published": true, and) the state is the
   genesis state of the DID's identifier *)
Definition published_or_genesis (d : D) (st : Z) : Prop :=
  resolve_did d st = DDoc (Some (Some true)) \/
  ((resolve_did d st = DDoc (Some None) \/ resolve_did d st = DDoc (Some (Some false))) /\
   exists id, id_from_did d st = Some id /\ genesis_check id st = Some true).

(* issuerData.credentialStatus denotes the status entry cs *)
Definition status_entry (r : raw_status) (cs : cred_status) : Prop :=
  match r with
  | RSPtr (Some c) => c = cs
  | RSVal c => c = cs
  | RSObj (Some c) => c = cs /\ cs_type c <> ""%string
  | _ => False
  end.

(* the status resolver registered for the entry's type answers, its answer is internally
   consistent (state = Poseidon of its roots) and carries a verified NON-existence proof
   of the nonce in the revocation tree (C09's acceptance condition) *)
Definition status_not_revoked (cs : cred_status) : Prop :=
  exists rslv ans st revroot,
    lookup_resolver reg (cs_type cs) = Some rslv /\ rslv cs = Some ans /\
    roots_hash_to (ts_state (a_issuer ans)) (ts_ctr (a_issuer ans))
                  (ts_rtr (a_issuer ans)) (ts_ror (a_issuer ans)) st /\
    hex_or_zero (ts_rtr (a_issuer ans)) = Ok revroot /\
    mtp_carries (a_mtp ans) (cs_nonce cs) 0 revroot /\
    r_ex (a_mtp ans) = false.

(* ---- C07: the property's conjunction ---- *)
Definition bjj_ok (b : bjj_bundle D SigT) : Prop :=
  exists auth sig hi hv ahi ahv mtp ctr st d cs,
    (* the signature is valid for Poseidon[hi, hv] under the key in auth-claim slots 2, 3 *)
    b_auth b = Some auth /\ b_sig b = Some sig /\
    claim_hashes (b_claim b) hi hv /\ hashes_to [hi; hv] (poseidon [hi; hv]) /\
    sig_verify (i2 auth) (i3 auth) (poseidon [hi; hv]) sig = true /\
    (* the auth claim is in the claims tree: an EXISTENCE proof carrying it to claimsTreeRoot *)
    b_mtp b = Some mtp /\ r_ex mtp = true /\ st_ctr (b_state b) = HVal ctr /\
    claim_hashes auth ahi ahv /\ mtp_carries mtp ahi ahv ctr /\
    (* the roots hash to the issuer state named in the proof *)
    state_commits (b_state b) st /\
    (* that state is published, or the genesis state of the issuer's DID *)
    b_did b = Some d /\ published_or_genesis d st /\
    (* the status entry's nonce is the auth claim's nonce, and the status validates *)
    status_entry (b_status b) cs /\ cs_nonce cs = claim_nonce auth /\
    status_not_revoked cs.

(* ---- C08: the property's conjunction ---- *)
Definition smt_ok (b : smt_bundle D) : Prop :=
  exists d st hi hv mtp ctr,
    s_did b = Some d /\ published_or_genesis d st /\
    claim_hashes (s_claim b) hi hv /\
    (* an EXISTENCE proof carrying (hi, hv) to claimsTreeRoot *)
    s_mtp b = Some mtp /\ r_ex mtp = true /\ mtp_carries mtp hi hv ctr /\
    st_ctr (s_state b) = HVal ctr /\
    state_commits (s_state b) st.

(* ================================================================== *)
(* 2. step lemmas: each model function succeeds iff its clause holds    *)
(* ================================================================== *)

Lemma v78_pos_hash_ok_iff : forall l h, pos_hash l = Ok h <-> hashes_to l h.
Proof.
  intros l h. unfold Status.pos_hash, hashes_to.
  destruct (existsb (fun x => q <=? x) l) eqn:He.
  - split; [discriminate|]. intros [Hf _]. exfalso.
    assert (Hn : existsb (fun x => q <=? x) l = false).
    { apply v78_existsb_false. eapply Forall_impl; [|exact Hf].
      intros a Ha. unfold in_q in Ha. apply Z.leb_gt. exact Ha. }
    congruence.
  - apply v78_existsb_false in He. split.
    + intros H. inversion H; subst. split; auto.
      eapply Forall_impl; [|exact He]. intros a Ha. apply Z.leb_gt in Ha. exact Ha.
    + intros [_ ->]. reflexivity.
Qed.

Lemma v78_claim_hi_hv_ok_iff : forall c hi hv,
  claim_hi_hv c = Ok (hi, hv) <-> claim_hashes c hi hv.
Proof.
  intros c hi hv. unfold Issuer.claim_hi_hv, claim_hashes.
  rewrite v78_bind_ok_iff. split.
  - intros (a & Ha & H). rewrite v78_bind_ok_iff in H. destruct H as (b & Hb & H).
    inversion H; subst. rewrite <- !v78_pos_hash_ok_iff. auto.
  - intros [Ha Hb]. exists hi. rewrite v78_pos_hash_ok_iff. split; auto.
    rewrite v78_bind_ok_iff. exists hv. rewrite v78_pos_hash_ok_iff. auto.
Qed.

Lemma v78_mt_rfp_iff : forall P k v r,
  mt_root_from_proof hl hm q P k v = Ok r <->
  args_in_field P k v /\ root_from_proof hl hm P (hash_of_z k) (hash_of_z v) = Some r.
Proof.
  intros P k v r. unfold mt_root_from_proof, root_from_proof, proof_mid, args_in_field.
  destruct (Z.leb_spec q k) as [Hk|Hk]; [split; [discriminate | intros [(A & _) _]; lia]|].
  destruct (Z.leb_spec q v) as [Hv|Hv]; [split; [discriminate | intros [(_ & A & _) _]; lia]|].
  assert (Htail : forall mid,
    (if Nat.ltb notempties_bits (List.length (sibs P)) then Panic "index out of range"%string
     else if existsb (fun s => q <=? s) (sibs P) then Err EHash
     else Ok (up hm (hash_of_z k) 0 (sibs P) mid)) = Ok r <->
    ((List.length (sibs P) <= notempties_bits)%nat /\ Forall in_q (sibs P)) /\
    up hm (hash_of_z k) 0 (sibs P) mid = r).
  { intros mid. destruct (Nat.ltb_spec notempties_bits (List.length (sibs P))) as [Hl|Hl].
    - split; [discriminate | intros [[A _] _]; lia].
    - destruct (existsb (fun s => q <=? s) (sibs P)) eqn:He.
      + split; [discriminate|]. intros [[_ Hf] _]. exfalso.
        assert (Hn : existsb (fun s => q <=? s) (sibs P) = false).
        { apply v78_existsb_false. eapply Forall_impl; [|exact Hf].
          intros a Ha. unfold in_q in Ha. apply Z.leb_gt. exact Ha. }
        congruence.
      + apply v78_existsb_false in He. split.
        * intros H. inversion H; subst. repeat split; auto.
          eapply Forall_impl; [|exact He]. intros a Ha. apply Z.leb_gt in Ha. exact Ha.
        * intros [_ ->]. reflexivity. }
  destruct (ex P).
  - destruct (Z.leb_spec q (hash_of_z k)) as [Hk'|Hk']; cbn [orb].
    { split; [discriminate | intros [(_ & _ & (A & _) & _) _]; lia]. }
    destruct (Z.leb_spec q (hash_of_z v)) as [Hv'|Hv']; cbn [orb].
    { split; [discriminate | intros [(_ & _ & (_ & A) & _) _]; lia]. }
    cbn [bind]. rewrite Htail. split.
    + intros [[A B] C]. repeat split; auto. congruence.
    + intros [(_ & _ & _ & A & B) C]. inversion C. auto.
  - destruct (aux P) as [[ak av]|].
    + destruct (Z.eqb_spec (hash_of_z k) ak) as [He|He].
      { split; [discriminate | intros [_ A]; discriminate]. }
      destruct (Z.leb_spec q ak) as [Hak|Hak]; cbn [orb].
      { split; [discriminate | intros [(_ & _ & (A & _) & _) _]; lia]. }
      destruct (Z.leb_spec q av) as [Hav|Hav]; cbn [orb].
      { split; [discriminate | intros [(_ & _ & (_ & A) & _) _]; lia]. }
      cbn [bind]. rewrite Htail. split.
      * intros [[A B] C]. repeat split; auto. congruence.
      * intros [(_ & _ & _ & A & B) C]. inversion C. auto.
    + cbn [bind]. rewrite Htail. split.
      * intros [[A B] C]. repeat split; auto. congruence.
      * intros [(_ & _ & _ & A & B) C]. inversion C. auto.
Qed.

Lemma v78_root_from_mtp_ok_iff : forall p k v r,
  root_from_mtp (Some p) k v = Ok r <-> mtp_carries p k v r.
Proof.
  intros p k v r. unfold Status.root_from_mtp, mtp_carries.
  assert (Hconv : (match r_aux p with
                   | None => Some None
                   | Some (Some ak, Some av) => Some (Some (ak, av))
                   | Some _ => None end) = aux_of (r_aux p)) by reflexivity.
  rewrite Hconv. destruct (aux_of (r_aux p)) as [a|].
  - split.
    + intros H. exists a. split; auto. apply v78_mt_rfp_iff.
      destruct (mt_root_from_proof hl hm q (mkproof (r_ex p) (r_sibs p) a) k v); auto; discriminate.
    + intros (a' & Ha & H). inversion Ha; subst a'. apply v78_mt_rfp_iff in H. rewrite H. reflexivity.
  - split; [discriminate | intros (a' & Ha & _); discriminate].
Qed.

Lemma v78_verify_mtp_true_iff : forall r p k v,
  verify_mtp r (Some p) k v = true <-> mtp_carries p k v r.
Proof.
  intros r p k v. unfold Status.verify_mtp. rewrite <- v78_root_from_mtp_ok_iff.
  destruct (root_from_mtp (Some p) k v) as [r'| | |].
  - rewrite Z.eqb_eq. split; intros H; [subst; auto | inversion H; auto].
  - split; discriminate.
  - split; discriminate.
  - split; discriminate.
Qed.

Lemma v78_hex_or_zero_cases : forall h z, hex_or_zero h = Ok z -> h = HNil /\ z = 0 \/ h = HVal z.
Proof. intros [| |x] z H; simpl in H; inversion H; auto. Qed.

Lemma v78_validate_tree_state_true_iff : forall st ctr rtr ror,
  validate_tree_state (mkts st ctr rtr ror) = Ok true <-> exists s, roots_hash_to st ctr rtr ror s.
Proof.
  intros st ctr rtr ror. unfold Status.validate_tree_state, roots_hash_to. cbn [ts_state ts_ctr ts_rtr ts_ror].
  destruct st as [| |s].
  - split; [discriminate | intros (s & A & _); discriminate].
  - split.
    + intros H. repeat (rewrite v78_bind_ok_iff in H; destruct H as (? & _ & H)). discriminate.
    + intros (s & A & _); discriminate.
  - split.
    + intros H.
      rewrite v78_bind_ok_iff in H; destruct H as (c & Hc & H).
      rewrite v78_bind_ok_iff in H; destruct H as (r & Hr & H).
      rewrite v78_bind_ok_iff in H; destruct H as (o & Ho & H).
      rewrite v78_bind_ok_iff in H; destruct H as (w & Hw & H).
      inversion H as [He]. apply Z.eqb_eq in He. subst w.
      exists s. split; auto. exists c, r, o. rewrite <- v78_pos_hash_ok_iff. auto.
    + intros (s' & A & c & r & o & Hc & Hr & Ho & Hh). inversion A; subst s'.
      rewrite Hc, Hr, Ho. cbn [bind]. apply v78_pos_hash_ok_iff in Hh. rewrite Hh. cbn [bind].
      rewrite Z.eqb_refl. reflexivity.
Qed.

Lemma v78_validate_issuer_state_ok_iff : forall s,
  validate_issuer_state s = Ok tt <-> exists st, state_commits s st.
Proof.
  intros s. unfold Issuer.validate_issuer_state, state_commits.
  rewrite <- v78_validate_tree_state_true_iff. rewrite v78_bind_ok_iff. split.
  - intros ([|] & H & H'); [exact H | discriminate].
  - intros H. exists true. auto.
Qed.

Lemma v78_check_state_published_ok_iff : forall did s st,
  check_state_published did s = Ok st <->
  exists d, did = Some d /\ st_value s = HVal st /\ published_or_genesis d st.
Proof.
  intros did s st. unfold Issuer.check_state_published, published_or_genesis.
  destruct did as [d|]; [|split; [discriminate | intros (d & A & _); discriminate]].
  destruct (st_value s) as [| |z].
  - split; [discriminate | intros (d' & _ & A & _); discriminate].
  - split; [discriminate | intros (d' & _ & A & _); discriminate].
  - destruct (resolve_did d z) as [|[[[|]|]|]] eqn:Hr.
    + split; [discriminate|]. intros (d' & A & B & C). inversion A; subst d'. inversion B; subst st.
      rewrite Hr in C. destruct C as [C|[[C|C] _]]; discriminate.
    + split.
      * intros H. inversion H; subst st. exists d. rewrite Hr. auto.
      * intros (d' & A & B & _). inversion B; subst; auto.
    + destruct (id_from_did d z) as [id|] eqn:Hi.
      * destruct (genesis_check id z) as [[|]|] eqn:Hg.
        -- split.
           ++ intros H. inversion H; subst st. exists d. rewrite Hr. repeat split; auto.
              right. split; auto. exists id. rewrite Hi. auto.
           ++ intros (d' & A & B & _). inversion B; subst; auto.
        -- split; [discriminate|]. intros (d' & A & B & C). inversion A; subst d'. inversion B; subst st.
           rewrite Hr in C. destruct C as [C|[_ (id' & Hi' & Hg')]]; [discriminate|].
           rewrite Hi in Hi'. inversion Hi'; subst id'. congruence.
        -- split; [discriminate|]. intros (d' & A & B & C). inversion A; subst d'. inversion B; subst st.
           rewrite Hr in C. destruct C as [C|[_ (id' & Hi' & Hg')]]; [discriminate|].
           rewrite Hi in Hi'. inversion Hi'; subst id'. congruence.
      * split; [discriminate|]. intros (d' & A & B & C). inversion A; subst d'. inversion B; subst st.
        rewrite Hr in C. destruct C as [C|[_ (id' & Hi' & _)]]; [discriminate|]. congruence.
    + destruct (id_from_did d z) as [id|] eqn:Hi.
      * destruct (genesis_check id z) as [[|]|] eqn:Hg.
        -- split.
           ++ intros H. inversion H; subst st. exists d. rewrite Hr. repeat split; auto.
              right. split; auto. exists id. rewrite Hi. auto.
           ++ intros (d' & A & B & _). inversion B; subst; auto.
        -- split; [discriminate|]. intros (d' & A & B & C). inversion A; subst d'. inversion B; subst st.
           rewrite Hr in C. destruct C as [C|[_ (id' & Hi' & Hg')]]; [discriminate|].
           rewrite Hi in Hi'. inversion Hi'; subst id'. congruence.
        -- split; [discriminate|]. intros (d' & A & B & C). inversion A; subst d'. inversion B; subst st.
           rewrite Hr in C. destruct C as [C|[_ (id' & Hi' & Hg')]]; [discriminate|].
           rewrite Hi in Hi'. inversion Hi'; subst id'. congruence.
      * split; [discriminate|]. intros (d' & A & B & C). inversion A; subst d'. inversion B; subst st.
        rewrite Hr in C. destruct C as [C|[_ (id' & Hi' & _)]]; [discriminate|]. congruence.
    + split; [discriminate|]. intros (d' & A & B & C). inversion A; subst d'. inversion B; subst st.
      rewrite Hr in C. destruct C as [C|[[C|C] _]]; discriminate.
Qed.

Lemma v78_validate_status_ok_iff : forall cs,
  (exists ans, validate_status reg cs = Ok ans) <-> status_not_revoked cs.
Proof.
  intros cs. unfold Status.validate_status, status_not_revoked.
  destruct (lookup_resolver reg (cs_type cs)) as [rslv|];
    [|split; [intros (a & H); discriminate | intros (r & a & s & rr & A & _); discriminate]].
  destruct (rslv cs) as [ans|] eqn:Hans;
    [|split; [intros (a & H); discriminate
             | intros (r & a & s & rr & A & B & _); inversion A; subst r; congruence]].
  destruct (a_issuer ans) as [st ctr rtr ror] eqn:Hiss. cbn [ts_state ts_ctr ts_rtr ts_ror].
  split.
  - intros (a & H). rewrite v78_bind_ok_iff in H. destruct H as (ok & Hok & H).
    destruct ok; cbn [negb] in H; [|discriminate].
    apply v78_validate_tree_state_true_iff in Hok. destruct Hok as (s & Hs).
    rewrite v78_bind_ok_iff in H. destruct H as (revroot & Hrr & H).
    destruct (verify_mtp revroot (Some (a_mtp ans)) (cs_nonce cs) 0) eqn:Hv; cbn [negb] in H; [|discriminate].
    destruct (r_ex (a_mtp ans)) eqn:Hex; [discriminate|].
    exists rslv, ans, s, revroot. rewrite Hiss. cbn [ts_state ts_ctr ts_rtr ts_ror].
    apply v78_verify_mtp_true_iff in Hv.
    split; [reflexivity|]. split; [exact Hans|]. split; [exact Hs|]. split; [exact Hrr|].
    split; [exact Hv|exact Hex].
  - intros (r & a & s & revroot & A & B & C & Dd & Ee & F).
    inversion A; subst r. rewrite Hans in B. inversion B; subst a.
    rewrite Hiss in C, Dd. cbn [ts_state ts_ctr ts_rtr ts_ror] in C, Dd.
    exists ans.
    assert (Hok : validate_tree_state (mkts st ctr rtr ror) = Ok true).
    { apply v78_validate_tree_state_true_iff. exists s; exact C. }
    rewrite Hok. cbn [bind negb]. rewrite Dd. cbn [bind].
    apply v78_verify_mtp_true_iff in Ee. rewrite Ee, F. reflexivity.
Qed.

Lemma v78_coerce_status_iff : forall r cs,
  coerce_status r = Ok (Some cs) <-> status_entry r cs.
Proof.
  intros r cs. unfold coerce_status, status_entry. destruct r as [[c|]|c|[c|]|].
  - split; intros H; [inversion H; auto | subst; auto].
  - split; [discriminate | tauto].
  - split; intros H; [inversion H; auto | subst; auto].
  - destruct (String.eqb_spec (cs_type c) "") as [He|He].
    + split; [discriminate | intros [_ A]; subst; contradiction].
    + split; intros H; [inversion H; subst; auto | destruct H; subst; auto].
  - split; [discriminate | tauto].
  - split; [discriminate | tauto].
Qed.

(* ================================================================== *)
(* 3. C07                                                                *)
(* ================================================================== *)

Theorem bjj_decision : forall b, verify_bjj b = Ok tt <-> bjj_ok b.
Proof.
  intros b. unfold BJJ.verify_bjj, bjj_ok. split.
  - intros H.
    rewrite v78_bind_ok_iff in H. destruct H as (auth & Hauth & H). apply v78_of_option_ok in Hauth.
    rewrite v78_bind_ok_iff in H. destruct H as (sig & Hsig & H). apply v78_of_option_ok in Hsig.
    rewrite v78_bind_ok_iff in H. destruct H as (u1 & Hs & H).
    rewrite v78_bind_ok_iff in H. destruct H as (u2 & Hinc & H).
    rewrite v78_bind_ok_iff in H. destruct H as (u3 & Hst & H).
    rewrite v78_bind_ok_iff in H. destruct H as (st & Hpub & H).
    (* signature *)
    unfold verify_claim_signature in Hs.
    rewrite v78_bind_ok_iff in Hs. destruct Hs as ([hi hv] & Hhh & Hs).
    rewrite v78_bind_ok_iff in Hs. destruct Hs as (msg & Hmsg & Hs). cbn [fst snd] in *.
    apply v78_claim_hi_hv_ok_iff in Hhh. apply v78_pos_hash_ok_iff in Hmsg.
    destruct (sig_verify (i2 auth) (i3 auth) msg sig) eqn:Hsv; [|discriminate].
    destruct Hmsg as [Hmf Hme]. subst msg.
    (* inclusion *)
    unfold verify_auth_inclusion in Hinc.
    destruct (b_mtp b) as [mtp|] eqn:Hmtp; [|discriminate].
    destruct (r_ex mtp) eqn:Hex; cbn [negb] in Hinc; [|discriminate].
    destruct (st_ctr (b_state b)) as [| |ctr] eqn:Hctr; try discriminate.
    rewrite v78_bind_ok_iff in Hinc. destruct Hinc as ([ahi ahv] & Hahh & Hinc). cbn [fst snd] in *.
    apply v78_claim_hi_hv_ok_iff in Hahh.
    destruct (Status.verify_mtp poseidon q ctr (Some mtp) ahi ahv) eqn:Hvm; [|discriminate].
    apply v78_verify_mtp_true_iff in Hvm.
    (* state *)
    destruct u3. apply v78_validate_issuer_state_ok_iff in Hst. destruct Hst as (st' & Hst).
    apply v78_check_state_published_ok_iff in Hpub. destruct Hpub as (d & Hd & Hsv' & Hpg).
    assert (st' = st) by (destruct Hst as [A _]; congruence). subst st'.
    (* status *)
    unfold validate_auth_revocation in H.
    rewrite v78_bind_ok_iff in H. destruct H as (csp & Hco & H).
    rewrite v78_bind_ok_iff in H. destruct H as (a' & Ha' & H). apply v78_of_option_ok in Ha'.
    assert (a' = auth) by congruence. subst a'.
    destruct csp as [cs|]; [|discriminate].
    destruct (cs_nonce cs =? claim_nonce auth) eqn:Hn; cbn [negb] in H; [|discriminate].
    apply Z.eqb_eq in Hn.
    rewrite v78_bind_ok_iff in H. destruct H as (ans & Hvs & _).
    apply v78_coerce_status_iff in Hco.
    exists auth, sig, hi, hv, ahi, ahv, mtp, ctr, st, d, cs.
    repeat match goal with |- _ /\ _ => split end; auto.
    + split; [exact Hmf|reflexivity].
    + apply v78_validate_status_ok_iff. exists ans; exact Hvs.
  - intros (auth & sig & hi & hv & ahi & ahv & mtp & ctr & st & d & cs &
            Hauth & Hsig & Hhh & Hmsg & Hsv & Hmtp & Hex & Hctr & Hahh & Hcar & Hst & Hd & Hpg &
            Hse & Hn & Hnr).
    rewrite Hauth, Hsig. cbn [of_option bind].
    unfold verify_claim_signature. apply v78_claim_hi_hv_ok_iff in Hhh. rewrite Hhh. cbn [bind fst snd].
    apply v78_pos_hash_ok_iff in Hmsg. rewrite Hmsg. cbn [bind]. rewrite Hsv. cbn [bind].
    unfold verify_auth_inclusion. rewrite Hmtp, Hex. cbn [negb]. rewrite Hctr.
    apply v78_claim_hi_hv_ok_iff in Hahh. rewrite Hahh. cbn [bind fst snd].
    apply v78_verify_mtp_true_iff in Hcar. rewrite Hcar. cbn [bind].
    assert (Hvi : validate_issuer_state (b_state b) = Ok tt).
    { apply v78_validate_issuer_state_ok_iff. exists st; exact Hst. }
    rewrite Hvi. cbn [bind].
    assert (Hcp : check_state_published (b_did b) (b_state b) = Ok st).
    { apply v78_check_state_published_ok_iff. exists d. destruct Hst as [A _]. auto. }
    rewrite Hcp. cbn [bind].
    unfold validate_auth_revocation. apply v78_coerce_status_iff in Hse. rewrite Hse. cbn [bind of_option].
    apply Z.eqb_eq in Hn. rewrite Hn. cbn [negb].
    apply v78_validate_status_ok_iff in Hnr. destruct Hnr as (ans & Hans). rewrite Hans. reflexivity.
Qed.

Theorem bjj_sound : forall b, verify_bjj b = Ok tt -> bjj_ok b.
Proof. intros b H. apply bjj_decision. exact H. Qed.

(* ================================================================== *)
(* 4. C08                                                                *)
(* ================================================================== *)

Theorem smt_decision : forall b, verify_smt b = Ok tt <-> smt_ok b.
Proof.
  intros b. unfold SMTProof.verify_smt, smt_ok. split.
  - intros H.
    rewrite v78_bind_ok_iff in H. destruct H as (st & Hpub & H).
    rewrite v78_bind_ok_iff in H. destruct H as ([hi hv] & Hhh & H). cbn [fst snd] in *.
    apply v78_claim_hi_hv_ok_iff in Hhh.
    apply v78_check_state_published_ok_iff in Hpub. destruct Hpub as (d & Hd & Hsv & Hpg).
    destruct (s_mtp b) as [mtp|] eqn:Hmtp; [|discriminate].
    destruct (r_ex mtp) eqn:Hex; cbn [negb] in H; [|discriminate].
    rewrite v78_bind_ok_iff in H. destruct H as (r & Hr & H).
    apply v78_root_from_mtp_ok_iff in Hr.
    destruct (st_ctr (s_state b)) as [| |ctr] eqn:Hctr; try discriminate.
    destruct (r =? ctr) eqn:Hrc; cbn [negb] in H; [|discriminate].
    apply Z.eqb_eq in Hrc. subst r.
    apply v78_validate_issuer_state_ok_iff in H. destruct H as (st' & Hst).
    assert (st' = st) by (destruct Hst as [A _]; congruence). subst st'.
    exists d, st, hi, hv, mtp, ctr. repeat match goal with |- _ /\ _ => split end; auto.
  - intros (d & st & hi & hv & mtp & ctr & Hd & Hpg & Hhh & Hmtp & Hex & Hcar & Hctr & Hst).
    assert (Hcp : check_state_published (s_did b) (s_state b) = Ok st).
    { apply v78_check_state_published_ok_iff. exists d. destruct Hst as [A _]. auto. }
    rewrite Hcp. cbn [bind].
    apply v78_claim_hi_hv_ok_iff in Hhh. rewrite Hhh. cbn [bind fst snd].
    rewrite Hmtp, Hex. cbn [negb].
    apply v78_root_from_mtp_ok_iff in Hcar. rewrite Hcar. cbn [bind].
    rewrite Hctr, Z.eqb_refl. cbn [negb].
    apply v78_validate_issuer_state_ok_iff. exists st; exact Hst.
Qed.

Theorem smt_sound : forall b, verify_smt b = Ok tt -> smt_ok b.
Proof. intros b H. apply smt_decision. exact H. Qed.

End Theory78.
