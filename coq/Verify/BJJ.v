(* Verify/BJJ.v — executable model of verifyBJJSignatureProof (property C07).
   NO proofs in this file (theorems: Verify/BJJTheory.v, Verify/WithSMT.v).

   Go code modelled (as it is in /repo now, same order of checks):
     verifiable/credential.go  verifyBJJSignatureProof, verifyClaimSignature,
                               publicKeyFromClaim, verifyAuthClaimInclusion,
                               validateIssuerState, validateAuthClaimRevocation
   The credential's core claim arrives already decoded (VerifyProof decodes it with
   GetCoreClaim before anything else); every other member of the proof is optional. *)
From Coq Require Import ZArith List String Bool Arith.
From GSP Require Import Base.Prelude SMT.Model Verify.Status Verify.Issuer.
Import ListNotations.
Open Scope list_scope.
Open Scope Z_scope.

Record bjj_bundle (D SigT : Type) := mkbjj {
  b_claim  : claim;            (* coreClaim *)
  b_auth   : option claim;     (* issuerData.authCoreClaim; None = does not decode *)
  b_sig    : option SigT;      (* signature; None = hex / point decompression fails *)
  b_mtp    : option rproof;    (* issuerData.mtp *)
  b_state  : istate;           (* issuerData.state *)
  b_did    : option D;         (* issuerData.id; None = ParseDID fails *)
  b_status : raw_status        (* issuerData.credentialStatus *)
}.
Arguments mkbjj {D SigT}.
Arguments b_claim {D SigT}. Arguments b_auth {D SigT}. Arguments b_sig {D SigT}.
Arguments b_mtp {D SigT}. Arguments b_state {D SigT}. Arguments b_did {D SigT}.
Arguments b_status {D SigT}.

Definition EAuthClaim : string := "auth-claim-decode"%string.
Definition ESigDecode : string := "signature-decode"%string.
Definition ESignature : string := "signature-invalid"%string.
Definition EAuthMtpNil : string := "auth-mtp-unset"%string.
Definition EAuthMtpNonEx : string := "auth-mtp-not-existence"%string.
Definition ECtrUnset : string := "claims-root-unset"%string.
Definition ECtrHex : string := "claims-root-hex"%string.
Definition EAuthNotIn : string := "auth-claim-not-included"%string.
Definition ENonce : string := "nonce-mismatch"%string.

Section BJJ.
Variable poseidon : list Z -> Z.
Variable q : Z.
Variables D SigT : Type.
Variable sig_verify : Z -> Z -> Z -> SigT -> bool.   (* pk.X pk.Y msg sig: PublicKey.VerifyPoseidon *)
Variable resolve_did : D -> Z -> did_answer.
Variable id_from_did : D -> Z -> option Z.
Variable genesis_check : Z -> Z -> option bool.
Variable reg : registry.                             (* status resolver registry in use *)

Notation pos_hash := (pos_hash poseidon q).
Notation claim_hi_hv := (claim_hi_hv poseidon q).

(* verifyClaimSignature; publicKeyFromClaim = raw slots 2 and 3 of the auth claim *)
Definition verify_claim_signature (c : claim) (sig : SigT) (auth : claim) : res unit :=
  hh <- claim_hi_hv c ;;
  msg <- pos_hash [fst hh; snd hh] ;;
  if sig_verify (i2 auth) (i3 auth) msg sig then Ok tt else Err ESignature.

(* verifyAuthClaimInclusion *)
Definition verify_auth_inclusion (mtp : option rproof) (s : istate) (auth : claim) : res unit :=
  match mtp with
  | None => Err EAuthMtpNil
  | Some p =>
      if negb (r_ex p) then Err EAuthMtpNonEx else
      match st_ctr s with
      | HNil => Err ECtrUnset
      | HBad => Err ECtrHex
      | HVal ctr =>
          hh <- claim_hi_hv auth ;;
          if verify_mtp poseidon q ctr (Some p) (fst hh) (snd hh) then Ok tt else Err EAuthNotIn
      end
  end.

(* validateAuthClaimRevocation; dereferencing a nil *CredentialStatus panics.
   Only the entry itself counts: its nonce is compared with the auth claim's and it is the entry
   that is validated; a nested `statusIssuer` member is never a fallback (cred_status does not
   even carry it: it is only passed through to the resolver), so an entry that cannot be
   resolved or validated makes the verification fail whatever `statusIssuer` says. *)
Definition validate_auth_revocation (st : raw_status) (auth : option claim) : res unit :=
  csp <- coerce_status st ;;
  a <- of_option auth EAuthClaim ;;
  match csp with
  | None => Panic "nil *CredentialStatus"
  | Some cs =>
      if negb (cs_nonce cs =? claim_nonce a) then Err ENonce else
      _ <- validate_status poseidon q reg cs ;;
      Ok tt
  end.

Definition verify_bjj (b : bjj_bundle D SigT) : res unit :=
  auth <- of_option (b_auth b) EAuthClaim ;;
  sig <- of_option (b_sig b) ESigDecode ;;
  _ <- verify_claim_signature (b_claim b) sig auth ;;
  _ <- verify_auth_inclusion (b_mtp b) (b_state b) auth ;;
  _ <- validate_issuer_state poseidon q (b_state b) ;;
  _ <- check_state_published D resolve_did id_from_did genesis_check (b_did b) (b_state b) ;;
  validate_auth_revocation (b_status b) (b_auth b).

End BJJ.
