(* Verify/Top78.v — executable model of the part of W3CCredential.VerifyProof that
   precedes verifyBJJSignatureProof / verifyIden3SparseMerkleTreeProof (C07, C08).
   NO proofs in this file.

   Go code modelled (verifiable/credential.go VerifyProof, as it is in /repo now):
     1. look for a proof of the requested type        -> ErrProofNotFound
     2. credProof.GetCoreClaim()                      -> "can't get core claim"
     3. vc.verifyCredentialCoreClaim(...)             -> error          (property C06; here a
                                                         recorded outcome, not re-modelled)
     4. remarshalObj(&typedProof, credProof)          -> error          (JSON round trip through
                                                         the typed proof's UnmarshalJSON; here the
                                                         decoded bundle or None)
     5. verifyBJJSignatureProof / verifyIden3SparseMerkleTreeProof on the typed proof and the
        core claim of step 2.
   After step 4 `issuerData.credentialStatus` is what encoding/json produces for an `any`:
   a jsonObj (RSObj), or something else (RSOther); never a typed pointer. *)
From Coq Require Import ZArith List String Bool.
From GSP Require Import Base.Prelude Verify.Status.
Import ListNotations.

Definition ENotFound78  : string := "proof-not-found"%string.
Definition ECoreClaim78 : string := "core-claim-decode"%string.
Definition EBinding78   : string := "claim-binding"%string.
Definition ERemarshal78 : string := "typed-proof-decode"%string.

Record vp_input (B : Type) := mkvp {
  vp_found   : bool;       (* a proof with the requested type is present *)
  vp_claim   : bool;       (* its coreClaim decodes (the claim itself sits in the bundle) *)
  vp_binding : bool;       (* verifyCredentialCoreClaim = nil *)
  vp_typed   : option B    (* the proof re-decoded as the typed proof structure *)
}.
Arguments mkvp {B}.
Arguments vp_found {B}. Arguments vp_claim {B}. Arguments vp_binding {B}. Arguments vp_typed {B}.

Definition verify_proof_top {B} (check : B -> res unit) (i : vp_input B) : res unit :=
  if negb (vp_found i) then Err ENotFound78 else
  if negb (vp_claim i) then Err ECoreClaim78 else
  if negb (vp_binding i) then Err EBinding78 else
  match vp_typed i with
  | None => Err ERemarshal78
  | Some b => check b
  end.

(* Step 1 on the credential's WHOLE proof list: the loop `for _, p := range vc.Proof` stops at
   the FIRST proof whose type is the requested one; that proof - and no other - supplies the core
   claim for the binding check and is the one handed to the verifier.  An entry of the list is
   (its type is the requested one?, what steps 2-4 find for it). *)
Definition select_proof {B} (ps : list (bool * vp_input B)) : vp_input B :=
  match find (fun p => fst p) ps with
  | Some (_, i) => mkvp true (vp_claim i) (vp_binding i) (vp_typed i)
  | None => mkvp false true true None
  end.

Definition verify_proof_list {B} (check : B -> res unit) (ps : list (bool * vp_input B)) : res unit :=
  verify_proof_top check (select_proof ps).

(* issuerData.credentialStatus is declared `interface{}`: when the proof is decoded, an
   object {"id":..,"type":ty,"revocationNonce":n} with an integer literal n becomes a jsonObj
   whose number is a float64; coerceCredentialStatus re-encodes it and decodes the result into
   CredentialStatus.RevocationNonce (uint64).  `json_rt n` is that round trip of encoding/json
   (float64 rounding, shortest decimal printing, uint64 parsing; None = error): an external
   function, a recorded table in the per-run evaluation.  It is the identity below 2^53. *)
Definition status_after_json (json_rt : Z -> option Z) (ty : string) (n : Z) : raw_status :=
  match json_rt n with
  | Some n' => RSObj (Some (mkcs ty n'))
  | None => RSObj None
  end.

(* ---- issuerData.credentialStatus as the JSON object that stands in the proof ----
   coerceCredentialStatus re-encodes the jsonObj and decodes it into
     CredentialStatus{ID string; Type string; RevocationNonce uint64; StatusIssuer *CredentialStatus}
   (encoding/json: unknown members are ignored, null leaves a field at its zero value, a member
   of the wrong JSON kind is an error; every number went through float64 first: json_rt).
   jv is a JSON value as far as this decoder can tell values apart. *)
Inductive jv :=
| JNull
| JStr (s : string)
| JNum (n : Z)                      (* a non-negative integer literal *)
| JObj (o : list (string * jv))
| JBad.                             (* any other value: boolean, array, other numbers *)

Fixpoint jget (k : string) (o : list (string * jv)) : option jv :=
  match o with
  | [] => None
  | (a, v) :: r => if String.eqb a k then Some v else jget k r
  end.

Definition j_string (v : option jv) : option string :=       (* a string field *)
  match v with
  | None | Some JNull => Some ""%string
  | Some (JStr s) => Some s
  | _ => None
  end.
Definition j_uint64 (json_rt : Z -> option Z) (v : option jv) : option Z :=   (* a uint64 field *)
  match v with
  | None | Some JNull => Some 0%Z
  | Some (JNum n) => json_rt n
  | _ => None
  end.

(* fuel = nesting depth of statusIssuer objects still allowed (the harness nests at most 3) *)
Fixpoint decode_cs (fuel : nat) (json_rt : Z -> option Z) (o : list (string * jv)) : option cred_status :=
  match fuel with
  | O => None
  | S f =>
      match j_string (jget "id" o), j_string (jget "type" o), j_uint64 json_rt (jget "revocationNonce" o) with
      | Some _, Some ty, Some n =>
          match jget "statusIssuer" o with
          | None | Some JNull => Some (mkcs ty n)
          | Some (JObj si) =>
              (* the nested entry must decode; NOTHING of it reaches the verifier's decision *)
              match decode_cs f json_rt si with Some _ => Some (mkcs ty n) | None => None end
          | Some _ => None
          end
      | _, _, _ => None
      end
  end.

Definition status_of_json (fuel : nat) (json_rt : Z -> option Z) (o : list (string * jv)) : raw_status :=
  RSObj (decode_cs fuel json_rt o).

(* shapes of issuerData.credentialStatus that can come out of a JSON decoder *)
Definition json_shaped (r : raw_status) : bool :=
  match r with RSObj _ | RSOther => true | _ => false end.
