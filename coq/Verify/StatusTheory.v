(* Verify/StatusTheory.v — theorems about the revocation-status model Verify/Status.v
   (property C09; restated in Properties/C09.v).

   Everything is proved for an ARBITRARY function `poseidon : list Z -> Z` and an
   arbitrary modulus q.  The only facts ever assumed about them are stated where used:
     0 < q <= 2^256                 (shape of the modulus: the 32-byte Hash holds it)
     forall l, 0 <= poseidon l < q  (C09_real_tree only: a hash output is a field element)
   No injectivity / collision-freeness: the soundness statements carry explicit
   collision disjuncts. *)
From Coq Require Import ZArith List String Ascii Bool Arith Lia.
From GSP Require Import Base.Prelude SMT.Model SMT.Theory SMT.Sound Verify.Status.
Import ListNotations.
Open Scope list_scope.
Open Scope Z_scope.

(* ------------------------------------------------------------------ *)
(* generic helpers                                                      *)
(* ------------------------------------------------------------------ *)

Lemma bind_ok_inv {A B} (r : res A) (f : A -> res B) (b : B) :
  bind r f = Ok b -> exists a, r = Ok a /\ f a = Ok b.
Proof. destruct r as [a| | |]; simpl; intro H; try discriminate. eauto. Qed.

Lemma bind_err_inv {A B} (r : res A) (f : A -> res B) (t : string) :
  bind r f = Err t -> r = Err t \/ exists a, r = Ok a /\ f a = Err t.
Proof. destruct r as [a| | |]; simpl; intro H; try discriminate; eauto. left. congruence. Qed.

Lemma existsb_geq_false (q : Z) (l : list Z) :
  existsb (fun x => q <=? x) l = false <-> Forall (fun x => x < q) l.
Proof.
  induction l as [|x l IH]; simpl.
  - split; auto.
  - rewrite orb_false_iff, IH. split.
    + intros [Hx Hl]. constructor; auto. apply Z.leb_gt. exact Hx.
    + intros HF. inversion HF; subst. split; auto. apply Z.leb_gt. assumption.
Qed.

(* ------------------------------------------------------------------ *)
(* the specification vocabulary                                         *)
(* ------------------------------------------------------------------ *)

(* the number a root member of TreeState denotes: an absent root means zero *)
Definition root_value (h : hexf) : option Z :=
  match h with HNil => Some 0 | HBad => None | HVal z => Some z end.

(* a JSON proof is usable when its auxiliary node, if any, has key and value *)
Definition proof_of (rp : rproof) : option proof :=
  match r_aux rp with
  | None => Some (mkproof (r_ex rp) (r_sibs rp) None)
  | Some (Some ak, Some av) => Some (mkproof (r_ex rp) (r_sibs rp) (Some (ak, av)))
  | Some _ => None
  end.

Section StatusTheory.
Variable poseidon : list Z -> Z.
Variable q : Z.

Notation hl := (hl poseidon).
Notation hm := (hm poseidon).
Notation pos_hash := (pos_hash poseidon q).
Notation validate_tree_state := (validate_tree_state poseidon q).
Notation root_from_mtp := (root_from_mtp poseidon q).
Notation verify_mtp := (verify_mtp poseidon q).
Notation validate_status := (validate_status poseidon q).
Notation validate_credential_status := (validate_credential_status poseidon q).

(* state = H(claims root, revocation root, roots root), missing roots meaning zero;
   the three numbers must be field elements (Poseidon refuses anything else) *)
Definition tree_state_ok (i : tree_state) : Prop :=
  exists s c r o,
    ts_state i = HVal s /\
    root_value (ts_ctr i) = Some c /\ root_value (ts_rtr i) = Some r /\
    root_value (ts_ror i) = Some o /\
    c < q /\ r < q /\ o < q /\ poseidon [c; r; o] = s.

(* what go-merkletree-sql insists on before/while recomputing a root: at most 240
   siblings, every sibling a field element, and (non-existence only) an auxiliary
   leaf made of field elements *)
Definition lib_accepts (p : proof) : Prop :=
  (List.length (sibs p) <= 240)%nat /\
  Forall (fun s => s < q) (sibs p) /\
  (ex p = false -> forall ak av, aux p = Some (ak, av) -> ak < q /\ av < q).

(* the Merkle proof of the answer verifies for (k, v) against root r *)
Definition proof_verifies (rp : rproof) (r k v : Z) : Prop :=
  exists p, proof_of rp = Some p /\ lib_accepts p /\ verify_proof hl hm r p k v = true.

(* the registry knows the status type and its resolver answered a *)
Definition resolved (reg : registry) (cs : cred_status) (a : answer) : Prop :=
  exists rslv, lookup_resolver reg (cs_type cs) = Some rslv /\ rslv cs = Some a.

(* ------------------------------------------------------------------ *)
(* 1. validateTreeState                                                 *)
(* ------------------------------------------------------------------ *)

Lemma hex_or_zero_ok : forall h z, hex_or_zero h = Ok z <-> root_value h = Some z.
Proof. intros [| |x] z; simpl; split; intro H; try discriminate; congruence. Qed.

Lemma hex_or_zero_total : forall h, (exists z, hex_or_zero h = Ok z) \/ hex_or_zero h = Err EHex.
Proof. intros [| |x]; simpl; eauto. Qed.

Lemma pos_hash_ok : forall l h,
  pos_hash l = Ok h <-> Forall (fun x => x < q) l /\ h = poseidon l.
Proof.
  intros l h. unfold Status.pos_hash.
  destruct (existsb (fun x => q <=? x) l) eqn:He.
  - split; [discriminate|]. intros [HF _]. apply existsb_geq_false in HF. congruence.
  - apply existsb_geq_false in He. split.
    + intro H. inversion H. auto.
    + intros [_ ->]. reflexivity.
Qed.

Lemma pos_hash_total : forall l, (exists h, pos_hash l = Ok h) \/ pos_hash l = Err EPoseidon.
Proof. intro l. unfold Status.pos_hash. destruct (existsb _ l); eauto. Qed.

Theorem validate_tree_state_true_iff : forall i,
  validate_tree_state i = Ok true <-> tree_state_ok i.
Proof.
  intro i. unfold Status.validate_tree_state, tree_state_ok. split.
  - intro H. destruct (ts_state i) as [| |s] eqn:Hs; try discriminate.
    + (* HBad: the last step answers Err *)
      exfalso.
      apply bind_ok_inv in H. destruct H as (c & _ & H).
      apply bind_ok_inv in H. destruct H as (r & _ & H).
      apply bind_ok_inv in H. destruct H as (o & _ & H).
      apply bind_ok_inv in H. destruct H as (w & _ & H). discriminate.
    + apply bind_ok_inv in H. destruct H as (c & Hc & H).
      apply bind_ok_inv in H. destruct H as (r & Hr & H).
      apply bind_ok_inv in H. destruct H as (o & Ho & H).
      apply bind_ok_inv in H. destruct H as (w & Hw & H).
      apply pos_hash_ok in Hw. destruct Hw as [HF ->].
      inversion H as [He]. apply Z.eqb_eq in He.
      inversion HF as [|? ? Hc' HF1]; subst. inversion HF1 as [|? ? Hr' HF2]; subst.
      inversion HF2 as [|? ? Ho' _]; subst.
      exists (poseidon [c; r; o]), c, r, o. rewrite <- !hex_or_zero_ok. repeat split; auto.
  - intros (s & c & r & o & Hs & Hc & Hr & Ho & Hcq & Hrq & Hoq & Hp).
    rewrite Hs. apply hex_or_zero_ok in Hc, Hr, Ho. rewrite Hc, Hr, Ho. simpl.
    assert (Hw : pos_hash [c; r; o] = Ok (poseidon [c; r; o])).
    { apply pos_hash_ok. split; auto. }
    rewrite Hw. simpl. rewrite Hp, Z.eqb_refl. reflexivity.
Qed.

(* validateTreeState never panics or diverges, and its error tags are not `revoked` *)
Lemma validate_tree_state_total : forall i,
  (exists b, validate_tree_state i = Ok b) \/
  (exists t, validate_tree_state i = Err t /\ t <> ERevoked).
Proof.
  intro i. unfold Status.validate_tree_state.
  assert (Hn1 : EStateNil <> ERevoked) by (unfold EStateNil, ERevoked; discriminate).
  assert (Hn2 : EHex <> ERevoked) by (unfold EHex, ERevoked; discriminate).
  assert (Hn3 : EPoseidon <> ERevoked) by (unfold EPoseidon, ERevoked; discriminate).
  destruct (ts_state i) as [| |s]; [right; eauto| |];
    (destruct (hex_or_zero_total (ts_ctr i)) as [(c & ->)| ->]; simpl; [|right; eauto];
     destruct (hex_or_zero_total (ts_rtr i)) as [(r & ->)| ->]; simpl; [|right; eauto];
     destruct (hex_or_zero_total (ts_ror i)) as [(o & ->)| ->]; simpl; [|right; eauto];
     destruct (pos_hash_total [c; r; o]) as [(w & ->)| ->]; simpl; [|right; eauto]).
  - right; eauto.
  - left; eauto.
Qed.

(* ------------------------------------------------------------------ *)
(* 2. rootFromMerkleTreeProof / verifyMerkleTreeProof                   *)
(* ------------------------------------------------------------------ *)

Lemma hash_of_z_small : forall z, 0 <= z < 2 ^ 256 -> hash_of_z z = z.
Proof.
  intros z Hz. unfold hash_of_z. rewrite Z.abs_eq by lia. apply Z.mod_small. exact Hz.
Qed.

Section InField.
Hypothesis Hq : 0 < q <= 2 ^ 256.
Variables k v : Z.
Hypothesis Hk : 0 <= k < q.
Hypothesis Hv : 0 <= v < q.

Lemma mt_root_from_proof_ok_iff : forall p r,
  mt_root_from_proof hl hm q p k v = Ok r <->
  lib_accepts p /\ root_from_proof hl hm p k v = Some r.
Proof.
  intros p r. unfold mt_root_from_proof, lib_accepts, root_from_proof, proof_mid.
  rewrite !hash_of_z_small by lia.
  assert (Hqk : (q <=? k) = false) by (apply Z.leb_gt; lia).
  assert (Hqv : (q <=? v) = false) by (apply Z.leb_gt; lia).
  rewrite Hqk, Hqv. simpl orb.
  assert (Hlen : forall n : nat, Nat.ltb notempties_bits n = false <-> (n <= 240)%nat).
  { intro n. unfold notempties_bits. rewrite Nat.ltb_ge. reflexivity. }
  destruct (ex p) eqn:He.
  - simpl.
    destruct (Nat.ltb notempties_bits (List.length (sibs p))) eqn:Hl.
    + split; [discriminate|]. intros [(Hlen' & _) _]. apply Hlen in Hlen'. congruence.
    + apply Hlen in Hl.
      destruct (existsb (fun s => q <=? s) (sibs p)) eqn:Hs.
      * split; [discriminate|]. intros [(_ & HF & _) _]. apply existsb_geq_false in HF. congruence.
      * apply existsb_geq_false in Hs. split.
        -- intro H. inversion H. repeat split; auto; congruence.
        -- intros [_ H]. inversion H. reflexivity.
  - destruct (aux p) as [(ak, av)|] eqn:Ha.
    + destruct (k =? ak) eqn:Hka; simpl.
      * split; [discriminate|]. intros [_ H]. discriminate.
      * destruct ((q <=? ak) || (q <=? av)) eqn:Hf; simpl.
        -- split; [discriminate|]. intros [(_ & _ & Hx) _].
           destruct (Hx eq_refl ak av eq_refl) as [H1 H2].
           apply orb_true_iff in Hf. destruct Hf as [Hf|Hf]; apply Z.leb_le in Hf; lia.
        -- apply orb_false_iff in Hf. destruct Hf as [Hf1 Hf2].
           apply Z.leb_gt in Hf1, Hf2.
           destruct (Nat.ltb notempties_bits (List.length (sibs p))) eqn:Hl.
           ++ split; [discriminate|]. intros [(Hlen' & _) _]. apply Hlen in Hlen'. congruence.
           ++ apply Hlen in Hl.
              destruct (existsb (fun s => q <=? s) (sibs p)) eqn:Hs.
              ** split; [discriminate|]. intros [(_ & HF & _) _].
                 apply existsb_geq_false in HF. congruence.
              ** apply existsb_geq_false in Hs. split.
                 --- intro H. inversion H. repeat split; auto; congruence.
                 --- intros [_ H]. inversion H. reflexivity.
    + simpl.
      destruct (Nat.ltb notempties_bits (List.length (sibs p))) eqn:Hl.
      * split; [discriminate|]. intros [(Hlen' & _) _]. apply Hlen in Hlen'. congruence.
      * apply Hlen in Hl.
        destruct (existsb (fun s => q <=? s) (sibs p)) eqn:Hs.
        -- split; [discriminate|]. intros [(_ & HF & _) _].
           apply existsb_geq_false in HF. congruence.
        -- apply existsb_geq_false in Hs. split.
           ++ intro H. inversion H. repeat split; auto; congruence.
           ++ intros [_ H]. inversion H. reflexivity.
Qed.

(* the wrapper: nil proof, incomplete auxiliary node and a recovered panic are errors *)
Lemma root_from_mtp_ok_iff : forall rp r,
  root_from_mtp (Some rp) k v = Ok r <->
  exists p, proof_of rp = Some p /\ lib_accepts p /\ root_from_proof hl hm p k v = Some r.
Proof.
  intros rp r. unfold Status.root_from_mtp, proof_of.
  destruct (r_aux rp) as [[[ak|] [av|]]|].
  - (* complete aux *)
    destruct (mt_root_from_proof hl hm q (mkproof (r_ex rp) (r_sibs rp) (Some (ak, av))) k v)
      as [r'| | |] eqn:Hm.
    + split.
      * intro H. inversion H; subst. apply mt_root_from_proof_ok_iff in Hm.
        eexists. split; [reflexivity|]. exact Hm.
      * intros (p & Hp & Hacc). inversion Hp; subst. apply mt_root_from_proof_ok_iff in Hacc.
        congruence.
    + split; [discriminate|]. intros (p & Hp & Hacc). inversion Hp; subst.
      apply mt_root_from_proof_ok_iff in Hacc. congruence.
    + split; [discriminate|]. intros (p & Hp & Hacc). inversion Hp; subst.
      apply mt_root_from_proof_ok_iff in Hacc. congruence.
    + split; [discriminate|]. intros (p & Hp & Hacc). inversion Hp; subst.
      apply mt_root_from_proof_ok_iff in Hacc. congruence.
  - split; [discriminate|]. intros (p & Hp & _). discriminate.
  - split; [discriminate|]. intros (p & Hp & _). discriminate.
  - split; [discriminate|]. intros (p & Hp & _). discriminate.
  - destruct (mt_root_from_proof hl hm q (mkproof (r_ex rp) (r_sibs rp) None) k v)
      as [r'| | |] eqn:Hm.
    + split.
      * intro H. inversion H; subst. apply mt_root_from_proof_ok_iff in Hm.
        eexists. split; [reflexivity|]. exact Hm.
      * intros (p & Hp & Hacc). inversion Hp; subst. apply mt_root_from_proof_ok_iff in Hacc.
        congruence.
    + split; [discriminate|]. intros (p & Hp & Hacc). inversion Hp; subst.
      apply mt_root_from_proof_ok_iff in Hacc. congruence.
    + split; [discriminate|]. intros (p & Hp & Hacc). inversion Hp; subst.
      apply mt_root_from_proof_ok_iff in Hacc. congruence.
    + split; [discriminate|]. intros (p & Hp & Hacc). inversion Hp; subst.
      apply mt_root_from_proof_ok_iff in Hacc. congruence.
Qed.

Lemma verify_mtp_true_iff : forall rp r,
  verify_mtp r (Some rp) k v = true <-> proof_verifies rp r k v.
Proof.
  intros rp r. unfold Status.verify_mtp, proof_verifies, verify_proof.
  destruct (root_from_mtp (Some rp) k v) as [r'| | |] eqn:Hr.
  - apply root_from_mtp_ok_iff in Hr. destruct Hr as (p & Hp & Hacc & Hrf). split.
    + intro H. exists p. rewrite Hrf. auto.
    + intros (p' & Hp' & _ & Hv'). rewrite Hp in Hp'. inversion Hp'; subst p'.
      rewrite Hrf in Hv'. exact Hv'.
  - split; [discriminate|]. intros (p & Hp & Hacc & Hv').
    destruct (root_from_proof hl hm p k v) as [r'|] eqn:Hrf; [|discriminate].
    assert (Hx : root_from_mtp (Some rp) k v = Ok r').
    { apply root_from_mtp_ok_iff. eauto. }
    congruence.
  - split; [discriminate|]. intros (p & Hp & Hacc & Hv').
    destruct (root_from_proof hl hm p k v) as [r'|] eqn:Hrf; [|discriminate].
    assert (Hx : root_from_mtp (Some rp) k v = Ok r').
    { apply root_from_mtp_ok_iff. eauto. }
    congruence.
  - split; [discriminate|]. intros (p & Hp & Hacc & Hv').
    destruct (root_from_proof hl hm p k v) as [r'|] eqn:Hrf; [|discriminate].
    assert (Hx : root_from_mtp (Some rp) k v = Ok r').
    { apply root_from_mtp_ok_iff. eauto. }
    congruence.
Qed.

End InField.

Lemma proof_of_ex : forall rp p, proof_of rp = Some p -> ex p = r_ex rp.
Proof.
  intros rp p. unfold proof_of.
  destruct (r_aux rp) as [[[ak|] [av|]]|]; intro H; inversion H; reflexivity.
Qed.

(* ------------------------------------------------------------------ *)
(* 3. ValidateCredentialStatus: the decision                            *)
(* ------------------------------------------------------------------ *)

(* the conjunction the property speaks about *)
Definition status_verified (a : answer) (nonce : Z) : Prop :=
  tree_state_ok (a_issuer a) /\
  exists rr, root_value (ts_rtr (a_issuer a)) = Some rr /\ proof_verifies (a_mtp a) rr nonce 0.

Section Decision.
Hypothesis Hq : 0 < q <= 2 ^ 256.

(* every way the function can end, in the order of the Go code *)
Lemma validate_status_cases : forall reg cs,
  0 <= cs_nonce cs < q ->
  (* unknown status type *)
  (lookup_resolver reg (cs_type cs) = None /\ validate_status reg cs = Err EStatusType) \/
  (* the resolver failed *)
  (exists rslv, lookup_resolver reg (cs_type cs) = Some rslv /\ rslv cs = None /\
                validate_status reg cs = Err EResolver) \/
  exists a, resolved reg cs a /\
    ((* tree state check ends in an error *)
     (exists t, validate_tree_state (a_issuer a) = Err t /\ t <> ERevoked /\
                ~ tree_state_ok (a_issuer a) /\ validate_status reg cs = Err t) \/
     (* state <> H(roots) *)
     (validate_tree_state (a_issuer a) = Ok false /\ ~ tree_state_ok (a_issuer a) /\
      validate_status reg cs = Err ETreeState) \/
     (* proof does not verify *)
     (tree_state_ok (a_issuer a) /\ ~ status_verified a (cs_nonce cs) /\
      validate_status reg cs = Err EProof) \/
     (* verified existence *)
     (status_verified a (cs_nonce cs) /\ r_ex (a_mtp a) = true /\
      validate_status reg cs = Err ERevoked) \/
     (* verified non-existence *)
     (status_verified a (cs_nonce cs) /\ r_ex (a_mtp a) = false /\
      validate_status reg cs = Ok a)).
Proof.
  intros reg cs Hn. unfold Status.validate_status.
  destruct (lookup_resolver reg (cs_type cs)) as [rslv|] eqn:Hl; [|left; auto].
  right. destruct (rslv cs) as [a|] eqn:Hr; [|left; exists rslv; auto].
  right. exists a. split; [exists rslv; auto|].
  assert (Hv0 : 0 <= 0 < q) by lia.
  destruct (validate_tree_state_total (a_issuer a)) as [(b & Hb)|(t & Ht & Hne)].
  - rewrite Hb. simpl. destruct b; simpl.
    + assert (Hts : tree_state_ok (a_issuer a)) by (apply validate_tree_state_true_iff; exact Hb).
      pose proof Hts as Hts'. destruct Hts' as (s & c & r & o & Hs & Hc & Hrr & Ho & Hrest).
      assert (Hhz : hex_or_zero (ts_rtr (a_issuer a)) = Ok r) by (apply hex_or_zero_ok; exact Hrr).
      rewrite Hhz. simpl.
      destruct (verify_mtp r (Some (a_mtp a)) (cs_nonce cs) 0) eqn:Hvm; simpl.
      * apply (verify_mtp_true_iff Hq _ _ Hn Hv0) in Hvm.
        assert (Hsv : status_verified a (cs_nonce cs)).
        { split; [exact Hts|]. exists r. auto. }
        destruct (r_ex (a_mtp a)) eqn:He.
        -- right. right. right. left. auto.
        -- right. right. right. right. auto.
      * right. right. left. split; [exact Hts|]. split; [|reflexivity].
        intros (_ & rr & Hrr' & Hpv). rewrite Hrr in Hrr'. inversion Hrr'; subst rr.
        apply (verify_mtp_true_iff Hq _ _ Hn Hv0) in Hpv. congruence.
    + right. left. split; [reflexivity|]. split; [|reflexivity].
      intro Hts. apply validate_tree_state_true_iff in Hts. congruence.
  - left. exists t. rewrite Ht. simpl. repeat split; auto.
    intro Hts. apply validate_tree_state_true_iff in Hts. congruence.
Qed.

Lemma resolved_fun : forall reg cs a a', resolved reg cs a -> resolved reg cs a' -> a = a'.
Proof.
  intros reg cs a a' (r1 & H1 & H1') (r2 & H2 & H2'). rewrite H1 in H2. inversion H2; subst.
  congruence.
Qed.

Lemma tags_distinct :
  EStatusType <> ERevoked /\ EResolver <> ERevoked /\ ETreeState <> ERevoked /\ EProof <> ERevoked.
Proof. unfold EStatusType, EResolver, ETreeState, EProof, ERevoked. repeat split; discriminate. Qed.

(* success <-> consistent tree state, verified proof, proof of NON-existence *)
Theorem decision_ok : forall reg cs a,
  0 <= cs_nonce cs < q ->
  (validate_status reg cs = Ok a <->
   resolved reg cs a /\ status_verified a (cs_nonce cs) /\ r_ex (a_mtp a) = false).
Proof.
  intros reg cs a Hn.
  destruct (validate_status_cases reg cs Hn)
    as [(Hl & Hv)|[(rslv & Hl & Hr & Hv)|(a' & Hres & Hc)]].
  - rewrite Hv. split; [discriminate|]. intros ((r & Hl' & _) & _). congruence.
  - rewrite Hv. split; [discriminate|]. intros ((r & Hl' & Hr') & _).
    rewrite Hl in Hl'. inversion Hl'; subst. congruence.
  - destruct Hc as [(t & _ & _ & Hnts & Hv)|[(_ & Hnts & Hv)|[(_ & Hnsv & Hv)|[(Hsv & He & Hv)|(Hsv & He & Hv)]]]];
      rewrite Hv; (split; [try discriminate|]).
    + intros (Hres' & (Hts & _) & _). rewrite (resolved_fun _ _ _ _ Hres' Hres) in Hts. contradiction.
    + intros (Hres' & (Hts & _) & _). rewrite (resolved_fun _ _ _ _ Hres' Hres) in Hts. contradiction.
    + intros (Hres' & Hsv & _). rewrite (resolved_fun _ _ _ _ Hres' Hres) in Hsv. contradiction.
    + intros (Hres' & _ & He'). rewrite (resolved_fun _ _ _ _ Hres' Hres) in He'. congruence.
    + intro H. inversion H; subst. auto.
    + intros (Hres' & _). rewrite (resolved_fun _ _ _ _ Hres' Hres). reflexivity.
Qed.

(* the distinguished error <-> consistent tree state, verified proof, proof of EXISTENCE *)
Theorem decision_revoked : forall reg cs,
  0 <= cs_nonce cs < q ->
  (validate_status reg cs = Err ERevoked <->
   exists a, resolved reg cs a /\ status_verified a (cs_nonce cs) /\ r_ex (a_mtp a) = true).
Proof.
  intros reg cs Hn. destruct tags_distinct as (T1 & T2 & T3 & T4).
  destruct (validate_status_cases reg cs Hn)
    as [(Hl & Hv)|[(rslv & Hl & Hr & Hv)|(a' & Hres & Hc)]].
  - rewrite Hv. split; [intro H; inversion H; congruence|].
    intros (a & (r & Hl' & _) & _). congruence.
  - rewrite Hv. split; [intro H; inversion H; congruence|].
    intros (a & (r & Hl' & Hr') & _). rewrite Hl in Hl'. inversion Hl'; subst. congruence.
  - destruct Hc as [(t & _ & Hne & Hnts & Hv)|[(_ & Hnts & Hv)|[(_ & Hnsv & Hv)|[(Hsv & He & Hv)|(Hsv & He & Hv)]]]];
      rewrite Hv; split; try discriminate; try (intro H; inversion H; congruence).
    + intros (a & Hres' & (Hts & _) & _). rewrite (resolved_fun _ _ _ _ Hres' Hres) in Hts. contradiction.
    + intros (a & Hres' & (Hts & _) & _). rewrite (resolved_fun _ _ _ _ Hres' Hres) in Hts. contradiction.
    + intros (a & Hres' & Hsv & _). rewrite (resolved_fun _ _ _ _ Hres' Hres) in Hsv. contradiction.
    + intros _. exists a'. auto.
    + intros (a & Hres' & _ & He'). rewrite (resolved_fun _ _ _ _ Hres' Hres) in He'. congruence.
Qed.

(* every other case is an error that is not the distinguished one; never a panic *)
Theorem decision_other : forall reg cs,
  0 <= cs_nonce cs < q ->
  (exists a, validate_status reg cs = Ok a) \/
  validate_status reg cs = Err ERevoked \/
  (exists t, validate_status reg cs = Err t /\ t <> ERevoked).
Proof.
  intros reg cs Hn. destruct tags_distinct as (T1 & T2 & T3 & T4).
  destruct (validate_status_cases reg cs Hn)
    as [(Hl & Hv)|[(rslv & Hl & Hr & Hv)|(a' & Hres & Hc)]].
  - right. right. eauto.
  - right. right. eauto.
  - destruct Hc as [(t & _ & Hne & _ & Hv)|[(_ & _ & Hv)|[(_ & _ & Hv)|[(_ & _ & Hv)|(_ & _ & Hv)]]]].
    + right. right. eauto.
    + right. right. eauto.
    + right. right. eauto.
    + right. left. exact Hv.
    + left. eauto.
Qed.

End Decision.

(* ------------------------------------------------------------------ *)
(* 4. options and the registry                                          *)
(* ------------------------------------------------------------------ *)

Definition opt_is_fail (o : vopt) : bool := match o with OptFail => true | _ => false end.
Definition opt_step (cur : option registry) (o : vopt) : option registry :=
  match o with OptRegistry r => r | OptFail => cur end.

Lemma apply_opts_spec : forall opts cur,
  apply_opts cur opts =
  if existsb opt_is_fail opts then Err EOption else Ok (fold_left opt_step opts cur).
Proof.
  induction opts as [|o opts IH]; intro cur; simpl; [reflexivity|].
  destruct o as [r|]; simpl; [apply IH|reflexivity].
Qed.

(* without options the default registry is used; the last registry option wins *)
Lemma validate_credential_status_default : forall dflt cs,
  validate_credential_status dflt [] cs = validate_status dflt cs.
Proof. reflexivity. Qed.

Lemma validate_credential_status_with : forall dflt opts reg cs,
  validate_credential_status dflt (opts ++ [OptRegistry (Some reg)]) cs =
  if existsb opt_is_fail opts then Err EOption else validate_status reg cs.
Proof.
  intros dflt opts reg cs. unfold Status.validate_credential_status.
  rewrite apply_opts_spec, existsb_app, fold_left_app. simpl. rewrite orb_false_r.
  destruct (existsb opt_is_fail opts); reflexivity.
Qed.

Lemma lookup_register_same : forall reg ty r,
  lookup_resolver (reg_register reg ty r) ty = Some r.
Proof.
  intros reg ty r. unfold lookup_resolver, reg_register.
  induction reg as [|(a, b) reg IH]; simpl.
  - rewrite String.eqb_refl. reflexivity.
  - destruct (String.eqb a ty) eqn:He; simpl; rewrite He; auto.
Qed.

Lemma lookup_register_other : forall reg ty ty' r,
  ty' <> ty -> lookup_resolver (reg_register reg ty r) ty' = lookup_resolver reg ty'.
Proof.
  intros reg ty ty' r Hne. unfold lookup_resolver, reg_register.
  induction reg as [|(a, b) reg IH]; simpl.
  - destruct (String.eqb_spec ty ty'); [congruence|reflexivity].
  - destruct (String.eqb_spec a ty) as [->|Hat]; simpl.
    + destruct (String.eqb_spec ty ty'); [congruence|reflexivity].
    + destruct (String.eqb a ty'); auto.
Qed.

Lemma lookup_delete_same : forall reg ty, lookup_resolver (reg_delete reg ty) ty = None.
Proof.
  intros reg ty. unfold lookup_resolver, reg_delete.
  induction reg as [|(a, b) reg IH]; simpl; [reflexivity|].
  destruct (String.eqb a ty) eqn:He; simpl; [exact IH|]. rewrite He. exact IH.
Qed.

Lemma lookup_delete_other : forall reg ty ty',
  ty' <> ty -> lookup_resolver (reg_delete reg ty) ty' = lookup_resolver reg ty'.
Proof.
  intros reg ty ty' Hne. unfold lookup_resolver, reg_delete.
  induction reg as [|(a, b) reg IH]; simpl; [reflexivity|].
  destruct (String.eqb_spec a ty) as [->|Hat]; simpl.
  - destruct (String.eqb_spec ty ty'); [congruence|exact IH].
  - destruct (String.eqb a ty'); auto.
Qed.

Lemma registry_frame : forall (reg : registry) (ty ty' : string) (r : resolver), ty' <> ty ->
  lookup_resolver (reg_register reg ty r) ty' = lookup_resolver reg ty' /\
  lookup_resolver (reg_delete reg ty) ty' = lookup_resolver reg ty'.
Proof.
  intros reg ty ty' r H. split; [apply lookup_register_other|apply lookup_delete_other]; exact H.
Qed.

Lemma options_spec : forall (dflt : registry) (opts : list vopt) (reg : registry) (cs : cred_status),
  validate_credential_status dflt [] cs = validate_status dflt cs /\
  validate_credential_status dflt (opts ++ [OptRegistry (Some reg)]) cs =
    (if existsb opt_is_fail opts then Err EOption else validate_status reg cs).
Proof.
  intros dflt opts reg cs. split;
    [apply validate_credential_status_default|apply validate_credential_status_with].
Qed.

(* a status type nobody registered (or that was deleted) is refused *)
Theorem unregistered_refused : forall reg cs,
  lookup_resolver reg (cs_type cs) = None -> validate_status reg cs = Err EStatusType.
Proof. intros reg cs H. unfold Status.validate_status. rewrite H. reflexivity. Qed.

(* Register/Delete histories: what Get answers for a type after ANY history is decided by
   the last operation that names the type - Register: that resolver, Delete: nothing -
   and by the registry before the history when no operation names it *)
Definition hist_step (ty : string) (cur : option resolver) (o : regop) : option resolver :=
  match o with
  | ORegister t r => if String.eqb t ty then Some r else cur
  | ODelete t => if String.eqb t ty then None else cur
  end.

Theorem registry_history : forall (ops : list regop) (reg : registry) (ty : string),
  lookup_resolver (reg_history reg ops) ty = fold_left (hist_step ty) ops (lookup_resolver reg ty).
Proof.
  unfold reg_history. induction ops as [|o ops IH]; intros reg ty; simpl; [reflexivity|].
  rewrite IH. f_equal. destruct o as [t r|t]; simpl.
  - destruct (String.eqb_spec t ty) as [->|Hne].
    + apply lookup_register_same.
    + apply lookup_register_other. congruence.
  - destruct (String.eqb_spec t ty) as [->|Hne].
    + apply lookup_delete_same.
    + apply lookup_delete_other. congruence.
Qed.

(* corollaries: the last registration wins; a type never registered (or deleted last) is an error *)
Corollary registry_last_wins : forall ops reg ty r more,
  (forall o, In o more -> match o with ORegister t _ | ODelete t => t <> ty end) ->
  lookup_resolver (reg_history reg (ops ++ ORegister ty r :: more)) ty = Some r.
Proof.
  intros ops reg ty r more Hm. rewrite registry_history, fold_left_app. simpl.
  rewrite String.eqb_refl.
  induction more as [|o more IH]; simpl; [reflexivity|].
  assert (Ho := Hm o (or_introl eq_refl)).
  destruct o as [t r'|t]; simpl; (destruct (String.eqb_spec t ty); [contradiction|]);
    apply IH; intros o' Hin; apply Hm; right; exact Hin.
Qed.

Corollary registry_never_registered : forall ops cs,
  (forall o, In o ops -> match o with ORegister t _ => t <> cs_type cs | ODelete _ => True end) ->
  validate_status (reg_history [] ops) cs = Err EStatusType.
Proof.
  intros ops cs Hm. apply unregistered_refused. rewrite registry_history.
  change (lookup_resolver [] (cs_type cs)) with (@None resolver).
  induction ops as [|o ops IH]; simpl; [reflexivity|].
  assert (Ho := Hm o (or_introl eq_refl)).
  destruct o as [t r|t]; simpl.
  - destruct (String.eqb_spec t (cs_type cs)); [contradiction|].
    apply IH. intros o' Hin. apply Hm. right. exact Hin.
  - destruct (String.eqb t (cs_type cs)); apply IH; intros o' Hin; apply Hm; right; exact Hin.
Qed.


End StatusTheory.

(* ------------------------------------------------------------------ *)
(* 5c. a non-existence proof whose auxiliary key IS the queried key     *)
(* ------------------------------------------------------------------ *)

(* tree level (go-merkletree-sql RootFromProof): such a proof has no root, for any hash *)
Theorem nonex_aux_key_differs_smt : forall (hl hm : Z -> Z -> Z) p k v av,
  ex p = false -> aux p = Some (k, av) ->
  root_from_proof hl hm p k v = None /\ forall r, verify_proof hl hm r p k v = false.
Proof.
  intros hl hm p k v av He Ha.
  assert (H : root_from_proof hl hm p k v = None).
  { unfold root_from_proof, proof_mid. rewrite He, Ha, Z.eqb_refl. reflexivity. }
  split; [exact H|]. intro r. unfold verify_proof. rewrite H. reflexivity.
Qed.

(* validator level: ValidateCredentialStatus never answers success nor "revoked" on it *)
Theorem nonex_aux_key_differs : forall (poseidon : list Z -> Z) (q : Z), 0 < q <= 2 ^ 256 ->
  forall reg cs a av,
  0 <= cs_nonce cs < q -> resolved reg cs a ->
  r_ex (a_mtp a) = false -> r_aux (a_mtp a) = Some (Some (cs_nonce cs), Some av) ->
  exists t, Status.validate_status poseidon q reg cs = Err t /\ t <> ERevoked.
Proof.
  intros P q0 Hq reg cs a av Hn Hres He Ha.
  assert (Hnot : ~ status_verified P q0 a (cs_nonce cs)).
  { intros (_ & rr & _ & p & Hp & _ & Hv).
    unfold proof_of in Hp. rewrite Ha in Hp. inversion Hp; subst p.
    destruct (nonex_aux_key_differs_smt (hl P) (hm P)
                (mkproof (r_ex (a_mtp a)) (r_sibs (a_mtp a)) (Some (cs_nonce cs, av)))
                (cs_nonce cs) 0 av He eq_refl) as (_ & Hf).
    rewrite Hf in Hv. discriminate. }
  destruct (decision_other P q0 Hq reg cs Hn) as [(a' & Hok)|[Hrev|Herr]].
  - apply (decision_ok P q0 Hq reg cs a' Hn) in Hok. destruct Hok as (Hres' & Hsv & _).
    rewrite (resolved_fun _ _ _ _ Hres' Hres) in Hsv. contradiction.
  - apply (decision_revoked P q0 Hq reg cs Hn) in Hrev. destruct Hrev as (a' & Hres' & Hsv & _).
    rewrite (resolved_fun _ _ _ _ Hres' Hres) in Hsv. contradiction.
  - exact Herr.
Qed.

(* the variant that walks up from the auxiliary leaf WITHOUT that check *)
Definition verify_proof_nocheck (hl hm : Z -> Z -> Z) (r : Z) (p : proof) (k v : Z) : bool :=
  let mid := if ex p then hl k v
             else match aux p with None => 0 | Some (ak, av) => hl ak av end in
  up hm k 0 (sibs p) mid =? r.

(* ... is refuted for every hash: it "proves" the absence of the only key of a tree *)
Theorem nonex_aux_key_nocheck_refuted : forall (hl hm : Z -> Z -> Z) (k : Z),
  exists t p, wf 40 t /\ In k (keys t) /\ ex p = false /\
              verify_proof_nocheck hl hm (root hl hm t) p k 0 = true /\
              verify_proof hl hm (root hl hm t) p k 0 = false.
Proof.
  intros hl hm k. exists (L k 0), (mkproof false [] (Some (k, 0))).
  split; [unfold wf; simpl; apply Nat.lt_0_succ|]. split; [left; reflexivity|]. split; [reflexivity|]. split.
  - unfold verify_proof_nocheck. simpl. apply Z.eqb_refl.
  - apply (nonex_aux_key_differs_smt hl hm _ k 0 0); reflexivity.
Qed.

(* ------------------------------------------------------------------ *)
(* 6. against a real revocation tree                                    *)
(* ------------------------------------------------------------------ *)

(* the JSON form of a library proof *)
Definition rproof_of (p : proof) : rproof :=
  mkrp (ex p) (sibs p)
       (match aux p with None => None | Some (ak, av) => Some (Some ak, Some av) end).

Lemma proof_of_rproof_of : forall p, proof_of (rproof_of p) = Some p.
Proof. intros [e ss [(ak, av)|]]; reflexivity. Qed.

(* a root member as an issuer node may write it: a zero root may be left out *)
Definition enc_root (omit : bool) (z : Z) : hexf :=
  if omit && (z =? 0) then HNil else HVal z.

Lemma root_value_enc_root : forall omit z, root_value (enc_root omit z) = Some z.
Proof.
  intros omit z. unfold enc_root. destruct omit; simpl; [|reflexivity].
  destruct (Z.eqb_spec z 0) as [->|_]; reflexivity.
Qed.

Section RealTree.
Variable poseidon : list Z -> Z.
Variable q : Z.
Variable maxlev : nat.

Notation hl := (hl poseidon).
Notation hm := (hm poseidon).
Notation root := (root hl hm).
Notation gen := (gen hl hm).
Notation validate_status := (validate_status poseidon q).

(* what an honest issuer node answers for `nonce`: its state over the three roots and
   the proof GenerateProof builds in its revocation tree rt *)
Definition honest_answer (rt : tree) (ctr ror : Z) (omit : bool) (nonce : Z) : answer :=
  mkans (mkts (HVal (poseidon [ctr; root rt; ror]))
              (enc_root omit ctr) (enc_root omit (root rt)) (enc_root omit ror))
        (rproof_of (fst (gen rt 0 nonce []))).

(* generic facts about GenerateProof on well-formed trees *)
Lemma gen_depth : forall t lvl k acc p v,
  wf_at maxlev lvl t -> gen t lvl k acc = (p, v) ->
  (List.length (sibs p) <= List.length acc + (maxlev - lvl))%nat.
Proof.
  induction t as [|k' v'|l IHl r IHr]; intros lvl k acc p v Hwf H; simpl in H.
  - inversion H; subst; simpl. rewrite rev_length. lia.
  - destruct (k =? k'); inversion H; subst; simpl; rewrite rev_length; lia.
  - destruct Hwf as (Hlv & _ & _ & _ & Hwl & Hwr).
    destruct (bit k lvl).
    + apply (IHr _ _ _ _ _ Hwr) in H. simpl in H. lia.
    + apply (IHl _ _ _ _ _ Hwl) in H. simpl in H. lia.
Qed.

Lemma gen_member_ex : forall t lvl k acc p v,
  wf_at maxlev lvl t -> In k (keys t) -> gen t lvl k acc = (p, v) -> ex p = true.
Proof.
  induction t as [|k' v'|l IHl r IHr]; intros lvl k acc p v Hwf Hin H.
  - destruct Hin.
  - simpl in H. destruct Hin as [Hk|[]]. simpl in Hk. subst k'.
    rewrite Z.eqb_refl in H. inversion H; reflexivity.
  - pose proof (wf_key_side maxlev lvl l r k Hwf Hin) as Hside.
    destruct Hwf as (_ & _ & _ & _ & Hwl & Hwr). simpl in H.
    destruct (bit k lvl); eauto.
Qed.

(* on a well-formed tree the generated proof is one of existence exactly for the keys *)
Lemma gen_ex_iff : forall t k p v,
  wf maxlev t -> gen t 0 k [] = (p, v) -> (ex p = true <-> In k (keys t)).
Proof.
  intros t k p v Hwf H. split.
  - intro He. apply in_keys. exists v. exact (gen_ex_leaf hl hm _ _ _ _ _ _ H He).
  - intro Hin. exact (gen_member_ex _ _ _ _ _ _ Hwf Hin H).
Qed.

Hypothesis Hq : 0 < q <= 2 ^ 256.
Hypothesis Hrange : forall l, 0 <= poseidon l < q.   (* a hash output is a field element *)
Hypothesis Hml : (maxlev <= 240)%nat.

Lemma root_in_field : forall t, 0 <= root t < q.
Proof. destruct t; simpl; [lia| |]; apply Hrange. Qed.

Lemma gen_sibs_in_field : forall t lvl k acc p v,
  Forall (fun s => s < q) acc -> gen t lvl k acc = (p, v) -> Forall (fun s => s < q) (sibs p).
Proof.
  induction t as [|k' v'|l IHl r IHr]; intros lvl k acc p v Hacc H; simpl in H.
  - inversion H; subst; simpl. apply Forall_rev. exact Hacc.
  - destruct (k =? k'); inversion H; subst; simpl; apply Forall_rev; exact Hacc.
  - destruct (bit k lvl).
    + apply (IHr _ _ _ _ _ (@Forall_cons Z (fun s => s < q) _ _ (proj2 (root_in_field l)) Hacc) H).
    + apply (IHl _ _ _ _ _ (@Forall_cons Z (fun s => s < q) _ _ (proj2 (root_in_field r)) Hacc) H).
Qed.

(* rt is a revocation tree: it maps revoked nonces (field elements) to 0 *)
Definition revocation_tree (rt : tree) : Prop :=
  wf maxlev rt /\ forall k v, In (k, v) (leaves rt) -> 0 <= k < q /\ v = 0.

Lemma honest_verified : forall rt ctr ror omit nonce,
  revocation_tree rt -> 0 <= ctr < q -> 0 <= ror < q -> 0 <= nonce < q ->
  status_verified poseidon q (honest_answer rt ctr ror omit nonce) nonce.
Proof.
  intros rt ctr ror omit nonce (Hwf & Hleaves) Hc Ho Hn.
  unfold honest_answer, status_verified. simpl.
  destruct (gen rt 0 nonce []) as (p, v) eqn:Hg. simpl.
  pose proof (root_in_field rt) as Hr.
  split.
  - exists (poseidon [ctr; root rt; ror]), ctr, (root rt), ror.
    cbn [ts_state ts_ctr ts_rtr ts_ror]. rewrite !root_value_enc_root. repeat split; auto; lia.
  - exists (root rt). cbn [ts_state ts_ctr ts_rtr ts_ror]. rewrite root_value_enc_root.
    split; [reflexivity|].
    exists p. split; [apply proof_of_rproof_of|]. split.
    + split; [|split].
      * pose proof (gen_depth _ _ _ _ _ _ Hwf Hg) as Hd. simpl in Hd. lia.
      * apply (gen_sibs_in_field _ _ _ _ _ _ (Forall_nil _) Hg).
      * intros _ ak av Ha.
        destruct (gen_aux_leaf hl hm _ _ _ _ _ _ _ _ Hg Ha) as (_ & _ & _ & Hin).
        destruct (Hleaves _ _ Hin) as [Hak Hav]. lia.
    + pose proof (completeness_verify hl hm _ _ _ _ Hg) as Hcv.
      destruct (ex p) eqn:He; [|exact Hcv].
      pose proof (gen_ex_leaf hl hm _ _ _ _ _ _ Hg He) as Hin.
      destruct (Hleaves _ _ Hin) as [_ ->]. exact Hcv.
Qed.

(* Against a real revocation tree: with the honest answer, the nonce is reported
   non-revoked iff it is absent from the tree, and revoked iff it is present -
   for ALL trees (any number of leaves, any shape add can build, incl. the aux-node case) *)
Theorem real_tree : forall rt ctr ror omit reg cs,
  revocation_tree rt -> 0 <= ctr < q -> 0 <= ror < q -> 0 <= cs_nonce cs < q ->
  resolved reg cs (honest_answer rt ctr ror omit (cs_nonce cs)) ->
  (validate_status reg cs = Ok (honest_answer rt ctr ror omit (cs_nonce cs))
     <-> ~ In (cs_nonce cs) (keys rt)) /\
  (validate_status reg cs = Err ERevoked <-> In (cs_nonce cs) (keys rt)) /\
  (forall a, validate_status reg cs = Ok a -> a = honest_answer rt ctr ror omit (cs_nonce cs)).
Proof.
  intros rt ctr ror omit reg cs Hrt Hc Ho Hn Hres.
  pose proof (honest_verified rt ctr ror omit (cs_nonce cs) Hrt Hc Ho Hn) as Hsv.
  set (a := honest_answer rt ctr ror omit (cs_nonce cs)) in *.
  destruct (gen rt 0 (cs_nonce cs) []) as (p, v) eqn:Hg.
  assert (Hex : r_ex (a_mtp a) = ex p).
  { unfold a, honest_answer. simpl. rewrite Hg. reflexivity. }
  destruct Hrt as (Hwf & _).
  pose proof (gen_ex_iff _ _ _ _ Hwf Hg) as Hiff.
  split; [|split].
  - rewrite (decision_ok poseidon q Hq reg cs a Hn). split.
    + intros (_ & _ & He) Hin. apply Hiff in Hin. congruence.
    + intro Hnin. split; [exact Hres|]. split; [exact Hsv|].
      rewrite Hex. destruct (ex p); [|reflexivity]. exfalso. apply Hnin. apply Hiff. reflexivity.
  - rewrite (decision_revoked poseidon q Hq reg cs Hn). split.
    + intros (a' & Hres' & _ & He). rewrite (resolved_fun _ _ _ _ Hres' Hres) in He.
      apply Hiff. congruence.
    + intro Hin. exists a. split; [exact Hres|]. split; [exact Hsv|].
      rewrite Hex. apply Hiff. exact Hin.
  - intros a' Ha'. apply (decision_ok poseidon q Hq reg cs a' Hn) in Ha'.
    destruct Ha' as (Hres' & _). exact (resolved_fun _ _ _ _ Hres' Hres).
Qed.

End RealTree.

(* ------------------------------------------------------------------ *)
(* 7. adversarial answers: soundness modulo explicit collisions         *)
(* ------------------------------------------------------------------ *)

Section Sound.
Variable poseidon : list Z -> Z.
Variable q : Z.
Variable maxlev : nat.

Notation hl := (hl poseidon).
Notation hm := (hm poseidon).
Notation root := (root hl hm).
Notation validate_status := (validate_status poseidon q).

(* The two soundness theorems of the sparse Merkle tree (SMT/Sound.v), taken here as
   Section hypotheses so that this file does not depend on that development;
   `Collision` is the explicit-witness disjunct of SMT/Sound.v. *)
Variable Collision : Prop.
Hypothesis soundness_ex : forall t p k v,
  wf maxlev t -> verify_proof hl hm (root t) p k v = true -> ex p = true ->
  In (k, v) (leaves t) \/ Collision.
Hypothesis soundness_nonex : forall t p k v,
  wf maxlev t -> verify_proof hl hm (root t) p k v = true -> ex p = false ->
  ~ In k (keys t) \/ Collision.
Hypothesis Hq : 0 < q <= 2 ^ 256.

(* two different triples of roots with the same state hash *)
Definition StateCollision : Prop :=
  exists c r o c' r' o',
    (c, r, o) <> (c', r', o') /\ poseidon [c; r; o] = poseidon [c'; r'; o'].

(* whatever the resolver answers: if the revocation root it names is the root of the
   real tree rt, success implies the nonce is NOT in rt, and the revoked error implies
   it IS - or a hash collision is exhibited *)
Theorem sound_root : forall reg cs rt,
  0 <= cs_nonce cs < q -> wf maxlev rt ->
  (forall a, validate_status reg cs = Ok a ->
     root_value (ts_rtr (a_issuer a)) = Some (root rt) ->
     ~ In (cs_nonce cs) (keys rt) \/ Collision) /\
  (validate_status reg cs = Err ERevoked ->
     forall a, resolved reg cs a -> root_value (ts_rtr (a_issuer a)) = Some (root rt) ->
     In (cs_nonce cs, 0) (leaves rt) \/ Collision).
Proof.
  intros reg cs rt Hn Hwf. split.
  - intros a Hv Hrr. apply (decision_ok poseidon q Hq reg cs a Hn) in Hv.
    destruct Hv as (_ & (_ & rr & Hrr' & p & Hp & _ & Hvp) & He).
    rewrite Hrr in Hrr'. inversion Hrr'; subst rr.
    apply (soundness_nonex rt p _ 0 Hwf Hvp). rewrite (proof_of_ex _ _ Hp). exact He.
  - intros Hv a Hres Hrr. apply (decision_revoked poseidon q Hq reg cs Hn) in Hv.
    destruct Hv as (a' & Hres' & (_ & rr & Hrr' & p & Hp & _ & Hvp) & He).
    rewrite (resolved_fun _ _ _ _ Hres' Hres) in *.
    rewrite Hrr in Hrr'. inversion Hrr'; subst rr.
    apply (soundness_ex rt p _ 0 Hwf Hvp). rewrite (proof_of_ex _ _ Hp). exact He.
Qed.

(* the same anchored at the issuer STATE: if the state the resolver names is the honest
   state H(ctr, root rt, ror), the roots it names are the honest ones or two different
   triples collide under the state hash *)
Theorem sound_state : forall reg cs rt ctr ror,
  0 <= cs_nonce cs < q -> wf maxlev rt ->
  (forall a, validate_status reg cs = Ok a ->
     ts_state (a_issuer a) = HVal (poseidon [ctr; root rt; ror]) ->
     ~ In (cs_nonce cs) (keys rt) \/ Collision \/ StateCollision) /\
  (validate_status reg cs = Err ERevoked ->
     forall a, resolved reg cs a ->
     ts_state (a_issuer a) = HVal (poseidon [ctr; root rt; ror]) ->
     In (cs_nonce cs, 0) (leaves rt) \/ Collision \/ StateCollision).
Proof.
  intros reg cs rt ctr ror Hn Hwf.
  assert (Hbind : forall a, tree_state_ok poseidon q (a_issuer a) ->
            ts_state (a_issuer a) = HVal (poseidon [ctr; root rt; ror]) ->
            root_value (ts_rtr (a_issuer a)) = Some (root rt) \/ StateCollision).
  { intros a (s & c & r & o & Hs & Hc & Hr & Ho & _ & _ & _ & Hp) Hst.
    rewrite Hs in Hst. inversion Hst as [Hs']. subst s.
    destruct (Z.eq_dec c ctr) as [->|Hne1].
    - destruct (Z.eq_dec r (root rt)) as [->|Hne2]; [left; exact Hr|].
      right. exists ctr, r, o, ctr, (root rt), ror. split; [congruence|exact Hs'].
    - right. exists c, r, o, ctr, (root rt), ror. split; [congruence|exact Hs']. }
  destruct (sound_root reg cs rt Hn Hwf) as (S1 & S2).
  split.
  - intros a Hv Hst. pose proof Hv as Hv'.
    apply (decision_ok poseidon q Hq reg cs a Hn) in Hv'. destruct Hv' as (_ & (Hts & _) & _).
    destruct (Hbind a Hts Hst) as [Hrr|Hcol]; [|auto].
    destruct (S1 a Hv Hrr); auto.
  - intros Hv a Hres Hst. pose proof Hv as Hv'.
    apply (decision_revoked poseidon q Hq reg cs Hn) in Hv'.
    destruct Hv' as (a' & Hres' & (Hts & _) & _).
    rewrite (resolved_fun _ _ _ _ Hres' Hres) in Hts.
    destruct (Hbind a Hts Hst) as [Hrr|Hcol]; [|auto].
    destruct (S2 Hv a Hres Hrr); auto.
Qed.

End Sound.

(* coerceCredentialStatus accepts exactly the three Go shapes *)
Theorem coerce_shapes : forall r p,
  coerce_status r = Ok p <->
  r = RSPtr p \/
  (exists cs, r = RSVal cs /\ p = Some cs) \/
  (exists cs, r = RSObj (Some cs) /\ cs_type cs <> ""%string /\ p = Some cs).
Proof.
  intros r p. destruct r as [p'|cs|[cs|]|]; simpl.
  - split.
    + intro H. inversion H. auto.
    + intros [H|[(cs & H & _)|(cs & H & _)]]; inversion H; reflexivity.
  - split.
    + intro H. inversion H. right. left. eauto.
    + intros [H|[(cs' & H & ->)|(cs' & H & _)]]; inversion H; reflexivity.
  - destruct (String.eqb_spec (cs_type cs) "") as [He|Hne].
    + split; [discriminate|].
      intros [H|[(cs' & H & _)|(cs' & H & Hne & _)]]; inversion H; subst; contradiction.
    + split.
      * intro H. inversion H. right. right. eauto.
      * intros [H|[(cs' & H & _)|(cs' & H & _ & ->)]]; inversion H; reflexivity.
  - split; [discriminate|].
    intros [H|[(cs' & H & _)|(cs' & H & _)]]; inversion H.
  - split; [discriminate|].
    intros [H|[(cs' & H & _)|(cs' & H & _)]]; inversion H.
Qed.

Lemma coerce_total : forall r, (exists p, coerce_status r = Ok p) \/ exists t, coerce_status r = Err t.
Proof.
  intros [p|cs|[cs|]|]; simpl; eauto. destruct (String.eqb (cs_type cs) ""); eauto.
Qed.

(* ------------------------------------------------------------------ *)
(* 5. the direct HTTP resolver                                          *)
(* ------------------------------------------------------------------ *)

(* an answer <-> the transport delivered a response with 200 <= code < 300 whose body
   reads without error, is SHORTER than the limit (a body of exactly 16384 bytes is
   refused: LimitedReader.N reaches 0), decodes as a RevocationStatus, and closes *)
Theorem http_answer_iff : forall h a,
  http_resolve h = Ok a <->
  exists code len,
    h = HResp code len true (Some a) true /\
    200 <= code < 300 /\ len < limit_reader_bytes.
Proof.
  intros h a. destruct h as [|code len rd parsed cl]; simpl.
  - split; [discriminate|]. intros (c & l & H & _). discriminate.
  - destruct (Z.leb_spec 200 code) as [H1|H1]; destruct (Z.ltb_spec code 300) as [H2|H2]; simpl;
      try (split; [discriminate|]; intros (c & l & H & Hc & _); inversion H; subst; lia).
    destruct rd; simpl;
      [|split; [discriminate|]; intros (c & l & H & _); inversion H].
    destruct (Z.leb_spec limit_reader_bytes len) as [H3|H3]; simpl;
      [split; [discriminate|]; intros (c & l & H & _ & Hl); inversion H; subst; lia|].
    destruct parsed as [a'|]; simpl;
      [|split; [discriminate|]; intros (c & l & H & _); inversion H].
    destruct cl.
    + split.
      * intro H. inversion H; subst. exists code, len. repeat split; auto.
      * intros (c & l & H & _). inversion H; subst. reflexivity.
    + split; [discriminate|]. intros (c & l & H & _). inversion H.
Qed.

Lemma http_total : forall h, (exists a, http_resolve h = Ok a) \/ exists t, http_resolve h = Err t.
Proof.
  intros [|code len rd parsed cl]; simpl; eauto.
  destruct (negb ((200 <=? code) && (code <? 300))); eauto.
  destruct (negb rd); eauto.
  destruct (limit_reader_bytes <=? len); eauto.
  destruct parsed as [a|]; simpl; eauto. destruct cl; eauto.
Qed.

(* the boundary, spelled out *)
Lemma http_boundary : forall a,
  http_resolve (HResp 200 16383 true (Some a) true) = Ok a /\
  http_resolve (HResp 200 16384 true (Some a) true) = Err EHTTPSize /\
  http_resolve (HResp 200 16385 true (Some a) true) = Err EHTTPSize /\
  http_resolve (HResp 199 0 true (Some a) true) = Err EHTTPCode /\
  http_resolve (HResp 299 0 true (Some a) true) = Ok a /\
  http_resolve (HResp 300 0 true (Some a) true) = Err EHTTPCode.
Proof. intro a. repeat split. Qed.

(* ------------------------------------------------------------------ *)
(* 5a. decodeMTP: the decoded view of a status body                     *)
(* ------------------------------------------------------------------ *)

Lemma all_some_map : forall ss, all_some (map Some ss) = Some ss.
Proof. induction ss as [|a ss IH]; simpl; [reflexivity|]. rewrite IH. reflexivity. Qed.

Lemma all_some_spec : forall l ss, all_some l = Some ss <-> l = map Some ss.
Proof.
  intros l ss. split.
  - revert ss. induction l as [|[x|] l IH]; intros ss H; simpl in H.
    + inversion H. reflexivity.
    + destruct (all_some l) as [t|]; [|discriminate]. inversion H; subst. simpl.
      f_equal. apply IH. reflexivity.
    + discriminate.
  - intros ->. apply all_some_map.
Qed.

(* the proof the validator works with is the body's proof AS WRITTEN: at most 240
   siblings, none null, and existence flag, siblings and auxiliary node taken over
   independently of each other (in particular a node_aux never changes the flag) *)
Theorem decode_mtp_spec : forall m rp,
  decode_mtp (Some m) = Ok rp <->
  (List.length (w_sibs m) <= 240)%nat /\
  w_sibs m = map Some (r_sibs rp) /\ r_ex rp = w_ex m /\ r_aux rp = w_aux m.
Proof.
  intros m rp. unfold decode_mtp, max_mtp_siblings.
  destruct (Nat.ltb 240 (List.length (w_sibs m))) eqn:Hl.
  - apply Nat.ltb_lt in Hl. split; [discriminate|]. intros (H & _). lia.
  - apply Nat.ltb_ge in Hl. destruct (all_some (w_sibs m)) as [ss|] eqn:Ha.
    + apply all_some_spec in Ha. split.
      * intro H. inversion H; subst. simpl. auto.
      * intros (_ & Hs & He & Hx). destruct rp as [e ss' ax]. simpl in *. subst.
        assert (Hss : Some ss = Some ss').
        { rewrite <- (all_some_map ss), <- (all_some_map ss'). f_equal. congruence. }
        inversion Hss. reflexivity.
    + split; [discriminate|]. intros (_ & Hs & _).
      assert (Hx : all_some (w_sibs m) = Some (r_sibs rp)) by (apply all_some_spec; exact Hs).
      congruence.
Qed.

Lemma decode_mtp_absent : decode_mtp None = Ok (mkrp false [] None).
Proof. reflexivity. Qed.

Lemma decode_mtp_total : forall w, (exists rp, decode_mtp w = Ok rp) \/ exists t, decode_mtp w = Err t.
Proof.
  intros [m|]; simpl; eauto. unfold decode_mtp.
  destruct (Nat.ltb max_mtp_siblings (List.length (w_sibs m))); eauto.
  destruct (all_some (w_sibs m)); eauto.
Qed.

(* ------------------------------------------------------------------ *)
(* 5a'. the acceptance gate of the HTTP resolver over the body BYTES    *)
(* ------------------------------------------------------------------ *)

(* an answer is used only if 200 <= code < 300, the body is shorter than the limit and is
   EXACTLY ONE JSON value, and that value decodes to the answer *)
Theorem http_gate : forall code body read_ok close_ok wire a,
  http_resolve_body code body read_ok close_ok wire = Ok a <->
  200 <= code < 300 /\ read_ok = true /\ close_ok = true /\
  Z.of_nat (String.length body) < limit_reader_bytes /\
  json_one_value body = true /\ parse_status_body wire = Some a.
Proof.
  intros code body rd cl wire a. unfold http_resolve_body. rewrite http_answer_iff. split.
  - intros (c & l & H & Hc & Hl). inversion H; subst.
    destruct (Z.leb_spec limit_reader_bytes (Z.of_nat (String.length body))) as [Hge|Hlt];
      [discriminate|].
    destruct (json_one_value body); [|discriminate]. repeat split; auto; lia.
  - intros (Hc & -> & -> & Hl & Hj & Hp).
    exists code, (Z.of_nat (String.length body)).
    destruct (Z.leb_spec limit_reader_bytes (Z.of_nat (String.length body))) as [Hge|Hlt]; [lia|].
    rewrite Hj, Hp. repeat split; auto; lia.
Qed.

(* "exactly one": once the tokens of a text form a complete value, ANY further token makes
   the text invalid (this is what a streaming decoder, which stops after the first value,
   does not check) *)
Lemma jstep_none : forall toks, fold_left jstep toks None = None.
Proof. induction toks; simpl; auto. Qed.

Theorem json_tokens_one_value : forall toks more,
  jaccepts toks = true -> more <> [] -> jaccepts (toks ++ more) = false.
Proof.
  intros toks more Ha Hm. unfold jaccepts in *. rewrite fold_left_app.
  destruct (fold_left jstep toks (Some (SVal, []))) as [[s stk]|]; [|discriminate].
  destruct s; try discriminate. destruct stk; [|discriminate].
  destruct more as [|t more]; [contradiction|]. cbn [fold_left].
  assert (Hn : jstep (Some (SAfter, [])) t = None) by (destruct t; reflexivity).
  rewrite Hn, jstep_none. reflexivity.
Qed.

(* the streaming variant (accept when some PREFIX of the body is one value) is refuted *)
Theorem http_gate_streaming_refuted :
  exists body pre rest,
    body = append pre rest /\ json_one_value pre = true /\ json_one_value body = false.
Proof. exists "{""mtp"":{}} {}"%string, "{""mtp"":{}}"%string, " {}"%string. vm_compute. auto. Qed.

(* ------------------------------------------------------------------ *)
(* 5b. the direct resolver inside ValidateCredentialStatus              *)
(* ------------------------------------------------------------------ *)

(* with IssuerResolver registered for the credential's status type: success <-> a 2xx
   response shorter than the limit that decodes to an answer passing the three checks *)
Theorem direct_ok : forall (poseidon : list Z -> Z) (q : Z), 0 < q <= 2 ^ 256 ->
  forall (reg : registry) (cs : cred_status) (h : http_result) (a : answer),
  0 <= cs_nonce cs < q ->
  lookup_resolver reg (cs_type cs) = Some (http_resolver h) ->
  (validate_status poseidon q reg cs = Ok a <->
   (exists code len, h = HResp code len true (Some a) true /\
                     200 <= code < 300 /\ len < limit_reader_bytes) /\
   status_verified poseidon q a (cs_nonce cs) /\ r_ex (a_mtp a) = false).
Proof.
  intros poseidon q Hq reg cs h a Hn Hl.
  rewrite (decision_ok poseidon q Hq reg cs a Hn).
  assert (Hres : resolved reg cs a <-> http_resolve h = Ok a).
  { unfold resolved. split.
    - intros (r & Hl' & Hr). rewrite Hl in Hl'. inversion Hl'; subst r.
      unfold http_resolver in Hr. destruct (http_resolve h) as [a'| | |]; congruence.
    - intro Hh. exists (http_resolver h). split; [exact Hl|].
      unfold http_resolver. rewrite Hh. reflexivity. }
  rewrite Hres, http_answer_iff. tauto.
Qed.

(* ------------------------------------------------------------------ *)
(* 7b. NewHashFromHex: what a decoded member can be                     *)
(* ------------------------------------------------------------------ *)

Lemma hex_digit_range : forall c x, hex_digit c = Some x -> 0 <= x < 16.
Proof.
  intros c x. unfold hex_digit.
  destruct ((48 <=? Z.of_nat (nat_of_ascii c)) && (Z.of_nat (nat_of_ascii c) <=? 57)) eqn:H1.
  - apply andb_true_iff in H1. destruct H1 as [A B]. apply Z.leb_le in A, B.
    intro H; inversion H; lia.
  - destruct ((97 <=? Z.of_nat (nat_of_ascii c)) && (Z.of_nat (nat_of_ascii c) <=? 102)) eqn:H2.
    + apply andb_true_iff in H2. destruct H2 as [A B]. apply Z.leb_le in A, B.
      intro H; inversion H; lia.
    + destruct ((65 <=? Z.of_nat (nat_of_ascii c)) && (Z.of_nat (nat_of_ascii c) <=? 70)) eqn:H3;
        [|discriminate].
      apply andb_true_iff in H3. destruct H3 as [A B]. apply Z.leb_le in A, B.
      intro H; inversion H; lia.
Qed.

Lemma hex_bytes_range : forall s,
  (forall bs, hex_bytes s = Some bs -> Forall (fun b => 0 <= b < 256) bs) /\
  (forall a bs, hex_bytes (String a s) = Some bs -> Forall (fun b => 0 <= b < 256) bs).
Proof.
  induction s as [|c s (IH1 & IH2)].
  - split.
    + intros bs H. inversion H. constructor.
    + intros a bs H. discriminate.
  - split; [exact (IH2 c)|].
    intros a bs H. cbn [hex_bytes] in H.
    destruct (hex_digit a) as [x|] eqn:Hx; [|discriminate].
    destruct (hex_digit c) as [y|] eqn:Hy; [|discriminate].
    destruct (hex_bytes s) as [t|] eqn:Ht; [|discriminate].
    injection H as Hbs. subst bs. apply hex_digit_range in Hx, Hy.
    assert (Hb : 0 <= 16 * x + y < 256) by lia.
    constructor; [exact Hb|]. apply IH1. reflexivity.
Qed.

Lemma le_value_range : forall bs,
  Forall (fun b => 0 <= b < 256) bs -> 0 <= le_value bs < 256 ^ Z.of_nat (List.length bs).
Proof.
  induction bs as [|b r IH]; intro HF.
  - simpl. lia.
  - inversion HF as [|? ? Hb Hr]; subst. specialize (IH Hr).
    change (le_value (b :: r)) with (b + 256 * le_value r).
    replace (Z.of_nat (List.length (b :: r))) with (Z.succ (Z.of_nat (List.length r)))
      by (simpl List.length; lia).
    rewrite Z.pow_succ_r by lia. lia.
Qed.

(* a member that decodes denotes a number that fits the 32-byte Hash *)
Theorem hex_decode_range : forall s z, hex_decode s = HVal z -> 0 <= z < 2 ^ 256.
Proof.
  intros s z. unfold hex_decode.
  destruct (hex_bytes (trim_0x s)) as [bs|] eqn:Hb; [|discriminate].
  destruct (Nat.eqb (List.length bs) 32) eqn:Hl; [|discriminate].
  apply Nat.eqb_eq in Hl. intro H. inversion H; subst z.
  pose proof (le_value_range bs (proj1 (hex_bytes_range _) bs Hb)) as Hr.
  rewrite Hl in Hr. change (256 ^ Z.of_nat 32) with (2 ^ 256) in Hr. exact Hr.
Qed.

(* ------------------------------------------------------------------ *)
(* 8. the soundness hypotheses discharged with SMT/Sound.v              *)
(* ------------------------------------------------------------------ *)

Theorem sound_root_smt : forall (poseidon : list Z -> Z) (q : Z) (maxlev : nat),
  0 < q <= 2 ^ 256 ->
  forall (reg : registry) (cs : cred_status) (rt : tree),
  0 <= cs_nonce cs < q -> wf maxlev rt ->
  (forall a, validate_status poseidon q reg cs = Ok a ->
     root_value (ts_rtr (a_issuer a)) = Some (root (hl poseidon) (hm poseidon) rt) ->
     ~ In (cs_nonce cs) (keys rt) \/ Collision (hl poseidon) (hm poseidon)) /\
  (validate_status poseidon q reg cs = Err ERevoked ->
     forall a, resolved reg cs a ->
     root_value (ts_rtr (a_issuer a)) = Some (root (hl poseidon) (hm poseidon) rt) ->
     In (cs_nonce cs, 0) (leaves rt) \/ Collision (hl poseidon) (hm poseidon)).
Proof.
  intros poseidon q maxlev Hq.
  exact (sound_root poseidon q maxlev (Collision (hl poseidon) (hm poseidon))
           (soundness_ex (hl poseidon) (hm poseidon) maxlev)
           (soundness_nonex (hl poseidon) (hm poseidon) maxlev) Hq).
Qed.

Theorem sound_state_smt : forall (poseidon : list Z -> Z) (q : Z) (maxlev : nat),
  0 < q <= 2 ^ 256 ->
  forall (reg : registry) (cs : cred_status) (rt : tree) (ctr ror : Z),
  0 <= cs_nonce cs < q -> wf maxlev rt ->
  (forall a, validate_status poseidon q reg cs = Ok a ->
     ts_state (a_issuer a) = HVal (poseidon [ctr; root (hl poseidon) (hm poseidon) rt; ror]) ->
     ~ In (cs_nonce cs) (keys rt) \/ Collision (hl poseidon) (hm poseidon) \/
     StateCollision poseidon) /\
  (validate_status poseidon q reg cs = Err ERevoked ->
     forall a, resolved reg cs a ->
     ts_state (a_issuer a) = HVal (poseidon [ctr; root (hl poseidon) (hm poseidon) rt; ror]) ->
     In (cs_nonce cs, 0) (leaves rt) \/ Collision (hl poseidon) (hm poseidon) \/
     StateCollision poseidon).
Proof.
  intros poseidon q maxlev Hq.
  exact (sound_state poseidon q maxlev (Collision (hl poseidon) (hm poseidon))
           (soundness_ex (hl poseidon) (hm poseidon) maxlev)
           (soundness_nonex (hl poseidon) (hm poseidon) maxlev) Hq).
Qed.

(* ------------------------------------------------------------------ *)
(* 9. Examples: the hypotheses above are satisfiable, every branch is   *)
(*    reached (a toy hash; vm_compute on literals only here)            *)
(* ------------------------------------------------------------------ *)

Module Examples.

Definition toyq : Z := 2 ^ 61 - 1.
Definition toyP (l : list Z) : Z :=
  (fold_left (fun a x => a * 1000003 + x + 12345) l 7) mod toyq.

(* a revocation tree with a deep branch: 5 and 5 + 2^20 share 20 low bits *)
Definition revoked : list (Z * Z) := [(3, 0); (5, 0); (11, 0); (13, 0); (5 + 2 ^ 20, 0)].
Definition T0 : tree := match add_all 40 revoked with Ok t => t | _ => E end.
Definition regT (a : answer) : registry := [("T"%string, fun _ => Some a)].
Definition ans (n : Z) : answer := honest_answer toyP T0 77 0 true n.

Example toy_hyps :
  0 < toyq <= 2 ^ 256 /\ (forall l, 0 <= toyP l < toyq) /\ (40 <= 240)%nat /\
  revocation_tree toyq 40 T0.
Proof.
  split; [unfold toyq; lia|]. split; [intro l; apply Z.mod_pos_bound; unfold toyq; lia|].
  split; [lia|].
  assert (Ha : add_all 40 revoked = Ok T0) by (vm_compute; reflexivity).
  destruct (add_all_wf 40 _ _ Ha) as (Hwf & Hperm). split; [exact Hwf|].
  intros k v Hin. apply (Permutation.Permutation_in _ Hperm) in Hin. unfold revoked, toyq in *.
  simpl in Hin. repeat (destruct Hin as [Hin|Hin]; [inversion Hin; subst; lia|]). destruct Hin.
Qed.

(* non-revoked through an empty node, non-revoked through an auxiliary leaf (29 shares
   4 low bits with 13), revoked; `omit` leaves the zero roots-root out *)
Example ex_nonrevoked_empty :
  validate_status toyP toyq (regT (ans 4)) (mkcs "T" 4) = Ok (ans 4) /\
  r_aux (a_mtp (ans 4)) = None /\ ts_ror (a_issuer (ans 4)) = HNil.
Proof. vm_compute. repeat split. Qed.

Example ex_nonrevoked_aux :
  validate_status toyP toyq (regT (ans 29)) (mkcs "T" 29) = Ok (ans 29) /\
  r_aux (a_mtp (ans 29)) = Some (Some 13, Some 0).
Proof. vm_compute. repeat split. Qed.

Example ex_revoked_deep :
  validate_status toyP toyq (regT (ans (5 + 2 ^ 20))) (mkcs "T" (5 + 2 ^ 20)) = Err ERevoked /\
  List.length (r_sibs (a_mtp (ans (5 + 2 ^ 20)))) = 21%nat.
Proof. vm_compute. repeat split. Qed.

(* single faults: state, a root, a sibling, the flag, the nonce -> plain errors *)
Definition with_state (a : answer) (s : hexf) : answer :=
  mkans (mkts s (ts_ctr (a_issuer a)) (ts_rtr (a_issuer a)) (ts_ror (a_issuer a))) (a_mtp a).
Definition with_ror (a : answer) (s : hexf) : answer :=
  mkans (mkts (ts_state (a_issuer a)) (ts_ctr (a_issuer a)) (ts_rtr (a_issuer a)) s) (a_mtp a).
Definition with_mtp (a : answer) (p : rproof) : answer := mkans (a_issuer a) p.

Example ex_faults :
  validate_status toyP toyq (regT (with_state (ans 5) (HVal 1))) (mkcs "T" 5) = Err ETreeState /\
  validate_status toyP toyq (regT (with_state (ans 5) HNil)) (mkcs "T" 5) = Err EStateNil /\
  validate_status toyP toyq (regT (with_ror (ans 5) (HVal 9))) (mkcs "T" 5) = Err ETreeState /\
  validate_status toyP toyq (regT (with_ror (ans 5) (HVal toyq))) (mkcs "T" 5) = Err EPoseidon /\
  validate_status toyP toyq (regT (with_ror (ans 5) HBad)) (mkcs "T" 5) = Err EHex /\
  validate_status toyP toyq
    (regT (with_mtp (ans 5) (mkrp false (r_sibs (a_mtp (ans 5))) None))) (mkcs "T" 5) = Err EProof /\
  validate_status toyP toyq (regT (ans 5)) (mkcs "T" 13) = Err EProof /\
  validate_status toyP toyq
    (regT (with_mtp (ans 29) (mkrp false (r_sibs (a_mtp (ans 29))) (Some (Some 13, None)))))
    (mkcs "T" 29) = Err EProof /\
  validate_status toyP toyq (regT (ans 5)) (mkcs "U" 5) = Err EStatusType.
Proof. vm_compute. repeat split. Qed.

(* a non-existence proof also covers another nonce on the same path (45 = 101101b
   shares the 4 low bits of 29 and 13): the decision theorem says Ok, and 45 is indeed
   not revoked *)
Example ex_same_path : validate_status toyP toyq (regT (ans 29)) (mkcs "T" 45) = Ok (ans 29).
Proof. vm_compute. reflexivity. Qed.

Example ex_http :
  http_resolve (HResp 204 16383 true (Some (ans 4)) true) = Ok (ans 4) /\
  http_resolve (HResp 200 16384 true (Some (ans 4)) true) = Err EHTTPSize /\
  http_resolve (HResp 404 10 true (Some (ans 4)) true) = Err EHTTPCode /\
  http_resolve (HResp 200 10 true None true) = Err EHTTPJSON /\
  http_resolve (HResp 200 10 false None true) = Err EHTTPRead /\
  http_resolve (HResp 200 10 true (Some (ans 4)) false) = Err EHTTPClose /\
  http_resolve HTransportErr = Err EHTTP.
Proof. vm_compute. repeat split. Qed.

Example ex_options :
  validate_credential_status toyP toyq (regT (ans 4)) [] (mkcs "T" 4) = Ok (ans 4) /\
  validate_credential_status toyP toyq [] [OptRegistry (Some (regT (ans 4)))] (mkcs "T" 4)
    = Ok (ans 4) /\
  validate_credential_status toyP toyq (regT (ans 4)) [OptRegistry (Some [])] (mkcs "T" 4)
    = Err EStatusType /\
  validate_credential_status toyP toyq (regT (ans 4)) [OptFail] (mkcs "T" 4) = Err EOption /\
  validate_credential_status toyP toyq (regT (ans 4)) [OptRegistry None] (mkcs "T" 4)
    = Panic "nil *CredentialStatusResolverRegistry".
Proof. vm_compute. repeat split. Qed.

(* the real modulus (BN254 scalar field) satisfies the shape hypotheses, and every uint64
   revocation nonce satisfies 0 <= nonce < q *)
Definition bn254_q : Z :=
  21888242871839275222246405745257275088548364400416034343698204186575808495617.
Example real_q_ok : 0 < bn254_q <= 2 ^ 256 /\ 2 ^ 64 <= bn254_q.
Proof. unfold bn254_q. split; [split|]; [reflexivity| |]; intro H; discriminate H. Qed.

Example ex_hex :
  hex_decode "0100000000000000000000000000000000000000000000000000000000000000" = HVal 1 /\
  hex_decode "0x00000000000000000000000000000000000000000000000000000000000000ff" = HVal (255 * 2 ^ 248) /\
  hex_decode "0X0000000000000000000000000000000000000000000000000000000000000000" = HBad /\
  hex_decode "00" = HBad /\ hex_decode "" = HBad /\
  hex_decode "0g00000000000000000000000000000000000000000000000000000000000000" = HBad /\
  hexf_of_member None = HNil.
Proof. vm_compute. repeat split. Qed.

Example ex_json_one_value :
  map json_one_value
    ["{}"; " {""a"":[1,2.5e-3,true,null,""xé\n""]} "; "null"; "-0"; "[]"; """a"""; "0.5E+2";
     ""; "{"; "{} x"; "{}{}"; "[1 2]"; "{""a"" 1}"; "01"; "1."; "nul"; "{,}"; "[1,]"; "{""a"":}";
     "'a'"; """\x"""; "tru e"; "[" ; "]"; "{""a"":1,}"; "1e"; "-"; "+1"]%string
  = [true; true; true; true; true; true; true;
     false; false; false; false; false; false; false; false; false; false; false; false;
     false; false; false; false; false; false; false; false; false].
Proof. vm_compute. reflexivity. Qed.

Example ex_decode :
  decode_mtp (Some (mkwm true [Some 1; Some 0] (Some (Some 5, Some 0))))
    = Ok (mkrp true [1; 0] (Some (Some 5, Some 0))) /\
  decode_mtp (Some (mkwm false [] None)) = Ok (mkrp false [] None) /\
  decode_mtp (Some (mkwm false [Some 1; None] None)) = Err EMtpNull /\
  decode_mtp (Some (mkwm false (repeat (Some 0) 241) None)) = Err EMtpMany /\
  parse_status_body None = None.
Proof. vm_compute. repeat split. Qed.

End Examples.
