(* Verify/SMTProof.v — executable model of verifyIden3SparseMerkleTreeProof (property C08).
   NO proofs in this file (theorems: Verify/SMTProofTheory.v, Verify/WithSMT.v).

   Go code modelled (as it is in /repo now, same order of checks):
     verifiable/credential.go  verifyIden3SparseMerkleTreeProof, validateIssuerState
     verifiable/credential_status.go  rootFromMerkleTreeProof *)
From Coq Require Import ZArith List String Bool Arith.
From GSP Require Import Base.Prelude SMT.Model Verify.Status Verify.Issuer.
Import ListNotations.
Open Scope list_scope.
Open Scope Z_scope.

Record smt_bundle (D : Type) := mksmt {
  s_claim : claim;            (* coreClaim *)
  s_mtp   : option rproof;    (* mtp *)
  s_state : istate;           (* issuerData.state *)
  s_did   : option D          (* issuerData.id; None = ParseDID fails *)
}.
Arguments mksmt {D}.
Arguments s_claim {D}. Arguments s_mtp {D}. Arguments s_state {D}. Arguments s_did {D}.

Definition EMtpNil   : string := "mtp-unset"%string.
Definition EMtpNonEx : string := "mtp-not-existence"%string.
Definition ERootDiff : string := "root-from-proof-differs"%string.
Definition ECtrUnset' : string := "claims-root-unset"%string.
Definition ECtrHex'   : string := "claims-root-hex"%string.

Section SMTProof.
Variable poseidon : list Z -> Z.
Variable q : Z.
Variable D : Type.
Variable resolve_did : D -> Z -> did_answer.
Variable id_from_did : D -> Z -> option Z.
Variable genesis_check : Z -> Z -> option bool.

Definition verify_smt (b : smt_bundle D) : res unit :=
  _ <- check_state_published D resolve_did id_from_did genesis_check (s_did b) (s_state b) ;;
  hh <- claim_hi_hv poseidon q (s_claim b) ;;
  match s_mtp b with
  | None => Err EMtpNil
  | Some p =>
      if negb (r_ex p) then Err EMtpNonEx else
      r <- root_from_mtp poseidon q (Some p) (fst hh) (snd hh) ;;
      match st_ctr (s_state b) with
      | HNil => Err ECtrUnset'
      | HBad => Err ECtrHex'
      | HVal ctr =>
          if negb (r =? ctr) then Err ERootDiff else
          validate_issuer_state poseidon q (s_state b)
      end
  end.

End SMTProof.
