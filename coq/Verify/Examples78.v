(* Verify/Examples78.v — non-vacuity: the hypotheses of every C07 / C08 theorem are
   satisfiable by concrete inputs (toy hash / signature functions, real tree algorithms). *)
From Coq Require Import ZArith List String Bool Arith Lia.
From GSP Require Import Base.Prelude SMT.Model SMT.Theory SMT.Sound Verify.Status Verify.Issuer
  Verify.BJJ Verify.SMTProof Verify.Top78 Verify.Theory78 Verify.Complete78 Verify.Hex78.
Import ListNotations.
Open Scope list_scope.
Open Scope Z_scope.

Module Toy.
(* a hash into the field {0..q-1} *)
Definition q : Z := 1000003.
Definition poseidon (l : list Z) : Z := fold_left (fun a x => a * 31 + x + 7) l 1 mod q.
(* a "signature scheme": sk -> public key (sk+1, sk+2); sign sk m = sk + m *)
Definition pubx (sk : Z) := sk + 1.
Definition puby (sk : Z) := sk + 2.
Definition sign (sk m : Z) : Z := sk + m.
Definition sig_verify (x y m s : Z) : bool := (s =? (x - 1) + m) && (y =? x + 1).

Lemma sig_correct : forall sk m, sig_verify (pubx sk) (puby sk) m (sign sk m) = true.
Proof.
  intros sk m. unfold sig_verify, pubx, puby, sign.
  apply andb_true_intro; split; apply Z.eqb_eq; lia.
Qed.

Lemma range : hash_in_field poseidon q.
Proof. intros l. unfold poseidon. apply Z.mod_pos_bound. reflexivity. Qed.

Definition hl := Status.hl poseidon.
Definition hm := Status.hm poseidon.

Definition sk : Z := 5.
Definition auth : claim := mkclaim 0 0 (pubx sk) (puby sk) 9 0 0 0.     (* revocation nonce 9 *)
Definition cl : claim := mkclaim 11 12 13 14 15 16 17 18.                 (* the credential's claim *)
Definition never : claim := mkclaim 21 22 23 24 25 26 27 28.              (* a claim never issued *)

Definition leaves_ct : list (Z * Z) :=
  [(hi_of poseidon auth, hv_of poseidon auth); (hi_of poseidon cl, hv_of poseidon cl); (123, 456); (124, 457)].
Definition ct : tree := match add_all 40 leaves_ct with Ok t => t | _ => E end.
Definition rt : tree := match add_all 40 [(3, 0); (1033, 0)] with Ok t => t | _ => E end.

Lemma ct_built : add_all 40 leaves_ct = Ok ct.
Proof. vm_compute. reflexivity. Qed.
Lemma rt_built : add_all 40 [(3, 0); (1033, 0)] = Ok rt.
Proof. vm_compute. reflexivity. Qed.
Lemma wf_ct : wf 40 ct.
Proof. apply (add_all_wf 40 _ _ ct_built). Qed.
Lemma wf_rt : wf 40 rt.
Proof. apply (add_all_wf 40 _ _ rt_built). Qed.
Lemma field_ct : tree_in_field q ct.
Proof.
  intros k v H. vm_compute in H.
  repeat (destruct H as [H|H]; [inversion H; subst; split; split; vm_compute; congruence|]). contradiction.
Qed.
Lemma field_rt : tree_in_field q rt.
Proof.
  intros k v H. vm_compute in H.
  repeat (destruct H as [H|H]; [inversion H; subst; split; split; vm_compute; congruence|]). contradiction.
Qed.

Definition s : issuer_state Z := mkis Z sk auth ct rt 77.

(* environment: DID type unit; the resolver says "published"; one status resolver *)
Definition resolve_did (_ : unit) (_ : Z) : did_answer := DDoc (Some (Some true)).
Definition id_from_did (_ : unit) (_ : Z) : option Z := None.
Definition genesis_check (_ _ : Z) : option bool := None.
Definition json_rt (n : Z) : option Z := if n =? 2 ^ 53 + 1 then Some (2 ^ 53) else Some n.
Definition rslv : resolver := fun cs => Some (honest_answer poseidon Z true s (cs_nonce cs)).
Definition reg : registry := [("SparseMerkleTreeProof"%string, rslv)].

Lemma honest : honest_issuer poseidon q 40 Z pubx puby s.
Proof.
  unfold honest_issuer, s; cbn [is_sk is_auth is_ct is_rt is_ror].
  split; [reflexivity|]. split; [reflexivity|].
  split; [vm_compute; repeat split|].
  split; [exact wf_ct|]. split; [exact field_ct|].
  split; [vm_compute; repeat first [left; reflexivity | right]|].
  split; [exact wf_rt|]. split; [exact field_rt|].
  vm_compute; split; congruence.
Qed.
End Toy.

Import Toy.

(* ---- C07_complete: every hypothesis of the theorem holds for the toy issuer, so the
        theorem yields a verifying bundle; the same bundle verifies by computation ---- *)
Example ex_bjj_complete :
  verify_bjj poseidon q unit Z sig_verify resolve_did id_from_did genesis_check reg
    (issue_bjj poseidon unit Z Z sign json_rt true s cl tt "SparseMerkleTreeProof") = Ok tt.
Proof.
  apply (bjj_complete poseidon q 40 unit Z Z sig_verify pubx puby sign json_rt resolve_did id_from_did genesis_check reg
           sig_correct ltac:(reflexivity) ltac:(vm_compute; congruence) range ltac:(lia)
           true s s cl tt "SparseMerkleTreeProof"%string rslv honest).
  - vm_compute. repeat split; congruence.
  - left. reflexivity.
  - discriminate.
  - reflexivity.
  - reflexivity.
  - exact wf_rt.
  - exact field_rt.
  - vm_compute. split; congruence.
  - vm_compute. reflexivity.
  - vm_compute. intros [H|[H|[]]]; discriminate.
  - reflexivity.
Qed.

(* D22: the same issuer with auth nonce 2^53+1, which encoding/json turns into 2^53 (recorded
   by every run's oracle table): every hypothesis of bjj_complete_refuted_json_number holds,
   and the honest bundle is rejected *)
Definition auth_big : claim := mkclaim 0 0 (pubx sk) (puby sk) (2 ^ 53 + 1) 0 0 0.
Definition ct_big : tree :=
  match add_all 40 [(hi_of poseidon auth_big, hv_of poseidon auth_big); (123, 456)] with Ok t => t | _ => E end.
Definition s_big : issuer_state Z := mkis Z sk auth_big ct_big rt 77.

Example ex_bjj_complete_refuted_big_nonce :
  verify_bjj poseidon 100000000000000003 unit Z sig_verify resolve_did id_from_did genesis_check
    [("SparseMerkleTreeProof"%string, fun cs => Some (honest_answer poseidon Z true s_big (2 ^ 53 + 1)))]
    (issue_bjj poseidon unit Z Z sign json_rt true s_big cl tt "SparseMerkleTreeProof") = Err ENonce.
Proof. vm_compute. reflexivity. Qed.

Example ex_bjj_complete_computed :
  verify_bjj poseidon q unit Z sig_verify resolve_did id_from_did genesis_check reg
    (issue_bjj poseidon unit Z Z sign json_rt false s cl tt "SparseMerkleTreeProof") = Ok tt.
Proof. vm_compute. reflexivity. Qed.

(* ---- C07_sound / C07_decision: an accepted bundle exists (above); faulted ones are
        rejected: another signing key, an auth claim that is not in the tree ---- *)
Example ex_bjj_other_key_rejected :
  let b := issue_bjj poseidon unit Z Z sign json_rt true s cl tt "SparseMerkleTreeProof" in
  verify_bjj poseidon q unit Z sig_verify resolve_did id_from_did genesis_check reg
    (mkbjj (b_claim b) (b_auth b) (Some (sign 6 (poseidon [hi_of poseidon cl; hv_of poseidon cl])))
           (b_mtp b) (b_state b) (b_did b) (b_status b)) = Err ESignature.
Proof. vm_compute. reflexivity. Qed.

Example ex_bjj_attacker_auth_claim_rejected :
  let b := issue_bjj poseidon unit Z Z sign json_rt true s cl tt "SparseMerkleTreeProof" in
  verify_bjj poseidon q unit Z sig_verify resolve_did id_from_did genesis_check reg
    (mkbjj (b_claim b) (Some (mkclaim 0 0 (pubx 6) (puby 6) 9 0 0 0))
           (Some (sign 6 (poseidon [hi_of poseidon cl; hv_of poseidon cl])))
           (b_mtp b) (b_state b) (b_did b) (b_status b)) = Err EAuthNotIn.
Proof. vm_compute. reflexivity. Qed.

Example ex_bjj_revoked_rejected :
  (* the status service answers from a state in which nonce 9 IS revoked *)
  let rt' := match add_all 40 [(9, 0); (3, 0)] with Ok t => t | _ => E end in
  let s' := mkis Z sk auth ct rt' 77 in
  verify_bjj poseidon q unit Z sig_verify resolve_did id_from_did genesis_check
    [("SparseMerkleTreeProof"%string, fun cs => Some (honest_answer poseidon Z true s' (cs_nonce cs)))]
    (issue_bjj poseidon unit Z Z sign json_rt true s cl tt "SparseMerkleTreeProof") = Err ERevoked.
Proof. vm_compute. reflexivity. Qed.

(* ---- C08_complete ---- *)
Example ex_smt_complete :
  verify_smt poseidon q unit resolve_did id_from_did genesis_check
    (issue_smt poseidon unit Z true s cl tt) = Ok tt.
Proof.
  apply (smt_complete poseidon q 40 unit Z resolve_did id_from_did genesis_check
           ltac:(reflexivity) ltac:(vm_compute; congruence) range ltac:(lia) true s cl tt
           wf_ct field_ct ltac:(vm_compute; split; congruence)).
  - vm_compute. repeat split; congruence.
  - vm_compute. repeat first [left; reflexivity | right].
  - left. reflexivity.
Qed.

(* genesis path: the resolver does not say "published" but the genesis check succeeds *)
Example ex_smt_genesis :
  verify_smt poseidon q unit (fun _ _ => DDoc (Some None)) (fun _ _ => Some 42)
             (fun id st => Some (id =? 42)) (issue_smt poseidon unit Z false s cl tt) = Ok tt.
Proof. vm_compute. reflexivity. Qed.

Example ex_smt_unpublished_not_genesis :
  verify_smt poseidon q unit (fun _ _ => DDoc (Some (Some false))) (fun _ _ => Some 42)
             (fun id st => Some (id =? 43)) (issue_smt poseidon unit Z false s cl tt) = Err ENotGenesis.
Proof. vm_compute. reflexivity. Qed.

(* ---- C08_never_issued: for the never-issued claim the honest tree only yields a
        non-existence proof, which is rejected ... ---- *)
Example ex_smt_never_issued_rejected :
  ~ In (hi_of poseidon never, hv_of poseidon never) (leaves ct) /\
  verify_smt poseidon q unit resolve_did id_from_did genesis_check
    (issue_smt poseidon unit Z true s never tt) = Err EMtpNonEx.
Proof.
  split; [|vm_compute; reflexivity].
  vm_compute. intros H. repeat (destruct H as [H|H]; [discriminate|]). contradiction.
Qed.

(* ... and the hypotheses of the theorem (a verifying bundle for a never-inserted claim) are
   satisfiable exactly when the hash collides: with a constant hash every proof verifies, and
   the theorem's conclusion is then a genuine collision *)
Module Const.
Definition poseidon (_ : list Z) : Z := 5.
Definition ct : tree := L 1 2.
Definition b : smt_bundle unit :=
  mksmt (mkclaim 0 0 0 0 0 0 0 0) (Some (mkrp true [] None))
        (mkistate (HVal 5) (HVal 5) HNil HNil) (Some tt).
End Const.

Example ex_never_issued_hypotheses :
  wf 40 Const.ct /\
  claim_hashes Const.poseidon 100 (s_claim Const.b) 5 5 /\
  ~ In (hash_of_z 5, hash_of_z 5) (leaves Const.ct) /\
  st_value (s_state Const.b) =
    HVal (Const.poseidon [Model.root (Status.hl Const.poseidon) (Status.hm Const.poseidon) Const.ct; 0; 0]) /\
  verify_smt Const.poseidon 100 unit resolve_did id_from_did genesis_check Const.b = Ok tt.
Proof.
  split; [unfold Theory.wf, Const.ct; simpl; lia|]. split.
  { split; (split; [repeat constructor; unfold in_q; lia | reflexivity]). }
  split; [vm_compute; intros [H|[]]; discriminate|].
  split; [reflexivity|vm_compute; reflexivity].
Qed.

(* ---- dispatch of VerifyProof ---- *)
Example ex_top_binding_failure :
  verify_proof_top (verify_smt poseidon q unit resolve_did id_from_did genesis_check)
    (mkvp true true false (Some (issue_smt poseidon unit Z true s cl tt))) = Err EBinding78.
Proof. reflexivity. Qed.

Example ex_top_ok :
  verify_proof_top (verify_smt poseidon q unit resolve_did id_from_did genesis_check)
    (mkvp true true true (Some (issue_smt poseidon unit Z true s cl tt))) = Ok tt.
Proof. vm_compute. reflexivity. Qed.

(* ---- decoding of hash-valued members (Hex78.v): little-endian, optional 0x, 32 bytes ---- *)
Example ex_hex_le :
  hash_from_hex "0100000000000000000000000000000000000000000000000000000000000000" = Some 1.
Proof. vm_compute. reflexivity. Qed.
Example ex_hex_0x_upper :
  hash_from_hex "0xFF01000000000000000000000000000000000000000000000000000000000000" = Some 511.
Proof. vm_compute. reflexivity. Qed.
Example ex_hex_short : hexf_of_str (Some "0100"%string) = HBad.
Proof. vm_compute. reflexivity. Qed.
Example ex_hex_odd :
  hexf_of_str (Some "010000000000000000000000000000000000000000000000000000000000000"%string) = HBad.
Proof. vm_compute. reflexivity. Qed.
Example ex_hex_absent : hexf_of_str None = HNil.
Proof. reflexivity. Qed.

(* ---- DID documents with several verification methods: the first state-info entry counts ---- *)
Example ex_doc_first_of_two :
  did_doc [VMOther; VMStateInfo (Some true); VMOther; VMStateInfo (Some false)] = DDoc (Some (Some true)).
Proof. reflexivity. Qed.
Example ex_doc_none : did_doc [VMOther; VMOther] = DDoc None.
Proof. reflexivity. Qed.
Example ex_smt_published_with_trailing_key :
  verify_smt poseidon q unit (fun _ _ => did_doc [VMStateInfo (Some true); VMOther]) (fun _ _ => Some 42)
             (fun id st => Some false) (issue_smt poseidon unit Z false s cl tt) = Ok tt.
Proof. vm_compute. reflexivity. Qed.

(* ---- the status entry only ---- *)
Definition st_obj : list (string * jv) :=
  [("id", JStr "https://status.example/x"); ("type", JStr "SparseMerkleTreeProof"); ("revocationNonce", JNum 9)]%string.
Example ex_status_json_decodes :
  decode_cs 8 json_rt st_obj = Some (mkcs "SparseMerkleTreeProof" 9).
Proof. vm_compute. reflexivity. Qed.
Example ex_status_issuer_ignored :
  decode_cs 8 json_rt (("statusIssuer", JObj [("type", JStr "Other"); ("revocationNonce", JNum 77)]) :: ("extra", JBad) :: st_obj)%string
  = Some (mkcs "SparseMerkleTreeProof" 9).
Proof. vm_compute. reflexivity. Qed.
Example ex_status_issuer_malformed : decode_cs 8 json_rt (("statusIssuer", JStr "x") :: st_obj)%string = None.
Proof. vm_compute. reflexivity. Qed.
Example ex_status_nonce_string : decode_cs 8 json_rt [("type", JStr "T"); ("revocationNonce", JStr "9")]%string = None.
Proof. vm_compute. reflexivity. Qed.

(* REFUTATION of "statusIssuer as a fallback" (seeded change C07-q): the primary entry (right
   nonce, type without a resolver) cannot be validated, the nested entry names ANOTHER nonce that
   a working resolver reports unrevoked: the fallback variant accepts although the property's
   status clause fails for the entry *)
Theorem status_issuer_fallback_refuted :
  exists (poseidon : list Z -> Z) (q : Z) (reg : registry) (primary nested : cred_status) (auth : claim),
    validate_auth_revocation_with_fallback poseidon q reg primary (Some nested) auth = Ok tt /\
    cs_nonce nested <> claim_nonce auth /\
    ~ status_not_revoked poseidon q reg primary /\
    exists t, validate_auth_revocation poseidon q reg (RSObj (Some primary)) (Some auth) = Err t.
Proof.
  exists poseidon, q, reg, (mkcs "NoResolverForThisType" 9), (mkcs "SparseMerkleTreeProof" 5), auth.
  split; [vm_compute; reflexivity|]. split; [vm_compute; discriminate|]. split.
  - intros H. apply v78_validate_status_ok_iff in H. destruct H as (ans & H). vm_compute in H. discriminate.
  - eexists. vm_compute. reflexivity.
Qed.
