(* Verify/Hex78.v — executable model of how the proof members that hold hashes are decoded:
   merkletree.NewHashFromHex (strings.TrimPrefix "0x", encoding/hex.DecodeString, exactly 32
   bytes) followed by Hash.BigInt() (little-endian).  NO proofs in this file.
   Used by the per-run evaluation (Run78.v) so that the case files carry the strings as they
   stand in the proof, and by Examples78.v. *)
From Coq Require Import ZArith List String Ascii Bool Arith.
From GSP Require Import Base.Prelude Verify.Status.
Import ListNotations.
Open Scope Z_scope.

(* encoding/hex: 0-9 a-f A-F *)
Definition hex_digit (c : ascii) : option Z :=
  let n := Z.of_nat (nat_of_ascii c) in
  if (48 <=? n) && (n <=? 57) then Some (n - 48)
  else if (97 <=? n) && (n <=? 102) then Some (n - 87)
  else if (65 <=? n) && (n <=? 70) then Some (n - 55)
  else None.

(* hex.DecodeString: an odd length or a character that is not a hex digit is an error *)
Fixpoint hex_bytes (s : string) : option (list Z) :=
  match s with
  | EmptyString => Some []
  | String _ EmptyString => None
  | String a (String b r) =>
      match hex_digit a, hex_digit b, hex_bytes r with
      | Some x, Some y, Some l => Some (16 * x + y :: l)
      | _, _, _ => None
      end
  end.

(* Hash.BigInt(): the 32 bytes read as a little-endian number *)
Fixpoint le_bytes (l : list Z) : Z :=
  match l with
  | [] => 0
  | b :: r => b + 256 * le_bytes r
  end.

Definition trim_0x (s : string) : string :=
  match s with
  | String "0"%char (String "x"%char r) => r
  | _ => s
  end.

(* NewHashFromHex(s).BigInt(); None = error *)
Definition hash_from_hex (s : string) : option Z :=
  match hex_bytes (trim_0x s) with
  | Some l => if Nat.eqb (List.length l) 32 then Some (le_bytes l) else None
  | None => None
  end.

(* a `*string` member *)
Definition hexf_of_str (o : option string) : hexf :=
  match o with
  | None => HNil
  | Some s => match hash_from_hex s with Some z => HVal z | None => HBad end
  end.
