(* Verify/Complete78.v — completeness of the two proof verifiers on honest issuance, the
   "never issued" theorem, soundness against an honest issuer's trees, and the statements
   about W3CCredential.VerifyProof's dispatch (properties C07 and C08).

   Honest issuance is modelled on the tree level (SMT/Model.v): the issuer's claims tree
   and revocation tree are well-formed trees (`wf` = every tree reachable by Add,
   SMT/Theory.v wf_iff_reachable) over field elements; proofs are what GenerateProof
   returns (`gen`).  Hypotheses, all explicit in the statements:
     * sig_correct : forall sk m, sig_verify (pubx sk) (puby sk) m (sign sk m) = true
       (the ONLY assumption about BabyJubJub; completeness only);
     * a RANGE condition on Poseidon (its results are field elements, 0 < q <= 2^256): the
       model contains the libraries' "input not in field" errors, so an honest bundle
       verifies only if hashes are field elements.  This is not injectivity and holds for
       every function into the field;
   soundness statements carry NO hypothesis on the hash: they end in an explicit collision
   (`SMT.Sound.Collision` = two different node contents with one hash / a node hashing to 0,
   or two different root triples hashing to the same state). *)
From Coq Require Import ZArith List String Bool Arith Lia.
From GSP Require Import Base.Prelude SMT.Model SMT.Theory SMT.Sound Verify.Status Verify.Issuer
  Verify.BJJ Verify.SMTProof Verify.Top78 Verify.Theory78.
Import ListNotations.
Open Scope list_scope.
Open Scope Z_scope.

(* the JSON form of a generated proof *)
Definition rproof_of (p : proof) : rproof :=
  mkrp (ex p) (sibs p)
       (match aux p with None => None | Some (a, b) => Some (Some a, Some b) end).

(* a root member of an honest proof: zero roots may be left out *)
Definition opt_root (omit : bool) (z : Z) : hexf := if omit && (z =? 0) then HNil else HVal z.

Definition claim_in_field (q : Z) (c : claim) : Prop :=
  i0 c < q /\ i1 c < q /\ i2 c < q /\ i3 c < q /\ v0 c < q /\ v1 c < q /\ v2 c < q /\ v3 c < q.

Section Complete78.
Variable poseidon : list Z -> Z.
Variable q : Z.
Variable maxlev : nat.
Variables D SigT SK : Type.
Variable sig_verify : Z -> Z -> Z -> SigT -> bool.
Variable pubx puby : SK -> Z.
Variable sign : SK -> Z -> SigT.
Variable json_rt : Z -> option Z.     (* encoding/json round trip of an integer literal, Top78.v *)
Variable resolve_did : D -> Z -> did_answer.
Variable id_from_did : D -> Z -> option Z.
Variable genesis_check : Z -> Z -> option bool.
Variable reg : registry.

Notation hl := (Status.hl poseidon).
Notation hm := (Status.hm poseidon).
Notation root := (Model.root hl hm).
Notation gen := (Model.gen hl hm).
Notation wf := (Theory.wf maxlev).
Notation verify_bjj := (verify_bjj poseidon q D SigT sig_verify resolve_did id_from_did genesis_check reg).
Notation verify_smt := (verify_smt poseidon q D resolve_did id_from_did genesis_check).
Notation mtp_carries := (mtp_carries poseidon q).
Notation published_or_genesis := (published_or_genesis D resolve_did id_from_did genesis_check).

Definition hi_of (c : claim) : Z := poseidon [i0 c; i1 c; i2 c; i3 c].
Definition hv_of (c : claim) : Z := poseidon [v0 c; v1 c; v2 c; v3 c].

(* ================================================================== *)
(* 1. generated proofs carry their leaf / their absence                 *)
(* ================================================================== *)

Definition hash_in_field : Prop := forall l, 0 <= poseidon l < q.

Lemma hl_range : hash_in_field -> forall a b, 0 <= hl a b < q.
Proof. intros H a b. apply H. Qed.
Lemma hm_range : hash_in_field -> forall a b, 0 <= hm a b < q.
Proof. intros H a b. apply H. Qed.

Lemma aux_of_rproof_of : forall p, aux_of (r_aux (rproof_of p)) = Some (aux p).
Proof. intros p. unfold rproof_of; simpl. destruct (aux p) as [[a b]|]; reflexivity. Qed.

Lemma mt_verify_carries : forall p k v r,
  mt_verify_proof hl hm q r p k v = Ok true -> mtp_carries (rproof_of p) k v r.
Proof.
  intros p k v r H. unfold mt_verify_proof in H.
  destruct (mt_root_from_proof hl hm q p k v) as [r'| | |] eqn:Hr; try discriminate.
  inversion H as [He]. apply Z.eqb_eq in He. subst r'.
  unfold Theory78.mtp_carries. exists (aux p). split; [apply aux_of_rproof_of|].
  unfold rproof_of; simpl.
  apply v78_mt_rfp_iff. destruct p as [e s a]; exact Hr.
Qed.

Lemma gen_member_carries : forall t k v,
  0 < q -> q <= 2 ^ 256 -> hash_in_field -> (1 <= maxlev <= 241)%nat ->
  wf t -> tree_in_field q t -> In (k, v) (leaves t) ->
  mtp_carries (rproof_of (fst (gen t 0 k []))) k v (root t) /\
  r_ex (rproof_of (fst (gen t 0 k []))) = true.
Proof.
  intros t k v Hq Hq2 Hr Hml Hwf Hf Hin.
  destruct (Hf _ _ Hin) as [Hk Hv].
  assert (Hkid : hash_of_z k = k) by (apply hash_of_z_id; lia).
  destruct (mt_completeness hl hm maxlev q t k Hq Hq2 (hl_range Hr) (hm_range Hr) Hml Hwf Hf ltac:(lia))
    as (p & v' & Hg & Hver & Hiff & _).
  rewrite (mt_gen_wf hl hm maxlev q t k Hwf ltac:(lia) ltac:(lia)), Hkid in Hg.
  destruct (gen_member hl hm maxlev t k v Hwf Hin) as (p2 & Hg2 & He2 & _).
  rewrite Hg2 in Hg. inversion Hg; subst p2 v'. rewrite Hg2. cbn [fst].
  rewrite He2 in Hver. split; [apply mt_verify_carries; exact Hver|exact He2].
Qed.

Lemma gen_absent_carries : forall t k,
  0 < q -> q <= 2 ^ 256 -> hash_in_field -> (1 <= maxlev <= 241)%nat ->
  wf t -> tree_in_field q t -> 0 <= k < q -> ~ In k (keys t) ->
  mtp_carries (rproof_of (fst (gen t 0 k []))) k 0 (root t) /\
  r_ex (rproof_of (fst (gen t 0 k []))) = false.
Proof.
  intros t k Hq Hq2 Hr Hml Hwf Hf Hk Hn.
  assert (Hkid : hash_of_z k = k) by (apply hash_of_z_id; lia).
  destruct (mt_completeness hl hm maxlev q t k Hq Hq2 (hl_range Hr) (hm_range Hr) Hml Hwf Hf ltac:(lia))
    as (p & v' & Hg & Hver & Hiff & _).
  rewrite (mt_gen_wf hl hm maxlev q t k Hwf ltac:(lia) ltac:(lia)), Hkid in Hg.
  inversion Hg as [Hg']. rewrite Hg'. cbn [fst].
  assert (He : ex p = false).
  { destruct (ex p) eqn:E; [|reflexivity]. exfalso. apply Hn. rewrite <- Hkid. apply Hiff. reflexivity. }
  rewrite He in Hver. split; [apply mt_verify_carries; exact Hver|exact He].
Qed.

(* ================================================================== *)
(* 2. the issuance model                                                *)
(* ================================================================== *)

Record issuer_state := mkis {
  is_sk   : SK;       (* BabyJubJub private key *)
  is_auth : claim;    (* auth claim: public key in index slots 2, 3 *)
  is_ct   : tree;     (* claims tree *)
  is_rt   : tree;     (* revocation tree *)
  is_ror  : Z         (* root of the roots tree *)
}.

Definition state_of (s : issuer_state) : Z := poseidon [root (is_ct s); root (is_rt s); is_ror s].

Definition istate_of (omit : bool) (s : issuer_state) : istate :=
  mkistate (HVal (state_of s)) (HVal (root (is_ct s)))
           (opt_root omit (root (is_rt s))) (opt_root omit (is_ror s)).

(* an honest issuer: the auth claim holds its key and is a leaf of its claims tree, its
   own nonce is not revoked, trees are reachable by Add and hold field elements *)
Definition honest_issuer (s : issuer_state) : Prop :=
  i2 (is_auth s) = pubx (is_sk s) /\ i3 (is_auth s) = puby (is_sk s) /\
  claim_in_field q (is_auth s) /\
  wf (is_ct s) /\ tree_in_field q (is_ct s) /\
  In (hi_of (is_auth s), hv_of (is_auth s)) (leaves (is_ct s)) /\
  wf (is_rt s) /\ tree_in_field q (is_rt s) /\
  0 <= is_ror s < q.

(* the BJJ proof an honest issuer attaches to the core claim c *)
Definition issue_bjj (omit : bool) (s : issuer_state) (c : claim) (did : D) (ty : string)
  : bjj_bundle D SigT :=
  mkbjj c (Some (is_auth s))
        (Some (sign (is_sk s) (poseidon [hi_of c; hv_of c])))
        (Some (rproof_of (fst (gen (is_ct s) 0 (hi_of (is_auth s)) []))))
        (istate_of omit s) (Some did)
        (* the JSON text carries {"type": ty, "revocationNonce": <the auth claim's nonce>}; the
           verifier sees it after the interface{} / float64 round trip *)
        (status_after_json json_rt ty (claim_nonce (is_auth s))).

(* the Iden3SparseMerkleTreeProof for a claim c *)
Definition issue_smt (omit : bool) (s : issuer_state) (c : claim) (did : D) : smt_bundle D :=
  mksmt c (Some (rproof_of (fst (gen (is_ct s) 0 (hi_of c) [])))) (istate_of omit s) (Some did).

(* the answer an honest status service gives about nonce n from the issuer state s' *)
Definition honest_answer (omit : bool) (s' : issuer_state) (n : Z) : answer :=
  mkans (mkts (HVal (state_of s')) (HVal (root (is_ct s')))
              (opt_root omit (root (is_rt s'))) (opt_root omit (is_ror s')))
        (rproof_of (fst (gen (is_rt s') 0 n []))).

Lemma claim_hashes_of : forall c, claim_in_field q c -> claim_hashes poseidon q c (hi_of c) (hv_of c).
Proof.
  intros c (A0 & A1 & A2 & A3 & B0 & B1 & B2 & B3). unfold claim_hashes, hashes_to, in_q, hi_of, hv_of.
  split; (split; [repeat constructor; assumption | reflexivity]).
Qed.

Lemma hex_or_zero_opt_root : forall omit z, hex_or_zero (opt_root omit z) = Ok z.
Proof.
  intros omit z. unfold opt_root. destruct omit; cbn [andb]; [|reflexivity].
  destruct (Z.eqb_spec z 0) as [->|]; reflexivity.
Qed.

Lemma roots_commit : forall omit ct rt ror,
  hash_in_field -> 0 <= ror < q ->
  roots_hash_to poseidon q (HVal (poseidon [root ct; root rt; ror])) (HVal (root ct))
                (opt_root omit (root rt)) (opt_root omit ror) (poseidon [root ct; root rt; ror]).
Proof.
  intros omit ct rt ror Hr Hror. unfold roots_hash_to. split; [reflexivity|].
  exists (root ct), (root rt), ror. rewrite !hex_or_zero_opt_root. repeat split; auto.
  unfold in_q. assert (Hc : forall t, root t < q).
  { intros t. destruct t; simpl; [pose proof (Hr []); lia | apply Hr | apply Hr]. }
  repeat constructor; try apply Hc. lia.
Qed.

(* ================================================================== *)
(* 3. completeness                                                       *)
(* ================================================================== *)

Theorem bjj_complete :
  (forall sk m, sig_verify (pubx sk) (puby sk) m (sign sk m) = true) ->
  0 < q -> q <= 2 ^ 256 -> hash_in_field -> (1 <= maxlev <= 241)%nat ->
  forall omit s s' c did ty rslv,
    honest_issuer s -> claim_in_field q c ->
    (* honest DID resolver: the state is published, or it is the DID's genesis state *)
    published_or_genesis did (state_of s) ->
    (* honest status service: registered for the entry's type, answering from an honest
       (current or later) state s' in which the auth claim's nonce is not revoked *)
    ty <> ""%string -> lookup_resolver reg ty = Some rslv ->
    rslv (mkcs ty (claim_nonce (is_auth s))) = Some (honest_answer omit s' (claim_nonce (is_auth s))) ->
    wf (is_rt s') -> tree_in_field q (is_rt s') -> 0 <= is_ror s' < q ->
    claim_nonce (is_auth s) < q -> ~ In (claim_nonce (is_auth s)) (keys (is_rt s')) ->
    (* the nonce survives the decoder's float64 round trip (true below 2^53; see
       bjj_complete_refuted_json_number for what happens otherwise) *)
    json_rt (claim_nonce (is_auth s)) = Some (claim_nonce (is_auth s)) ->
    verify_bjj (issue_bjj omit s c did ty) = Ok tt.
Proof.
  intros Hsig Hq Hq2 Hr Hml omit s s' c did ty rslv
         (Hx & Hy & Hauthf & Hwfc & Hfc & Hin & Hwfr & Hfr & Hror) Hcf Hpg Hty Hlk Hans Hwfr' Hfr' Hror' Hnq Hnr Hjson.
  apply bjj_decision. unfold bjj_ok.
  set (auth := is_auth s).
  destruct (gen_member_carries (is_ct s) (hi_of auth) (hv_of auth) Hq Hq2 Hr Hml Hwfc Hfc Hin) as [Hcar Hex].
  assert (Hn0 : 0 <= claim_nonce auth) by (unfold claim_nonce; apply Z.mod_pos_bound; lia).
  destruct (gen_absent_carries (is_rt s') (claim_nonce auth) Hq Hq2 Hr Hml Hwfr' Hfr' ltac:(split; [exact Hn0|exact Hnq]) Hnr)
    as [Hcar' Hex'].
  exists auth, (sign (is_sk s) (poseidon [hi_of c; hv_of c])), (hi_of c), (hv_of c),
         (hi_of auth), (hv_of auth), (rproof_of (fst (gen (is_ct s) 0 (hi_of auth) []))),
         (root (is_ct s)), (state_of s), did, (mkcs ty (claim_nonce auth)).
  unfold issue_bjj, status_after_json. fold auth. fold auth in Hjson. rewrite Hjson.
  cbn [b_claim b_auth b_sig b_mtp b_state b_did b_status istate_of st_ctr].
  split; [reflexivity|]. split; [reflexivity|].
  split; [apply claim_hashes_of; exact Hcf|].
  split. { split; [|reflexivity]. unfold in_q, hi_of, hv_of. repeat constructor; apply Hr. }
  split. { fold auth in Hx, Hy. rewrite Hx, Hy. apply Hsig. }
  split; [reflexivity|]. split; [exact Hex|]. split; [reflexivity|].
  split; [apply claim_hashes_of; exact Hauthf|].
  split; [exact Hcar|].
  split. { unfold state_commits, istate_of; cbn [st_value st_ctr st_rtr st_ror]. apply roots_commit; assumption. }
  split; [reflexivity|]. split; [exact Hpg|].
  split. { cbn [status_entry cs_type]. split; [reflexivity|exact Hty]. }
  split; [reflexivity|].
  unfold status_not_revoked. cbn [cs_type cs_nonce].
  exists rslv, (honest_answer omit s' (claim_nonce auth)), (state_of s'), (root (is_rt s')).
  split; [exact Hlk|]. split; [exact Hans|].
  unfold honest_answer; cbn [a_issuer a_mtp ts_state ts_ctr ts_rtr ts_ror].
  split; [apply roots_commit; assumption|].
  split; [apply hex_or_zero_opt_root|].
  split; [exact Hcar'|exact Hex'].
Qed.

(* the checks before the status check do not look at issuerData.credentialStatus *)
Lemma bjj_status_only_last : forall b r,
  verify_bjj b = Ok tt ->
  verify_bjj (mkbjj (b_claim b) (b_auth b) (b_sig b) (b_mtp b) (b_state b) (b_did b) r) =
  validate_auth_revocation poseidon q reg r (b_auth b).
Proof.
  intros b r H. unfold BJJ.verify_bjj in *. cbn [b_claim b_auth b_sig b_mtp b_state b_did b_status].
  rewrite v78_bind_ok_iff in H. destruct H as (auth & Hauth & H). rewrite Hauth. cbn [bind].
  rewrite v78_bind_ok_iff in H. destruct H as (sig & Hsig & H). rewrite Hsig. cbn [bind].
  rewrite v78_bind_ok_iff in H. destruct H as (u1 & H1 & H). rewrite H1. cbn [bind].
  rewrite v78_bind_ok_iff in H. destruct H as (u2 & H2 & H). rewrite H2. cbn [bind].
  rewrite v78_bind_ok_iff in H. destruct H as (u3 & H3 & H). rewrite H3. cbn [bind].
  rewrite v78_bind_ok_iff in H. destruct H as (st & H4 & H). rewrite H4. cbn [bind].
  reflexivity.
Qed.

(* REFUTATION of unconditional completeness (finding D22): whenever the JSON round trip of
   the status entry's nonce yields another number - encoding/json decodes the literal into an
   interface{} as float64, so this happens for nonces that are not exactly representable,
   e.g. 2^53+1 |-> 2^53 - an honestly issued bundle, for which every other hypothesis of
   bjj_complete holds, is rejected with "revocation nonce mismatch". *)
Theorem bjj_complete_refuted_json_number :
  (forall sk m, sig_verify (pubx sk) (puby sk) m (sign sk m) = true) ->
  0 < q -> q <= 2 ^ 256 -> hash_in_field -> (1 <= maxlev <= 241)%nat ->
  forall omit s s' c did ty rslv n',
    honest_issuer s -> claim_in_field q c ->
    published_or_genesis did (state_of s) ->
    ty <> ""%string -> lookup_resolver reg ty = Some rslv ->
    rslv (mkcs ty (claim_nonce (is_auth s))) = Some (honest_answer omit s' (claim_nonce (is_auth s))) ->
    wf (is_rt s') -> tree_in_field q (is_rt s') -> 0 <= is_ror s' < q ->
    claim_nonce (is_auth s) < q -> ~ In (claim_nonce (is_auth s)) (keys (is_rt s')) ->
    json_rt (claim_nonce (is_auth s)) = Some n' -> n' <> claim_nonce (is_auth s) ->
    verify_bjj (issue_bjj omit s c did ty) = Err ENonce.
Proof.
  intros Hsig Hq Hq2 Hr Hml omit s s' c did ty rslv n' Hh Hcf Hpg Hty Hlk Hans Hwfr' Hfr' Hror' Hnq Hnr Hjson Hne.
  (* the same bundle with the status entry as written verifies ... *)
  set (b0 := mkbjj c (Some (is_auth s)) (Some (sign (is_sk s) (poseidon [hi_of c; hv_of c])))
                   (Some (rproof_of (fst (gen (is_ct s) 0 (hi_of (is_auth s)) []))))
                   (istate_of omit s) (Some did)
                   (RSObj (Some (mkcs ty (claim_nonce (is_auth s)))))).
  assert (H0 : verify_bjj b0 = Ok tt).
  { destruct Hh as (Hx & Hy & Hauthf & Hwfc & Hfc & Hin & Hwfr & Hfr & Hror).
    apply bjj_decision. unfold bjj_ok.
    destruct (gen_member_carries (is_ct s) (hi_of (is_auth s)) (hv_of (is_auth s)) Hq Hq2 Hr Hml Hwfc Hfc Hin) as [Hcar Hex].
    assert (Hn0 : 0 <= claim_nonce (is_auth s)) by (unfold claim_nonce; apply Z.mod_pos_bound; lia).
    destruct (gen_absent_carries (is_rt s') (claim_nonce (is_auth s)) Hq Hq2 Hr Hml Hwfr' Hfr'
                ltac:(split; [exact Hn0|exact Hnq]) Hnr) as [Hcar' Hex'].
    exists (is_auth s), (sign (is_sk s) (poseidon [hi_of c; hv_of c])), (hi_of c), (hv_of c),
           (hi_of (is_auth s)), (hv_of (is_auth s)), (rproof_of (fst (gen (is_ct s) 0 (hi_of (is_auth s)) []))),
           (root (is_ct s)), (state_of s), did, (mkcs ty (claim_nonce (is_auth s))).
    unfold b0. cbn [b_claim b_auth b_sig b_mtp b_state b_did b_status istate_of st_ctr].
    split; [reflexivity|]. split; [reflexivity|].
    split; [apply claim_hashes_of; exact Hcf|].
    split. { split; [|reflexivity]. unfold in_q, hi_of, hv_of. repeat constructor; apply Hr. }
    split. { rewrite Hx, Hy. apply Hsig. }
    split; [reflexivity|]. split; [exact Hex|]. split; [reflexivity|].
    split; [apply claim_hashes_of; exact Hauthf|].
    split; [exact Hcar|].
    split. { unfold state_commits, istate_of; cbn [st_value st_ctr st_rtr st_ror]. apply roots_commit; assumption. }
    split; [reflexivity|]. split; [exact Hpg|].
    split. { cbn [status_entry cs_type]. split; [reflexivity|exact Hty]. }
    split; [reflexivity|].
    unfold status_not_revoked. cbn [cs_type cs_nonce].
    exists rslv, (honest_answer omit s' (claim_nonce (is_auth s))), (state_of s'), (root (is_rt s')).
    split; [exact Hlk|]. split; [exact Hans|].
    unfold honest_answer; cbn [a_issuer a_mtp ts_state ts_ctr ts_rtr ts_ror].
    split; [apply roots_commit; assumption|].
    split; [apply hex_or_zero_opt_root|].
    split; [exact Hcar'|exact Hex']. }
  (* ... and the decoded status entry only changes the last check *)
  pose proof (bjj_status_only_last b0 (RSObj (Some (mkcs ty n'))) H0) as Hlast.
  unfold issue_bjj, status_after_json. rewrite Hjson.
  unfold b0 in Hlast. cbn [b_claim b_auth b_sig b_mtp b_state b_did] in Hlast. rewrite Hlast.
  unfold validate_auth_revocation. cbn [coerce_status cs_type].
  destruct (String.eqb_spec ty "") as [E|_]; [contradiction|]. cbn [bind of_option cs_nonce].
  destruct (Z.eqb_spec n' (claim_nonce (is_auth s))) as [E|_]; [contradiction|]. reflexivity.
Qed.

Theorem smt_complete :
  0 < q -> q <= 2 ^ 256 -> hash_in_field -> (1 <= maxlev <= 241)%nat ->
  forall omit s c did,
    wf (is_ct s) -> tree_in_field q (is_ct s) -> 0 <= is_ror s < q ->
    claim_in_field q c ->
    (* the claim was inserted in the claims tree *)
    In (hi_of c, hv_of c) (leaves (is_ct s)) ->
    published_or_genesis did (state_of s) ->
    verify_smt (issue_smt omit s c did) = Ok tt.
Proof.
  intros Hq Hq2 Hr Hml omit s c did Hwfc Hfc Hror Hcf Hin Hpg.
  apply smt_decision. unfold smt_ok.
  destruct (gen_member_carries (is_ct s) (hi_of c) (hv_of c) Hq Hq2 Hr Hml Hwfc Hfc Hin) as [Hcar Hex].
  exists did, (state_of s), (hi_of c), (hv_of c), (rproof_of (fst (gen (is_ct s) 0 (hi_of c) []))), (root (is_ct s)).
  unfold issue_smt. cbn [s_claim s_mtp s_state s_did istate_of st_ctr].
  split; [reflexivity|]. split; [exact Hpg|].
  split; [apply claim_hashes_of; exact Hcf|].
  split; [reflexivity|]. split; [exact Hex|]. split; [exact Hcar|]. split; [reflexivity|].
  unfold state_commits; cbn [st_value st_ctr st_rtr st_ror]. apply roots_commit; assumption.
Qed.

(* ================================================================== *)
(* 4. soundness against an honest issuer's trees                         *)
(* ================================================================== *)

(* two different triples of roots with the same state hash *)
Definition StateCollision : Prop :=
  exists a b c a' b' c', (a, b, c) <> (a', b', c') /\ poseidon [a; b; c] = poseidon [a'; b'; c'].

Lemma state_commits_binds : forall s st ct rt ror ctr,
  state_commits poseidon q s st -> st = poseidon [root ct; rt; ror] ->
  st_ctr s = HVal ctr -> ctr = root ct \/ StateCollision.
Proof.
  intros s st ct rt ror ctr (Hv & c & r & o & Hc & Hr & Ho & (_ & Hh)) Hst Hctr.
  rewrite Hctr in Hc. simpl in Hc. inversion Hc; subst c.
  destruct (Z.eq_dec ctr (root ct)) as [E|NE]; [left; exact E|right].
  exists ctr, r, o, (root ct), rt, ror. split; [intros H; inversion H; contradiction|congruence].
Qed.

(* C08: a claim that was never inserted in an honest issuer's claims tree cannot be
   verified against that issuer's state, whatever proof, roots and DID the bundle gives,
   unless a hash collision is exhibited. *)
Theorem smt_never_issued : forall (ct : tree) (rt ror : Z) (b : smt_bundle D) hi hv,
  wf ct ->
  claim_hashes poseidon q (s_claim b) hi hv ->
  ~ In (hash_of_z hi, hash_of_z hv) (leaves ct) ->
  st_value (s_state b) = HVal (poseidon [root ct; rt; ror]) ->
  verify_smt b = Ok tt ->
  Collision hl hm \/ StateCollision.
Proof.
  intros ct rt ror b hi hv Hwf Hhh Hnot Hstv Hok.
  apply smt_decision in Hok.
  destruct Hok as (d & st & hi' & hv' & mtp & ctr & _ & _ & Hhh' & _ & Hex & Hcar & Hctr & Hst).
  assert (hi' = hi /\ hv' = hv) as [-> ->].
  { destruct Hhh as [[_ A] [_ B]], Hhh' as [[_ A'] [_ B']]. split; congruence. }
  assert (Hsteq : st = poseidon [root ct; rt; ror]).
  { destruct Hst as [A _]. rewrite Hstv in A. inversion A. reflexivity. }
  destruct (state_commits_binds _ _ ct rt ror ctr Hst Hsteq Hctr) as [->|Hcol]; [|right; exact Hcol].
  destruct Hcar as (a & _ & _ & Hrfp). cbn [ex] in Hrfp.
  assert (Hv : verify_proof hl hm (root ct) (mkproof (r_ex mtp) (r_sibs mtp) a) (hash_of_z hi) (hash_of_z hv) = true).
  { unfold verify_proof. rewrite Hrfp. apply Z.eqb_refl. }
  destruct (soundness_ex hl hm maxlev ct _ _ _ Hwf Hv Hex) as [Hin|Hcol]; [contradiction|left; exact Hcol].
Qed.

(* C07: a BJJ bundle that verifies against an honest issuer's state has its auth claim
   in that issuer's claims tree (so the key that signed is a key the issuer registered),
   unless a hash collision is exhibited. *)
Theorem bjj_auth_in_tree : forall (ct : tree) (rt ror : Z) (b : bjj_bundle D SigT),
  wf ct ->
  st_value (b_state b) = HVal (poseidon [root ct; rt; ror]) ->
  verify_bjj b = Ok tt ->
  (exists auth, b_auth b = Some auth /\
                In (hash_of_z (hi_of auth), hash_of_z (hv_of auth)) (leaves ct)) \/
  Collision hl hm \/ StateCollision.
Proof.
  intros ct rt ror b Hwf Hstv Hok. apply bjj_decision in Hok.
  destruct Hok as (auth & sig & hi & hv & ahi & ahv & mtp & ctr & st & d & cs &
                   Hauth & _ & _ & _ & _ & _ & Hex & Hctr & Hahh & Hcar & Hst & _).
  assert (Hsteq : st = poseidon [root ct; rt; ror]).
  { destruct Hst as [A _]. rewrite Hstv in A. inversion A. reflexivity. }
  destruct (state_commits_binds _ _ ct rt ror ctr Hst Hsteq Hctr) as [->|Hcol]; [|right; right; exact Hcol].
  destruct Hcar as (a & _ & _ & Hrfp). cbn [ex] in Hrfp.
  assert (Hv : verify_proof hl hm (root ct) (mkproof (r_ex mtp) (r_sibs mtp) a) (hash_of_z ahi) (hash_of_z ahv) = true).
  { unfold verify_proof. rewrite Hrfp. apply Z.eqb_refl. }
  destruct Hahh as [[_ A] [_ B]].
  destruct (soundness_ex hl hm maxlev ct _ _ _ Hwf Hv Hex) as [Hin|Hcol]; [|right; left; exact Hcol].
  left. exists auth. split; [exact Hauth|]. unfold hi_of, hv_of. rewrite A, B. exact Hin.
Qed.

(* C07: "the validated status shows it not revoked", grounded in the tree: whenever a verified
   bundle's status answer names the revocation root of a well-formed revocation tree rt, the auth
   claim's nonce is NOT a key of rt (not revoked there), or a hash collision is exhibited. *)
Theorem bjj_not_revoked_in_tree : forall (b : bjj_bundle D SigT),
  verify_bjj b = Ok tt ->
  exists auth cs rslv ans,
    b_auth b = Some auth /\ status_entry (b_status b) cs /\ cs_nonce cs = claim_nonce auth /\
    lookup_resolver reg (cs_type cs) = Some rslv /\ rslv cs = Some ans /\
    forall rt, wf rt -> hex_or_zero (ts_rtr (a_issuer ans)) = Ok (root rt) ->
      ~ In (hash_of_z (claim_nonce auth)) (keys rt) \/ Collision hl hm.
Proof.
  intros b Hok. apply bjj_decision in Hok.
  destruct Hok as (auth & sig & hi & hv & ahi & ahv & mtp & ctr & st & d & cs &
                   Hauth & _ & _ & _ & _ & _ & _ & _ & _ & _ & _ & _ & _ & Hse & Hn & Hnr).
  destruct Hnr as (rslv & ans & st' & revroot & Hlk & Hans & _ & Hrr & Hcar & Hex).
  exists auth, cs, rslv, ans. repeat (split; [assumption|]).
  intros rt Hwf Hroot. rewrite Hrr in Hroot. inversion Hroot; subst revroot.
  destruct Hcar as (a & _ & _ & Hrfp). rewrite <- Hn.
  assert (Hv : verify_proof hl hm (root rt) (mkproof (r_ex (a_mtp ans)) (r_sibs (a_mtp ans)) a)
                            (hash_of_z (cs_nonce cs)) (hash_of_z 0) = true).
  { unfold verify_proof. rewrite Hrfp. apply Z.eqb_refl. }
  exact (soundness_nonex hl hm maxlev rt _ _ _ Hwf Hv Hex).
Qed.

End Complete78.

(* ================================================================== *)
(* 5. W3CCredential.VerifyProof's dispatch; totality                     *)
(* ================================================================== *)

Theorem top_ok_iff : forall B (check : B -> res unit) (i : vp_input B),
  verify_proof_top check i = Ok tt <->
  vp_found i = true /\ vp_claim i = true /\ vp_binding i = true /\
  exists b, vp_typed i = Some b /\ check b = Ok tt.
Proof.
  intros B check i. unfold verify_proof_top.
  destruct (vp_found i), (vp_claim i), (vp_binding i); cbn [negb];
    try (split; [discriminate | intros (A & B' & C & _); discriminate]).
  destruct (vp_typed i) as [b|].
  - split; [intros H; repeat split; auto; exists b; auto
           | intros (_ & _ & _ & b' & Hb & H); inversion Hb; subst; exact H].
  - split; [discriminate | intros (_ & _ & _ & b' & Hb & _); discriminate].
Qed.

(* the whole proof list: exactly the FIRST proof of the requested type is verified; proofs
   after it (of any type) and proofs of other types before it play no role *)
Theorem top_list_ok_iff : forall B (check : B -> res unit) (ps : list (bool * vp_input B)),
  verify_proof_list check ps = Ok tt <->
  exists pre i post,
    ps = pre ++ (true, i) :: post /\ Forall (fun p => fst p = false) pre /\
    vp_claim i = true /\ vp_binding i = true /\
    exists b, vp_typed i = Some b /\ check b = Ok tt.
Proof.
  intros B check ps. unfold verify_proof_list. rewrite top_ok_iff.
  induction ps as [|[t i] ps IH].
  - simpl. split.
    + intros (A & _); discriminate.
    + intros (pre & i & post & E & _). destruct pre; discriminate.
  - unfold select_proof in *. simpl. destruct t; simpl.
    + split.
      * intros (_ & Hc & Hb & Ht). exists [], i, ps. repeat split; auto.
      * intros (pre & i' & post & E & Hpre & Hc & Hb & Ht). destruct pre as [|[t0 i0] pre].
        -- simpl in E. inversion E; subst. repeat split; auto.
        -- simpl in E. inversion E; subst. inversion Hpre as [|? ? Hf _]. simpl in Hf. discriminate.
    + rewrite IH. split.
      * intros (pre & i' & post & E & Hpre & R). exists ((false, i) :: pre), i', post.
        split; [simpl; rewrite E; reflexivity|]. split; [constructor; auto|exact R].
      * intros (pre & i' & post & E & Hpre & R). destruct pre as [|[t0 i0] pre].
        -- simpl in E. inversion E.
        -- simpl in E. inversion E; subst. inversion Hpre; subst. exists pre, i', post. auto.
Qed.

(* ================================================================== *)
(* the status entry only: no other member of credentialStatus decides    *)
(* ================================================================== *)
Section StatusEntryOnly.
Variable poseidon : list Z -> Z.
Variable q : Z.
Variable reg : registry.
Variable json_rt : Z -> option Z.

(* what the verifier extracts from the credentialStatus object is determined by its `type` and
   `revocationNonce` members alone *)
Theorem decode_cs_entry_only : forall f f' o o' cs cs',
  jget "type" o = jget "type" o' -> jget "revocationNonce" o = jget "revocationNonce" o' ->
  decode_cs f json_rt o = Some cs -> decode_cs f' json_rt o' = Some cs' -> cs = cs'.
Proof.
  intros f f' o o' cs cs' Ht Hn H H'.
  destruct f as [|f]; [discriminate|]. destruct f' as [|f']; [discriminate|].
  simpl in H, H'. rewrite <- Ht, <- Hn in H'.
  destruct (j_string (jget "id" o)); [|discriminate].
  destruct (j_string (jget "id" o')); [|discriminate].
  destruct (j_string (jget "type" o)) as [ty|]; [|discriminate].
  destruct (j_uint64 json_rt (jget "revocationNonce" o)) as [n|]; [|discriminate].
  assert (A : cs = mkcs ty n).
  { destruct (jget "statusIssuer" o) as [[| | |si|]|]; try discriminate; try (inversion H; reflexivity).
    destruct (decode_cs f json_rt si); [inversion H; reflexivity|discriminate]. }
  assert (B : cs' = mkcs ty n).
  { destruct (jget "statusIssuer" o') as [[| | |si|]|]; try discriminate; try (inversion H'; reflexivity).
    destruct (decode_cs f' json_rt si); [inversion H'; reflexivity|discriminate]. }
  congruence.
Qed.

(* ... hence so is the verdict of validateAuthClaimRevocation: two status objects that both
   decode and agree on `type` and `revocationNonce` get the same answer, whatever their id,
   statusIssuer or unknown members are *)
Theorem status_entry_only : forall f f' o o' cs cs' auth,
  jget "type" o = jget "type" o' -> jget "revocationNonce" o = jget "revocationNonce" o' ->
  decode_cs f json_rt o = Some cs -> decode_cs f' json_rt o' = Some cs' ->
  validate_auth_revocation poseidon q reg (status_of_json f json_rt o) auth =
  validate_auth_revocation poseidon q reg (status_of_json f' json_rt o') auth.
Proof.
  intros f f' o o' cs cs' auth Ht Hn H H'. unfold status_of_json. rewrite H, H'.
  rewrite (decode_cs_entry_only f f' o o' cs cs' Ht Hn H H'). reflexivity.
Qed.

(* a nested statusIssuer entry is never a fallback: adding a (decodable) one changes nothing *)
Theorem status_issuer_never_a_fallback : forall f o si auth,
  jget "statusIssuer" o = None -> decode_cs f json_rt si <> None ->
  validate_auth_revocation poseidon q reg
    (status_of_json (S f) json_rt (("statusIssuer"%string, JObj si) :: o)) auth =
  validate_auth_revocation poseidon q reg (status_of_json (S f) json_rt o) auth.
Proof.
  intros f o si auth Hno Hsi. unfold status_of_json. f_equal. f_equal. simpl. rewrite Hno.
  destruct (decode_cs f json_rt si); [reflexivity|contradiction].
Qed.

(* the seeded change C07-q as a function: when the entry's validation fails with anything but
   "revoked", validate the nested entry instead *)
Definition validate_auth_revocation_with_fallback (primary : cred_status) (nested : option cred_status)
    (auth : claim) : res unit :=
  if negb (cs_nonce primary =? claim_nonce auth) then Err ENonce else
  match validate_status poseidon q reg primary with
  | Ok _ => Ok tt
  | Err t =>
      if String.eqb t ERevoked then Err t else
      match nested with
      | Some n => _ <- validate_status poseidon q reg n ;; Ok tt
      | None => Err t
      end
  | Panic w => Panic w
  | Diverge => Diverge
  end.
End StatusEntryOnly.

(* getIden3StateInfo2023FromDIDDocument: the FIRST Iden3StateInfo2023 entry decides, whatever
   precedes or follows it *)
Theorem state_info_first : forall pre p post,
  Forall (fun v => v = VMOther) pre ->
  state_info (pre ++ VMStateInfo p :: post) = Some p.
Proof.
  induction pre as [|v pre IH]; intros p post H; simpl; [reflexivity|].
  inversion H; subst. simpl. apply IH. assumption.
Qed.

Theorem did_doc_first : forall (pre post : list vmethod) (p : option bool),
  Forall (fun v => v = VMOther) pre ->
  did_doc (pre ++ VMStateInfo p :: post) = DDoc (Some p).
Proof. intros pre post p H. unfold did_doc. rewrite (state_info_first pre p post H). reflexivity. Qed.

Theorem state_info_none : forall vms,
  Forall (fun v => v = VMOther) vms -> state_info vms = None.
Proof.
  induction vms as [|v vms IH]; intros H; simpl; [reflexivity|].
  inversion H; subst. apply IH. assumption.
Qed.

Section Total78.
Variable poseidon : list Z -> Z.
Variable q : Z.
Variables D SigT : Type.
Variable sig_verify : Z -> Z -> Z -> SigT -> bool.
Variable resolve_did : D -> Z -> did_answer.
Variable id_from_did : D -> Z -> option Z.
Variable genesis_check : Z -> Z -> option bool.
Variable reg : registry.

Definition no_crash {A} (r : res A) : Prop := (forall w, r <> Panic w) /\ r <> Diverge.

Lemma no_crash_bind : forall A B (r : res A) (k : A -> res B),
  no_crash r -> (forall a, no_crash (k a)) -> no_crash (bind r k).
Proof.
  intros A B r k [Hp Hd] Hk. destruct r as [a| | |]; simpl.
  - apply Hk.
  - split; [intros w H|intros H]; discriminate.
  - exfalso. eapply Hp; reflexivity.
  - exfalso. apply Hd; reflexivity.
Qed.

Lemma no_crash_ok : forall A (a : A), no_crash (Ok a).
Proof. intros; split; [intros w H|intros H]; discriminate. Qed.
Lemma no_crash_err : forall A t, no_crash (@Err A t).
Proof. intros; split; [intros w H|intros H]; discriminate. Qed.
Hint Resolve no_crash_ok no_crash_err : core.

Lemma no_crash_of_option : forall A (o : option A) t, no_crash (of_option o t).
Proof. intros A [a|] t; simpl; auto. Qed.

Lemma no_crash_pos_hash : forall l, no_crash (pos_hash poseidon q l).
Proof. intros l. unfold pos_hash. destruct (existsb _ l); auto. Qed.

Lemma no_crash_claim_hi_hv : forall c, no_crash (claim_hi_hv poseidon q c).
Proof.
  intros c. unfold claim_hi_hv. apply no_crash_bind; [apply no_crash_pos_hash|intros a].
  apply no_crash_bind; [apply no_crash_pos_hash|intros b]. auto.
Qed.

Lemma no_crash_hex_or_zero : forall h, no_crash (hex_or_zero h).
Proof. intros [| |z]; simpl; auto. Qed.

Lemma no_crash_validate_tree_state : forall i, no_crash (validate_tree_state poseidon q i).
Proof.
  intros i. unfold validate_tree_state. destruct (ts_state i) as [| |s]; auto;
  (apply no_crash_bind; [apply no_crash_hex_or_zero|intros a];
   apply no_crash_bind; [apply no_crash_hex_or_zero|intros b];
   apply no_crash_bind; [apply no_crash_hex_or_zero|intros c];
   apply no_crash_bind; [apply no_crash_pos_hash|intros d]; auto).
Qed.

Lemma mt_rfp_no_diverge : forall P k v,
  mt_root_from_proof (Status.hl poseidon) (Status.hm poseidon) q P k v <> Diverge.
Proof.
  intros P k v. unfold mt_root_from_proof.
  destruct (q <=? k); [discriminate|]. destruct (q <=? v); [discriminate|].
  assert (Htail : forall mid,
    (if Nat.ltb notempties_bits (List.length (sibs P)) then Panic "index out of range"%string
     else if existsb (fun s => q <=? s) (sibs P) then Err EHash
     else Ok (up (Status.hm poseidon) (hash_of_z k) 0 (sibs P) mid)) <> Diverge).
  { intros mid. destruct (Nat.ltb _ _); [discriminate|]. destruct (existsb _ _); discriminate. }
  destruct (ex P).
  - destruct ((q <=? hash_of_z k) || (q <=? hash_of_z v)); cbn [bind]; [discriminate|apply Htail].
  - destruct (aux P) as [[ak av]|]; cbn [bind]; [|apply Htail].
    destruct (hash_of_z k =? ak); cbn [bind]; [discriminate|].
    destruct ((q <=? ak) || (q <=? av)); cbn [bind]; [discriminate|apply Htail].
Qed.

Lemma no_crash_root_from_mtp : forall p k v, no_crash (root_from_mtp poseidon q p k v).
Proof.
  intros p k v. unfold root_from_mtp. destruct p as [rp|]; auto.
  destruct (r_aux rp) as [[[ak|] [av|]]|]; auto;
  match goal with |- context [mt_root_from_proof ?a ?b ?c ?d ?e ?f] =>
    pose proof (mt_rfp_no_diverge d e f) as Hnd;
    destruct (mt_root_from_proof a b c d e f); auto; contradiction end.
Qed.

Lemma no_crash_validate_issuer_state : forall s, no_crash (validate_issuer_state poseidon q s).
Proof.
  intros s. unfold validate_issuer_state. apply no_crash_bind; [apply no_crash_validate_tree_state|].
  intros [|]; auto.
Qed.

Lemma no_crash_check_state_published : forall did s,
  no_crash (check_state_published D resolve_did id_from_did genesis_check did s).
Proof.
  intros did s. unfold check_state_published. destruct did as [d|]; auto.
  destruct (st_value s) as [| |z]; auto.
  destruct (resolve_did d z) as [|[[[|]|]|]]; auto;
  destruct (id_from_did d z) as [id|]; auto; destruct (genesis_check id z) as [[|]|]; auto.
Qed.

Lemma no_crash_validate_status : forall cs, no_crash (validate_status poseidon q reg cs).
Proof.
  intros cs. unfold validate_status. destruct (lookup_resolver reg (cs_type cs)) as [r|]; auto.
  destruct (r cs) as [ans|]; auto.
  apply no_crash_bind; [apply no_crash_validate_tree_state|intros ok].
  destruct (negb ok); auto.
  apply no_crash_bind; [apply no_crash_hex_or_zero|intros rr].
  destruct (negb _); auto. destruct (r_ex _); auto.
Qed.

(* verifyIden3SparseMerkleTreeProof never panics and never loops, on any input *)
Theorem smt_total : forall b,
  no_crash (verify_smt poseidon q D resolve_did id_from_did genesis_check b).
Proof.
  intros b. unfold verify_smt.
  apply no_crash_bind; [apply no_crash_check_state_published|intros st].
  apply no_crash_bind; [apply no_crash_claim_hi_hv|intros hh].
  destruct (s_mtp b) as [p|]; auto. destruct (negb (r_ex p)); auto.
  apply no_crash_bind; [apply no_crash_root_from_mtp|intros r].
  destruct (st_ctr (s_state b)); auto. destruct (negb _); auto.
  apply no_crash_validate_issuer_state.
Qed.

(* verifyBJJSignatureProof never panics and never loops when issuerData.credentialStatus
   has a shape a JSON decoder can produce (which VerifyProof guarantees); the only panic of
   the model is a typed nil *CredentialStatus, reachable only by calling the unexported
   function directly *)
Theorem bjj_total : forall b,
  json_shaped (b_status b) = true ->
  no_crash (verify_bjj poseidon q D SigT sig_verify resolve_did id_from_did genesis_check reg b).
Proof.
  intros b Hj. unfold verify_bjj.
  apply no_crash_bind; [apply no_crash_of_option|intros auth].
  apply no_crash_bind; [apply no_crash_of_option|intros sig].
  apply no_crash_bind.
  { unfold verify_claim_signature. apply no_crash_bind; [apply no_crash_claim_hi_hv|intros hh].
    apply no_crash_bind; [apply no_crash_pos_hash|intros m]. destruct (sig_verify _ _ _ _); auto. }
  intros _. apply no_crash_bind.
  { unfold verify_auth_inclusion. destruct (b_mtp b) as [p|]; auto. destruct (negb (r_ex p)); auto.
    destruct (st_ctr (b_state b)); auto.
    apply no_crash_bind; [apply no_crash_claim_hi_hv|intros hh]. destruct (verify_mtp _ _ _ _ _ _); auto. }
  intros _. apply no_crash_bind; [apply no_crash_validate_issuer_state|intros _].
  apply no_crash_bind; [apply no_crash_check_state_published|intros _].
  unfold validate_auth_revocation.
  destruct (b_status b) as [p|c|[c|]|]; simpl in Hj; try discriminate; cbn [coerce_status].
  - destruct (String.eqb (cs_type c) ""); cbn [bind]; auto.
    apply no_crash_bind; [apply no_crash_of_option|intros a].
    destruct (negb _); auto.
    apply no_crash_bind; [apply no_crash_validate_status|intros x]. auto.
  - cbn [bind]. auto.
  - cbn [bind]. auto.
Qed.

End Total78.
