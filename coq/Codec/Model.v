(* Codec/Model.v — executable model of Go's encoding/json struct codec, generic over
   the field descriptors of Codec/Desc.v, and of the hand-written codecs of
   /repo/verifiable (proof.go, did_doc.go) and W3CCredential.Merklize (credential.go).
   No proofs here.

   encoding/json's reflection semantics are MODELLED (and validated per run against
   the real library on generated documents), not verified.  Modelled behaviour:
   * decode: members are matched to fields by name, exactly or ASCII-case-insensitively;
     members without a field are dropped; a missing member leaves the zero value; JSON
     null leaves the zero value / sets nil (json.RawMessage keeps it; Unmarshalers that
     are not behind a settable pointer are called with null); a wrong JSON type is an
     error; duplicated members (same name up to case) are modelled for string, *string,
     *int, *bool, uint64, *time.Time and interface{} fields (applied in document order);
     a duplicated member of any other kind (struct, slice, map: encoding/json merges
     into the existing value) is `Panic "unmodelled-duplicate"`.
   * encode: fields in declaration order, `omitempty` drops "", 0, nil and empty
     slices / maps (never a struct), nil slices / maps / pointers print as null,
     maps print with byte-wise sorted keys.
   Values of `interface{}` kind are kept as normalised JSON trees (Json.norm).
   External code is an oracle: float64 parsing / printing, merkletree.Proof's codec,
   core.Claim.FromHex and the BabyJubJub signature decompression. *)
From Coq Require Import ZArith List String Ascii Bool.
From GSP Require Import Base.Prelude Codec.Desc Codec.Json Codec.Time.
Import ListNotations.
Open Scope list_scope.
Open Scope string_scope.

Record oracles := {
  o_renum : jnum -> option jnum;   (* one number through float64 and back to a literal *)
  o_mtp   : json -> option json;   (* merkletree.Proof: UnmarshalJSON then MarshalJSON   *)
  o_claim : string -> bool;        (* validateHexCoreClaim succeeds                      *)
  o_sig   : string -> bool         (* validateCompSignature succeeds                     *)
}.

(* Go values, one constructor per kind *)
Inductive gval :=
| VStr (s : string)
| VOptStr (o : option string)
| VOptInt (o : option Z)
| VOptBool (o : option bool)
| VUint (z : Z)
| VOptTime (o : option gotime)
| VStruct (fs : list gval)
| VOptStruct (o : option (list gval))
| VStrs (o : option (list string))
| VStructs (o : option (list (list gval)))
| VAny (o : option json)                       (* None = nil interface             *)
| VMap (o : option members)                    (* sorted distinct keys             *)
| VAnys (o : option (list json))
| VRaw (o : option json)                       (* None = member absent (nil bytes) *)
| VProofs (o : option (list gval))             (* elements: VKnownProof / VCommonProof *)
| VKnownProof (goname : string) (fs : list gval)
| VCommonProof (m : members)
| VMtp (o : option json)                       (* *merkletree.Proof as its canonical JSON *)
| VAuths (o : option (list gval))              (* elements: VAuthDid / VAuthMethod *)
| VAuthDid (s : string)
| VAuthMethod (fs : list gval)
| VGist (o : option (json * string))           (* embedded merkletree.Proof, Type  *)
| VUnsupported.

Fixpoint map_res {A B} (f : A -> res B) (l : list A) : res (list B) :=
  match l with
  | [] => Ok []
  | a :: t => b <- f a ;; r <- map_res f t ;; Ok (b :: r)
  end.

Definition int64_ok (z : Z) : bool := (-(2 ^ 63) <=? z)%Z && (z <? 2 ^ 63)%Z.
Definition uint64_ok (z : Z) : bool := (0 <=? z)%Z && (z <? 2 ^ 64)%Z.

(* ---- zero values ---- *)
Fixpoint zero (k : kind) : gval :=
  match k with
  | KString => VStr ""
  | KPtrString => VOptStr None
  | KPtrInt => VOptInt None
  | KPtrBool => VOptBool None
  | KUint64 => VUint 0
  | KPtrTime => VOptTime None
  | KStruct fs =>
      VStruct ((fix go (fs : list fdesc) : list gval :=
                  match fs with [] => [] | FD _ _ _ k' :: t => zero k' :: go t end) fs)
  | KPtrStruct _ => VOptStruct None
  | KSliceString => VStrs None
  | KSliceStruct _ => VStructs None
  | KAny => VAny None
  | KMapAny => VMap None
  | KSliceAny => VAnys None
  | KRaw => VRaw None
  | KCustom CuCredentialProofs => VProofs None
  | KCustom CuPtrMtProof => VMtp None
  | KCustom CuSliceAuthentication => VAuths None
  | KCustom CuPtrGistInfoProof => VGist None
  | KRec _ => VUnsupported
  end.
Definition zeros (fs : list fdesc) : list gval := map (fun f => zero (fd_kind f)) fs.

(* string / *string: duplicated members applied in document order *)
Fixpoint dup_string (cur : string) (js : list json) : res string :=
  match js with
  | [] => Ok cur
  | JStr s :: t => dup_string s t
  | JNull :: t => dup_string cur t
  | _ :: _ => Err "type"
  end.
Fixpoint dup_optstring (cur : option string) (js : list json) : res (option string) :=
  match js with
  | [] => Ok cur
  | JStr s :: t => dup_optstring (Some s) t
  | JNull :: t => dup_optstring None t
  | _ :: _ => Err "type"
  end.

(* duplicated members: encoding/json decodes every occurrence, in document order, into
   the same field.  Modelled for the kinds where an occurrence simply replaces the
   value (null: keeps a string / number, clears a pointer / interface). *)
Definition seq_kind (k : kind) : bool :=
  match k with
  | KString | KPtrString | KPtrInt | KPtrBool | KUint64 | KPtrTime | KAny => true
  | _ => false
  end.
Definition keep_on_null (k : kind) : bool :=
  match k with KString | KUint64 => true | _ => false end.
Fixpoint dup_apply (dec : json -> res gval) (keep : bool) (cur : gval) (js : list json) : res gval :=
  match js with
  | [] => Ok cur
  | JNull :: t => if keep then dup_apply dec keep cur t else v <- dec JNull ;; dup_apply dec keep v t
  | j :: t => v <- dec j ;; dup_apply dec keep v t
  end.

Section Codec.
  Variable O : oracles.
  (* hand-written codecs, supplied by the layer above (see the end of this file) *)
  Variable cdec : custom -> json -> res gval.
  Variable cenc : custom -> gval -> res json.

  Definition dec_any (j : json) : res json := of_option (norm (o_renum O) j) "number".

  (* decode a present member value [j] into a fresh (zero) field of kind [k] *)
  Fixpoint decode_val (k : kind) (j : json) {struct k} : res gval :=
    let fields :=
      (fix go (fs : list fdesc) (m : members) {struct fs} : res (list gval) :=
         match fs with
         | [] => Ok []
         | FD _ key _ k' :: t =>
             v <- match jfind_all key m with
                  | [] => Ok (zero k')
                  | [j'] => decode_val k' j'
                  | js => if seq_kind k' then dup_apply (decode_val k') (keep_on_null k') (zero k') js
                          else Panic "unmodelled-duplicate"
                  end ;;
             r <- go t m ;; Ok (v :: r)
         end) in
    match k with
    | KString => match j with JStr s => Ok (VStr s) | JNull => Ok (VStr "") | _ => Err "type" end
    | KPtrString => match j with JStr s => Ok (VOptStr (Some s)) | JNull => Ok (VOptStr None) | _ => Err "type" end
    | KPtrInt => match j with
                 | JNum (NInt z) => if int64_ok z then Ok (VOptInt (Some z)) else Err "range"
                 | JNull => Ok (VOptInt None) | _ => Err "type" end
    | KPtrBool => match j with JBool b => Ok (VOptBool (Some b)) | JNull => Ok (VOptBool None) | _ => Err "type" end
    | KUint64 => match j with
                 | JNum (NInt z) => if uint64_ok z then Ok (VUint z) else Err "range"
                 | JNull => Ok (VUint 0) | _ => Err "type" end
    | KPtrTime => match j with
                  | JNull => Ok (VOptTime None)
                  | JStr s => match parse_time s with Some t => Ok (VOptTime (Some t)) | None => Err "time" end
                  | _ => Err "time" end
    | KStruct fs => match j with
                    | JObj m => r <- fields fs m ;; Ok (VStruct r)
                    | JNull => Ok (zero k)
                    | _ => Err "type" end
    | KPtrStruct fs => match j with
                       | JObj m => r <- fields fs m ;; Ok (VOptStruct (Some r))
                       | JNull => Ok (VOptStruct None)
                       | _ => Err "type" end
    | KSliceString => match j with
                      | JArr l => r <- map_res (fun e => match e with JStr s => Ok s | JNull => Ok "" | _ => Err "type" end) l ;;
                                  Ok (VStrs (Some r))
                      | JNull => Ok (VStrs None)
                      | _ => Err "type" end
    | KSliceStruct fs => match j with
                         | JArr l => r <- map_res (fun e => match e with
                                                            | JObj m => fields fs m
                                                            | JNull => Ok (zeros fs)
                                                            | _ => Err "type" end) l ;;
                                     Ok (VStructs (Some r))
                         | JNull => Ok (VStructs None)
                         | _ => Err "type" end
    | KAny => match j with JNull => Ok (VAny None) | _ => a <- dec_any j ;; Ok (VAny (Some a)) end
    | KMapAny => match j with
                 | JNull => Ok (VMap None)
                 | JObj _ => a <- dec_any j ;; match a with JObj m => Ok (VMap (Some m)) | _ => Panic "norm" end
                 | _ => Err "type" end
    | KSliceAny => match j with
                   | JNull => Ok (VAnys None)
                   | JArr _ => a <- dec_any j ;; match a with JArr l => Ok (VAnys (Some l)) | _ => Panic "norm" end
                   | _ => Err "type" end
    | KRaw => Ok (VRaw (Some j))
    | KCustom c => cdec c j
    | KRec _ => Err "unsupported-recursive-type"
    end.

  Definition decode_fields (fs : list fdesc) (m : members) : res (list gval) :=
    match decode_val (KPtrStruct fs) (JObj m) with
    | Ok (VOptStruct (Some r)) => Ok r
    | Ok _ => Panic "decode_fields"
    | Err t => Err t | Panic w => Panic w | Diverge => Diverge
    end.

  (* json.Unmarshal(bytes, &structValue) *)
  Definition decode_struct (fs : list fdesc) (j : json) : res (list gval) :=
    match j with
    | JObj m => decode_fields fs m
    | JNull => Ok (zeros fs)
    | _ => Err "type"
    end.

  (* ---- encode ---- *)
  Definition is_empty (v : gval) : bool :=
    match v with
    | VStr s => String.eqb s ""
    | VOptStr None | VOptInt None | VOptBool None | VOptTime None | VOptStruct None => true
    | VUint z => Z.eqb z 0
    | VStrs None | VStrs (Some []) => true
    | VStructs None | VStructs (Some []) => true
    | VAny None => true
    | VMap None | VMap (Some []) => true
    | VAnys None | VAnys (Some []) => true
    | VProofs None | VProofs (Some []) => true
    | VMtp None => true
    | VAuths None | VAuths (Some []) => true
    | VGist None => true
    | _ => false
    end.

  Fixpoint encode_val (k : kind) (v : gval) {struct k} : res json :=
    let fields :=
      (fix go (fs : list fdesc) (vs : list gval) {struct fs} : res members :=
         match fs, vs with
         | [], [] => Ok []
         | FD _ key omit k' :: t, v' :: vt =>
             r <- go t vt ;;
             if omit && is_empty v' then Ok r
             else e <- encode_val k' v' ;; Ok ((key, e) :: r)
         | _, _ => Panic "ill-typed"
         end) in
    match k, v with
    | KString, VStr s => Ok (JStr s)
    | KPtrString, VOptStr (Some s) => Ok (JStr s)
    | KPtrString, VOptStr None => Ok JNull
    | KPtrInt, VOptInt (Some z) => Ok (JNum (NInt z))
    | KPtrInt, VOptInt None => Ok JNull
    | KPtrBool, VOptBool (Some b) => Ok (JBool b)
    | KPtrBool, VOptBool None => Ok JNull
    | KUint64, VUint z => Ok (JNum (NInt z))
    | KPtrTime, VOptTime (Some t) => match format_time t with Some s => Ok (JStr s) | None => Err "time" end
    | KPtrTime, VOptTime None => Ok JNull
    | KStruct fs, VStruct vs => m <- fields fs vs ;; Ok (JObj m)
    | KPtrStruct fs, VOptStruct (Some vs) => m <- fields fs vs ;; Ok (JObj m)
    | KPtrStruct _, VOptStruct None => Ok JNull
    | KSliceString, VStrs (Some l) => Ok (JArr (map JStr l))
    | KSliceString, VStrs None => Ok JNull
    | KSliceStruct fs, VStructs (Some l) => r <- map_res (fun vs => m <- fields fs vs ;; Ok (JObj m)) l ;; Ok (JArr r)
    | KSliceStruct _, VStructs None => Ok JNull
    | KAny, VAny (Some a) => Ok a
    | KAny, VAny None => Ok JNull
    | KMapAny, VMap (Some m) => Ok (JObj m)
    | KMapAny, VMap None => Ok JNull
    | KSliceAny, VAnys (Some l) => Ok (JArr l)
    | KSliceAny, VAnys None => Ok JNull
    | KRaw, VRaw (Some j) => Ok j
    | KRaw, VRaw None => Ok JNull
    | KCustom c, _ => cenc c v
    | _, _ => Panic "ill-typed"
    end.

  (* json.Marshal(structValue) *)
  Definition encode_struct (fs : list fdesc) (vs : list gval) : res json :=
    encode_val (KStruct fs) (VStruct vs).
End Codec.

(* ---- hand-written codecs, layer 0: no nested hand-written codec below them ---- *)
Section Custom0.
  Variable O : oracles.

  (* *merkletree.Proof (external library) behind verifiable.decodeMTP (mtp_json.go): null /
     absent -> nil; more than 240 siblings, a null sibling or anything the library
     rejects -> error; otherwise the library decoder.  The oracle [o_mtp] is the
     outcome of decodeMTP on the value followed by json.Marshal of the proof (None =
     error).  IssuerData.UnmarshalJSON decodes every member by reflection into the
     struct and only "mtp" through decodeMTP (Generated.guarded_structs): that is the
     generic struct decode with this codec for the mtp field. *)
  Definition dec_mtp (j : json) : res gval :=
    match j with
    | JNull => Ok (VMtp None)
    | _ => match o_mtp O j with Some p => Ok (VMtp (Some p)) | None => Err "mtp" end
    end.

  (* did_doc.go GistInfoProof.UnmarshalJSON: the whole object is decoded as a
     merkletree.Proof, then again as struct{Type ProofType `json:"type"`} *)
  Definition dec_gist (j : json) : res gval :=
    match j with
    | JNull => Ok (VGist None)                         (* pointer set to nil, codec not called *)
    | _ =>
      match o_mtp O j with
      | None => Err "mtp"
      | Some p =>
        match j with
        | JObj m => match jfind_all "type" m with
                    | [] => Ok (VGist (Some (p, "")))
                    | js => t <- dup_string "" js ;; Ok (VGist (Some (p, t)))
                    end
        | _ => Err "type"
        end
      end
    end.

  (* GistInfoProof.MarshalJSON: marshal the proof, decode into a map, set "type", marshal *)
  Definition enc_gist (v : gval) : res json :=
    match v with
    | VGist None => Ok JNull
    | VGist (Some (JObj pm, t)) => Ok (JObj (mins "type" (JStr t) (msort pm)))
    | VGist (Some _) => Err "gist-proof-not-an-object"
    | _ => Panic "ill-typed"
    end.

  Definition cdec0 (c : custom) (j : json) : res gval :=
    match c with
    | CuPtrMtProof => dec_mtp j
    | CuPtrGistInfoProof => dec_gist j
    | _ => Panic "nested-custom"
    end.
  Definition cenc0 (c : custom) (v : gval) : res json :=
    match c, v with
    | CuPtrMtProof, VMtp (Some p) => Ok p
    | CuPtrMtProof, VMtp None => Ok JNull
    | CuPtrGistInfoProof, _ => enc_gist v
    | _, _ => Panic "ill-typed"
    end.

  Definition decode0 := decode_val O cdec0.
  Definition encode0 := encode_val cenc0.
End Custom0.

(* descriptors of the proof structs: wire struct of the decoder, full struct, the
   constant the decoded type is compared with (all three from Generated/Structs.v) *)
Record pdesc := { pd_wire : list fdesc; pd_full : list fdesc; pd_const : string }.
Record penv := {
  pe_dispatch : list (string * string);   (* "type" value -> Go struct; "" = default *)
  pe_proofs : list (string * pdesc);      (* Go struct -> descriptors *)
  pe_cvm : list fdesc                     (* CommonVerificationMethod (embedded in Authentication) *)
}.

Fixpoint lookup_str {V} (k : string) (l : list (string * V)) : option V :=
  match l with [] => None | (a, v) :: t => if String.eqb a k then Some v else lookup_str k t end.

Section Custom1.
  Variable O : oracles.
  Variable E : penv.

  Fixpoint nth_val (n : nat) (vs : list gval) : gval :=
    match n, vs with 0%nat, v :: _ => v | S k, _ :: t => nth_val k t | _, [] => VUnsupported end.
  Fixpoint field_index (key : string) (fs : list fdesc) : option nat :=
    match fs with
    | [] => None
    | f :: t => if String.eqb (fd_key f) key then Some 0%nat
                else match field_index key t with Some n => Some (S n) | None => None end
    end.
  Definition wire_get (fs : list fdesc) (vs : list gval) (key : string) : gval :=
    match field_index key fs with Some n => nth_val n vs | None => VUnsupported end.

  (* proof.go: (p *BJJSignatureProof2021 / *Iden3SparseMerkleProof / *Iden3SparseMerkleTreeProof)
     UnmarshalJSON: decode the wire struct, compare the type, decode issuerData from the
     raw message, validate coreClaim (and signature), copy mtp *)
  Definition dec_known (goname : string) (pd : pdesc) (j : json) : res gval :=
    w <- decode_struct O (cdec0 O) (pd_wire pd) j ;;
    let get := wire_get (pd_wire pd) w in
    match get "type" with
    | VStr ty =>
      if negb (String.eqb ty (pd_const pd)) then Err "proof-type" else
      match get "issuerData" with
      | VRaw None => Err "issuer-data-missing"            (* json.Unmarshal(nil, ..) *)
      | VRaw (Some r) =>
        match field_index "issuerData" (pd_full pd) with
        | Some n =>
          match fd_kind (nth n (pd_full pd) (FD "" "" false KRaw)) with
          | KStruct ifs =>
            iss <- decode_struct O (cdec0 O) ifs r ;;
            match get "coreClaim" with
            | VStr cc =>
              if negb (o_claim O cc) then Err "core-claim" else
              (* the remaining members of the full struct, in its field order *)
              rest <- map_res (fun f =>
                        let key := fd_key f in
                        if String.eqb key "type" then Ok (VStr ty)
                        else if String.eqb key "issuerData" then Ok (VStruct iss)
                        else if String.eqb key "coreClaim" then Ok (VStr cc)
                        else if String.eqb key "signature" then
                          match get "signature" with
                          | VStr sg => if o_sig O sg then Ok (VStr sg) else Err "signature"
                          | _ => Panic "wire-signature"
                          end
                        else if String.eqb key "mtp" then
                          match get "mtp" with
                          | VRaw None => Ok (VMtp None)          (* decodeMTP(nil) *)
                          | VRaw (Some rm) => dec_mtp O rm       (* decodeMTP(obj.MTP) *)
                          | VMtp p => Ok (VMtp p)                (* wire struct with a *mt.Proof field *)
                          | _ => Panic "wire-mtp"
                          end
                        else Panic "unknown-proof-field") (pd_full pd) ;;
              Ok (VKnownProof goname rest)
            | _ => Panic "wire-coreClaim"
            end
          | _ => Panic "issuerData-kind"
          end
        | None => Panic "issuerData-field"
        end
      | _ => Panic "wire-issuerData"
      end
    | _ => Panic "wire-type"
    end.

  (* proof.go (p *CommonProof) UnmarshalJSON: any object with a string "type" *)
  Definition dec_common (j : json) : res gval :=
    match j with
    | JObj _ =>
      a <- dec_any O j ;;
      match a with
      | JObj m => match jget "type" m with Some (JStr _) => Ok (VCommonProof m) | _ => Err "proof-type" end
      | _ => Panic "norm"
      end
    | _ => Panic "common-proof-not-object"
    end.

  (* proof.go extractProof: the proof must be an object (after json.Unmarshal into
     interface{}) with a string "type"; dispatch; re-marshal and decode *)
  Definition extract_proof (j : json) : res gval :=
    match j with
    | JObj m0 =>
      a <- dec_any O j ;;
      match a with
      | JObj m =>
        match jget "type" m with
        | Some (JStr ty) =>
          let target := match lookup_str ty (pe_dispatch E) with
                        | Some g => Some g
                        | None => lookup_str "" (pe_dispatch E) end in
          match target with
          | Some g =>
            match lookup_str g (pe_proofs E) with
            | Some pd => dec_known g pd a
            | None => if String.eqb g "CommonProof" then dec_common a else Panic "dispatch-target"
            end
          | None => Panic "dispatch-default"
          end
        | _ => Err "proof-type-missing"
        end
      | _ => Panic "norm"
      end
    | _ => Err "proof-not-object"
    end.

  (* proof.go (cps *CredentialProofs) UnmarshalJSON *)
  Definition dec_proofs (j : json) : res gval :=
    match j with
    | JArr l => r <- map_res extract_proof l ;;
                match r with [] => Ok (VProofs None) | _ => Ok (VProofs (Some r)) end
    | JNull => Err "proof-null"                (* nil matches neither case of the type switch *)
    | _ => p <- extract_proof j ;; Ok (VProofs (Some [p]))
    end.

  Definition enc_proof (v : gval) : res json :=
    match v with
    | VKnownProof g fs =>
      match lookup_str g (pe_proofs E) with
      | Some pd => encode_struct (cenc0) (pd_full pd) fs
      | None => Panic "proof-struct"
      end
    | VCommonProof m => Ok (JObj m)
    | _ => Panic "ill-typed"
    end.

  (* did_doc.go (a *Authentication) UnmarshalJSON / MarshalJSON *)
  Definition dec_auth (j : json) : res gval :=
    match j with
    | JObj _ => r <- decode_struct O (cdec0 O) (pe_cvm E) j ;; Ok (VAuthMethod r)
    | JStr s => if String.eqb s "" then Ok (VAuthMethod (zeros (pe_cvm E)))   (* did == "": same Go value as the zero method *)
                else Ok (VAuthDid s)
    | _ => Err "authentication"
    end.
  Definition enc_auth (v : gval) : res json :=
    match v with
    | VAuthDid s => Ok (JStr s)
    | VAuthMethod fs => encode_struct cenc0 (pe_cvm E) fs
    | _ => Panic "ill-typed"
    end.

  Definition cdec1 (c : custom) (j : json) : res gval :=
    match c with
    | CuCredentialProofs => dec_proofs j
    | CuSliceAuthentication =>
        match j with
        | JNull => Ok (VAuths None)
        | JArr l => r <- map_res dec_auth l ;; Ok (VAuths (Some r))
        | _ => Err "type"
        end
    | _ => cdec0 O c j
    end.
  Definition cenc1 (c : custom) (v : gval) : res json :=
    match c, v with
    | CuCredentialProofs, VProofs None => Ok JNull
    | CuCredentialProofs, VProofs (Some l) => r <- map_res enc_proof l ;; Ok (JArr r)
    | CuSliceAuthentication, VAuths None => Ok JNull
    | CuSliceAuthentication, VAuths (Some l) => r <- map_res enc_auth l ;; Ok (JArr r)
    | _, _ => cenc0 c v
    end.

  (* json.Unmarshal(doc, &W3CCredential{}) / &DIDDocument{} and json.Marshal *)
  Definition decode_top (fs : list fdesc) (j : json) : res (list gval) := decode_struct O cdec1 fs j.
  Definition encode_top (fs : list fdesc) (vs : list gval) : res json := encode_struct cenc1 fs vs.

  (* credential.go (vc *W3CCredential) Merklize: json.Marshal(vc); json.Unmarshal into
     map[string]interface{}; delete(...); json.Marshal(map) = the document handed to
     merklize.MerklizeJSONLD *)
  (* json.Unmarshal(bytes, &map[string]interface{}): the members with normalised
     values; the map keeps the last of duplicated members and json.Marshal prints it
     with sorted keys (msort) *)
  Definition as_map (j : json) : res members :=
    match j with
    | JObj m => of_option (norm_members (o_renum O) m) "number"
    | _ => Err "not-an-object"
    end.

  Definition merklize_doc (deleted : list string) (fs : list fdesc) (vs : list gval) : res json :=
    b <- encode_top fs vs ;;
    m <- as_map b ;;
    Ok (JObj (msort (jremove_all deleted m))).

  (* the reference: the original document with the same members removed the same way
     (generic map, delete, marshal), which is also how MerklizeJSONLD reads it *)
  Definition reference_doc (deleted : list string) (j : json) : res json :=
    m <- as_map j ;;
    Ok (JObj (msort (jremove_all deleted m))).
End Custom1.
