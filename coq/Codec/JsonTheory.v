(* Codec/JsonTheory.v — lemmas about JSON trees: lookups, the sorted-map normal form
   (msort), idempotence of Json.norm. *)
From Coq Require Import ZArith List String Ascii Bool Lia OrderedTypeEx.
From GSP Require Import Base.Prelude Codec.Json.
Import ListNotations.
Open Scope list_scope.

(* ---- induction principle for the nested type ---- *)
Section JsonInd.
  Variable P : json -> Prop.
  Hypothesis Hnull : P JNull.
  Hypothesis Hbool : forall b, P (JBool b).
  Hypothesis Hnum : forall n, P (JNum n).
  Hypothesis Hstr : forall s, P (JStr s).
  Hypothesis Harr : forall l, Forall P l -> P (JArr l).
  Hypothesis Hobj : forall m, Forall (fun kv => P (snd kv)) m -> P (JObj m).
  Fixpoint json_ind' (j : json) : P j :=
    match j with
    | JNull => Hnull
    | JBool b => Hbool b
    | JNum n => Hnum n
    | JStr s => Hstr s
    | JArr l => Harr l ((fix go (l : list json) : Forall P l :=
                           match l with
                           | [] => Forall_nil _
                           | a :: t => Forall_cons a (json_ind' a) (go t)
                           end) l)
    | JObj m => Hobj m ((fix go (m : members) : Forall (fun kv => P (snd kv)) m :=
                           match m with
                           | [] => Forall_nil _
                           | (k, a) :: t => Forall_cons (k, a) (json_ind' a) (go t)
                           end) m)
    end.
End JsonInd.

(* ---- strings ---- *)
Lemma compare_refl s : String.compare s s = Eq.
Proof.
  pose proof (String.compare_antisym s s) as H.
  destruct (String.compare s s) eqn:E; [reflexivity|simpl in H; discriminate H|simpl in H; discriminate H].
Qed.

Lemma compare_eq s1 s2 : String.compare s1 s2 = Eq <-> s1 = s2.
Proof. split; [apply String.compare_eq_iff | intros ->; apply compare_refl]. Qed.

Lemma compare_lt_gt a b : String.compare a b = Lt <-> String.compare b a = Gt.
Proof.
  rewrite (String.compare_antisym b a). destruct (String.compare a b); simpl; split; congruence.
Qed.

Lemma compare_lt_trans a b c :
  String.compare a b = Lt -> String.compare b c = Lt -> String.compare a c = Lt.
Proof.
  intros H1 H2. apply String_as_OT.cmp_lt. apply String_as_OT.cmp_lt in H1, H2.
  eapply String_as_OT.lt_trans; eauto.
Qed.

Lemma compare_lt_neq a b : String.compare a b = Lt -> a <> b.
Proof. intros H ->. rewrite compare_refl in H. discriminate. Qed.

Lemma eqb_compare a b : String.eqb a b = true <-> String.compare a b = Eq.
Proof. rewrite String.eqb_eq. symmetry. apply compare_eq. Qed.

(* ---- lookups ---- *)
Lemma jget_mins k a v acc :
  jget k (mins a v acc) = if String.eqb a k then Some v else jget k acc.
Proof.
  induction acc as [|[a' w] t IH]; simpl.
  - reflexivity.
  - destruct (String.compare a a') eqn:C; simpl.
    + apply compare_eq in C. subst a'. destruct (String.eqb a k); reflexivity.
    + reflexivity.
    + rewrite IH. destruct (String.eqb a' k) eqn:E1; [|reflexivity].
      apply String.eqb_eq in E1. subst a'.
      destruct (String.eqb a k) eqn:E2; [|reflexivity].
      apply String.eqb_eq in E2. subst a. rewrite compare_refl in C. discriminate.
Qed.

(* last member with this key: what a Go map holds after decoding the object *)
Definition jupd (k : string) (acc : option json) (kv : string * json) : option json :=
  if String.eqb (fst kv) k then Some (snd kv) else acc.
Definition jget_last (k : string) (m : members) : option json := fold_left (jupd k) m None.

Lemma jget_fold_mins k l : forall acc,
  jget k (fold_left (fun acc kv => mins (fst kv) (snd kv) acc) l acc) = fold_left (jupd k) l (jget k acc).
Proof.
  induction l as [|[a v] t IH]; intros acc; simpl; [reflexivity|].
  rewrite IH, jget_mins. reflexivity.
Qed.

Lemma jget_msort k m : jget k (msort m) = jget_last k m.
Proof. unfold msort, jget_last. rewrite jget_fold_mins. reflexivity. Qed.

Lemma fold_jupd_notin k l : forall acc, ~ In k (keys l) -> fold_left (jupd k) l acc = acc.
Proof.
  induction l as [|[a v] t IH]; intros acc Hn; simpl; [reflexivity|].
  simpl in Hn. rewrite IH by tauto. unfold jupd; simpl.
  destruct (String.eqb a k) eqn:E; [apply String.eqb_eq in E; tauto|reflexivity].
Qed.

Lemma jget_notin k m : ~ In k (keys m) -> jget k m = None.
Proof.
  induction m as [|[a v] t IH]; simpl; intros Hn; [reflexivity|].
  destruct (String.eqb a k) eqn:E; [apply String.eqb_eq in E; tauto|apply IH; tauto].
Qed.

Lemma jget_in k m : In k (keys m) -> exists v, jget k m = Some v.
Proof.
  induction m as [|[a v] t IH]; simpl; intros Hin; [tauto|].
  destruct (String.eqb a k) eqn:E; [eauto|].
  apply String.eqb_neq in E. destruct Hin as [->|Hin]; [tauto|auto].
Qed.

Lemma jget_some_in k m v : jget k m = Some v -> In (k, v) m.
Proof.
  induction m as [|[a w] t IH]; simpl; intros H; [discriminate|].
  destruct (String.eqb a k) eqn:E.
  - apply String.eqb_eq in E. inversion H. subst. auto.
  - auto.
Qed.

(* with distinct keys the last member is the first one *)
Lemma jget_last_nodup k m : NoDup (keys m) -> jget_last k m = jget k m.
Proof.
  unfold jget_last. induction m as [|[a v] t IH]; simpl; intros Hnd; [reflexivity|].
  inversion Hnd as [|? ? Hn Hnd']; subst.
  unfold jupd at 2; simpl. destruct (String.eqb a k) eqn:E.
  - apply String.eqb_eq in E. subst a. apply fold_jupd_notin. exact Hn.
  - apply IH. exact Hnd'.
Qed.

(* ---- strictly sorted member lists ---- *)
Inductive ssorted : members -> Prop :=
| ss_nil : ssorted []
| ss_one k v : ssorted [(k, v)]
| ss_cons k v k' v' t : String.compare k k' = Lt -> ssorted ((k', v') :: t) -> ssorted ((k, v) :: (k', v') :: t).

Definition all_gt (k : string) (m : members) : Prop := forall a, In a (keys m) -> String.compare k a = Lt.

Lemma ssorted_tail kv t : ssorted (kv :: t) -> ssorted t.
Proof. intros H. inversion H; subst; [constructor|assumption]. Qed.

Lemma ssorted_all_gt k v t : ssorted ((k, v) :: t) -> all_gt k t.
Proof.
  revert k v. induction t as [|[k' v'] t IH]; intros k v H a Hin; simpl in Hin; [tauto|].
  inversion H; subst. destruct Hin as [<-|Hin]; [assumption|].
  eapply compare_lt_trans; [eassumption|]. eapply IH; eauto.
Qed.

Lemma ssorted_cons_all k v t : ssorted t -> all_gt k t -> ssorted ((k, v) :: t).
Proof.
  intros Hs Hg. destruct t as [|[k' v'] t]; [constructor|].
  constructor; [apply Hg; simpl; auto|assumption].
Qed.

Lemma keys_mins a v acc k : In k (keys (mins a v acc)) -> k = a \/ In k (keys acc).
Proof.
  induction acc as [|[a' w] t IH]; simpl; intros H.
  - destruct H as [H|H]; [left; congruence|tauto].
  - destruct (String.compare a a') eqn:C; simpl in H.
    + apply compare_eq in C. subst. destruct H as [H|H]; [left; congruence|tauto].
    + destruct H as [H|H]; [left; congruence|tauto].
    + destruct H as [H|H]; [auto|]. apply IH in H. tauto.
Qed.

Lemma mins_sorted a v acc : ssorted acc -> ssorted (mins a v acc).
Proof.
  induction acc as [|[a' w] t IH]; simpl; intros Hs.
  - constructor.
  - destruct (String.compare a a') eqn:C.
    + apply compare_eq in C. subst a'.
      apply ssorted_cons_all; [eapply ssorted_tail; eauto|eapply ssorted_all_gt; eauto].
    + constructor; assumption.
    + apply ssorted_cons_all.
      * apply IH. eapply ssorted_tail; eauto.
      * intros k Hin. apply keys_mins in Hin. destruct Hin as [->|Hin].
        -- apply compare_lt_gt. assumption.
        -- eapply ssorted_all_gt; eauto.
Qed.

Lemma fold_mins_sorted l : forall acc, ssorted acc ->
  ssorted (fold_left (fun acc kv => mins (fst kv) (snd kv) acc) l acc).
Proof. induction l as [|[a v] t IH]; intros acc Hs; simpl; [assumption|]. apply IH, mins_sorted, Hs. Qed.

Lemma msort_sorted m : ssorted (msort m).
Proof. apply fold_mins_sorted. constructor. Qed.

Lemma ssorted_nodup m : ssorted m -> NoDup (keys m).
Proof.
  induction m as [|[k v] t IH]; intros Hs; simpl; constructor.
  - intros Hin. pose proof (ssorted_all_gt _ _ _ Hs k Hin) as C. rewrite compare_refl in C. discriminate.
  - apply IH. eapply ssorted_tail; eauto.
Qed.

(* two strictly sorted lists with the same lookups are equal *)
Lemma ssorted_ext m1 : forall m2, ssorted m1 -> ssorted m2 ->
  (forall k, jget k m1 = jget k m2) -> m1 = m2.
Proof.
  induction m1 as [|[k1 v1] t1 IH]; intros m2 H1 H2 Hext.
  - destruct m2 as [|[k2 v2] t2]; [reflexivity|].
    specialize (Hext k2). simpl in Hext. rewrite String.eqb_refl in Hext. discriminate.
  - destruct m2 as [|[k2 v2] t2].
    + specialize (Hext k1). simpl in Hext. rewrite String.eqb_refl in Hext. discriminate.
    + assert (k1 = k2) as ->.
      { destruct (String.compare k1 k2) eqn:C.
        - apply compare_eq in C. assumption.
        - (* k1 < k2: k1 is not in m2 *)
          exfalso. pose proof (Hext k1) as E. simpl in E. rewrite String.eqb_refl in E.
          destruct (String.eqb k2 k1) eqn:E2; [apply String.eqb_eq in E2; subst; rewrite compare_refl in C; discriminate|].
          symmetry in E. apply jget_some_in in E.
          pose proof (ssorted_all_gt _ _ _ H2 k1 (in_map fst _ _ E)) as C2. simpl in C2.
          pose proof (compare_lt_trans _ _ _ C C2) as C3. rewrite compare_refl in C3. discriminate.
        - exfalso. apply compare_lt_gt in C. pose proof (Hext k2) as E. simpl in E. rewrite String.eqb_refl in E.
          destruct (String.eqb k1 k2) eqn:E2; [apply String.eqb_eq in E2; subst; rewrite compare_refl in C; discriminate|].
          apply jget_some_in in E.
          pose proof (ssorted_all_gt _ _ _ H1 k2 (in_map fst _ _ E)) as C2. simpl in C2.
          pose proof (compare_lt_trans _ _ _ C C2) as C3. rewrite compare_refl in C3. discriminate. }
      pose proof (Hext k2) as E. simpl in E. rewrite String.eqb_refl in E. inversion E. subst v2.
      f_equal. apply IH; [eapply ssorted_tail; eauto|eapply ssorted_tail; eauto|].
      intros k. specialize (Hext k). simpl in Hext.
      destruct (String.eqb k2 k) eqn:Ek; [|assumption].
      apply String.eqb_eq in Ek. subst k.
      rewrite !jget_notin; [reflexivity| |].
      * intros Hin. pose proof (ssorted_all_gt _ _ _ H2 _ Hin) as C. rewrite compare_refl in C. discriminate.
      * intros Hin. pose proof (ssorted_all_gt _ _ _ H1 _ Hin) as C. rewrite compare_refl in C. discriminate.
Qed.

Lemma msort_ext m1 m2 : (forall k, jget_last k m1 = jget_last k m2) -> msort m1 = msort m2.
Proof.
  intros H. apply ssorted_ext; try apply msort_sorted.
  intros k. rewrite !jget_msort. apply H.
Qed.

Lemma msort_id m : ssorted m -> msort m = m.
Proof.
  intros Hs. apply ssorted_ext; [apply msort_sorted|assumption|].
  intros k. rewrite jget_msort. apply jget_last_nodup, ssorted_nodup, Hs.
Qed.

(* ---- norm ---- *)
Section NormTheory.
  Variable renum : jnum -> option jnum.

  Lemma norm_obj m :
    norm renum (JObj m) = match norm_members renum m with Some m' => Some (JObj (msort m')) | None => None end.
  Proof.
    simpl. match goal with |- match ?X with _ => _ end = match ?Y with _ => _ end => assert (X = Y) as -> end; [|reflexivity].
    induction m as [|[k a] t IH]; simpl; [reflexivity|]. rewrite IH. reflexivity.
  Qed.

  Lemma norm_arr l :
    norm renum (JArr l) = match norm_list renum l with Some l' => Some (JArr l') | None => None end.
  Proof.
    simpl. match goal with |- match ?X with _ => _ end = match ?Y with _ => _ end => assert (X = Y) as -> end; [|reflexivity].
    unfold norm_list. induction l as [|a t IH]; simpl; [reflexivity|]. rewrite IH. reflexivity.
  Qed.

  Hypothesis renum_idem : forall n n', renum n = Some n' -> renum n' = Some n'.

  (* normal forms: what Go re-encodes from an interface{} value *)
  Inductive normal : json -> Prop :=
  | n_null : normal JNull
  | n_bool b : normal (JBool b)
  | n_num n : renum n = Some n -> normal (JNum n)
  | n_str s : normal (JStr s)
  | n_arr l : Forall normal l -> normal (JArr l)
  | n_obj m : ssorted m -> Forall (fun kv => normal (snd kv)) m -> normal (JObj m).

  Lemma Forall_snd_mins (P : json -> Prop) a v acc :
    P v -> Forall (fun kv => P (snd kv)) acc -> Forall (fun kv => P (snd kv)) (mins a v acc).
  Proof.
    intros Hv. induction acc as [|[a' w] t IH]; simpl; intros H.
    - constructor; auto.
    - inversion H; subst. destruct (String.compare a a'); constructor; simpl; auto.
  Qed.

  Lemma Forall_snd_msort (P : json -> Prop) m :
    Forall (fun kv => P (snd kv)) m -> Forall (fun kv => P (snd kv)) (msort m).
  Proof.
    unfold msort. assert (G : forall l acc, Forall (fun kv => P (snd kv)) l -> Forall (fun kv => P (snd kv)) acc ->
      Forall (fun kv => P (snd kv)) (fold_left (fun acc kv => mins (fst kv) (snd kv) acc) l acc)).
    { induction l as [|[a v] t IH]; intros acc Hl Ha; simpl; [assumption|].
      inversion Hl; subst. apply IH; [assumption|]. apply Forall_snd_mins; assumption. }
    intros H. apply G; [assumption|constructor].
  Qed.

  Lemma norm_normal j : forall a, norm renum j = Some a -> normal a.
  Proof.
    induction j as [| b | n | s | l IH | m IH] using json_ind'; intros a H.
    - inversion H. constructor.
    - inversion H. constructor.
    - simpl in H. destruct (renum n) eqn:E; inversion H. constructor. eapply renum_idem; eauto.
    - inversion H. constructor.
    - rewrite norm_arr in H. destruct (norm_list renum l) as [l'|] eqn:E; inversion H. constructor.
      clear H H1. revert l' E. unfold norm_list. induction IH as [|x t Hx Ht IHt]; intros l' E; simpl in E.
      + inversion E. constructor.
      + destruct (norm renum x) eqn:Ex; [|discriminate]. destruct (map_opt (norm renum) t) eqn:Et; [|discriminate].
        inversion E. constructor; [apply Hx; reflexivity|apply IHt; reflexivity].
    - rewrite norm_obj in H. destruct (norm_members renum m) as [m'|] eqn:E; inversion H.
      constructor; [apply msort_sorted|]. apply Forall_snd_msort.
      clear H H1. revert m' E. induction IH as [|[k x] t Hx Ht IHt]; intros m' E; simpl in E.
      + inversion E. constructor.
      + simpl in Hx. destruct (norm renum x) eqn:Ex; [|discriminate]. destruct (norm_members renum t) eqn:Et; [|discriminate].
        inversion E. constructor; [simpl; apply Hx; reflexivity|apply IHt; reflexivity].
  Qed.

  Lemma normal_norm a : normal a -> norm renum a = Some a.
  Proof.
    induction a as [| b | n | s | l IH | m IH] using json_ind'; intros Hn; try reflexivity.
    - inversion Hn; subst. simpl. rewrite H0. reflexivity.
    - inversion Hn as [| | | |? Hl|]; subst. rewrite norm_arr.
      assert (norm_list renum l = Some l) as ->; [|reflexivity].
      clear Hn. unfold norm_list. induction IH as [|x t Hx Ht IHt]; simpl; [reflexivity|].
      inversion Hl; subst. rewrite Hx by assumption. rewrite IHt by assumption. reflexivity.
    - inversion Hn as [| | | | |? Hs Hm]; subst. rewrite norm_obj.
      assert (norm_members renum m = Some m) as ->; [|rewrite msort_id by assumption; reflexivity].
      clear Hn Hs. induction IH as [|[k x] t Hx Ht IHt]; simpl; [reflexivity|].
      inversion Hm; subst. simpl in *. rewrite Hx by assumption. rewrite IHt by assumption. reflexivity.
  Qed.

  Theorem norm_idem j a : norm renum j = Some a -> norm renum a = Some a.
  Proof. intros H. apply normal_norm. eapply norm_normal; eauto. Qed.
End NormTheory.
