(* Codec/Theory.v — theorems about the generic struct codec of Codec/Model.v,
   for arbitrary descriptor lists (side conditions are boolean checks, evaluated on
   the generated lists in Codec/W3C.v). *)
From Coq Require Import ZArith List String Ascii Bool Lia.
From GSP Require Import Base.Prelude Codec.Desc Codec.Json Codec.Time Codec.Model Codec.JsonTheory.
Import ListNotations.
Open Scope string_scope.
Open Scope list_scope.

(* ---- small facts ---- *)
Lemma bind_ok {A B} (r : res A) (f : A -> res B) b :
  bind r f = Ok b -> exists a, r = Ok a /\ f a = Ok b.
Proof. destruct r; simpl; intros H; try discriminate. eauto. Qed.

Lemma filter_all {A} (l : list A) : filter (fun _ => true) l = l.
Proof. induction l; simpl; congruence. Qed.

Lemma filter_filter {A} (p q : A -> bool) l :
  filter p (filter q l) = filter (fun x => q x && p x) l.
Proof.
  induction l as [|a t IH]; simpl; [reflexivity|].
  destruct (q a); simpl; [destruct (p a); simpl; congruence|assumption].
Qed.

Lemma filter_ext_eq {A} (p q : A -> bool) l : (forall x, p x = q x) -> filter p l = filter q l.
Proof. intros H. induction l as [|a t IH]; simpl; [reflexivity|]. rewrite H, IH. reflexivity. Qed.

Definition keep_out (D : list string) (kv : string * json) : bool := negb (str_mem (fst kv) D).

Lemma jremove_filter k m : jremove k m = filter (fun kv => negb (String.eqb (fst kv) k)) m.
Proof.
  induction m as [|[a v] t IH]; simpl; [reflexivity|].
  destruct (String.eqb a k); simpl; congruence.
Qed.

Lemma str_mem_eqb_sym a k : String.eqb a k = String.eqb k a.
Proof. apply String.eqb_sym. Qed.

Lemma jremove_all_filter D : forall m, jremove_all D m = filter (keep_out D) m.
Proof.
  unfold jremove_all. induction D as [|d t IH]; intros m; simpl.
  - unfold keep_out. simpl. symmetry. apply filter_all.
  - rewrite IH, jremove_filter, filter_filter. apply filter_ext_eq.
    intros [a v]. unfold keep_out. simpl.
    rewrite (String.eqb_sym a d). destruct (String.eqb d a); reflexivity.
Qed.

Lemma norm_members_filter renum (p : string -> bool) m : forall n,
  norm_members renum m = Some n ->
  norm_members renum (filter (fun kv => p (fst kv)) m) = Some (filter (fun kv => p (fst kv)) n).
Proof.
  induction m as [|[k a] t IH]; intros n H; simpl in H.
  - inversion H. reflexivity.
  - destruct (norm renum a) eqn:Ea; [|discriminate].
    destruct (norm_members renum t) eqn:Et; [|discriminate].
    inversion H. subst n. simpl. destruct (p k); simpl.
    + rewrite Ea. rewrite (IH _ eq_refl). reflexivity.
    + apply IH. reflexivity.
Qed.

Section Gen.
  Variable O : oracles.
  Variable cdec : custom -> json -> res gval.
  Variable cenc : custom -> gval -> res json.

  (* ---- the field loops of encode_val / decode_val as stand-alone functions ---- *)
  Fixpoint enc_fields (fs : list fdesc) (vs : list gval) : res members :=
    match fs, vs with
    | [], [] => Ok []
    | FD _ key omit k :: t, v :: vt =>
        r <- enc_fields t vt ;;
        if omit && is_empty v then Ok r
        else e <- encode_val cenc k v ;; Ok ((key, e) :: r)
    | _, _ => Panic "ill-typed"
    end.

  Lemma encode_struct_eq fs vs :
    encode_val cenc (KStruct fs) (VStruct vs) = (m <- enc_fields fs vs ;; Ok (JObj m)).
  Proof.
    reflexivity.
  Qed.

  Lemma encode_ptrstruct_eq fs vs :
    encode_val cenc (KPtrStruct fs) (VOptStruct (Some vs)) = (m <- enc_fields fs vs ;; Ok (JObj m)).
  Proof.
    reflexivity.
  Qed.

  Definition dec_member (k : kind) (js : list json) : res gval :=
    match js with
    | [] => Ok (zero k)
    | [j] => decode_val O cdec k j
    | _ => if seq_kind k then dup_apply (decode_val O cdec k) (keep_on_null k) (zero k) js
           else Panic "unmodelled-duplicate"
    end.

  Fixpoint dec_fields (fs : list fdesc) (m : members) : res (list gval) :=
    match fs with
    | [] => Ok []
    | FD _ key _ k :: t =>
        v <- dec_member k (jfind_all key m) ;;
        r <- dec_fields t m ;; Ok (v :: r)
    end.

  Lemma decode_struct_obj fs m :
    decode_val O cdec (KStruct fs) (JObj m) = (r <- dec_fields fs m ;; Ok (VStruct r)).
  Proof.
    simpl.
    match goal with |- bind (?F fs m) _ = _ => assert (HF : forall fs, F fs m = dec_fields fs m) end.
    { clear fs. induction fs as [|[g key omit k] t IH]; [reflexivity|].
      simpl. rewrite IH. unfold dec_member.
      destruct (jfind_all key m) as [|j [|j' js]]; reflexivity. }
    rewrite HF. reflexivity.
  Qed.

  Lemma decode_ptrstruct_obj fs m :
    decode_val O cdec (KPtrStruct fs) (JObj m) = (r <- dec_fields fs m ;; Ok (VOptStruct (Some r))).
  Proof.
    simpl.
    match goal with |- bind (?F fs m) _ = _ => assert (HF : forall fs, F fs m = dec_fields fs m) end.
    { clear fs. induction fs as [|[g key omit k] t IH]; [reflexivity|].
      simpl. rewrite IH. unfold dec_member.
      destruct (jfind_all key m) as [|j [|j' js]]; reflexivity. }
    rewrite HF. reflexivity.
  Qed.

  Lemma decode_fields_eq fs m : decode_fields O cdec fs m = dec_fields fs m.
  Proof.
    unfold decode_fields. rewrite decode_ptrstruct_obj.
    destruct (dec_fields fs m); reflexivity.
  Qed.

  Lemma map_res_ext {A B} (f g : A -> res B) l : (forall x, f x = g x) -> map_res f l = map_res g l.
  Proof. intros H. induction l as [|a t IH]; simpl; [reflexivity|]. rewrite H, IH. reflexivity. Qed.

  Lemma encode_slicestruct_eq fs l :
    encode_val cenc (KSliceStruct fs) (VStructs (Some l)) =
    (r <- map_res (fun vs => m <- enc_fields fs vs ;; Ok (JObj m)) l ;; Ok (JArr r)).
  Proof. reflexivity. Qed.

  Definition dec_elem (fs : list fdesc) (e : json) : res (list gval) :=
    match e with JObj m => dec_fields fs m | JNull => Ok (zeros fs) | _ => Err "type" end.

  Lemma decode_slicestruct_arr fs l :
    decode_val O cdec (KSliceStruct fs) (JArr l) = (r <- map_res (dec_elem fs) l ;; Ok (VStructs (Some r))).
  Proof.
    simpl.
    match goal with |- bind (map_res ?F l) _ = _ => assert (HF : forall e, F e = dec_elem fs e) end.
    { intros e. destruct e; try reflexivity. simpl.
      match goal with |- ?G fs m = _ => assert (HG : forall fs, G fs m = dec_fields fs m) end.
      { clear fs. induction fs as [|[g key omit k] t IH]; [reflexivity|].
        simpl. rewrite IH. unfold dec_member.
        destruct (jfind_all key m) as [|j [|j' js]]; reflexivity. }
      apply HG. }
    rewrite (map_res_ext _ _ l HF). reflexivity.
  Qed.

  (* ---- values that differ only in fields whose key is in D ---- *)
  Inductive agree_out (D : list string) : list fdesc -> list gval -> list gval -> Prop :=
  | ao_nil : agree_out D [] [] []
  | ao_cons f t v v' vt vt' :
      str_mem (fd_key f) D = true \/ v = v' ->
      agree_out D t vt vt' -> agree_out D (f :: t) (v :: vt) (v' :: vt').

  Lemma enc_fields_agree D fs vs vs' : agree_out D fs vs vs' ->
    forall m m', enc_fields fs vs = Ok m -> enc_fields fs vs' = Ok m' ->
    filter (keep_out D) m = filter (keep_out D) m'.
  Proof.
    induction 1 as [|[g key omit k] t v v' vt vt' Hv Ht IH]; intros m m' E E'.
    - simpl in *. inversion E. inversion E'. reflexivity.
    - simpl in E, E'. apply bind_ok in E. destruct E as (r & Er & E).
      apply bind_ok in E'. destruct E' as (r' & Er' & E').
      specialize (IH _ _ Er Er'). simpl in Hv.
      assert (Hm : exists x, m = x ++ r /\ forall kv, In kv x -> fst kv = key).
      { destruct (omit && is_empty v); [inversion E; exists []; split; [reflexivity|simpl; tauto]|].
        apply bind_ok in E. destruct E as (e & _ & E). inversion E. exists [(key, e)]. split; [reflexivity|].
        simpl. intros kv [<-|[]]. reflexivity. }
      assert (Hm' : exists x, m' = x ++ r' /\ forall kv, In kv x -> fst kv = key).
      { destruct (omit && is_empty v'); [inversion E'; exists []; split; [reflexivity|simpl; tauto]|].
        apply bind_ok in E'. destruct E' as (e & _ & E'). inversion E'. exists [(key, e)]. split; [reflexivity|].
        simpl. intros kv [<-|[]]. reflexivity. }
      destruct Hv as [Hd| ->].
      + destruct Hm as (x & -> & Hx). destruct Hm' as (x' & -> & Hx').
        rewrite !filter_app, IH.
        assert (G : forall y, (forall kv, In kv y -> fst kv = key) -> filter (keep_out D) y = []).
        { induction y as [|kv y IHy]; intros Hy; simpl; [reflexivity|].
          unfold keep_out at 1. rewrite (Hy kv) by (simpl; auto). rewrite Hd. simpl.
          apply IHy. intros kv' Hin. apply Hy. simpl; auto. }
        rewrite (G x Hx), (G x' Hx'). reflexivity.
      + destruct (omit && is_empty v').
        * inversion E. inversion E'. subst. assumption.
        * apply bind_ok in E. destruct E as (e & Ee & E). apply bind_ok in E'. destruct E' as (e' & Ee' & E').
          rewrite Ee in Ee'. inversion Ee'. subst e'. inversion E. inversion E'. simpl.
          rewrite IH. reflexivity.
  Qed.
End Gen.

(* ---- C14_proof_independent: the document Merklize hands to the merklizer does not
   depend on the fields it deletes ---- *)
Section ProofIndependent.
  Variable O : oracles.
  Variable E : penv.

  Theorem merklize_doc_independent D fs vs vs' d d' :
    agree_out D fs vs vs' ->
    merklize_doc O E D fs vs = Ok d ->
    merklize_doc O E D fs vs' = Ok d' ->
    d = d'.
  Proof.
    intros Ha H H'. unfold merklize_doc, encode_top, encode_struct in H, H'.
    rewrite encode_struct_eq in H, H'.
    apply bind_ok in H. destruct H as (b & Hb & H). apply bind_ok in Hb. destruct Hb as (m & Hm & Hb). inversion Hb. subst b.
    apply bind_ok in H'. destruct H' as (b' & Hb' & H'). apply bind_ok in Hb'. destruct Hb' as (m' & Hm' & Hb'). inversion Hb'. subst b'.
    apply bind_ok in H. destruct H as (n & Hn & H). apply bind_ok in H'. destruct H' as (n' & Hn' & H').
    inversion H. inversion H'. f_equal. f_equal.
    rewrite !jremove_all_filter.
    simpl in Hn, Hn'.
    destruct (norm_members (o_renum O) m) as [nm|] eqn:N; [|discriminate]. inversion Hn. subst n.
    destruct (norm_members (o_renum O) m') as [nm'|] eqn:N'; [|discriminate]. inversion Hn'. subst n'.
    pose proof (enc_fields_agree _ D fs vs vs' Ha _ _ Hm Hm') as F.
    pose proof (norm_members_filter (o_renum O) (fun k => negb (str_mem k D)) m nm N) as G.
    pose proof (norm_members_filter (o_renum O) (fun k => negb (str_mem k D)) m' nm' N') as G'.
    unfold keep_out in *. rewrite F in G. rewrite G in G'. inversion G'. reflexivity.
  Qed.
End ProofIndependent.

(* ==================================================================== *)
(* Induction principle for the nested type of kinds                      *)
Section KindInd.
  Variable P : kind -> Prop.
  Hypothesis HString : P KString.
  Hypothesis HPtrString : P KPtrString.
  Hypothesis HPtrInt : P KPtrInt.
  Hypothesis HPtrBool : P KPtrBool.
  Hypothesis HUint64 : P KUint64.
  Hypothesis HPtrTime : P KPtrTime.
  Hypothesis HStruct : forall fs, Forall (fun f => P (fd_kind f)) fs -> P (KStruct fs).
  Hypothesis HPtrStruct : forall fs, Forall (fun f => P (fd_kind f)) fs -> P (KPtrStruct fs).
  Hypothesis HSliceString : P KSliceString.
  Hypothesis HSliceStruct : forall fs, Forall (fun f => P (fd_kind f)) fs -> P (KSliceStruct fs).
  Hypothesis HAny : P KAny.
  Hypothesis HMapAny : P KMapAny.
  Hypothesis HSliceAny : P KSliceAny.
  Hypothesis HRaw : P KRaw.
  Hypothesis HCustom : forall c, P (KCustom c).
  Hypothesis HRec : forall n, P (KRec n).
  Fixpoint kind_ind' (k : kind) : P k :=
    let go := (fix go (fs : list fdesc) : Forall (fun f => P (fd_kind f)) fs :=
                 match fs with
                 | [] => Forall_nil _
                 | FD g key o k' :: t => Forall_cons (FD g key o k') (kind_ind' k') (go t)
                 end) in
    match k with
    | KString => HString | KPtrString => HPtrString | KPtrInt => HPtrInt | KPtrBool => HPtrBool
    | KUint64 => HUint64 | KPtrTime => HPtrTime
    | KStruct fs => HStruct fs (go fs)
    | KPtrStruct fs => HPtrStruct fs (go fs)
    | KSliceString => HSliceString
    | KSliceStruct fs => HSliceStruct fs (go fs)
    | KAny => HAny | KMapAny => HMapAny | KSliceAny => HSliceAny | KRaw => HRaw
    | KCustom c => HCustom c | KRec n => HRec n
    end.
End KindInd.
