(* Codec/Inst.v — the generic codec instantiated with the descriptors extracted from
   /repo on this run (Generated/Structs.v).  Definitions only. *)
From Coq Require Import ZArith List String.
From GSP Require Import Base.Prelude Codec.Desc Codec.Json Codec.Time Codec.Model Generated.Structs.
Import ListNotations.
Open Scope string_scope.

Definition mk_pdesc (w f : list fdesc) (c : string) : pdesc :=
  {| pd_wire := w; pd_full := f; pd_const := c |}.

Definition repo_env : penv :=
  {| pe_dispatch := proof_dispatch;
     pe_proofs :=
       [("BJJSignatureProof2021",
           mk_pdesc w_BJJSignatureProof2021 d_BJJSignatureProof2021 w_BJJSignatureProof2021_type_const);
        ("Iden3SparseMerkleProof",
           mk_pdesc w_Iden3SparseMerkleProof d_Iden3SparseMerkleProof w_Iden3SparseMerkleProof_type_const);
        ("Iden3SparseMerkleTreeProof",
           mk_pdesc w_Iden3SparseMerkleTreeProof d_Iden3SparseMerkleTreeProof w_Iden3SparseMerkleTreeProof_type_const)];
     pe_cvm := d_CommonVerificationMethod |}.

(* json.Unmarshal(doc, &W3CCredential{}) ; json.Marshal(vc) ; the document vc.Merklize merklizes *)
Definition cred_decode (O : oracles) (j : json) : res (list gval) := decode_top O repo_env d_W3CCredential j.
Definition cred_encode (c : list gval) : res json := encode_top repo_env d_W3CCredential c.
Definition cred_merklize_doc (O : oracles) (c : list gval) : res json :=
  merklize_doc O repo_env merklize_deleted d_W3CCredential c.
Definition cred_reference_doc (O : oracles) (j : json) : res json := reference_doc O merklize_deleted j.

Definition did_decode (O : oracles) (j : json) : res (list gval) := decode_top O repo_env d_DIDDocument j.
Definition did_encode (c : list gval) : res json := encode_top repo_env d_DIDDocument c.

(* concrete Go types of the decoded proofs / the form of the authentication entries *)
Definition elem_kind (v : gval) : string :=
  match v with
  | VKnownProof g _ => g
  | VCommonProof _ => "CommonProof"
  | VAuthDid _ => "did"
  | VAuthMethod _ => "method"
  | _ => "?"
  end.
Definition field_kinds (v : gval) : list string :=
  match v with
  | VProofs (Some l) | VAuths (Some l) => map elem_kind l
  | _ => []
  end.
Definition all_kinds (c : list gval) : list string := flat_map field_kinds c.
