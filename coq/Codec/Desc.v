(* Codec/Desc.v — field descriptors of Go structs as seen by encoding/json.
   Only data types: coq/Generated/Structs.v (written by the go/ast translator
   harness/c14/translator.go on every run) depends on this file alone. *)
From Coq Require Import String List.
Import ListNotations.

(* Types of /repo/verifiable with a hand-written JSON codec; each is modelled by hand
   in Codec/Model.v.  The translator aborts on any other type with (Un)MarshalJSON. *)
Inductive custom :=
| CuCredentialProofs      (* CredentialProofs ([]CredentialProof + UnmarshalJSON)  *)
| CuPtrMtProof            (* *merkletree.Proof (go-merkletree-sql, external)       *)
| CuSliceAuthentication   (* []Authentication (Marshal/UnmarshalJSON)              *)
| CuPtrGistInfoProof.     (* *GistInfoProof (Marshal/UnmarshalJSON)                *)

Inductive kind :=
| KString                              (* string and named string types           *)
| KPtrString | KPtrInt | KPtrBool
| KUint64
| KPtrTime                             (* *time.Time                              *)
| KStruct (fs : list fdesc)            (* nested struct value                     *)
| KPtrStruct (fs : list fdesc)         (* pointer to struct                       *)
| KSliceString                         (* []string                                *)
| KSliceStruct (fs : list fdesc)       (* []S                                     *)
| KAny                                 (* interface{}                             *)
| KMapAny                              (* map[string]interface{}                  *)
| KSliceAny                            (* []interface{}                           *)
| KRaw                                 (* json.RawMessage (wire structs only)     *)
| KCustom (c : custom)
| KRec (name : string)                 (* pointer to an enclosing struct type (recursive
                                          type): extracted, not supported by the codec *)
with fdesc :=
| FD (goname key : string) (omitempty : bool) (k : kind).

Definition fd_goname (f : fdesc) : string := match f with FD g _ _ _ => g end.
Definition fd_key (f : fdesc) : string := match f with FD _ k _ _ => k end.
Definition fd_omit (f : fdesc) : bool := match f with FD _ _ o _ => o end.
Definition fd_kind (f : fdesc) : kind := match f with FD _ _ _ k => k end.
