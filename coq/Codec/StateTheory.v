(* Codec/StateTheory.v — theorems about Codec/State.v: decoding into a non-zero receiver
   gives what a fresh decode gives (C14_decode_overwrites); Merklize / ToCoreClaim /
   verifyCredentialCoreClaim do not change the credential (C14_tocoreclaim_pure); the
   seeded variants are refuted by concrete witnesses (Codec/W3C.v). *)
From Coq Require Import ZArith List String Ascii Bool.
From GSP Require Import Base.Prelude Codec.Desc Codec.Json Codec.Time Codec.Model Codec.JsonTheory
  Codec.Theory Codec.State.
Import ListNotations.
Open Scope string_scope.
Open Scope list_scope.

(* ==================================================================== *)
(* Theorems *)
Section AuthIntoTheory.
  Variable O : oracles.
  Variable E : penv.

  Definition res_map {A B} (f : A -> B) (r : res A) : res B :=
    match r with Ok a => Ok (f a) | Err t => Err t | Panic w => Panic w | Diverge => Diverge end.

  (* C14_decode_overwrites: whatever the receiver held, what IsDID / DID / MarshalJSON see
     after decoding into it is what a fresh decode gives — except for the empty reference
     string "", which only clears did and turns the entry into whatever method it held *)
  Theorem dec_auth_into_overwrites prev j :
    j <> JStr "" ->
    res_map auth_view (dec_auth_into O E prev j) = dec_auth O E j.
  Proof.
    intros Hne. destruct j; try reflexivity.
    - simpl. unfold auth_view. simpl. destruct (String.eqb s "") eqn:Es; [|reflexivity].
      apply String.eqb_eq in Es. subst. tauto.
    - unfold dec_auth_into, dec_auth. destruct (decode_struct O (cdec0 O) (pe_cvm E) (JObj m)); reflexivity.
  Qed.

  (* the boundary: "" decoded over an entry that held a reference AND stale method fields *)
  Example dec_auth_into_empty_reference_keeps_method :
    forall cvm r, res_map auth_view (dec_auth_into O E (Some (cvm, r)) (JStr "")) = Ok (VAuthMethod cvm).
  Proof. reflexivity. Qed.

  (* embedded vs reference: an object always decodes to an embedded method, a non-empty
     string to a reference, and the kind survives encoding *)
  Theorem dec_auth_kind j a :
    dec_auth O E j = Ok a ->
    match j with
    | JObj _ => exists vals, a = VAuthMethod vals
    | JStr s => if String.eqb s "" then a = VAuthMethod (zeros (pe_cvm E)) else a = VAuthDid s
    | _ => False
    end.
  Proof.
    destruct j; simpl; try (intros H; discriminate H).
    - destruct (String.eqb s ""); intros H; inversion H; reflexivity.
    - intros H. apply bind_ok in H. destruct H as (r & _ & H). inversion H. eauto.
  Qed.

  Theorem enc_auth_kind a e : enc_auth E a = Ok e ->
    match a with
    | VAuthDid s => e = JStr s
    | VAuthMethod _ => exists m, e = JObj m
    | _ => False
    end.
  Proof.
    destruct a; simpl; try (intros H; discriminate H).
    - intros H. inversion H. reflexivity.
    - unfold encode_struct. rewrite encode_struct_eq. intros H. apply bind_ok in H. destruct H as (m & _ & H).
      inversion H. eauto.
  Qed.
End AuthIntoTheory.

Section PureTheory.
  Variable O : oracles.
  Variable E : penv.
  Variable D : list string.
  Variable fs : list fdesc.
  Variables R C : Type.
  Variable mzld : json -> res R.
  Variable build : list gval -> R -> res C.
  Variable compare : C -> res unit.

  (* C14_tocoreclaim_pure: on success and on every error path *)
  Theorem merklize_pure c : fst (merklize_st O E D fs R mzld c) = c.
  Proof. reflexivity. Qed.
  Theorem tocoreclaim_pure c : fst (tocoreclaim_st O E D fs R C mzld build c) = c.
  Proof. reflexivity. Qed.
  Theorem verifyclaim_pure c : fst (verifyclaim_st O E D fs R C mzld build compare c) = c.
  Proof. reflexivity. Qed.

  (* and the results are those of the pure functions *)
  Theorem merklize_st_result c :
    snd (merklize_st O E D fs R mzld c) = (d <- merklize_doc O E D fs c ;; mzld d).
  Proof. reflexivity. Qed.
End PureTheory.
