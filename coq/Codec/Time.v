(* Codec/Time.v — model of time.Time's JSON codec (go1.23) on the content of a JSON
   string: Time.UnmarshalJSON = parseStrictRFC3339 = fast path parseRFC3339, else the
   general time.Parse(RFC3339, s) (the strict checks are disabled in go1.23: `case
   true: return t, nil`), so the accepted language is the one of Value/Time.v;
   Time.MarshalJSON = appendStrictRFC3339 (RFC3339Nano spelling, error when the zone
   hour is >= 24; the year is always 4 digits here).
   A decoded time is kept as the civil fields that were read plus the zone offset in
   seconds: Go converts to an instant and back when printing in the same fixed zone,
   which is the identity on valid civil fields (calendar arithmetic: not modelled).
   JSON string escapes inside the time string are not modelled (Go does not unescape).
   No proofs here. *)
From Coq Require Import ZArith List String Ascii Bool.
From GSP Require Import Base.Prelude Value.Time.
Import ListNotations.
Open Scope list_scope.
Open Scope Z_scope.

Record gotime := mkT { t_y : Z; t_mo : Z; t_d : Z; t_h : Z; t_mi : Z; t_s : Z; t_ns : Z; t_off : Z }.

Definition gotime_eqb (a b : gotime) : bool :=
  (t_y a =? t_y b) && (t_mo a =? t_mo b) && (t_d a =? t_d b) && (t_h a =? t_h b) &&
  (t_mi a =? t_mi b) && (t_s a =? t_s b) && (t_ns a =? t_ns b) && (t_off a =? t_off b).

(* Unix seconds of the instant (links to Value/Time.v and C04_time) *)
Definition instant (t : gotime) : Z :=
  days_from_civil (t_y t) (t_mo t) (t_d t) * 86400 + t_h t * 3600 + t_mi t * 60 + t_s t - t_off t.

(* same structure as Value.Time.parse_rfc3339, keeping the fields *)
Definition parse_time_l (l : list ascii) : option gotime :=
  match parse_ymd l with
  | Some (y, m, d, l1) =>
    match expect "T" l1 with
    | Some l2 =>
      match loose_num l2 with
      | Some (hh, l3) =>
        if hh >=? 24 then None else
        match expect ":" l3 with
        | Some l4 =>
          match fixed_digits 2 l4 0 with
          | Some (mi, l5) =>
            if mi >=? 60 then None else
            match expect ":" l5 with
            | Some l6 =>
              match fixed_digits 2 l6 0 with
              | Some (ss, l7) =>
                if ss >=? 60 then None else
                let '(ns, l8) := parse_frac l7 in
                match parse_zone l8 with
                | Some (off, []) =>
                  if day_ok y m d then Some (mkT y m d hh mi ss ns off) else None
                | _ => None
                end
              | None => None
              end
            | None => None
            end
          | None => None
          end
        | None => None
        end
      | None => None
      end
    | None => None
    end
  | None => None
  end.

Definition parse_time (s : string) : option gotime := parse_time_l (str_to_list s).

(* ---- printing ---- *)
Definition digit_char (z : Z) : ascii := ascii_of_nat (48 + Z.to_nat z).

(* n decimal digits of z, most significant first (z taken modulo 10^n) *)
Fixpoint digits (n : nat) (z : Z) : list ascii :=
  match n with
  | O => []
  | S k => digit_char ((z / 10 ^ Z.of_nat k) mod 10) :: digits k z
  end.

(* fraction: 9 digits with trailing zeros removed; nothing when ns = 0 *)
Fixpoint trim_zeros_rev (l : list ascii) : list ascii :=
  match l with
  | c :: t => if Ascii.eqb c "0" then trim_zeros_rev t else l
  | [] => []
  end.
Definition frac_chars (ns : Z) : list ascii :=
  if ns =? 0 then [] else "."%char :: rev (trim_zeros_rev (rev (digits 9 ns))).

Definition zone_chars (off : Z) : list ascii :=
  if off =? 0 then ["Z"%char] else
  let a := Z.abs off / 60 in
  (if off <? 0 then "-"%char else "+"%char) :: digits 2 (a / 60) ++ ":"%char :: digits 2 (a mod 60).

Definition format_time (t : gotime) : option string :=
  if Z.abs (t_off t) / 3600 >=? 24 then None else
  Some (str_of_list (
    digits 4 (t_y t) ++ "-"%char :: digits 2 (t_mo t) ++ "-"%char :: digits 2 (t_d t) ++
    "T"%char :: digits 2 (t_h t) ++ ":"%char :: digits 2 (t_mi t) ++ ":"%char :: digits 2 (t_s t) ++
    frac_chars (t_ns t) ++ zone_chars (t_off t))).
