(* Codec/Run.v — evaluation of per-run case files for C14: the generic codec model on
   the descriptors of this run vs encoding/json + /repo on the same documents.
   Compared per case: decode outcome class, the re-encoded document (exact member
   order), the concrete kinds of the decoded proofs / authentication entries, the
   document W3CCredential.Merklize hands to the merklizer (Merklizer.VerifSrcDoc).
   Oracle tables hold primitive calls only; a miss yields a poisoned value or an
   error, hence a disagreement. *)
From Coq Require Import ZArith List String Ascii Bool Uint63.
From GSP Require Import Base.Prelude Base.Decode Codec.Desc Codec.Json Codec.Time Codec.Model Codec.Inst Codec.State.
From GSP Require Import Generated.Structs.
Import ListNotations.
Open Scope list_scope.

(* documents as written by the harness: numbers as limbs *)
Inductive rjson :=
| RNull | RTrue | RFalse
| RInt (z : snum) | RFlt (bits : limbs)
| RStr (s : string)
| RArr (l : list rjson)
| RObj (m : list (string * rjson)).

Fixpoint json_of (r : rjson) : json :=
  match r with
  | RNull => JNull | RTrue => JBool true | RFalse => JBool false
  | RInt z => JNum (NInt (z_of_snum z))
  | RFlt b => JNum (NFlt (z_of_limbs b))
  | RStr s => JStr s
  | RArr l => JArr (map json_of l)
  | RObj m => JObj (map (fun kv => (fst kv, json_of (snd kv))) m)
  end.

Definition jnum_of (r : rjson) : jnum :=
  match r with RInt z => NInt (z_of_snum z) | RFlt b => NFlt (z_of_limbs b) | _ => NFlt (-1) end.

Fixpoint lookup_by {K V} (eqb : K -> K -> bool) (k : K) (t : list (K * V)) : option V :=
  match t with [] => None | (a, b) :: r => if eqb a k then Some b else lookup_by eqb k r end.

(* tables: (input, Some output | None = the primitive returned an error) *)
Definition mk_oracles (renum : list (rjson * option rjson)) (mtp : list (rjson * option rjson))
                      (claim sig : list (string * bool)) : oracles :=
  let rt := map (fun kv => (jnum_of (fst kv), option_map jnum_of (snd kv))) renum in
  let mt := map (fun kv => (json_of (fst kv), option_map json_of (snd kv))) mtp in
  {| o_renum := fun n => match lookup_by jnum_eqb n rt with Some o => o | None => Some (NFlt (-1)) end;
     o_mtp := fun j => match lookup_by json_eqb j mt with Some o => o | None => Some (JStr "oracle-miss") end;
     o_claim := fun s => match lookup_by String.eqb s claim with Some b => b | None => false end;
     o_sig := fun s => match lookup_by String.eqb s sig with Some b => b | None => false end |}.

Inductive cobs :=
| OErr                                                   (* json.Unmarshal returned an error *)
| OEncErr                                                (* decoded, json.Marshal returned an error *)
| OOk (enc : rjson) (kinds : list string) (mz : option rjson).

Inductive ccase :=
| CCred (id : int) (doc : rjson) (o : cobs)
| CDid (id : int) (doc : rjson) (o : cobs)
(* the distinct encodings of the credential observed AFTER Merklize / ToCoreClaim /
   VerifyProof calls (succeeding and failing) on a fresh decode of doc *)
| CPure (id : int) (doc : rjson) (posts : list rjson)
(* json.Unmarshal(prev, &as); json.Unmarshal(doc, &as) on one []Authentication; its
   encoding and the kinds of its entries *)
| CReuseAuth (id : int) (prev doc : rjson) (enc : rjson) (kinds : list string).

Definition res_json_is (r : res json) (want : rjson) : bool :=
  match r with Ok j => json_eqb j (json_of want) | _ => false end.

Definition agree_cred (O : oracles) (doc : rjson) (o : cobs) : bool :=
  match cred_decode O (json_of doc), o with
  | Err _, OErr => true
  | Ok c, OEncErr => is_err (cred_encode c)
  | Ok c, OOk enc kinds mz =>
      res_json_is (cred_encode c) enc &&
      list_eqb String.eqb (all_kinds c) kinds &&
      match mz with
      | Some d => res_json_is (cred_merklize_doc O c) d
      | None => true
      end
  | _, _ => false
  end.

Definition agree_did (O : oracles) (doc : rjson) (o : cobs) : bool :=
  match did_decode O (json_of doc), o with
  | Err _, OErr => true
  | Ok c, OEncErr => is_err (did_encode c)
  | Ok c, OOk enc kinds _ =>
      res_json_is (did_encode c) enc && list_eqb String.eqb (all_kinds c) kinds
  | _, _ => false
  end.

(* the credential after the state-passing model of verifyCredentialCoreClaim (hence of
   ToCoreClaim and Merklize); the external steps are arbitrary: they cannot matter *)
Definition post_state (O : oracles) (c : list gval) : list gval :=
  fst (verifyclaim_st O repo_env merklize_deleted d_W3CCredential unit unit
         (fun _ => Err "jsonld") (fun _ _ => Err "build") (fun _ => Err "compare") c).

Definition agree_pure (O : oracles) (doc : rjson) (posts : list rjson) : bool :=
  match cred_decode O (json_of doc) with
  | Ok c => forallb (res_json_is (cred_encode (post_state O c))) posts
  | _ => false
  end.

Definition agree_reuse_auth (O : oracles) (prev doc enc : rjson) (kinds : list string) : bool :=
  res_json_is (reuse_auths O repo_env (json_of prev) (json_of doc)) enc &&
  list_eqb String.eqb (reuse_auth_kinds O repo_env (json_of prev) (json_of doc)) kinds.

Definition cmismatches (O : oracles) (cs : list ccase) : list int :=
  fold_right (fun c acc =>
    match c with
    | CCred id doc o => if agree_cred O doc o then acc else id :: acc
    | CDid id doc o => if agree_did O doc o then acc else id :: acc
    | CPure id doc posts => if agree_pure O doc posts then acc else id :: acc
    | CReuseAuth id prev doc enc kinds => if agree_reuse_auth O prev doc enc kinds then acc else id :: acc
    end) [] cs.
