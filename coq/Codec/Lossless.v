(* Codec/Lossless.v — decode followed by encode preserves every member of a document of
   the supported shape, up to: member order, JSON null for an absent optional, the
   float64 spelling of numbers, and the RFC 3339 spelling of a *time.Time member.
   Generic in the descriptors; the side conditions are boolean checks on them. *)
From Coq Require Import ZArith List String Ascii Bool Lia.
From GSP Require Import Base.Prelude Codec.Desc Codec.Json Codec.Time Codec.Model Codec.JsonTheory Codec.Theory.
Import ListNotations.
Open Scope string_scope.
Open Scope list_scope.

Definition field_keys (fs : list fdesc) : list string := map fd_key fs.
Definition fold_keys_nodup (fs : list fdesc) : bool := str_nodup (map fold_str (field_keys fs)).

(* kinds for which JSON null means "absent" when the field is omitempty *)
Definition nullable (k : kind) : bool :=
  match k with KPtrString | KPtrInt | KPtrBool | KPtrTime | KPtrStruct _ | KAny => true | _ => false end.
Definition is_time (k : kind) : bool := match k with KPtrTime => true | _ => false end.

(* kinds through which a value passes unchanged up to Json.norm (no time, no custom codec) *)
Fixpoint plain (k : kind) : bool :=
  match k with
  | KString | KPtrString | KPtrInt | KPtrBool | KUint64 | KSliceString | KAny | KMapAny | KSliceAny => true
  | KStruct fs | KPtrStruct fs =>
      (fix go (fs : list fdesc) : bool :=
         match fs with [] => true | FD _ _ _ k' :: t => plain k' && go t end) fs && fold_keys_nodup fs
  | _ => false
  end.

(* a present member of an omitempty field must not be the empty value (it would be dropped) *)
Definition nonempty (k : kind) (j : json) : Prop :=
  match k with
  | KString => j <> JStr ""
  | KUint64 => j <> JNum (NInt 0)
  | KSliceString | KSliceAny => j <> JArr []
  | KMapAny => j <> JObj []
  | _ => True
  end.

Lemma plain_struct_fields fs :
  (fix go (fs : list fdesc) : bool :=
     match fs with [] => true | FD _ _ _ k' :: t => plain k' && go t end) fs = true ->
  Forall (fun f => plain (fd_kind f) = true) fs.
Proof.
  induction fs as [|[g key o k] t IH]; intros H; constructor.
  - simpl. apply andb_true_iff in H. tauto.
  - apply IH. apply andb_true_iff in H. tauto.
Qed.

(* ---- string list membership ---- *)
Lemma str_mem_in k l : str_mem k l = true <-> In k l.
Proof.
  induction l as [|a t IH]; simpl; [split; [discriminate|tauto]|].
  rewrite orb_true_iff, IH, String.eqb_eq. tauto.
Qed.

Lemma str_nodup_NoDup l : str_nodup l = true -> NoDup l.
Proof.
  induction l as [|a t IH]; simpl; intros H; constructor.
  - apply andb_true_iff in H. destruct H as [H _]. intros Hin. apply str_mem_in in Hin.
    rewrite Hin in H. discriminate.
  - apply IH. apply andb_true_iff in H. tauto.
Qed.

Lemma NoDup_map_inj {A B} (f : A -> B) l x y :
  NoDup (map f l) -> In x l -> In y l -> f x = f y -> x = y.
Proof.
  induction l as [|a t IH]; simpl; intros Hnd Hx Hy Hf; [tauto|].
  inversion Hnd as [|? ? Hn Hnd']; subst.
  destruct Hx as [->|Hx], Hy as [->|Hy]; auto.
  - exfalso. apply Hn. rewrite Hf. apply in_map. assumption.
  - exfalso. apply Hn. rewrite <- Hf. apply in_map. assumption.
Qed.

Lemma NoDup_map_inv {A B} (f : A -> B) l : NoDup (map f l) -> NoDup l.
Proof.
  induction l as [|a t IH]; simpl; intros H; constructor; inversion H; subst.
  - intros Hin. apply H2. apply in_map. assumption.
  - auto.
Qed.

(* member lookup by field key when member names are field keys *)
Lemma jfind_all_exact FK key m :
  NoDup (map fold_str FK) -> In key FK -> incl (keys m) FK -> NoDup (keys m) ->
  jfind_all key m = match jget key m with Some v => [v] | None => [] end.
Proof.
  intros Hfk Hkey. induction m as [|[a v] t IH]; simpl; intros Hincl Hnd; [reflexivity|].
  inversion Hnd as [|? ? Hn Hnd']; subst.
  assert (Ha : In a FK) by (apply Hincl; simpl; auto).
  assert (Hincl' : incl (keys t) FK) by (intros x Hx; apply Hincl; simpl; auto).
  unfold fold_eqb. destruct (String.eqb (fold_str a) (fold_str key)) eqn:E.
  - apply String.eqb_eq in E. assert (a = key) as -> by (eapply NoDup_map_inj; eauto).
    rewrite String.eqb_refl. rewrite IH by assumption.
    rewrite jget_notin by assumption. reflexivity.
  - destruct (String.eqb a key) eqn:E2.
    + apply String.eqb_eq in E2. subst. rewrite String.eqb_refl in E. discriminate.
    + apply IH; assumption.
Qed.

Lemma jget_norm_members renum m : forall nm, norm_members renum m = Some nm ->
  forall k, jget k nm = match jget k m with Some v => norm renum v | None => None end.
Proof.
  induction m as [|[a v] t IH]; intros nm H k; simpl in H.
  - inversion H. reflexivity.
  - destruct (norm renum v) eqn:Ev; [|discriminate]. destruct (norm_members renum t) eqn:Et; [|discriminate].
    inversion H. subst nm. simpl. destruct (String.eqb a k); [symmetry; assumption|apply IH; reflexivity].
Qed.

Lemma keys_norm_members renum m : forall nm, norm_members renum m = Some nm -> keys nm = keys m.
Proof.
  induction m as [|[a v] t IH]; intros nm H; simpl in H.
  - inversion H. reflexivity.
  - destruct (norm renum v); [|discriminate]. destruct (norm_members renum t) eqn:Et; [|discriminate].
    inversion H. simpl. f_equal. apply IH. reflexivity.
Qed.

Lemma msort_nil_inv m : msort m = [] -> m = [].
Proof.
  destruct m as [|[a v] t]; [reflexivity|]. intros H. exfalso.
  assert (G : jget a (msort ((a, v) :: t)) <> None).
  { rewrite jget_msort. unfold jget_last. simpl.
    assert (F : forall l acc, acc <> None -> fold_left (jupd a) l acc <> None).
    { induction l as [|[b w] l IHl]; intros acc Hacc; simpl; [assumption|].
      apply IHl. unfold jupd; simpl. destruct (String.eqb b a); [discriminate|assumption]. }
    apply F. unfold jupd; simpl. rewrite String.eqb_refl. discriminate. }
  rewrite H in G. apply G. reflexivity.
Qed.

Lemma map_opt_norm_strs renum l : map_opt (norm renum) (map JStr l) = Some (map JStr l).
Proof. induction l as [|s t IH]; simpl; [reflexivity|]. rewrite IH. reflexivity. Qed.

Lemma map_res_strs l :
  map_res (fun e => match e with JStr s => Ok s | JNull => Ok "" | _ => Err "type" end) (map JStr l) = Ok l.
Proof. induction l as [|s t IH]; simpl; [reflexivity|]. rewrite IH. reflexivity. Qed.

Section Lossless.
  Variable O : oracles.
  Variable cdec : custom -> json -> res gval.
  Variable cenc : custom -> gval -> res json.
  Notation renum := (o_renum O).
  Hypothesis renum_idem : forall n n', renum n = Some n' -> renum n' = Some n'.
  (* time.Time: printing a parsed time and parsing it again gives the same time *)
  Hypothesis time_rt : forall s t s', parse_time s = Some t -> format_time t = Some s' -> parse_time s' = Some t.

  (* ---- the supported shape of a member value, by kind ---- *)
  Inductive shape : kind -> json -> Prop :=
  | sh_string s : shape KString (JStr s)
  | sh_pstring s : shape KPtrString (JStr s)
  | sh_pint z n : int64_ok z = true -> renum (NInt z) = Some n -> shape KPtrInt (JNum (NInt z))
  | sh_pbool b : shape KPtrBool (JBool b)
  | sh_uint z n : uint64_ok z = true -> renum (NInt z) = Some n -> shape KUint64 (JNum (NInt z))
  | sh_time s t s' : parse_time s = Some t -> format_time t = Some s' -> shape KPtrTime (JStr s)
  | sh_struct fs m : NoDup (keys m) -> incl (keys m) (field_keys fs) ->
      Forall (fun f => (jget (fd_key f) m = None /\ fd_omit f = true /\ is_empty (zero (fd_kind f)) = true) \/
                       (exists v, jget (fd_key f) m = Some v /\ shape (fd_kind f) v /\
                                  (fd_omit f = true -> nonempty (fd_kind f) v))) fs ->
      shape (KStruct fs) (JObj m)
  | sh_pstruct fs m : NoDup (keys m) -> incl (keys m) (field_keys fs) ->
      Forall (fun f => (jget (fd_key f) m = None /\ fd_omit f = true /\ is_empty (zero (fd_kind f)) = true) \/
                       (exists v, jget (fd_key f) m = Some v /\ shape (fd_kind f) v /\
                                  (fd_omit f = true -> nonempty (fd_kind f) v))) fs ->
      shape (KPtrStruct fs) (JObj m)
  | sh_strs l : shape KSliceString (JArr (map JStr l))
  | sh_any j a : j <> JNull -> norm renum j = Some a -> shape KAny j
  | sh_map m a : norm renum (JObj m) = Some a -> shape KMapAny (JObj m)
  | sh_anys l a : norm renum (JArr l) = Some a -> shape KSliceAny (JArr l).

  (* ---- one field: decode the member(s), encode the field, normalise what is emitted ---- *)
  Definition enc_field (f : fdesc) (v : gval) : res (option json) :=
    if fd_omit f && is_empty v then Ok None
    else e <- encode_val cenc (fd_kind f) v ;; Ok (Some e).

  Definition field_out (m : members) (f : fdesc) : res (option json) :=
    v <- dec_member O cdec (fd_kind f) (jfind_all (fd_key f) m) ;;
    oe <- enc_field f v ;;
    match oe with
    | None => Ok None
    | Some e => match norm renum e with Some a => Ok (Some a) | None => Err "number" end
    end.

  Definition emit (m : members) (fs : list fdesc) : members :=
    flat_map (fun f => match field_out m f with Ok (Some a) => [(fd_key f, a)] | _ => [] end) fs.

  Lemma fields_loop m fs :
    Forall (fun f => exists oa, field_out m f = Ok oa) fs ->
    exists vs em, dec_fields O cdec fs m = Ok vs /\ enc_fields cenc fs vs = Ok em /\
                  norm_members renum em = Some (emit m fs).
  Proof.
    induction 1 as [|[g key omit k] t Hf Ht IH].
    - exists [], []. simpl. auto.
    - destruct IH as (vs & em & Hd & He & Hn). destruct Hf as (oa & Hf).
      unfold field_out in Hf. simpl in Hf.
      apply bind_ok in Hf. destruct Hf as (v & Hv & Hf). apply bind_ok in Hf. destruct Hf as (oe & Hoe & Hf).
      unfold emit. simpl. unfold field_out at 1. simpl. rewrite Hv. simpl. rewrite Hoe. simpl.
      exists (v :: vs). unfold enc_field in Hoe. simpl in Hoe.
      simpl. rewrite Hv, Hd. simpl. rewrite He. simpl.
      destruct (omit && is_empty v).
      + inversion Hoe. subst oe. exists em. auto.
      + apply bind_ok in Hoe. destruct Hoe as (e & Hee & Hoe). inversion Hoe. subst oe.
        rewrite Hee. simpl. destruct (norm renum e) as [a|] eqn:Ea; [|discriminate].
        exists ((key, e) :: em). split; [reflexivity|]. split; [reflexivity|].
        simpl. rewrite Ea. fold (emit m t). rewrite Hn. reflexivity.
  Qed.

  Lemma jget_emit_notin m fs k : ~ In k (field_keys fs) -> jget k (emit m fs) = None.
  Proof.
    induction fs as [|f t IH]; simpl; intros Hn; [reflexivity|].
    unfold emit. simpl. fold (emit m t).
    destruct (field_out m f) as [[a|]| | |]; simpl; try (apply IH; tauto).
    destruct (String.eqb (fd_key f) k) eqn:E; [apply String.eqb_eq in E; tauto|apply IH; tauto].
  Qed.

  Lemma jget_emit m fs f : NoDup (field_keys fs) -> In f fs ->
    jget (fd_key f) (emit m fs) = match field_out m f with Ok (Some a) => Some a | _ => None end.
  Proof.
    induction fs as [|f' t IH]; simpl; intros Hnd Hin; [tauto|].
    inversion Hnd as [|? ? Hn Hnd']; subst.
    unfold emit. simpl. fold (emit m t).
    destruct Hin as [->|Hin].
    - destruct (field_out m f) as [[a|]| | |]; simpl; try (apply jget_emit_notin; assumption).
      rewrite String.eqb_refl. reflexivity.
    - assert (Hne : fd_key f' <> fd_key f).
      { intros Heq. apply Hn. rewrite Heq. apply in_map. assumption. }
      destruct (field_out m f') as [[a|]| | |]; simpl; try (apply IH; assumption).
      apply String.eqb_neq in Hne. rewrite Hne. apply IH; assumption.
  Qed.

  Lemma keys_emit m fs : incl (keys (emit m fs)) (field_keys fs).
  Proof.
    induction fs as [|f t IH]; simpl; [intros x []|].
    unfold emit. simpl. fold (emit m t).
    destruct (field_out m f) as [[a|]| | |]; simpl; intros x Hx; try (right; apply IH; assumption).
    destruct Hx as [<-|Hx]; [left; reflexivity|right; apply IH; assumption].
  Qed.

  Lemma nodup_emit m fs : NoDup (field_keys fs) -> NoDup (keys (emit m fs)).
  Proof.
    induction fs as [|f t IH]; simpl; intros Hnd; [constructor|].
    inversion Hnd as [|? ? Hn Hnd']; subst.
    unfold emit. simpl. fold (emit m t).
    destruct (field_out m f) as [[a|]| | |]; simpl; try (apply IH; assumption).
    constructor; [|apply IH; assumption].
    intros Hin. apply Hn. apply (keys_emit m t). assumption.
  Qed.

  (* ---- plain kinds: the member comes back equal up to norm ---- *)
  Definition val_ok (k : kind) (j : json) : Prop :=
    exists v e a, decode_val O cdec k j = Ok v /\ encode_val cenc k v = Ok e /\
                  norm renum e = Some a /\ norm renum j = Some a /\
                  (nonempty k j -> is_empty v = false).

  Lemma field_out_present FK m f v :
    NoDup (map fold_str FK) -> In (fd_key f) FK -> incl (keys m) FK -> NoDup (keys m) ->
    jget (fd_key f) m = Some v -> val_ok (fd_kind f) v -> (fd_omit f = true -> nonempty (fd_kind f) v) ->
    exists a, field_out m f = Ok (Some a) /\ norm renum v = Some a.
  Proof.
    intros Hfk Hin Hincl Hnd Hget (gv & e & a & Hd & He & Hne & Hnj & Hemp) Hnon.
    exists a. split; [|assumption].
    unfold field_out. rewrite (jfind_all_exact FK) by assumption. rewrite Hget. simpl. rewrite Hd. simpl.
    unfold enc_field. destruct (fd_omit f) eqn:Eo; simpl.
    - rewrite (Hemp (Hnon eq_refl)). rewrite He. simpl. rewrite Hne. reflexivity.
    - rewrite He. simpl. rewrite Hne. reflexivity.
  Qed.

  Lemma field_out_absent FK m f :
    NoDup (map fold_str FK) -> In (fd_key f) FK -> incl (keys m) FK -> NoDup (keys m) ->
    jget (fd_key f) m = None -> fd_omit f = true -> is_empty (zero (fd_kind f)) = true ->
    field_out m f = Ok None.
  Proof.
    intros Hfk Hin Hincl Hnd Hget Ho Hz.
    unfold field_out. rewrite (jfind_all_exact FK) by assumption. rewrite Hget. simpl.
    unfold enc_field. rewrite Ho, Hz. reflexivity.
  Qed.

  Lemma plain_val_ok k : plain k = true -> forall j, shape k j -> val_ok k j.
  Proof.
    induction k as [| | | | | | fs IH | fs IH | | fs IH | | | | | c | n] using kind_ind'; intros Hp j Hs; try discriminate Hp.
    - (* KString *) inversion Hs; subst. exists (VStr s), (JStr s), (JStr s). repeat split; try reflexivity.
      simpl. intros Hne. destruct (String.eqb s "") eqn:E; [apply String.eqb_eq in E; subst; tauto|reflexivity].
    - (* KPtrString *) inversion Hs; subst. exists (VOptStr (Some s)), (JStr s), (JStr s). repeat split; reflexivity.
    - (* KPtrInt *) inversion Hs; subst. exists (VOptInt (Some z)), (JNum (NInt z)), (JNum n).
      simpl. rewrite H0, H1. repeat split; reflexivity.
    - (* KPtrBool *) inversion Hs; subst. exists (VOptBool (Some b)), (JBool b), (JBool b). repeat split; reflexivity.
    - (* KUint64 *) inversion Hs; subst. exists (VUint z), (JNum (NInt z)), (JNum n).
      simpl. rewrite H0, H1. repeat split; try reflexivity.
      intros Hne. destruct (Z.eqb z 0) eqn:E; [apply Z.eqb_eq in E; subst; tauto|reflexivity].
    - (* KStruct *) inversion Hs as [| | | | | |fs' m Hnd Hincl Hf| | | | |]; subst.
      simpl in Hp. apply andb_true_iff in Hp. destruct Hp as [Hpf Hfk].
      apply plain_struct_fields in Hpf. unfold fold_keys_nodup in Hfk. apply str_nodup_NoDup in Hfk.
      assert (Hall : Forall (fun f => exists oa, field_out m f = Ok oa /\
                      match jget (fd_key f) m with
                      | Some v => exists a, oa = Some a /\ norm renum v = Some a
                      | None => oa = None end) fs).
      { rewrite Forall_forall in *. intros f Hin. specialize (Hf f Hin). specialize (IH f Hin). specialize (Hpf f Hin).
        assert (Hk : In (fd_key f) (field_keys fs)) by (apply in_map; assumption).
        destruct Hf as [(G & Ho & Hz)|(v & G & Hsh & Hne)]; rewrite G.
        - exists None. split; [|reflexivity]. eapply field_out_absent; eauto.
        - destruct (field_out_present (field_keys fs) m f v) as (a & Ha & Hna); eauto. }
      destruct (fields_loop m fs) as (vs & em & Hd & He & Hn).
      { eapply Forall_impl; [|exact Hall]. intros f (oa & H1 & _). eauto. }
      assert (Hnm : exists nm, norm_members renum m = Some nm /\ msort (emit m fs) = msort nm).
      { (* every member of m is a field with a normalisable value *)
        assert (Hvals : forall k v, jget k m = Some v -> exists a, norm renum v = Some a).
        { intros k v G. assert (In k (field_keys fs)) as Hk by (apply Hincl; apply (in_map fst) in G || idtac; apply jget_some_in in G; apply (in_map fst) in G; exact G).
          apply in_map_iff in Hk. destruct Hk as (f & Hfk' & Hin). rewrite Forall_forall in Hall. destruct (Hall f Hin) as (oa & _ & H2).
          rewrite Hfk' in H2. rewrite G in H2. destruct H2 as (a & _ & Ha). eauto. }
        assert (Hex : exists nm, norm_members renum m = Some nm).
        { clear - Hvals Hnd. induction m as [|[k v] t IHm]; [exists []; reflexivity|].
          inversion Hnd as [|? ? Hn Hnd']; subst. simpl.
          destruct (Hvals k v) as (a & Ha); [simpl; rewrite String.eqb_refl; reflexivity|]. rewrite Ha.
          destruct IHm as (nt & Hnt); [assumption| |rewrite Hnt; eauto].
          intros k' v' G. apply (Hvals k' v'). simpl. destruct (String.eqb k k') eqn:E; [|assumption].
          apply String.eqb_eq in E. subst. exfalso. apply Hn. apply jget_some_in in G. apply (in_map fst) in G. exact G. }
        destruct Hex as (nm & Hnm). exists nm. split; [assumption|].
        apply msort_ext. intros k.
        assert (NDfk : NoDup (field_keys fs)) by (eapply NoDup_map_inv; eauto).
        rewrite !jget_last_nodup; [| rewrite (keys_norm_members _ _ _ Hnm); assumption | apply nodup_emit; assumption].
        rewrite (jget_norm_members _ _ _ Hnm).
        destruct (in_dec string_dec k (field_keys fs)) as [Hk|Hk].
        - apply in_map_iff in Hk. destruct Hk as (f & <- & Hin). rewrite jget_emit by assumption.
          rewrite Forall_forall in Hall. destruct (Hall f Hin) as (oa & H1 & H2). rewrite H1.
          destruct (jget (fd_key f) m) as [v|].
          + destruct H2 as (a & -> & Ha). symmetry. assumption.
          + subst oa. reflexivity.
        - rewrite jget_emit_notin by assumption. rewrite jget_notin; [reflexivity|]. intros Hin. apply Hk, Hincl, Hin. }
      destruct Hnm as (nm & Hnm & Hsort).
      exists (VStruct vs), (JObj em), (JObj (msort nm)).
      rewrite decode_struct_obj, Hd. simpl. split; [reflexivity|].
      rewrite encode_struct_eq, He. simpl. split; [reflexivity|].
      rewrite !norm_obj, Hn, Hnm, Hsort. repeat split; reflexivity.
    - (* KPtrStruct *) inversion Hs as [| | | | | | |fs' m Hnd Hincl Hf| | | |]; subst.
      simpl in Hp. apply andb_true_iff in Hp. destruct Hp as [Hpf Hfk].
      apply plain_struct_fields in Hpf. unfold fold_keys_nodup in Hfk. apply str_nodup_NoDup in Hfk.
      assert (Hall : Forall (fun f => exists oa, field_out m f = Ok oa /\
                      match jget (fd_key f) m with
                      | Some v => exists a, oa = Some a /\ norm renum v = Some a
                      | None => oa = None end) fs).
      { rewrite Forall_forall in *. intros f Hin. specialize (Hf f Hin). specialize (IH f Hin). specialize (Hpf f Hin).
        assert (Hk : In (fd_key f) (field_keys fs)) by (apply in_map; assumption).
        destruct Hf as [(G & Ho & Hz)|(v & G & Hsh & Hne)]; rewrite G.
        - exists None. split; [|reflexivity]. eapply field_out_absent; eauto.
        - destruct (field_out_present (field_keys fs) m f v) as (a & Ha & Hna); eauto. }
      destruct (fields_loop m fs) as (vs & em & Hd & He & Hn).
      { eapply Forall_impl; [|exact Hall]. intros f (oa & H1 & _). eauto. }
      assert (Hnm : exists nm, norm_members renum m = Some nm /\ msort (emit m fs) = msort nm).
      { assert (Hvals : forall k v, jget k m = Some v -> exists a, norm renum v = Some a).
        { intros k v G. assert (In k (field_keys fs)) as Hk by (apply Hincl; apply jget_some_in in G; apply (in_map fst) in G; exact G).
          apply in_map_iff in Hk. destruct Hk as (f & Hfk' & Hin). rewrite Forall_forall in Hall. destruct (Hall f Hin) as (oa & _ & H2).
          rewrite Hfk' in H2. rewrite G in H2. destruct H2 as (a & _ & Ha). eauto. }
        assert (Hex : exists nm, norm_members renum m = Some nm).
        { clear - Hvals Hnd. induction m as [|[k v] t IHm]; [exists []; reflexivity|].
          inversion Hnd as [|? ? Hn Hnd']; subst. simpl.
          destruct (Hvals k v) as (a & Ha); [simpl; rewrite String.eqb_refl; reflexivity|]. rewrite Ha.
          destruct IHm as (nt & Hnt); [assumption| |rewrite Hnt; eauto].
          intros k' v' G. apply (Hvals k' v'). simpl. destruct (String.eqb k k') eqn:E; [|assumption].
          apply String.eqb_eq in E. subst. exfalso. apply Hn. apply jget_some_in in G. apply (in_map fst) in G. exact G. }
        destruct Hex as (nm & Hnm). exists nm. split; [assumption|].
        apply msort_ext. intros k.
        assert (NDfk : NoDup (field_keys fs)) by (eapply NoDup_map_inv; eauto).
        rewrite !jget_last_nodup; [| rewrite (keys_norm_members _ _ _ Hnm); assumption | apply nodup_emit; assumption].
        rewrite (jget_norm_members _ _ _ Hnm).
        destruct (in_dec string_dec k (field_keys fs)) as [Hk|Hk].
        - apply in_map_iff in Hk. destruct Hk as (f & <- & Hin). rewrite jget_emit by assumption.
          rewrite Forall_forall in Hall. destruct (Hall f Hin) as (oa & H1 & H2). rewrite H1.
          destruct (jget (fd_key f) m) as [v|].
          + destruct H2 as (a & -> & Ha). symmetry. assumption.
          + subst oa. reflexivity.
        - rewrite jget_emit_notin by assumption. rewrite jget_notin; [reflexivity|]. intros Hin. apply Hk, Hincl, Hin. }
      destruct Hnm as (nm & Hnm & Hsort).
      exists (VOptStruct (Some vs)), (JObj em), (JObj (msort nm)).
      rewrite decode_ptrstruct_obj, Hd. simpl. split; [reflexivity|].
      rewrite encode_ptrstruct_eq, He. simpl. split; [reflexivity|].
      rewrite !norm_obj, Hn, Hnm, Hsort. repeat split; reflexivity.
    - (* KSliceString *) inversion Hs; subst. exists (VStrs (Some l)), (JArr (map JStr l)), (JArr (map JStr l)).
      simpl decode_val. rewrite map_res_strs. simpl. split; [reflexivity|]. split; [reflexivity|].
      rewrite norm_arr. unfold norm_list. rewrite map_opt_norm_strs. repeat split; try reflexivity.
      intros Hne. destruct l; [simpl in Hne; tauto|reflexivity].
    - (* KAny *) inversion Hs; subst. exists (VAny (Some a)), a, a.
      assert (Hd : decode_val O cdec KAny j = Ok (VAny (Some a))).
      { simpl. destruct j; try tauto; unfold dec_any; rewrite H0; reflexivity. }
      rewrite Hd. repeat split; try reflexivity; try assumption.
      eapply norm_idem; eauto.
    - (* KMapAny *) inversion Hs; subst.
      pose proof H0 as Hn. rewrite norm_obj in Hn. destruct (norm_members renum m) as [nm|] eqn:Enm; [|discriminate].
      inversion Hn. subst a.
      exists (VMap (Some (msort nm))), (JObj (msort nm)), (JObj (msort nm)).
      simpl decode_val. unfold dec_any. rewrite H0. simpl. repeat split; try reflexivity; try assumption.
      + eapply norm_idem; eauto.
      + intros Hne. simpl. destruct (msort nm) eqn:Ems; [|reflexivity].
        apply msort_nil_inv in Ems. subst nm. destruct m as [|[k v] t]; [simpl in Hne; tauto|].
        simpl in Enm. destruct (norm renum v); [|discriminate]. destruct (norm_members renum t); discriminate.
    - (* KSliceAny *) inversion Hs; subst.
      pose proof H0 as Hn. rewrite norm_arr in Hn. destruct (norm_list renum l) as [nl|] eqn:Enl; [|discriminate].
      inversion Hn. subst a.
      exists (VAnys (Some nl)), (JArr nl), (JArr nl).
      simpl decode_val. unfold dec_any. rewrite H0. simpl. repeat split; try reflexivity; try assumption.
      + eapply norm_idem; eauto.
      + intros Hne. simpl. destruct nl; [|reflexivity]. destruct l as [|x t]; [simpl in Hne; tauto|].
        unfold norm_list in Enl. simpl in Enl. destruct (norm renum x); [|discriminate]. destruct (map_opt (norm renum) t); discriminate.
  Qed.
End Lossless.
