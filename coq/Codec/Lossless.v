(* Codec/Lossless.v — decode followed by encode preserves every member of a document of
   the supported shape, up to: member order, JSON null for an absent optional, the
   float64 spelling of numbers, and the RFC 3339 spelling of a *time.Time member.
   Generic in the descriptors; the side conditions are boolean checks on them. *)
From Coq Require Import ZArith List String Ascii Bool Lia.
From GSP Require Import Base.Prelude Codec.Desc Codec.Json Codec.Time Codec.Model Codec.JsonTheory Codec.Theory.
Import ListNotations.
Open Scope string_scope.
Open Scope list_scope.

Definition field_keys (fs : list fdesc) : list string := map fd_key fs.
Definition fold_keys_nodup (fs : list fdesc) : bool := str_nodup (map fold_str (field_keys fs)).

(* kinds for which JSON null means "absent" when the field is omitempty *)
Definition nullable (k : kind) : bool :=
  match k with KPtrString | KPtrInt | KPtrBool | KPtrTime | KPtrStruct _ | KAny => true | _ => false end.
Definition is_time (k : kind) : bool := match k with KPtrTime => true | _ => false end.

(* kinds through which a value passes unchanged up to Json.norm (no time, no custom codec) *)
Fixpoint plain (k : kind) : bool :=
  match k with
  | KString | KPtrString | KPtrInt | KPtrBool | KUint64 | KSliceString | KAny | KMapAny | KSliceAny => true
  | KStruct fs | KPtrStruct fs =>
      (fix go (fs : list fdesc) : bool :=
         match fs with [] => true | FD _ _ _ k' :: t => plain k' && go t end) fs && fold_keys_nodup fs
  | _ => false
  end.

(* a present member of an omitempty field must not be the empty value (it would be dropped) *)
Definition nonempty (k : kind) (j : json) : Prop :=
  match k with
  | KString => j <> JStr ""
  | KUint64 => j <> JNum (NInt 0)
  | KSliceString | KSliceAny => j <> JArr []
  | KMapAny => j <> JObj []
  | _ => True
  end.

Lemma plain_struct_fields fs :
  (fix go (fs : list fdesc) : bool :=
     match fs with [] => true | FD _ _ _ k' :: t => plain k' && go t end) fs = true ->
  Forall (fun f => plain (fd_kind f) = true) fs.
Proof.
  induction fs as [|[g key o k] t IH]; intros H; constructor.
  - simpl. apply andb_true_iff in H. tauto.
  - apply IH. apply andb_true_iff in H. tauto.
Qed.

(* ---- string list membership ---- *)
Lemma str_mem_in k l : str_mem k l = true <-> In k l.
Proof.
  induction l as [|a t IH]; simpl; [split; [discriminate|tauto]|].
  rewrite orb_true_iff, IH, String.eqb_eq. tauto.
Qed.

Lemma str_nodup_NoDup l : str_nodup l = true -> NoDup l.
Proof.
  induction l as [|a t IH]; simpl; intros H; constructor.
  - apply andb_true_iff in H. destruct H as [H _]. intros Hin. apply str_mem_in in Hin.
    rewrite Hin in H. discriminate.
  - apply IH. apply andb_true_iff in H. tauto.
Qed.

Lemma NoDup_map_inj {A B} (f : A -> B) l x y :
  NoDup (map f l) -> In x l -> In y l -> f x = f y -> x = y.
Proof.
  induction l as [|a t IH]; simpl; intros Hnd Hx Hy Hf; [tauto|].
  inversion Hnd as [|? ? Hn Hnd']; subst.
  destruct Hx as [->|Hx], Hy as [->|Hy]; auto.
  - exfalso. apply Hn. rewrite Hf. apply in_map. assumption.
  - exfalso. apply Hn. rewrite <- Hf. apply in_map. assumption.
Qed.

Lemma NoDup_map_inv {A B} (f : A -> B) l : NoDup (map f l) -> NoDup l.
Proof.
  induction l as [|a t IH]; simpl; intros H; constructor; inversion H; subst.
  - intros Hin. apply H2. apply in_map. assumption.
  - auto.
Qed.

(* member lookup by field key when member names are field keys *)
Lemma jfind_all_exact FK key m :
  NoDup (map fold_str FK) -> In key FK -> incl (keys m) FK -> NoDup (keys m) ->
  jfind_all key m = match jget key m with Some v => [v] | None => [] end.
Proof.
  intros Hfk Hkey. induction m as [|[a v] t IH]; simpl; intros Hincl Hnd; [reflexivity|].
  inversion Hnd as [|? ? Hn Hnd']; subst.
  assert (Ha : In a FK) by (apply Hincl; simpl; auto).
  assert (Hincl' : incl (keys t) FK) by (intros x Hx; apply Hincl; simpl; auto).
  unfold fold_eqb. destruct (String.eqb (fold_str a) (fold_str key)) eqn:E.
  - apply String.eqb_eq in E. assert (a = key) as -> by (eapply NoDup_map_inj; eauto).
    rewrite String.eqb_refl. rewrite IH by assumption.
    rewrite jget_notin by assumption. reflexivity.
  - destruct (String.eqb a key) eqn:E2.
    + apply String.eqb_eq in E2. subst. rewrite String.eqb_refl in E. discriminate.
    + apply IH; assumption.
Qed.

Lemma jget_norm_members renum m : forall nm, norm_members renum m = Some nm ->
  forall k, jget k nm = match jget k m with Some v => norm renum v | None => None end.
Proof.
  induction m as [|[a v] t IH]; intros nm H k; simpl in H.
  - inversion H. reflexivity.
  - destruct (norm renum v) eqn:Ev; [|discriminate]. destruct (norm_members renum t) eqn:Et; [|discriminate].
    inversion H. subst nm. simpl. destruct (String.eqb a k); [symmetry; assumption|apply IH; reflexivity].
Qed.

Lemma keys_norm_members renum m : forall nm, norm_members renum m = Some nm -> keys nm = keys m.
Proof.
  induction m as [|[a v] t IH]; intros nm H; simpl in H.
  - inversion H. reflexivity.
  - destruct (norm renum v); [|discriminate]. destruct (norm_members renum t) eqn:Et; [|discriminate].
    inversion H. simpl. f_equal. apply IH. reflexivity.
Qed.

Lemma msort_nil_inv m : msort m = [] -> m = [].
Proof.
  destruct m as [|[a v] t]; [reflexivity|]. intros H. exfalso.
  assert (G : jget a (msort ((a, v) :: t)) <> None).
  { rewrite jget_msort. unfold jget_last. simpl.
    assert (F : forall l acc, acc <> None -> fold_left (jupd a) l acc <> None).
    { induction l as [|[b w] l IHl]; intros acc Hacc; simpl; [assumption|].
      apply IHl. unfold jupd; simpl. destruct (String.eqb b a); [discriminate|assumption]. }
    apply F. unfold jupd; simpl. rewrite String.eqb_refl. discriminate. }
  rewrite H in G. apply G. reflexivity.
Qed.

Lemma map_opt_norm_strs renum l : map_opt (norm renum) (map JStr l) = Some (map JStr l).
Proof. induction l as [|s t IH]; simpl; [reflexivity|]. rewrite IH. reflexivity. Qed.

Lemma map_res_strs l :
  map_res (fun e => match e with JStr s => Ok s | JNull => Ok "" | _ => Err "type" end) (map JStr l) = Ok l.
Proof. induction l as [|s t IH]; simpl; [reflexivity|]. rewrite IH. reflexivity. Qed.

Section Lossless.
  Variable O : oracles.
  Variable cdec : custom -> json -> res gval.
  Variable cenc : custom -> gval -> res json.
  Notation renum := (o_renum O).
  Hypothesis renum_idem : forall n n', renum n = Some n' -> renum n' = Some n'.
  (* time.Time: printing a parsed time and parsing it again gives the same time *)
  Hypothesis time_rt : forall s t s', parse_time s = Some t -> format_time t = Some s' -> parse_time s' = Some t.

  (* ---- the supported shape of a member value, by kind ---- *)
  Inductive shape : kind -> json -> Prop :=
  | sh_string s : shape KString (JStr s)
  | sh_pstring s : shape KPtrString (JStr s)
  | sh_pint z n : int64_ok z = true -> renum (NInt z) = Some n -> shape KPtrInt (JNum (NInt z))
  | sh_pbool b : shape KPtrBool (JBool b)
  | sh_uint z n : uint64_ok z = true -> renum (NInt z) = Some n -> shape KUint64 (JNum (NInt z))
  | sh_time s t s' : parse_time s = Some t -> format_time t = Some s' -> shape KPtrTime (JStr s)
  | sh_struct fs m : NoDup (keys m) -> incl (keys m) (field_keys fs) ->
      Forall (fun f => (jget (fd_key f) m = None /\ fd_omit f = true /\ is_empty (zero (fd_kind f)) = true) \/
                       (exists v, jget (fd_key f) m = Some v /\ shape (fd_kind f) v /\
                                  (fd_omit f = true -> nonempty (fd_kind f) v))) fs ->
      shape (KStruct fs) (JObj m)
  | sh_pstruct fs m : NoDup (keys m) -> incl (keys m) (field_keys fs) ->
      Forall (fun f => (jget (fd_key f) m = None /\ fd_omit f = true /\ is_empty (zero (fd_kind f)) = true) \/
                       (exists v, jget (fd_key f) m = Some v /\ shape (fd_kind f) v /\
                                  (fd_omit f = true -> nonempty (fd_kind f) v))) fs ->
      shape (KPtrStruct fs) (JObj m)
  | sh_strs l : shape KSliceString (JArr (map JStr l))
  | sh_any j a : j <> JNull -> norm renum j = Some a -> shape KAny j
  | sh_map m a : norm renum (JObj m) = Some a -> shape KMapAny (JObj m)
  | sh_anys l a : norm renum (JArr l) = Some a -> shape KSliceAny (JArr l).

  (* ---- one field: decode the member(s), encode the field, normalise what is emitted ---- *)
  Definition enc_field (f : fdesc) (v : gval) : res (option json) :=
    if fd_omit f && is_empty v then Ok None
    else e <- encode_val cenc (fd_kind f) v ;; Ok (Some e).

  Definition field_out (m : members) (f : fdesc) : res (option json) :=
    v <- dec_member O cdec (fd_kind f) (jfind_all (fd_key f) m) ;;
    oe <- enc_field f v ;;
    match oe with
    | None => Ok None
    | Some e => match norm renum e with Some a => Ok (Some a) | None => Err "number" end
    end.

  Definition emit (m : members) (fs : list fdesc) : members :=
    flat_map (fun f => match field_out m f with Ok (Some a) => [(fd_key f, a)] | _ => [] end) fs.

  Lemma fields_loop m fs :
    Forall (fun f => exists oa, field_out m f = Ok oa) fs ->
    exists vs em, dec_fields O cdec fs m = Ok vs /\ enc_fields cenc fs vs = Ok em /\
                  norm_members renum em = Some (emit m fs).
  Proof.
    induction 1 as [|[g key omit k] t Hf Ht IH].
    - exists [], []. simpl. auto.
    - destruct IH as (vs & em & Hd & He & Hn). destruct Hf as (oa & Hf).
      pose proof Hf as Hf0.
      unfold field_out in Hf. cbn [fd_kind fd_key fd_omit] in Hf.
      apply bind_ok in Hf. destruct Hf as (v & Hv & Hf). apply bind_ok in Hf. destruct Hf as (oe & Hoe & Hf).
      assert (Hemit : emit m (FD g key omit k :: t) =
                      match oa with Some a => [(key, a)] | None => [] end ++ emit m t).
      { unfold emit. cbn [flat_map]. rewrite Hf0. destruct oa; reflexivity. }
      assert (Hdec : dec_fields O cdec (FD g key omit k :: t) m = Ok (v :: vs)).
      { cbn [dec_fields]. rewrite Hv. cbn [bind]. rewrite Hd. reflexivity. }
      exists (v :: vs). rewrite Hdec, Hemit.
      cbn [enc_fields]. rewrite He. cbn [bind].
      unfold enc_field in Hoe. cbn [fd_kind fd_key fd_omit] in Hoe.
      destruct (omit && is_empty v).
      + inversion Hoe. subst oe. inversion Hf. subst oa. exists em. simpl. auto.
      + apply bind_ok in Hoe. destruct Hoe as (e & Hee & Hoe). inversion Hoe. subst oe.
        rewrite Hee. cbn [bind]. destruct (norm renum e) as [a|] eqn:Ea; [|discriminate].
        inversion Hf. subst oa.
        exists ((key, e) :: em). split; [reflexivity|]. split; [reflexivity|].
        simpl. rewrite Ea, Hn. reflexivity.
  Qed.

  Lemma jget_emit_notin m fs k : ~ In k (field_keys fs) -> jget k (emit m fs) = None.
  Proof.
    induction fs as [|f t IH]; simpl; intros Hn; [reflexivity|].
    unfold emit. simpl. fold (emit m t).
    destruct (field_out m f) as [[a|]| | |]; simpl; try (apply IH; tauto).
    destruct (String.eqb (fd_key f) k) eqn:E; [apply String.eqb_eq in E; tauto|apply IH; tauto].
  Qed.

  Lemma jget_emit m fs f : NoDup (field_keys fs) -> In f fs ->
    jget (fd_key f) (emit m fs) = match field_out m f with Ok (Some a) => Some a | _ => None end.
  Proof.
    induction fs as [|f' t IH]; simpl; intros Hnd Hin; [tauto|].
    inversion Hnd as [|? ? Hn Hnd']; subst.
    unfold emit. simpl. fold (emit m t).
    destruct Hin as [->|Hin].
    - destruct (field_out m f) as [[a|]| | |]; simpl; try (apply jget_emit_notin; assumption).
      rewrite String.eqb_refl. reflexivity.
    - assert (Hne : fd_key f' <> fd_key f).
      { intros Heq. apply Hn. rewrite Heq. apply in_map. assumption. }
      destruct (field_out m f') as [[a|]| | |]; simpl; try (apply IH; assumption).
      apply String.eqb_neq in Hne. rewrite Hne. apply IH; assumption.
  Qed.

  Lemma keys_emit m fs : incl (keys (emit m fs)) (field_keys fs).
  Proof.
    induction fs as [|f t IH]; simpl; [intros x []|].
    unfold emit. simpl. fold (emit m t).
    destruct (field_out m f) as [[a|]| | |]; simpl; intros x Hx; try (right; apply IH; assumption).
    destruct Hx as [<-|Hx]; [left; reflexivity|right; apply IH; assumption].
  Qed.

  Lemma nodup_emit m fs : NoDup (field_keys fs) -> NoDup (keys (emit m fs)).
  Proof.
    induction fs as [|f t IH]; simpl; intros Hnd; [constructor|].
    inversion Hnd as [|? ? Hn Hnd']; subst.
    unfold emit. simpl. fold (emit m t).
    destruct (field_out m f) as [[a|]| | |]; simpl; try (apply IH; assumption).
    constructor; [|apply IH; assumption].
    intros Hin. apply Hn. apply (keys_emit m t). assumption.
  Qed.

  (* ---- plain kinds: the member comes back equal up to norm ---- *)
  Definition val_ok (k : kind) (j : json) : Prop :=
    exists v e a, decode_val O cdec k j = Ok v /\ encode_val cenc k v = Ok e /\
                  norm renum e = Some a /\ norm renum j = Some a /\
                  (nonempty k j -> is_empty v = false).

  Lemma field_out_present FK m f v :
    NoDup (map fold_str FK) -> In (fd_key f) FK -> incl (keys m) FK -> NoDup (keys m) ->
    jget (fd_key f) m = Some v -> val_ok (fd_kind f) v -> (fd_omit f = true -> nonempty (fd_kind f) v) ->
    exists a, field_out m f = Ok (Some a) /\ norm renum v = Some a.
  Proof.
    intros Hfk Hin Hincl Hnd Hget (gv & e & a & Hd & He & Hne & Hnj & Hemp) Hnon.
    exists a. split; [|assumption].
    unfold field_out. rewrite (jfind_all_exact FK) by assumption. rewrite Hget. simpl. rewrite Hd. simpl.
    unfold enc_field. destruct (fd_omit f) eqn:Eo; simpl.
    - rewrite (Hemp (Hnon eq_refl)). rewrite He. simpl. rewrite Hne. reflexivity.
    - rewrite He. simpl. rewrite Hne. reflexivity.
  Qed.

  Lemma field_out_absent FK m f :
    NoDup (map fold_str FK) -> In (fd_key f) FK -> incl (keys m) FK -> NoDup (keys m) ->
    jget (fd_key f) m = None -> fd_omit f = true -> is_empty (zero (fd_kind f)) = true ->
    field_out m f = Ok None.
  Proof.
    intros Hfk Hin Hincl Hnd Hget Ho Hz.
    unfold field_out. rewrite (jfind_all_exact FK) by assumption. rewrite Hget. simpl.
    unfold enc_field. rewrite Ho, Hz. reflexivity.
  Qed.

  Lemma plain_val_ok k : plain k = true -> forall j, shape k j -> val_ok k j.
  Proof.
    induction k as [| | | | | | fs IH | fs IH | | fs IH | | | | | c | n] using kind_ind'; intros Hp j Hs; try discriminate Hp.
    - (* KString *) inversion Hs; subst. exists (VStr s), (JStr s), (JStr s). repeat split; try reflexivity.
      simpl. intros Hne. destruct (String.eqb s "") eqn:E; [apply String.eqb_eq in E; subst; tauto|reflexivity].
    - (* KPtrString *) inversion Hs; subst. exists (VOptStr (Some s)), (JStr s), (JStr s). repeat split; reflexivity.
    - (* KPtrInt *) inversion Hs as [| |z n Hz Hr| | | | | | | | |]; subst. exists (VOptInt (Some z)), (JNum (NInt z)), (JNum n).
      simpl. rewrite Hz, Hr. repeat split; reflexivity.
    - (* KPtrBool *) inversion Hs; subst. exists (VOptBool (Some b)), (JBool b), (JBool b). repeat split; reflexivity.
    - (* KUint64 *) inversion Hs as [| | | |z n Hz Hr| | | | | | |]; subst. exists (VUint z), (JNum (NInt z)), (JNum n).
      simpl. rewrite Hz, Hr. repeat split; try reflexivity.
      intros Hne. destruct (Z.eqb z 0) eqn:E; [apply Z.eqb_eq in E; subst; tauto|reflexivity].
    - (* KStruct *) inversion Hs as [| | | | | |fs' m Hnd Hincl Hf| | | | |]; subst.
      simpl in Hp. apply andb_true_iff in Hp. destruct Hp as [Hpf Hfk].
      apply plain_struct_fields in Hpf. unfold fold_keys_nodup in Hfk. apply str_nodup_NoDup in Hfk.
      assert (Hall : Forall (fun f => exists oa, field_out m f = Ok oa /\
                      match jget (fd_key f) m with
                      | Some v => exists a, oa = Some a /\ norm renum v = Some a
                      | None => oa = None end) fs).
      { rewrite Forall_forall in *. intros f Hin. specialize (Hf f Hin). specialize (IH f Hin). specialize (Hpf f Hin).
        assert (Hk : In (fd_key f) (field_keys fs)) by (apply in_map; assumption).
        destruct Hf as [(G & Ho & Hz)|(v & G & Hsh & Hne)]; rewrite G.
        - exists None. split; [|reflexivity]. eapply field_out_absent; eauto.
        - destruct (field_out_present (field_keys fs) m f v) as (a & Ha & Hna); eauto. }
      destruct (fields_loop m fs) as (vs & em & Hd & He & Hn).
      { eapply Forall_impl; [|exact Hall]. intros f (oa & H1 & _). eauto. }
      assert (Hnm : exists nm, norm_members renum m = Some nm /\ msort (emit m fs) = msort nm).
      { (* every member of m is a field with a normalisable value *)
        assert (Hvals : forall k v, jget k m = Some v -> exists a, norm renum v = Some a).
        { intros k v G. assert (In k (field_keys fs)) as Hk by (apply Hincl; apply (in_map fst) in G || idtac; apply jget_some_in in G; apply (in_map fst) in G; exact G).
          apply in_map_iff in Hk. destruct Hk as (f & Hfk' & Hin). rewrite Forall_forall in Hall. destruct (Hall f Hin) as (oa & _ & H2).
          rewrite Hfk' in H2. rewrite G in H2. destruct H2 as (a & _ & Ha). eauto. }
        assert (Hex : exists nm, norm_members renum m = Some nm).
        { clear - Hvals Hnd. induction m as [|[k v] t IHm]; [exists []; reflexivity|].
          inversion Hnd as [|? ? Hn Hnd']; subst. simpl.
          destruct (Hvals k v) as (a & Ha); [simpl; rewrite String.eqb_refl; reflexivity|]. rewrite Ha.
          destruct IHm as (nt & Hnt); [assumption| |rewrite Hnt; eauto].
          intros k' v' G. apply (Hvals k' v'). simpl. destruct (String.eqb k k') eqn:E; [|assumption].
          apply String.eqb_eq in E. subst. exfalso. apply Hn. apply jget_some_in in G. apply (in_map fst) in G. exact G. }
        destruct Hex as (nm & Hnm). exists nm. split; [assumption|].
        apply msort_ext. intros k.
        assert (NDfk : NoDup (field_keys fs)) by (eapply NoDup_map_inv; eauto).
        rewrite !jget_last_nodup; [| rewrite (keys_norm_members _ _ _ Hnm); assumption | apply nodup_emit; assumption].
        rewrite (jget_norm_members _ _ _ Hnm).
        destruct (in_dec string_dec k (field_keys fs)) as [Hk|Hk].
        - apply in_map_iff in Hk. destruct Hk as (f & <- & Hin). rewrite jget_emit by assumption.
          rewrite Forall_forall in Hall. destruct (Hall f Hin) as (oa & H1 & H2). rewrite H1.
          destruct (jget (fd_key f) m) as [v|].
          + destruct H2 as (a & -> & Ha). symmetry. assumption.
          + subst oa. reflexivity.
        - rewrite jget_emit_notin by assumption. rewrite jget_notin; [reflexivity|]. intros Hin. apply Hk, Hincl, Hin. }
      destruct Hnm as (nm & Hnm & Hsort).
      exists (VStruct vs), (JObj em), (JObj (msort nm)).
      rewrite decode_struct_obj, Hd. cbn [bind]. split; [reflexivity|].
      rewrite encode_struct_eq, He. cbn [bind]. split; [reflexivity|].
      rewrite !norm_obj, Hn, Hnm, Hsort. split; [reflexivity|]. split; [reflexivity|]. intros _. reflexivity.
    - (* KPtrStruct *) inversion Hs as [| | | | | | |fs' m Hnd Hincl Hf| | | |]; subst.
      simpl in Hp. apply andb_true_iff in Hp. destruct Hp as [Hpf Hfk].
      apply plain_struct_fields in Hpf. unfold fold_keys_nodup in Hfk. apply str_nodup_NoDup in Hfk.
      assert (Hall : Forall (fun f => exists oa, field_out m f = Ok oa /\
                      match jget (fd_key f) m with
                      | Some v => exists a, oa = Some a /\ norm renum v = Some a
                      | None => oa = None end) fs).
      { rewrite Forall_forall in *. intros f Hin. specialize (Hf f Hin). specialize (IH f Hin). specialize (Hpf f Hin).
        assert (Hk : In (fd_key f) (field_keys fs)) by (apply in_map; assumption).
        destruct Hf as [(G & Ho & Hz)|(v & G & Hsh & Hne)]; rewrite G.
        - exists None. split; [|reflexivity]. eapply field_out_absent; eauto.
        - destruct (field_out_present (field_keys fs) m f v) as (a & Ha & Hna); eauto. }
      destruct (fields_loop m fs) as (vs & em & Hd & He & Hn).
      { eapply Forall_impl; [|exact Hall]. intros f (oa & H1 & _). eauto. }
      assert (Hnm : exists nm, norm_members renum m = Some nm /\ msort (emit m fs) = msort nm).
      { assert (Hvals : forall k v, jget k m = Some v -> exists a, norm renum v = Some a).
        { intros k v G. assert (In k (field_keys fs)) as Hk by (apply Hincl; apply jget_some_in in G; apply (in_map fst) in G; exact G).
          apply in_map_iff in Hk. destruct Hk as (f & Hfk' & Hin). rewrite Forall_forall in Hall. destruct (Hall f Hin) as (oa & _ & H2).
          rewrite Hfk' in H2. rewrite G in H2. destruct H2 as (a & _ & Ha). eauto. }
        assert (Hex : exists nm, norm_members renum m = Some nm).
        { clear - Hvals Hnd. induction m as [|[k v] t IHm]; [exists []; reflexivity|].
          inversion Hnd as [|? ? Hn Hnd']; subst. simpl.
          destruct (Hvals k v) as (a & Ha); [simpl; rewrite String.eqb_refl; reflexivity|]. rewrite Ha.
          destruct IHm as (nt & Hnt); [assumption| |rewrite Hnt; eauto].
          intros k' v' G. apply (Hvals k' v'). simpl. destruct (String.eqb k k') eqn:E; [|assumption].
          apply String.eqb_eq in E. subst. exfalso. apply Hn. apply jget_some_in in G. apply (in_map fst) in G. exact G. }
        destruct Hex as (nm & Hnm). exists nm. split; [assumption|].
        apply msort_ext. intros k.
        assert (NDfk : NoDup (field_keys fs)) by (eapply NoDup_map_inv; eauto).
        rewrite !jget_last_nodup; [| rewrite (keys_norm_members _ _ _ Hnm); assumption | apply nodup_emit; assumption].
        rewrite (jget_norm_members _ _ _ Hnm).
        destruct (in_dec string_dec k (field_keys fs)) as [Hk|Hk].
        - apply in_map_iff in Hk. destruct Hk as (f & <- & Hin). rewrite jget_emit by assumption.
          rewrite Forall_forall in Hall. destruct (Hall f Hin) as (oa & H1 & H2). rewrite H1.
          destruct (jget (fd_key f) m) as [v|].
          + destruct H2 as (a & -> & Ha). symmetry. assumption.
          + subst oa. reflexivity.
        - rewrite jget_emit_notin by assumption. rewrite jget_notin; [reflexivity|]. intros Hin. apply Hk, Hincl, Hin. }
      destruct Hnm as (nm & Hnm & Hsort).
      exists (VOptStruct (Some vs)), (JObj em), (JObj (msort nm)).
      rewrite decode_ptrstruct_obj, Hd. cbn [bind]. split; [reflexivity|].
      rewrite encode_ptrstruct_eq, He. cbn [bind]. split; [reflexivity|].
      rewrite !norm_obj, Hn, Hnm, Hsort. split; [reflexivity|]. split; [reflexivity|]. intros _. reflexivity.
    - (* KSliceString *) inversion Hs; subst. exists (VStrs (Some l)), (JArr (map JStr l)), (JArr (map JStr l)).
      split. { simpl decode_val. rewrite map_res_strs. reflexivity. }
      split; [reflexivity|].
      rewrite norm_arr. unfold norm_list. rewrite map_opt_norm_strs.
      split; [reflexivity|]. split; [reflexivity|].
      intros Hne. destruct l; [simpl in Hne; tauto|reflexivity].
    - (* KAny *) inversion Hs as [| | | | | | | | |j' a Hnn Hnorm| |]; subst. exists (VAny (Some a)), a, a.
      assert (Hd : decode_val O cdec KAny j = Ok (VAny (Some a))).
      { simpl. destruct j; try tauto; unfold dec_any; rewrite Hnorm; reflexivity. }
      rewrite Hd. split; [reflexivity|]. split; [reflexivity|].
      split; [eapply norm_idem; eauto|]. split; [assumption|]. intros _. reflexivity.
    - (* KMapAny *) inversion Hs as [| | | | | | | | | |m a Hnorm|]; subst.
      pose proof Hnorm as Hn. rewrite norm_obj in Hn. destruct (norm_members renum m) as [nm|] eqn:Enm; [|discriminate].
      inversion Hn. subst a.
      exists (VMap (Some (msort nm))), (JObj (msort nm)), (JObj (msort nm)).
      split. { simpl decode_val. unfold dec_any. rewrite Hnorm. reflexivity. }
      split; [reflexivity|]. split; [eapply norm_idem; eauto|]. split; [assumption|].
      intros Hne. simpl. destruct (msort nm) eqn:Ems; [|reflexivity].
      apply msort_nil_inv in Ems. subst nm. destruct m as [|[k v] t]; [simpl in Hne; tauto|].
      simpl in Enm. destruct (norm renum v); [|discriminate]. destruct (norm_members renum t); discriminate.
    - (* KSliceAny *) inversion Hs as [| | | | | | | | | | |l a Hnorm]; subst.
      pose proof Hnorm as Hn. rewrite norm_arr in Hn. destruct (norm_list renum l) as [nl|] eqn:Enl; [|discriminate].
      inversion Hn. subst a.
      exists (VAnys (Some nl)), (JArr nl), (JArr nl).
      split. { simpl decode_val. unfold dec_any. rewrite Hnorm. reflexivity. }
      split; [reflexivity|]. split; [eapply norm_idem; eauto|]. split; [assumption|].
      intros Hne. simpl. destruct nl; [|reflexivity]. destruct l as [|x t]; [simpl in Hne; tauto|].
      unfold norm_list in Enl. simpl in Enl. destruct (norm renum x); [|discriminate]. destruct (map_opt (norm renum) t); discriminate.
  Qed.

  (* ================================================================ *)
  (* The whole document: fields whose key is in D are deleted before merklizing *)
  Variable D : list string.

  (* the document handed to the merklizer (Model.merklize_doc, for any cenc) *)
  Definition mdoc (fs : list fdesc) (vs : list gval) : res json :=
    b <- encode_val cenc (KStruct fs) (VStruct vs) ;;
    m <- as_map O b ;;
    Ok (JObj (msort (jremove_all D m))).

  (* side condition on the descriptors (a boolean, evaluated on the generated list):
     names distinct up to case; every field that is not deleted is of a lossless kind *)
  Definition top_ok (fs : list fdesc) : bool :=
    fold_keys_nodup fs &&
    forallb (fun f => str_mem (fd_key f) D || plain (fd_kind f) || is_time (fd_kind f)) fs.

  (* the supported shape of one top-level member *)
  Definition top_field_ok (m : members) (f : fdesc) : Prop :=
    if str_mem (fd_key f) D
    then (* deleted member: it only has to be accepted by the codec *)
         exists oa, field_out m f = Ok oa
    else (jget (fd_key f) m = None /\ fd_omit f = true /\ is_empty (zero (fd_kind f)) = true) \/
         (jget (fd_key f) m = Some JNull /\ fd_omit f = true /\ nullable (fd_kind f) = true) \/
         (exists v, jget (fd_key f) m = Some v /\ shape (fd_kind f) v /\
                    (fd_omit f = true -> nonempty (fd_kind f) v)).

  Definition top_shape (fs : list fdesc) (j : json) : Prop :=
    exists m, j = JObj m /\ NoDup (keys m) /\ incl (keys m) (field_keys fs) /\
              Forall (top_field_ok m) fs /\
              (forall k v, In k D -> jget k m = Some v -> exists a, norm renum v = Some a).

  Definition time_key (fs : list fdesc) (k : string) : bool :=
    existsb (fun f => String.eqb (fd_key f) k && is_time (fd_kind f)) fs.

  (* same instant, same zone: two spellings of one time.Time *)
  Definition same_time (x y : option json) : Prop :=
    (x = None /\ y = None) \/
    exists s s' t, x = Some (JStr s') /\ y = Some (JStr s) /\ parse_time s = Some t /\ parse_time s' = Some t.

  Lemma nullable_null k : nullable k = true ->
    decode_val O cdec k JNull = Ok (zero k) /\ is_empty (zero k) = true.
  Proof. destruct k; intros H; try discriminate H; split; reflexivity. Qed.

  Lemma jget_filter_keep k m : jget k (filter (keep_out D) m) = if str_mem k D then None else jget k m.
  Proof.
    induction m as [|[a v] t IH]; simpl; [destruct (str_mem k D); reflexivity|].
    unfold keep_out at 1. simpl. destruct (str_mem a D) eqn:Ea; simpl.
    - rewrite IH. destruct (String.eqb a k) eqn:E; [|reflexivity].
      apply String.eqb_eq in E. subst. rewrite Ea. reflexivity.
    - destruct (String.eqb a k) eqn:E; [|assumption].
      apply String.eqb_eq in E. subst. rewrite Ea. reflexivity.
  Qed.

  Lemma nodup_filter_keys (p : string * json -> bool) m : NoDup (keys m) -> NoDup (keys (filter p m)).
  Proof.
    induction m as [|[a v] t IH]; simpl; intros H; [constructor|].
    inversion H as [|? ? Hn Hnd]; subst. destruct (p (a, v)); simpl; [constructor|]; auto.
    intros Hin. apply Hn. clear - Hin. induction t as [|[b w] t IHt]; simpl in *; [tauto|].
    destruct (p (b, w)); simpl in *; tauto.
  Qed.

  Lemma shape_not_null k v : shape k v -> v <> JNull.
  Proof. intros H; inversion H; subst; try discriminate; assumption. Qed.

  Theorem top_lossless fs j :
    top_ok fs = true -> top_shape fs j ->
    exists vs d r,
      decode_struct O cdec fs j = Ok vs /\
      mdoc fs vs = Ok (JObj d) /\
      reference_doc O D j = Ok (JObj r) /\
      forall k, if time_key fs k then same_time (jget_nn k d) (jget_nn k r)
                else jget_nn k d = jget_nn k r.
  Proof.
    intros Hok (m & -> & Hnd & Hincl & Hf & Hdel).
    unfold top_ok in Hok. apply andb_true_iff in Hok. destruct Hok as [Hfk Hkinds].
    unfold fold_keys_nodup in Hfk. apply str_nodup_NoDup in Hfk.
    assert (NDfk : NoDup (field_keys fs)) by (eapply NoDup_map_inv; eauto).
    rewrite forallb_forall in Hkinds.
    (* per field: what is emitted, related to the member of the original *)
    assert (Hall : Forall (fun f => exists oa, field_out m f = Ok oa /\
               (str_mem (fd_key f) D = false ->
                match jget (fd_key f) m with
                | None => oa = None
                | Some v => (v = JNull /\ oa = None) \/
                            (is_time (fd_kind f) = false /\ exists a, oa = Some a /\ norm renum v = Some a) \/
                            (is_time (fd_kind f) = true /\ exists s s' t, v = JStr s /\ oa = Some (JStr s') /\
                                parse_time s = Some t /\ parse_time s' = Some t)
                end)) fs).
    { rewrite Forall_forall in *. intros f Hin. specialize (Hf f Hin). specialize (Hkinds f Hin).
      assert (Hk : In (fd_key f) (field_keys fs)) by (apply in_map; assumption).
      unfold top_field_ok in Hf. destruct (str_mem (fd_key f) D) eqn:Ed.
      - destruct Hf as (oa & Hoa). exists oa. split; [assumption|discriminate].
      - simpl in Hkinds. destruct Hf as [(G & Ho & Hz)|[(G & Ho & Hnl)|(v & G & Hsh & Hne)]]; rewrite G.
        + exists None. split; [eapply field_out_absent; eauto|reflexivity].
        + exists None. split; [|intros _; left; auto].
          unfold field_out. rewrite (jfind_all_exact (field_keys fs)) by assumption. rewrite G.
          cbn [dec_member]. destruct (nullable_null _ Hnl) as [Hd Hz]. rewrite Hd. cbn [bind].
          unfold enc_field. rewrite Ho, Hz. reflexivity.
        + destruct (is_time (fd_kind f)) eqn:Et.
          * destruct (fd_kind f) eqn:Ek; try discriminate Et.
            inversion Hsh as [| | | | |s t s' Hp Hfm| | | | | |]; subst.
            exists (Some (JStr s')). split.
            -- unfold field_out. rewrite (jfind_all_exact (field_keys fs)) by assumption. rewrite G.
               rewrite Ek. cbn [dec_member decode_val]. rewrite Hp. cbn [bind].
               unfold enc_field. rewrite Ek. cbn [is_empty]. rewrite andb_false_r. cbn [encode_val]. rewrite Hfm. reflexivity.
            -- intros _. right. right. split; [reflexivity|]. exists s, s', t. repeat split; try assumption.
               eapply time_rt; eauto.
          * rewrite orb_false_r in Hkinds.
            destruct (field_out_present (field_keys fs) m f v) as (a & Ha & Hna); eauto.
            { apply plain_val_ok; assumption. }
            exists (Some a). split; [assumption|]. intros _. right. left. split; [reflexivity|]. eauto. }
    destruct (fields_loop m fs) as (vs & em & Hd & He & Hn).
    { eapply Forall_impl; [|exact Hall]. intros f (oa & H1 & _). eauto. }
    (* the original normalises *)
    assert (Hex : exists nm, norm_members renum m = Some nm).
    { assert (Hvals : forall k v, jget k m = Some v -> exists a, norm renum v = Some a).
      { intros k v G. assert (In k (field_keys fs)) as Hk by (apply Hincl; apply jget_some_in in G; apply (in_map fst) in G; exact G).
        apply in_map_iff in Hk. destruct Hk as (f & Hfk' & Hin). rewrite Forall_forall in Hall. destruct (Hall f Hin) as (oa & _ & H2).
        destruct (str_mem (fd_key f) D) eqn:Ed.
        - apply (Hdel k v); [|assumption]. apply str_mem_in. rewrite <- Hfk'. assumption.
        - specialize (H2 eq_refl). rewrite Hfk' in H2. rewrite G in H2.
          destruct H2 as [(-> & _)|[(_ & a & _ & Ha)|(_ & s & s' & t & -> & _)]]; [exists JNull; reflexivity|eauto|exists (JStr s); reflexivity]. }
      clear - Hvals Hnd. induction m as [|[k v] t IHm]; [exists []; reflexivity|].
      inversion Hnd as [|? ? Hn Hnd']; subst. simpl.
      destruct (Hvals k v) as (a & Ha); [simpl; rewrite String.eqb_refl; reflexivity|]. rewrite Ha.
      destruct IHm as (nt & Hnt); [assumption| |rewrite Hnt; eauto].
      intros k' v' G. apply (Hvals k' v'). simpl. destruct (String.eqb k k') eqn:E; [|assumption].
      apply String.eqb_eq in E. subst. exfalso. apply Hn. apply jget_some_in in G. apply (in_map fst) in G. exact G. }
    destruct Hex as (nm & Hnm).
    exists vs, (msort (jremove_all D (emit m fs))), (msort (jremove_all D nm)).
    split. { unfold decode_struct. rewrite decode_fields_eq. assumption. }
    split. { unfold mdoc. rewrite encode_struct_eq, He. cbn [bind as_map of_option]. rewrite Hn. reflexivity. }
    split. { unfold reference_doc. cbn [as_map]. rewrite Hnm. reflexivity. }
    intros k.
    assert (Hd1 : jget k (msort (jremove_all D (emit m fs))) = if str_mem k D then None else jget k (emit m fs)).
    { rewrite jget_msort, jremove_all_filter, jget_last_nodup, jget_filter_keep; [reflexivity|].
      apply nodup_filter_keys, nodup_emit, NDfk. }
    assert (Hd2 : jget k (msort (jremove_all D nm)) = if str_mem k D then None else jget k nm).
    { rewrite jget_msort, jremove_all_filter, jget_last_nodup, jget_filter_keep; [reflexivity|].
      apply nodup_filter_keys. rewrite (keys_norm_members _ _ _ Hnm). assumption. }
    unfold jget_nn. rewrite Hd1, Hd2. rewrite (jget_norm_members _ _ _ Hnm).
    destruct (str_mem k D) eqn:EkD.
    { destruct (time_key fs k); [left; auto|reflexivity]. }
    destruct (in_dec string_dec k (field_keys fs)) as [Hk|Hk].
    - apply in_map_iff in Hk. destruct Hk as (f & <- & Hin).
      assert (Htk : time_key fs (fd_key f) = is_time (fd_kind f)).
      { unfold time_key. destruct (is_time (fd_kind f)) eqn:Et.
        - apply existsb_exists. exists f. rewrite String.eqb_refl, Et. auto.
        - destruct (existsb _ fs) eqn:Ex; [|reflexivity]. apply existsb_exists in Ex.
          destruct Ex as (f' & Hin' & Hx). apply andb_true_iff in Hx. destruct Hx as [Hx1 Hx2].
          apply String.eqb_eq in Hx1. assert (f' = f) by (eapply (NoDup_map_inj fd_key); eauto). subst. congruence. }
      rewrite Htk. rewrite jget_emit by assumption.
      rewrite Forall_forall in Hall. destruct (Hall f Hin) as (oa & H1 & H2). rewrite H1. specialize (H2 EkD).
      destruct (jget (fd_key f) m) as [v|].
      + destruct H2 as [(-> & ->)|[(Et & a & -> & Ha)|(Et & s & s' & t & -> & -> & Hp & Hp')]].
        * simpl. destruct (is_time (fd_kind f)); [left; auto|reflexivity].
        * rewrite Et, Ha. reflexivity.
        * rewrite Et. simpl. right. exists s, s', t. auto.
      + subst oa. destruct (is_time (fd_kind f)); [left; auto|reflexivity].
    - assert (Htk : time_key fs k = false).
      { unfold time_key. destruct (existsb _ fs) eqn:Ex; [|reflexivity]. apply existsb_exists in Ex.
        destruct Ex as (f' & Hin' & Hx). apply andb_true_iff in Hx. destruct Hx as [Hx1 _].
        apply String.eqb_eq in Hx1. exfalso. apply Hk. rewrite <- Hx1. apply in_map. assumption. }
      rewrite Htk. rewrite jget_emit_notin by assumption.
      rewrite jget_notin; [reflexivity|]. intros Hin. apply Hk, Hincl, Hin.
  Qed.
End Lossless.
