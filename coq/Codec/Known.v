(* Codec/Known.v — the three known proof structs survive extractProof's path
   (re-marshal of the generic map, hand-written decoder) after an encode:
   discharges the hypothesis [known_rt] of Codec/Roundtrip.v for the descriptors of
   this run. *)
From Coq Require Import ZArith List String Ascii Bool Lia.
From GSP Require Import Base.Prelude Codec.Desc Codec.Json Codec.Time Codec.TimeTheory Codec.Model
  Codec.JsonTheory Codec.Theory Codec.Lossless Codec.Roundtrip Codec.Inst Generated.Structs.
Import ListNotations.
Open Scope string_scope.
Open Scope list_scope.

(* the shapes of the wire / full structs the hand model of dec_known was written for *)
Definition wire_sig : list fdesc :=
  [FD "Type" "type" false KString; FD "IssuerData" "issuerData" false KRaw;
   FD "CoreClaim" "coreClaim" false KString; FD "Signature" "signature" false KString].
Definition full_sig (ifs : list fdesc) : list fdesc :=
  [FD "Type" "type" false KString; FD "IssuerData" "issuerData" false (KStruct ifs);
   FD "CoreClaim" "coreClaim" false KString; FD "Signature" "signature" false KString].
Definition wire_mtp : list fdesc :=
  [FD "Type" "type" false KString; FD "IssuerData" "issuerData" false KRaw;
   FD "CoreClaim" "coreClaim" false KString; FD "MTP" "mtp" false KRaw].
Definition full_mtp (ifs : list fdesc) : list fdesc :=
  [FD "Type" "type" false KString; FD "IssuerData" "issuerData" false (KStruct ifs);
   FD "CoreClaim" "coreClaim" false KString; FD "MTP" "mtp" false (KCustom CuPtrMtProof)].

Section Known.
  Variable O : oracles.
  Notation renum := (o_renum O).
  Hypothesis renum_idem : forall n n', renum n = Some n' -> renum n' = Some n'.
  Hypothesis mtp_idem : forall j p, o_mtp O j = Some p -> p <> JNull /\ o_mtp O p = Some p.
  Hypothesis mtp_normal : forall j p, o_mtp O j = Some p -> norm renum p = Some p.

  Variable ifs : list fdesc.
  Hypothesis ifs_kn : kn_kind (KStruct ifs) = true.
  Hypothesis ifs_nice : nice (KStruct ifs) = true.

  (* the issuerData struct through the map *)
  Lemma issuer_rtn r iss ei :
    normal renum r -> decode_struct O (cdec0 O) ifs r = Ok iss ->
    encode_val cenc0 (KStruct ifs) (VStruct iss) = Ok ei ->
    exists ni, norm renum ei = Some ni /\ decode_struct O (cdec0 O) ifs ni = Ok iss.
  Proof.
    intros Hn Hd He.
    assert (Hr : reachN O (KStruct ifs) (VStruct iss)).
    { unfold decode_struct in Hd. destruct r; try discriminate Hd.
      - inversion Hd. left. rewrite zero_struct. reflexivity.
      - rewrite decode_fields_eq in Hd. right. exists (JObj m). split; [assumption|].
        rewrite decode_struct_obj, Hd. reflexivity. }
    assert (Hc : canon ctrue (KStruct ifs) (VStruct iss)).
    { apply (reach_canon O (cdec0 O) ctrue (custom_empty0 O) custom_canon0); [assumption|].
      apply reachN_reach. assumption. }
    destruct (rtn_all O renum_idem time_roundtrip mtp_idem mtp_normal _ ifs_kn _ Hr Hc _ He) as (n & Hnn & Hdn).
    exists n. split; [assumption|].
    rewrite encode_struct_eq in He. apply bind_ok in He. destruct He as (em & _ & He). inversion He. subst ei.
    rewrite norm_obj in Hnn. destruct (norm_members renum em); [|discriminate]. inversion Hnn. subst n.
    unfold decode_struct. rewrite decode_fields_eq.
    rewrite decode_struct_obj in Hdn. apply bind_ok in Hdn. destruct Hdn as (x & Hx & Hdn). inversion Hdn. subst. assumption.
  Qed.

  Lemma dec_member_string js v : dec_member O (cdec0 O) KString js = Ok v -> exists s, v = VStr s.
  Proof.
    unfold dec_member. destruct js as [|j [|j' t]].
    - intros H. inversion H. subst. eauto.
    - destruct j; simpl; intros H; inversion H; subst; eauto.
    - cbn [seq_kind keep_on_null zero].
      assert (G : forall l cur, (exists s, cur = VStr s) -> forall v', dup_apply (decode_val O (cdec0 O) KString) true cur l = Ok v' -> exists s, v' = VStr s).
      { induction l as [|x l IH]; intros cur Hc v' H; simpl in H.
        - inversion H. subst. assumption.
        - destruct x; simpl in H; try discriminate H; (eapply IH; [|exact H]); eauto. }
      apply G. eauto.
  Qed.

  Lemma dec_member_raw js v : dec_member O (cdec0 O) KRaw js = Ok v ->
    (js = [] /\ v = VRaw None) \/ (exists r, js = [r] /\ v = VRaw (Some r)).
  Proof.
    unfold dec_member. destruct js as [|j [|j' t]]; intros H.
    - inversion H. subst. left. auto.
    - simpl in H. inversion H. subst. right. eauto.
    - discriminate H.
  Qed.

  Lemma jfind_all_normal key m : normal renum (JObj m) -> Forall (normal renum) (jfind_all key m).
  Proof. intros H. apply jfind_all_values. apply normal_obj_values. assumption. Qed.

  (* ---- BJJSignatureProof2021 ---- *)
  Section Sig.
    Variable g c : string.
    Let pd := mk_pdesc wire_sig (full_sig ifs) c.

    Lemma dec_known_sig_inv a v : norm renum a = Some a -> dec_known O g pd a = Ok v ->
      exists r iss cc sg,
        normal renum r /\ decode_struct O (cdec0 O) ifs r = Ok iss /\
        o_claim O cc = true /\ o_sig O sg = true /\
        v = VKnownProof g [VStr c; VStruct iss; VStr cc; VStr sg].
    Proof.
      intros Hn H. pose proof (norm_normal _ renum_idem _ _ Hn) as Hna.
      unfold dec_known in H. apply bind_ok in H. destruct H as (w & Hw & H).
      unfold pd, mk_pdesc in Hw, H. cbn [pd_wire pd_full pd_const] in Hw, H.
      unfold decode_struct in Hw. destruct a as [| | | | |m]; try discriminate Hw.
      { inversion Hw. subst w. cbv in H. destruct c; discriminate H. }
      rewrite decode_fields_eq in Hw. unfold wire_sig in Hw. cbn [dec_fields] in Hw.
      apply bind_ok in Hw. destruct Hw as (v1 & Hv1 & Hw). apply bind_ok in Hw. destruct Hw as (r1 & Hr1 & Hw).
      apply bind_ok in Hr1. destruct Hr1 as (v2 & Hv2 & Hr1). apply bind_ok in Hr1. destruct Hr1 as (r2 & Hr2 & Hr1).
      apply bind_ok in Hr2. destruct Hr2 as (v3 & Hv3 & Hr2). apply bind_ok in Hr2. destruct Hr2 as (r3 & Hr3 & Hr2).
      apply bind_ok in Hr3. destruct Hr3 as (v4 & Hv4 & Hr3). apply bind_ok in Hr3. destruct Hr3 as (r4 & Hr4 & Hr3).
      inversion Hr4. subst r4. inversion Hr3. subst r3. inversion Hr2. subst r2. inversion Hr1. subst r1. inversion Hw. subst w.
      destruct (dec_member_string _ _ Hv1) as (ty & ->). destruct (dec_member_string _ _ Hv3) as (cc & ->).
      destruct (dec_member_string _ _ Hv4) as (sg & ->).
      change (wire_get wire_sig [VStr ty; v2; VStr cc; VStr sg] "type") with (VStr ty) in H.
      change (wire_get wire_sig [VStr ty; v2; VStr cc; VStr sg] "issuerData") with v2 in H.
      change (wire_get wire_sig [VStr ty; v2; VStr cc; VStr sg] "coreClaim") with (VStr cc) in H.
      cbn beta iota in H.
      destruct (String.eqb ty c) eqn:Ety; [|discriminate H]. apply String.eqb_eq in Ety. subst ty. cbn [negb] in H.
      destruct (dec_member_raw _ _ Hv2) as [(_ & ->)|(r & Hjr & ->)]; [discriminate H|].
      change (field_index "issuerData" (full_sig ifs)) with (Some 1%nat) in H. cbn beta iota in H.
      change (fd_kind (nth 1 (full_sig ifs) (FD "" "" false KRaw))) with (KStruct ifs) in H. cbn beta iota in H.
      apply bind_ok in H. destruct H as (iss & Hiss & H).
      destruct (o_claim O cc) eqn:Ecl; [|discriminate H]. cbn [negb] in H.
      apply bind_ok in H. destruct H as (rest & Hrest & H). inversion H. subst v.
      unfold full_sig in Hrest. cbn [map_res fd_key] in Hrest.
      change (wire_get wire_sig [VStr c; VRaw (Some r); VStr cc; VStr sg] "signature") with (VStr sg) in Hrest.
      cbv [String.eqb Ascii.eqb Bool.eqb] in Hrest. cbn beta iota in Hrest.
      destruct (o_sig O sg) eqn:Esg; [|discriminate Hrest]. cbn [bind] in Hrest. inversion Hrest. subst rest.
      exists r, iss, cc, sg. repeat split; try assumption.
      pose proof (jfind_all_normal "issuerData" m Hna) as Hf. rewrite Hjr in Hf. inversion Hf. assumption.
    Qed.

    Definition sorted_sig (ni : json) (cc sg : string) : members :=
      [("coreClaim", JStr cc); ("issuerData", ni); ("signature", JStr sg); ("type", JStr c)].

    Lemma dec_known_sig_fwd ni iss cc sg :
      decode_struct O (cdec0 O) ifs ni = Ok iss -> o_claim O cc = true -> o_sig O sg = true ->
      dec_known O g pd (JObj (sorted_sig ni cc sg)) = Ok (VKnownProof g [VStr c; VStruct iss; VStr cc; VStr sg]).
    Proof.
      intros Hd Hc Hs. unfold dec_known, pd, mk_pdesc. cbn [pd_wire pd_full pd_const].
      unfold decode_struct at 1. rewrite decode_fields_eq. unfold wire_sig at 1. cbn [dec_fields].
      assert (F1 : jfind_all "type" (sorted_sig ni cc sg) = [JStr c]) by (vm_compute; reflexivity).
      assert (F2 : jfind_all "issuerData" (sorted_sig ni cc sg) = [ni]) by (vm_compute; reflexivity).
      assert (F3 : jfind_all "coreClaim" (sorted_sig ni cc sg) = [JStr cc]) by (vm_compute; reflexivity).
      assert (F4 : jfind_all "signature" (sorted_sig ni cc sg) = [JStr sg]) by (vm_compute; reflexivity).
      rewrite F1, F2, F3, F4. cbn [dec_member decode_val bind].
      change (wire_get wire_sig [VStr c; VRaw (Some ni); VStr cc; VStr sg] "type") with (VStr c).
      change (wire_get wire_sig [VStr c; VRaw (Some ni); VStr cc; VStr sg] "issuerData") with (VRaw (Some ni)).
      change (wire_get wire_sig [VStr c; VRaw (Some ni); VStr cc; VStr sg] "coreClaim") with (VStr cc).
      cbn beta iota. rewrite String.eqb_refl. cbn [negb].
      change (field_index "issuerData" (full_sig ifs)) with (Some 1%nat). cbn beta iota.
      change (fd_kind (nth 1 (full_sig ifs) (FD "" "" false KRaw))) with (KStruct ifs). cbn beta iota.
      rewrite Hd. cbn [bind]. rewrite Hc. cbn [negb].
      unfold full_sig. cbn [map_res fd_key].
      change (wire_get wire_sig [VStr c; VRaw (Some ni); VStr cc; VStr sg] "signature") with (VStr sg).
      cbv [String.eqb Ascii.eqb Bool.eqb]. cbn beta iota. rewrite Hs. reflexivity.
    Qed.

    Variable E : penv.
    Hypothesis Hpd : lookup_str g (pe_proofs E) = Some pd.
    Hypothesis Hdisp : lookup_str c (pe_dispatch E) = Some g.

    Lemma known_sig_rt a v e :
      norm renum a = Some a -> dec_known O g pd a = Ok v ->
      enc_proof E v = Ok e -> extract_proof O E e = Ok v.
    Proof.
      intros Hn Hk He.
      destruct (dec_known_sig_inv a v Hn Hk) as (r & iss & cc & sg & Hr & Hiss & Hcl & Hsg & ->).
      unfold enc_proof in He. rewrite Hpd in He. unfold encode_struct in He. rewrite encode_struct_eq in He.
      apply bind_ok in He. destruct He as (em & Hem & He). inversion He. subst e. clear He.
      unfold pd, mk_pdesc in Hem. cbn [pd_full] in Hem. unfold full_sig in Hem. cbn [enc_fields andb] in Hem.
      apply bind_ok in Hem. destruct Hem as (r1 & Hr1 & Hem).
      apply bind_ok in Hr1. destruct Hr1 as (r2 & Hr2 & Hr1).
      apply bind_ok in Hr2. destruct Hr2 as (r3 & Hr3 & Hr2).
      apply bind_ok in Hr3. destruct Hr3 as (r4 & Hr4 & Hr3).
      inversion Hr4. subst r4. clear Hr4.
      apply bind_ok in Hr3. destruct Hr3 as (e4 & He4 & Hr3). simpl in He4. inversion He4. subst e4. inversion Hr3. subst r3.
      apply bind_ok in Hr2. destruct Hr2 as (e3 & He3 & Hr2). simpl in He3. inversion He3. subst e3. inversion Hr2. subst r2.
      apply bind_ok in Hr1. destruct Hr1 as (ei & Hei & Hr1). inversion Hr1. subst r1.
      apply bind_ok in Hem. destruct Hem as (e1 & He1 & Hem). simpl in He1. inversion He1. subst e1. inversion Hem. subst em.
      destruct (issuer_rtn r iss ei Hr Hiss Hei) as (ni & Hni & Hdni).
      unfold extract_proof. unfold dec_any. rewrite norm_obj. cbn [norm_members]. rewrite Hni.
      change (norm renum (JStr c)) with (Some (JStr c)). change (norm renum (JStr cc)) with (Some (JStr cc)).
      change (norm renum (JStr sg)) with (Some (JStr sg)). cbn beta iota.
      assert (Hs : msort [("type", JStr c); ("issuerData", ni); ("coreClaim", JStr cc); ("signature", JStr sg)] = sorted_sig ni cc sg)
        by (vm_compute; reflexivity).
      rewrite Hs. cbn [of_option bind].
      assert (Ht : jget "type" (sorted_sig ni cc sg) = Some (JStr c)) by (vm_compute; reflexivity).
      rewrite Ht, Hdisp, Hpd. apply dec_known_sig_fwd; assumption.
    Qed.
  End Sig.

  (* ---- Iden3SparseMerkleProof / Iden3SparseMerkleTreeProof ---- *)
  Section Mtp.
    Variable g c : string.
    Let pd := mk_pdesc wire_mtp (full_mtp ifs) c.

    (* what decodeMTP gives for the raw mtp member *)
    Definition mtp_of_raw (o : option json) (pv : gval) : Prop :=
      match o with
      | None => pv = VMtp None
      | Some rm => dec_mtp O rm = Ok pv
      end.

    Lemma mtp_of_raw_form o pv : mtp_of_raw o pv ->
      pv = VMtp None \/ exists j p, pv = VMtp (Some p) /\ o_mtp O j = Some p.
    Proof.
      destruct o as [rm|]; simpl; [|auto]. unfold dec_mtp. intros H.
      destruct rm; try (inversion H; left; reflexivity);
        match type of H with context [o_mtp O ?x] => destruct (o_mtp O x) eqn:Em end;
        inversion H; right; eauto.
    Qed.

    Lemma dec_known_mtp_inv a v : norm renum a = Some a -> dec_known O g pd a = Ok v ->
      exists r iss cc o pv,
        normal renum r /\ decode_struct O (cdec0 O) ifs r = Ok iss /\
        o_claim O cc = true /\ mtp_of_raw o pv /\
        v = VKnownProof g [VStr c; VStruct iss; VStr cc; pv].
    Proof.
      intros Hn H. pose proof (norm_normal _ renum_idem _ _ Hn) as Hna.
      unfold dec_known in H. apply bind_ok in H. destruct H as (w & Hw & H).
      unfold pd, mk_pdesc in Hw, H. cbn [pd_wire pd_full pd_const] in Hw, H.
      unfold decode_struct in Hw. destruct a as [| | | | |m]; try discriminate Hw.
      { inversion Hw. subst w. cbv in H. destruct c; discriminate H. }
      rewrite decode_fields_eq in Hw. unfold wire_mtp in Hw. cbn [dec_fields] in Hw.
      apply bind_ok in Hw. destruct Hw as (v1 & Hv1 & Hw). apply bind_ok in Hw. destruct Hw as (r1 & Hr1 & Hw).
      apply bind_ok in Hr1. destruct Hr1 as (v2 & Hv2 & Hr1). apply bind_ok in Hr1. destruct Hr1 as (r2 & Hr2 & Hr1).
      apply bind_ok in Hr2. destruct Hr2 as (v3 & Hv3 & Hr2). apply bind_ok in Hr2. destruct Hr2 as (r3 & Hr3 & Hr2).
      apply bind_ok in Hr3. destruct Hr3 as (v4 & Hv4 & Hr3). apply bind_ok in Hr3. destruct Hr3 as (r4 & Hr4 & Hr3).
      inversion Hr4. subst r4. inversion Hr3. subst r3. inversion Hr2. subst r2. inversion Hr1. subst r1. inversion Hw. subst w.
      destruct (dec_member_string _ _ Hv1) as (ty & ->). destruct (dec_member_string _ _ Hv3) as (cc & ->).
      change (wire_get wire_mtp [VStr ty; v2; VStr cc; v4] "type") with (VStr ty) in H.
      change (wire_get wire_mtp [VStr ty; v2; VStr cc; v4] "issuerData") with v2 in H.
      change (wire_get wire_mtp [VStr ty; v2; VStr cc; v4] "coreClaim") with (VStr cc) in H.
      cbn beta iota in H.
      destruct (String.eqb ty c) eqn:Ety; [|discriminate H]. apply String.eqb_eq in Ety. subst ty. cbn [negb] in H.
      destruct (dec_member_raw _ _ Hv2) as [(_ & ->)|(r & Hjr & ->)]; [discriminate H|].
      change (field_index "issuerData" (full_mtp ifs)) with (Some 1%nat) in H. cbn beta iota in H.
      change (fd_kind (nth 1 (full_mtp ifs) (FD "" "" false KRaw))) with (KStruct ifs) in H. cbn beta iota in H.
      apply bind_ok in H. destruct H as (iss & Hiss & H).
      destruct (o_claim O cc) eqn:Ecl; [|discriminate H]. cbn [negb] in H.
      apply bind_ok in H. destruct H as (rest & Hrest & H). inversion H. subst v.
      unfold full_mtp in Hrest. cbn [map_res fd_key] in Hrest.
      change (wire_get wire_mtp [VStr c; VRaw (Some r); VStr cc; v4] "mtp") with v4 in Hrest.
      cbv [String.eqb Ascii.eqb Bool.eqb] in Hrest. cbn beta iota in Hrest.
      assert (Hr : normal renum r).
      { pose proof (jfind_all_normal "issuerData" m Hna) as Hf. rewrite Hjr in Hf. inversion Hf. assumption. }
      destruct (dec_member_raw _ _ Hv4) as [(_ & ->)|(rm & _ & ->)].
      - cbv [bind] in Hrest. injection Hrest as <-.
        exists r, iss, cc, None, (VMtp None). repeat split; assumption || reflexivity.
      - cbv [bind] in Hrest. destruct (dec_mtp O rm) as [pv| | |] eqn:Hpv; try discriminate Hrest. injection Hrest as <-.
        exists r, iss, cc, (Some rm), pv. repeat split; assumption.
    Qed.

    Definition sorted_mtp (ni : json) (cc : string) (np : json) : members :=
      [("coreClaim", JStr cc); ("issuerData", ni); ("mtp", np); ("type", JStr c)].

    Lemma dec_known_mtp_fwd ni iss cc np pv :
      decode_struct O (cdec0 O) ifs ni = Ok iss -> o_claim O cc = true -> dec_mtp O np = Ok pv ->
      dec_known O g pd (JObj (sorted_mtp ni cc np)) = Ok (VKnownProof g [VStr c; VStruct iss; VStr cc; pv]).
    Proof.
      intros Hd Hc Hp. unfold dec_known, pd, mk_pdesc. cbn [pd_wire pd_full pd_const].
      unfold decode_struct at 1. rewrite decode_fields_eq. unfold wire_mtp at 1. cbn [dec_fields].
      assert (F1 : jfind_all "type" (sorted_mtp ni cc np) = [JStr c]) by (vm_compute; reflexivity).
      assert (F2 : jfind_all "issuerData" (sorted_mtp ni cc np) = [ni]) by (vm_compute; reflexivity).
      assert (F3 : jfind_all "coreClaim" (sorted_mtp ni cc np) = [JStr cc]) by (vm_compute; reflexivity).
      assert (F4 : jfind_all "mtp" (sorted_mtp ni cc np) = [np]) by (vm_compute; reflexivity).
      rewrite F1, F2, F3, F4. cbn [dec_member decode_val bind].
      change (wire_get wire_mtp [VStr c; VRaw (Some ni); VStr cc; VRaw (Some np)] "type") with (VStr c).
      change (wire_get wire_mtp [VStr c; VRaw (Some ni); VStr cc; VRaw (Some np)] "issuerData") with (VRaw (Some ni)).
      change (wire_get wire_mtp [VStr c; VRaw (Some ni); VStr cc; VRaw (Some np)] "coreClaim") with (VStr cc).
      cbn beta iota. rewrite String.eqb_refl. cbn [negb].
      change (field_index "issuerData" (full_mtp ifs)) with (Some 1%nat). cbn beta iota.
      change (fd_kind (nth 1 (full_mtp ifs) (FD "" "" false KRaw))) with (KStruct ifs). cbn beta iota.
      rewrite Hd. cbn [bind]. rewrite Hc. cbn [negb].
      unfold full_mtp. cbn [map_res fd_key].
      change (wire_get wire_mtp [VStr c; VRaw (Some ni); VStr cc; VRaw (Some np)] "mtp") with (VRaw (Some np)).
      cbv [String.eqb Ascii.eqb Bool.eqb]. cbn beta iota. rewrite Hp. reflexivity.
    Qed.

    Variable E : penv.
    Hypothesis Hpd : lookup_str g (pe_proofs E) = Some pd.
    Hypothesis Hdisp : lookup_str c (pe_dispatch E) = Some g.

    Lemma known_mtp_rt a v e :
      norm renum a = Some a -> dec_known O g pd a = Ok v ->
      enc_proof E v = Ok e -> extract_proof O E e = Ok v.
    Proof.
      intros Hn Hk He.
      destruct (dec_known_mtp_inv a v Hn Hk) as (r & iss & cc & o & pv & Hr & Hiss & Hcl & Hpv & ->).
      unfold enc_proof in He. rewrite Hpd in He. unfold encode_struct in He. rewrite encode_struct_eq in He.
      apply bind_ok in He. destruct He as (em & Hem & He). inversion He. subst e. clear He.
      unfold pd, mk_pdesc in Hem. cbn [pd_full] in Hem. unfold full_mtp in Hem. cbn [enc_fields andb] in Hem.
      apply bind_ok in Hem. destruct Hem as (r1 & Hr1 & Hem).
      apply bind_ok in Hr1. destruct Hr1 as (r2 & Hr2 & Hr1).
      apply bind_ok in Hr2. destruct Hr2 as (r3 & Hr3 & Hr2).
      apply bind_ok in Hr3. destruct Hr3 as (r4 & Hr4 & Hr3).
      inversion Hr4. subst r4. clear Hr4.
      apply bind_ok in Hr3. destruct Hr3 as (ep & Hep & Hr3). inversion Hr3. subst r3.
      apply bind_ok in Hr2. destruct Hr2 as (e3 & He3 & Hr2). simpl in He3. inversion He3. subst e3. inversion Hr2. subst r2.
      apply bind_ok in Hr1. destruct Hr1 as (ei & Hei & Hr1). inversion Hr1. subst r1.
      apply bind_ok in Hem. destruct Hem as (e1 & He1 & Hem). simpl in He1. inversion He1. subst e1. inversion Hem. subst em.
      destruct (issuer_rtn r iss ei Hr Hiss Hei) as (ni & Hni & Hdni).
      (* the mtp member: null, or the canonical proof, which is normal and decodes to itself *)
      assert (Hmp : exists np, norm renum ep = Some np /\ dec_mtp O np = Ok pv).
      { destruct (mtp_of_raw_form _ _ Hpv) as [->|(j & p & -> & Hp)]; simpl in Hep; inversion Hep; subst ep.
        - exists JNull. split; reflexivity.
        - destruct (mtp_idem _ _ Hp) as [Hnn Hpp]. exists p. split; [eapply mtp_normal; eauto|].
          apply dec_mtp_some; assumption. }
      destruct Hmp as (np & Hnp & Hdnp).
      unfold extract_proof. unfold dec_any. rewrite norm_obj. cbn [norm_members]. rewrite Hni, Hnp.
      change (norm renum (JStr c)) with (Some (JStr c)). change (norm renum (JStr cc)) with (Some (JStr cc)).
      cbn beta iota.
      assert (Hs : msort [("type", JStr c); ("issuerData", ni); ("coreClaim", JStr cc); ("mtp", np)] = sorted_mtp ni cc np)
        by (vm_compute; reflexivity).
      rewrite Hs. cbn [of_option bind].
      assert (Ht : jget "type" (sorted_mtp ni cc np) = Some (JStr c)) by (vm_compute; reflexivity).
      rewrite Ht, Hdisp, Hpd. apply dec_known_mtp_fwd; assumption.
    Qed.
  End Mtp.
End Known.
