(* Codec/Json.v — JSON values as a tree, and the generic Go value
   (`interface{}` after json.Unmarshal) as the normal form of such a tree.
   No proofs here.

   Byte-level JSON (lexing, escapes, whitespace) is NOT modelled: a `json` is the
   parsed document.  Object members are kept in document order, duplicates allowed.
   Number literals: `NInt z` for literals that are an optional minus sign followed by digits (what
   strconv.ParseInt accepts among JSON numbers; "-0" is written NFlt), `NFlt bits`
   for every other literal, given by the IEEE-754 bits of its float64 value. *)
From Coq Require Import ZArith List String Ascii Bool.
From GSP Require Import Base.Prelude.
Import ListNotations.
Open Scope list_scope.

Inductive jnum := NInt (z : Z) | NFlt (bits : Z).

Inductive json :=
| JNull
| JBool (b : bool)
| JNum (n : jnum)
| JStr (s : string)
| JArr (l : list json)
| JObj (m : list (string * json)).

Definition jnum_eqb (a b : jnum) : bool :=
  match a, b with
  | NInt x, NInt y => Z.eqb x y
  | NFlt x, NFlt y => Z.eqb x y
  | _, _ => false
  end.

Fixpoint json_eqb (a b : json) {struct a} : bool :=
  match a, b with
  | JNull, JNull => true
  | JBool x, JBool y => Bool.eqb x y
  | JNum x, JNum y => jnum_eqb x y
  | JStr x, JStr y => String.eqb x y
  | JArr la, JArr lb =>
      (fix go (la lb : list json) {struct la} : bool :=
         match la, lb with
         | [], [] => true
         | x :: la', y :: lb' => json_eqb x y && go la' lb'
         | _, _ => false
         end) la lb
  | JObj ma, JObj mb =>
      (fix go (ma mb : list (string * json)) {struct ma} : bool :=
         match ma, mb with
         | [], [] => true
         | (k, x) :: ma', (k', y) :: mb' => String.eqb k k' && json_eqb x y && go ma' mb'
         | _, _ => false
         end) ma mb
  | _, _ => false
  end.

(* ---- object members ---- *)
Definition members := list (string * json).

(* first member with exactly this key (objects produced by Go have distinct keys) *)
Fixpoint jget (k : string) (m : members) : option json :=
  match m with
  | [] => None
  | (a, v) :: t => if String.eqb a k then Some v else jget k t
  end.

(* absent and null are the same thing to a JSON-LD processor *)
Definition jget_nn (k : string) (m : members) : option json :=
  match jget k m with Some JNull => None | o => o end.

Fixpoint jremove (k : string) (m : members) : members :=
  match m with
  | [] => []
  | (a, v) :: t => if String.eqb a k then jremove k t else (a, v) :: jremove k t
  end.

Definition jremove_all (ks : list string) (m : members) : members :=
  fold_left (fun acc k => jremove k acc) ks m.

Definition keys (m : members) : list string := map fst m.

Fixpoint str_mem (k : string) (l : list string) : bool :=
  match l with [] => false | a :: t => String.eqb a k || str_mem k t end.

Fixpoint str_nodup (l : list string) : bool :=
  match l with [] => true | a :: t => negb (str_mem a t) && str_nodup t end.

(* ---- ASCII case folding (encoding/json matches member names to fields exactly
   first, then case-insensitively; only ASCII folding is modelled) ---- *)
Definition fold_ascii (c : ascii) : ascii :=
  let n := nat_of_ascii c in
  if Nat.leb 65 n && Nat.leb n 90 then ascii_of_nat (n + 32) else c.
Fixpoint fold_str (s : string) : string :=
  match s with EmptyString => EmptyString | String c t => String (fold_ascii c) (fold_str t) end.
Definition fold_eqb (a b : string) : bool := String.eqb (fold_str a) (fold_str b).

(* all members (in document order) that encoding/json would store into the field
   with JSON name [key], assuming no two fields have fold-equal names *)
Fixpoint jfind_all (key : string) (m : members) : list json :=
  match m with
  | [] => []
  | (a, v) :: t => if fold_eqb a key then v :: jfind_all key t else jfind_all key t
  end.

(* ---- map[string]interface{} : sorted, distinct keys (later duplicate wins) ---- *)
Fixpoint mins (k : string) (v : json) (m : members) : members :=
  match m with
  | [] => [(k, v)]
  | (a, w) :: t =>
      match String.compare k a with
      | Lt => (k, v) :: m
      | Eq => (k, v) :: t
      | Gt => (a, w) :: mins k v t
      end
  end.
Definition msort (m : members) : members :=
  fold_left (fun acc kv => mins (fst kv) (snd kv) acc) m [].

Fixpoint map_opt {A B} (f : A -> option B) (l : list A) : option (list B) :=
  match l with
  | [] => Some []
  | a :: t => match f a, map_opt f t with Some b, Some r => Some (b :: r) | _, _ => None end
  end.

(* json.Unmarshal into interface{} followed by json.Marshal: numbers go through
   float64 ([renum] = strconv.ParseFloat then Go's float formatting, None on range
   error), objects become maps (re-encoded with sorted keys, later duplicate wins). *)
Section Norm.
  Variable renum : jnum -> option jnum.
  Fixpoint norm (j : json) : option json :=
    match j with
    | JNum n => match renum n with Some n' => Some (JNum n') | None => None end
    | JArr l =>
        match (fix go (l : list json) : option (list json) :=
                 match l with
                 | [] => Some []
                 | a :: t => match norm a, go t with Some b, Some r => Some (b :: r) | _, _ => None end
                 end) l with
        | Some l' => Some (JArr l') | None => None end
    | JObj m =>
        match (fix go (m : members) : option members :=
                 match m with
                 | [] => Some []
                 | (k, a) :: t => match norm a, go t with Some b, Some r => Some ((k, b) :: r) | _, _ => None end
                 end) m with
        | Some m' => Some (JObj (msort m')) | None => None end
    | _ => Some j
    end.
  Definition norm_list (l : list json) : option (list json) := map_opt norm l.
  Fixpoint norm_members (m : members) : option members :=
    match m with
    | [] => Some []
    | (k, a) :: t => match norm a, norm_members t with Some b, Some r => Some ((k, b) :: r) | _, _ => None end
    end.
End Norm.

(* canonical form used to compare two trees irrespective of member order: sort
   every object (no number conversion) *)
Fixpoint jcanon (j : json) : json :=
  match j with
  | JArr l => JArr (map jcanon l)
  | JObj m => JObj (msort (map (fun kv => (fst kv, jcanon (snd kv))) m))
  | _ => j
  end.
