(* Codec/State.v — the parts of C14 that are about STATE:
   (1) decoding into a non-zero receiver: Authentication.UnmarshalJSON as a function of
       (previous entry, JSON); encoding/json re-uses the elements of a slice;
   (2) purity: W3CCredential.Merklize / ToCoreClaim / verifyCredentialCoreClaim as
       state-passing functions (credential in, credential out + result);
   with the theorems, and the seeded variants as refuted witnesses.
   Definitions only (evaluated per run by Codec/Run.v); theorems in Codec/StateTheory.v. *)
From Coq Require Import ZArith List String Ascii Bool.
From GSP Require Import Base.Prelude Codec.Desc Codec.Json Codec.Time Codec.Model.
Import ListNotations.
Open Scope string_scope.
Open Scope list_scope.

(* ==================================================================== *)
(* (1) Authentication as Go stores it: the embedded CommonVerificationMethod and the
   unexported did.  IsDID / DID / MarshalJSON only look at [auth_view]. *)
Definition auth_state := (list gval * string)%type.

Definition auth_view (st : auth_state) : gval :=
  if String.eqb (snd st) "" then VAuthMethod (fst st) else VAuthDid (snd st).

Section AuthInto.
  Variable O : oracles.
  Variable E : penv.

  (* did_doc.go (a *Authentication) UnmarshalJSON(b), receiver [prev] (None = fresh):
       object: tmp := Alias{}; json.Unmarshal(b, &tmp); *a = Authentication(tmp)   -- resets everything
       string: json.Unmarshal(b, &a.did)                                          -- only did is written *)
  Definition dec_auth_into (prev : option auth_state) (j : json) : res auth_state :=
    match j with
    | JObj _ => r <- decode_struct O (cdec0 O) (pe_cvm E) j ;; Ok (r, "")
    | JStr s => Ok (match prev with Some st => fst st | None => zeros (pe_cvm E) end, s)
    | _ => Err "authentication"
    end.

  (* encoding/json decoding an array into an existing slice: element i is decoded INTO the
     existing element i when there is one, into a zero element otherwise; the slice is
     truncated to the length of the array *)
  Fixpoint dec_auths_into (prev : list auth_state) (l : list json) : res (list auth_state) :=
    match l with
    | [] => Ok []
    | j :: t =>
        st <- dec_auth_into (match prev with p :: _ => Some p | [] => None end) j ;;
        r <- dec_auths_into (match prev with _ :: pt => pt | [] => [] end) t ;;
        Ok (st :: r)
    end.

  (* json.Unmarshal(A, &as); json.Unmarshal(B, &as); json.Marshal(as) *)
  Definition reuse_auths (a b : json) : res json :=
    match a, b with
    | JArr la, JArr lb =>
        s1 <- dec_auths_into [] la ;;
        s2 <- dec_auths_into s1 lb ;;
        r <- map_res (fun st => enc_auth E (auth_view st)) s2 ;;
        Ok (JArr r)
    | _, _ => Err "type"
    end.
  Definition reuse_auth_kinds (a b : json) : list string :=
    match a, b with
    | JArr la, JArr lb =>
        match dec_auths_into [] la with
        | Ok s1 => match dec_auths_into s1 lb with
                   | Ok s2 => map (fun st => match auth_view st with VAuthDid _ => "did" | _ => "method" end) s2
                   | _ => [] end
        | _ => [] end
    | _, _ => []
    end.

  (* seeded variants (C14-c / C14-q: the object branch no longer resets did; C14-m: the decoded
     method is never stored; C14-f: MarshalJSON prints a method without type as a reference) *)
  Definition dec_auth_into_keeps_did (prev : option auth_state) (j : json) : res auth_state :=
    match j with
    | JObj _ => r <- decode_struct O (cdec0 O) (pe_cvm E) j ;;
                Ok (r, match prev with Some st => snd st | None => "" end)
    | _ => dec_auth_into prev j
    end.
  Definition dec_auth_into_drops_method (prev : option auth_state) (j : json) : res auth_state :=
    match j with
    | JObj _ => r <- decode_struct O (cdec0 O) (pe_cvm E) j ;;
                Ok (match prev with Some st => st | None => (zeros (pe_cvm E), "") end)
    | _ => dec_auth_into prev j
    end.
End AuthInto.

(* ==================================================================== *)
(* (2) state-passing Merklize / ToCoreClaim / verifyCredentialCoreClaim.  The JSON-LD
   merklizer and what ToCoreClaim does with it are external here: any functions. *)
Section Pure.
  Variable O : oracles.
  Variable E : penv.
  Variable D : list string.
  Variable fs : list fdesc.
  Variables R C : Type.
  Variable mzld : json -> res R.                   (* merklize.MerklizeJSONLD on the document *)
  Variable build : list gval -> R -> res C.        (* the rest of ToCoreClaim (reads the credential) *)
  Variable compare : C -> res unit.                (* verifyCredentialCoreClaim: compare with the proof's claim *)

  (* credential.go (vc *W3CCredential) Merklize: marshal, map, delete, marshal, merklize;
     never writes to vc *)
  Definition merklize_st (c : list gval) : list gval * res R :=
    (c, d <- merklize_doc O E D fs c ;; mzld d).

  (* ToCoreClaim: Merklize, then build the claim from the merklizer and the credential *)
  Definition tocoreclaim_st (c : list gval) : list gval * res C :=
    let (c1, r) := merklize_st c in
    (c1, m <- r ;; build c1 m).

  (* verifyCredentialCoreClaim: ToCoreClaim, compare *)
  Definition verifyclaim_st (c : list gval) : list gval * res unit :=
    let (c1, r) := tocoreclaim_st c in
    (c1, k <- r ;; compare k).

  (* seeded variants: the proofs are detached while working and put back on the success
     path only (C14-o in Merklize, C14-d in verifyCredentialCoreClaim) *)
  Fixpoint set_field (key : string) (v : gval) (fs' : list fdesc) (c : list gval) : list gval :=
    match fs', c with
    | f :: ft, x :: ct => if String.eqb (fd_key f) key then v :: ct else x :: set_field key v ft ct
    | _, _ => c
    end.
  Definition merklize_st_detach (c : list gval) : list gval * res R :=
    let c0 := set_field "proof" (VProofs None) fs c in
    match (d <- merklize_doc O E D fs c0 ;; mzld d) with
    | Ok r => (c, Ok r)
    | e => (c0, e)
    end.
  Definition verifyclaim_st_detach (c : list gval) : list gval * res unit :=
    let c0 := set_field "proof" (VProofs None) fs c in
    match snd (tocoreclaim_st c0) with
    | Ok k => (c, compare k)
    | Err t => (c0, Err t) | Panic w => (c0, Panic w) | Diverge => (c0, Diverge)
    end.
End Pure.

