(* Codec/TimeTheory.v — printing a parsed time and parsing it again gives the same time
   (for the model of time.Time's JSON codec in Codec/Time.v). *)
From Coq Require Import ZArith List String Ascii Bool Lia.
From GSP Require Import Base.Prelude Value.Time Codec.Time.
Import ListNotations.
Open Scope list_scope.
Open Scope Z_scope.

Lemma str_to_of_list l : str_to_list (str_of_list l) = l.
Proof. induction l as [|c t IH]; simpl; congruence. Qed.

(* ---- digits ---- *)
Lemma digit_char_ok d : 0 <= d <= 9 -> is_digit (digit_char d) = true /\ digit_val (digit_char d) = d.
Proof.
  intros H.
  assert (E : d = 0 \/ d = 1 \/ d = 2 \/ d = 3 \/ d = 4 \/ d = 5 \/ d = 6 \/ d = 7 \/ d = 8 \/ d = 9) by lia.
  destruct E as [->|[->|[->|[->|[->|[->|[->|[->|[->| ->]]]]]]]]]; split; reflexivity.
Qed.

Lemma pow10_pos k : 0 < 10 ^ Z.of_nat k.
Proof. apply Z.pow_pos_nonneg; lia. Qed.

Lemma pow10_S k : 10 ^ Z.of_nat (S k) = 10 * 10 ^ Z.of_nat k.
Proof. rewrite Nat2Z.inj_succ, Z.pow_succ_r by lia. reflexivity. Qed.

Lemma mod_digit z k : 0 <= z ->
  ((z / 10 ^ Z.of_nat k) mod 10) * 10 ^ Z.of_nat k + z mod 10 ^ Z.of_nat k = z mod 10 ^ Z.of_nat (S k).
Proof.
  intros Hz. pose proof (pow10_pos k) as Hp.
  rewrite pow10_S. rewrite (Z.mul_comm 10). rewrite Z.rem_mul_r by lia. lia.
Qed.

Lemma fixed_digits_digits n : forall z r acc, 0 <= z ->
  fixed_digits n (digits n z ++ r) acc = Some (acc * 10 ^ Z.of_nat n + z mod 10 ^ Z.of_nat n, r).
Proof.
  induction n as [|k IH]; intros z r acc Hz.
  - simpl. rewrite Z.mod_1_r. f_equal. f_equal. lia.
  - cbn [digits app fixed_digits].
    assert (Hd : 0 <= (z / 10 ^ Z.of_nat k) mod 10 <= 9) by (pose proof (Z.mod_pos_bound (z / 10 ^ Z.of_nat k) 10); lia).
    destruct (digit_char_ok _ Hd) as [H1 H2]. rewrite H1, H2. rewrite IH by assumption.
    f_equal. f_equal. rewrite <- (mod_digit z k Hz). rewrite pow10_S. ring.
Qed.

Lemma fixed_digits_exact n z r : 0 <= z < 10 ^ Z.of_nat n -> fixed_digits n (digits n z ++ r) 0 = Some (z, r).
Proof. intros H. rewrite fixed_digits_digits by lia. rewrite Z.mod_small by lia. reflexivity. Qed.

Lemma fixed_digits_range n : forall l acc z r, fixed_digits n l acc = Some (z, r) -> 0 <= acc ->
  acc * 10 ^ Z.of_nat n <= z < (acc + 1) * 10 ^ Z.of_nat n.
Proof.
  induction n as [|k IH]; intros l acc z r H Ha.
  - simpl in H. inversion H. subst. simpl. lia.
  - simpl in H. destruct l as [|c t]; [discriminate|]. destruct (is_digit c) eqn:Ed; [|discriminate].
    assert (Hc : 0 <= digit_val c <= 9).
    { unfold is_digit in Ed. apply andb_true_iff in Ed. destruct Ed as [E1 E2].
      apply Nat.leb_le in E1, E2. unfold digit_val. lia. }
    apply IH in H; [|lia]. rewrite pow10_S. pose proof (pow10_pos k). nia.
Qed.

(* all characters produced by [digits] are digits *)
Lemma digits_all_digit n z : Forall (fun c => is_digit c = true) (digits n z).
Proof.
  induction n as [|k IH]; simpl; constructor; [|assumption].
  apply digit_char_ok. pose proof (Z.mod_pos_bound (z / 10 ^ Z.of_nat k) 10). lia.
Qed.

Lemma digits_length n z : List.length (digits n z) = n.
Proof. induction n; simpl; congruence. Qed.

(* value of a digit string, as frac_digits accumulates it *)
Definition dv (l : list ascii) (acc : Z) : Z := fold_left (fun a c => a * 10 + digit_val c) l acc.

Lemma dv_digits n : forall z acc, 0 <= z -> dv (digits n z) acc = acc * 10 ^ Z.of_nat n + z mod 10 ^ Z.of_nat n.
Proof.
  induction n as [|k IH]; intros z acc Hz.
  - simpl. rewrite Z.mod_1_r. unfold dv. simpl. lia.
  - cbn [digits]. unfold dv. cbn [fold_left]. fold (dv (digits k z) (acc * 10 + digit_val (digit_char ((z / 10 ^ Z.of_nat k) mod 10)))).
    assert (Hd : 0 <= (z / 10 ^ Z.of_nat k) mod 10 <= 9) by (pose proof (Z.mod_pos_bound (z / 10 ^ Z.of_nat k) 10); lia).
    destruct (digit_char_ok _ Hd) as [_ H2]. rewrite H2. rewrite IH by assumption.
    rewrite <- (mod_digit z k Hz). rewrite pow10_S. ring.
Qed.

Lemma dv_app l1 l2 acc : dv (l1 ++ l2) acc = dv l2 (dv l1 acc).
Proof. unfold dv. apply fold_left_app. Qed.

Lemma dv_zeros k : forall acc, dv (repeat "0"%char k) acc = acc * 10 ^ Z.of_nat k.
Proof.
  induction k as [|k IH]; intros acc.
  - simpl. unfold dv. simpl. lia.
  - cbn [repeat]. unfold dv. cbn [fold_left]. fold (dv (repeat "0"%char k) (acc * 10 + digit_val "0")).
    rewrite IH. rewrite pow10_S. change (digit_val "0") with 0. ring.
Qed.

Lemma frac_digits_all ds : forall rest taken acc,
  Forall (fun c => is_digit c = true) ds ->
  (match rest with [] => True | c :: _ => is_digit c = false end) ->
  (taken + List.length ds <= 9)%nat ->
  frac_digits (ds ++ rest) taken acc = (dv ds acc, (taken + List.length ds)%nat, rest).
Proof.
  induction ds as [|c t IH]; intros rest taken acc Hd Hr Hlen.
  - simpl. unfold dv. simpl. rewrite Nat.add_0_r. destruct rest as [|c r]; [reflexivity|].
    simpl. rewrite Hr. reflexivity.
  - inversion Hd; subst. cbn [app frac_digits]. rewrite H1.
    simpl in Hlen. assert (Nat.ltb taken 9 = true) as -> by (apply Nat.ltb_lt; lia).
    rewrite IH; try assumption; [|simpl; lia].
    unfold dv. simpl. f_equal. f_equal. lia.
Qed.

(* ---- trailing zeros ---- *)
Lemma trim_zeros_split R : exists k, R = repeat "0"%char k ++ trim_zeros_rev R.
Proof.
  induction R as [|c t IH]; [exists O; reflexivity|].
  simpl. destruct (Ascii.eqb c "0") eqn:E.
  - apply Ascii.eqb_eq in E. subst. destruct IH as (k & Hk). exists (S k). simpl. congruence.
  - exists O. reflexivity.
Qed.

Lemma rev_repeat {A} (x : A) k : rev (repeat x k) = repeat x k.
Proof.
  induction k as [|k IH]; [reflexivity|]. simpl. rewrite IH.
  clear IH. induction k as [|k IH]; [reflexivity|]. simpl. rewrite IH. reflexivity.
Qed.

Lemma trimmed_split L : exists k, L = rev (trim_zeros_rev (rev L)) ++ repeat "0"%char k.
Proof.
  destruct (trim_zeros_split (rev L)) as (k & Hk). exists k.
  rewrite <- (rev_involutive L) at 1. rewrite Hk at 1. rewrite rev_app_distr, rev_repeat. reflexivity.
Qed.

Lemma Forall_rev' {A} (P : A -> Prop) l : Forall P l -> Forall P (rev l).
Proof. intros H. apply Forall_forall. intros x Hx. apply in_rev in Hx. rewrite Forall_forall in H. auto. Qed.

Lemma trim_forall (P : ascii -> Prop) l : Forall P l -> Forall P (trim_zeros_rev l).
Proof.
  induction 1 as [|c t Hc Ht IH]; simpl; [constructor|].
  destruct (Ascii.eqb c "0"); [assumption|constructor; assumption].
Qed.

(* ---- the pieces of the layout ---- *)
Definition zone_start (l : list ascii) : Prop :=
  match l with
  | c :: _ => is_digit c = false /\ Ascii.eqb c "." = false /\ Ascii.eqb c "," = false
  | [] => False
  end.

Lemma parse_frac_frac_chars ns rest :
  0 <= ns < 10 ^ 9 -> zone_start rest ->
  parse_frac (frac_chars ns ++ rest) = (ns, rest).
Proof.
  intros Hns Hz. unfold frac_chars. destruct (ns =? 0) eqn:E0.
  - apply Z.eqb_eq in E0. subst. simpl.
    destruct rest as [|c r]; [destruct Hz|]. destruct Hz as (_ & H1 & H2).
    unfold parse_frac. destruct r as [|d r']; [reflexivity|]. rewrite H1, H2. reflexivity.
  - apply Z.eqb_neq in E0.
    remember (digits 9 ns) as L eqn:EL.
    destruct (trimmed_split L) as (k & HL).
    remember (rev (trim_zeros_rev (rev L))) as ds eqn:Eds.
    assert (Hds : Forall (fun c => is_digit c = true) ds).
    { subst ds. apply Forall_rev', trim_forall, Forall_rev'. subst L. apply digits_all_digit. }
    assert (Hlen : (List.length ds + k = 9)%nat).
    { pose proof (digits_length 9 ns) as H9. rewrite <- EL in H9. rewrite HL in H9.
      rewrite app_length, repeat_length in H9. exact H9. }
    assert (Hval : dv ds 0 * 10 ^ Z.of_nat k = ns).
    { pose proof (dv_digits 9 ns 0 ltac:(lia)) as Hv. rewrite <- EL in Hv. rewrite HL in Hv.
      rewrite dv_app, dv_zeros in Hv. rewrite Hv. change (Z.of_nat 9) with 9. rewrite Z.mod_small by lia. lia. }
    clear Eds HL EL.
    destruct ds as [|d0 dt].
    { exfalso. unfold dv in Hval. simpl in Hval. lia. }
    pose proof (Forall_inv Hds) as Hd0. cbn beta in Hd0.
    cbn [app]. unfold parse_frac. rewrite Hd0. simpl (Ascii.eqb "." "." || Ascii.eqb "." ",")%bool. cbn [andb].
    change (d0 :: dt ++ rest) with ((d0 :: dt) ++ rest).
    rewrite frac_digits_all; try assumption.
    + cbn [Nat.add]. rewrite <- Hval. f_equal.
      replace (9 - List.length (d0 :: dt))%nat with k by lia. reflexivity.
    + destruct rest as [|c r]; [exact I|]. destruct Hz as (H & _). exact H.
    + lia.
Qed.

Lemma digits2_form z : exists a b, digits 2 z = [a; b] /\ is_digit a = true /\ is_digit b = true.
Proof.
  exists (digit_char ((z / 10 ^ Z.of_nat 1) mod 10)), (digit_char ((z / 10 ^ Z.of_nat 0) mod 10)).
  split; [reflexivity|]. split; apply digit_char_ok.
  - pose proof (Z.mod_pos_bound (z / 10 ^ Z.of_nat 1) 10). lia.
  - pose proof (Z.mod_pos_bound (z / 10 ^ Z.of_nat 0) 10). lia.
Qed.

Lemma loose_num_digits2 z r : 0 <= z < 100 -> loose_num (digits 2 z ++ r) = Some (z, r).
Proof.
  intros Hz. pose proof (fixed_digits_exact 2 z r ltac:(simpl; lia)) as F.
  destruct (digits2_form z) as (a & b & E & Ha & Hb). rewrite E in *. cbn [app] in *.
  unfold loose_num. rewrite Ha, Hb.
  simpl in F. rewrite Ha, Hb in F. injection F as F'. rewrite <- F'. reflexivity.
Qed.

Lemma zone_chars_start off : zone_start (zone_chars off).
Proof.
  unfold zone_chars. destruct (off =? 0); [simpl; auto|].
  destruct (off <? 0); simpl; auto.
Qed.

Lemma parse_zone_zone_chars off :
  (exists q, off = 60 * q) -> Z.abs off / 3600 < 24 ->
  parse_zone (zone_chars off) = Some (off, []).
Proof.
  intros (q & Hq) Hlt. unfold zone_chars. destruct (off =? 0) eqn:E0.
  - apply Z.eqb_eq in E0. subst off. rewrite E0. reflexivity.
  - apply Z.eqb_neq in E0.
    set (a := Z.abs off / 60).
    assert (Ha : Z.abs off = 60 * a).
    { unfold a. subst off. rewrite Z.abs_mul. change (Z.abs 60) with 60.
      rewrite Z.mul_comm, Z.div_mul by lia. ring. }
    assert (Habs : 0 <= Z.abs off < 86400).
    { pose proof (Z.div_mod (Z.abs off) 3600 ltac:(lia)). pose proof (Z.mod_pos_bound (Z.abs off) 3600 ltac:(lia)). lia. }
    assert (Ha0 : 0 <= a) by lia.
    assert (Hh24 : 0 <= a / 60 < 24).
    { split; [apply Z.div_pos; lia|]. apply Z.div_lt_upper_bound; lia. }
    assert (Hh : 0 <= a / 60 < 100) by lia.
    assert (Hm : 0 <= a mod 60 < 60) by (apply Z.mod_pos_bound; lia).
    assert (Hsum : (a / 60 * 60 + a mod 60) * 60 = Z.abs off).
    { rewrite Ha. pose proof (Z.div_mod a 60 ltac:(lia)). lia. }
    assert (P : forall s, (Ascii.eqb s "Z" = false) ->
              parse_zone (s :: digits 2 (a / 60) ++ ":"%char :: digits 2 (a mod 60)) =
              if ((a / 60 >? 24) || (a mod 60 >? 60))%bool then None else
              if Ascii.eqb s "+" then Some ((a / 60 * 60 + a mod 60) * 60, [])
              else if Ascii.eqb s "-" then Some (- ((a / 60 * 60 + a mod 60) * 60), []) else None).
    { intros s Hs. unfold parse_zone.
      destruct s as [b0 b1 b2 b3 b4 b5 b6 b7].
      assert (Hnz : Ascii b0 b1 b2 b3 b4 b5 b6 b7 <> "Z"%char) by (intros Heq; rewrite Heq in Hs; discriminate).
      destruct b0, b1, b2, b3, b4, b5, b6, b7; try (exfalso; apply Hnz; reflexivity);
        rewrite fixed_digits_exact by (simpl; lia); cbn [expect Ascii.eqb Bool.eqb];
        change (":"%char :: digits 2 (a mod 60)) with (":"%char :: digits 2 (a mod 60) ++ []) ||
        idtac; rewrite <- (app_nil_r (digits 2 (a mod 60))); rewrite fixed_digits_exact by (simpl; lia); reflexivity. }
    assert (G1 : (a / 60 >? 24) = false) by (rewrite Z.gtb_ltb; apply Z.ltb_ge; lia).
    assert (G2 : (a mod 60 >? 60) = false) by (rewrite Z.gtb_ltb; apply Z.ltb_ge; lia).
    fold a. destruct (off <? 0) eqn:En.
    + rewrite P by reflexivity. rewrite G1, G2. simpl. apply Z.ltb_lt in En. f_equal. f_equal. lia.
    + rewrite P by reflexivity. rewrite G1, G2. simpl. apply Z.ltb_ge in En. f_equal. f_equal. lia.
Qed.

(* ---- what the parser returns is in range ---- *)
Definition wf_time (t : gotime) : Prop :=
  0 <= t_y t < 10000 /\ 1 <= t_mo t <= 12 /\ 0 <= t_d t < 100 /\
  day_ok (t_y t) (t_mo t) (t_d t) = true /\
  0 <= t_h t < 24 /\ 0 <= t_mi t < 60 /\ 0 <= t_s t < 60 /\ 0 <= t_ns t < 10 ^ 9 /\
  exists q, t_off t = 60 * q.

Lemma fixed_digits_bounds n l z r : fixed_digits n l 0 = Some (z, r) -> 0 <= z < 10 ^ Z.of_nat n.
Proof. intros H. apply fixed_digits_range in H; lia. Qed.

Lemma is_digit_val c : is_digit c = true -> 0 <= digit_val c <= 9.
Proof.
  unfold is_digit. intros Ed. apply andb_true_iff in Ed. destruct Ed as [E1 E2].
  apply Nat.leb_le in E1, E2. unfold digit_val. lia.
Qed.

Lemma loose_num_bounds l z r : loose_num l = Some (z, r) -> 0 <= z < 100.
Proof.
  unfold loose_num. destruct l as [|a [|b t]]; try discriminate.
  - destruct (is_digit a) eqn:Ea; [|discriminate]. intros H. inversion H. pose proof (is_digit_val _ Ea). lia.
  - destruct (is_digit a) eqn:Ea; [|discriminate]. destruct (is_digit b) eqn:Eb; intros H; inversion H;
      pose proof (is_digit_val _ Ea); try pose proof (is_digit_val _ Eb); lia.
Qed.

Lemma frac_digits_bounds l : forall taken acc v n r,
  frac_digits l taken acc = (v, n, r) -> (taken <= 9)%nat -> 0 <= acc < 10 ^ Z.of_nat taken ->
  (n <= 9)%nat /\ 0 <= v < 10 ^ Z.of_nat n.
Proof.
  induction l as [|c t IH]; intros taken acc v n r H Ht Ha; simpl in H.
  - inversion H. subst. auto.
  - destruct (is_digit c) eqn:Ed.
    + destruct (Nat.ltb taken 9) eqn:El.
      * apply Nat.ltb_lt in El. apply IH in H; [assumption|lia|].
        pose proof (is_digit_val _ Ed). rewrite pow10_S. lia.
      * apply IH in H; assumption.
    + inversion H. subst. auto.
Qed.

Lemma parse_frac_bounds l ns r : parse_frac l = (ns, r) -> 0 <= ns < 10 ^ 9.
Proof.
  unfold parse_frac. destruct l as [|c [|d t]]; try (intros H; inversion H; lia).
  destruct ((Ascii.eqb c "." || Ascii.eqb c ",") && is_digit d)%bool; [|intros H; inversion H; lia].
  destruct (frac_digits (d :: t) 0 0) as [[v n] r'] eqn:Ef. intros H. inversion H. subst.
  apply frac_digits_bounds in Ef; [|lia|simpl; lia]. destruct Ef as [Hn Hv].
  assert (E : 10 ^ 9 = 10 ^ Z.of_nat n * 10 ^ Z.of_nat (9 - n)).
  { rewrite <- Z.pow_add_r by lia. f_equal. lia. }
  pose proof (pow10_pos (9 - n)). rewrite E.
  split; [apply Z.mul_nonneg_nonneg; lia|apply Z.mul_lt_mono_pos_r; lia].
Qed.

Lemma parse_zone_mult l off r : parse_zone l = Some (off, r) -> exists q, off = 60 * q.
Proof.
  unfold parse_zone. destruct l as [|s t]; [discriminate|].
  assert (G : match fixed_digits 2 t 0 with
              | Some (hh, t1) =>
                  match expect ":" t1 with
                  | Some t2 =>
                      match fixed_digits 2 t2 0 with
                      | Some (mm, t3) =>
                          if ((hh >? 24) || (mm >? 60))%bool then None
                          else if Ascii.eqb s "+" then Some ((hh * 60 + mm) * 60, t3)
                               else if Ascii.eqb s "-" then Some (- ((hh * 60 + mm) * 60), t3) else None
                      | None => None end
                  | None => None end
              | None => None end = Some (off, r) -> exists q, off = 60 * q).
  { destruct (fixed_digits 2 t 0) as [[hh t1]|]; [|discriminate].
    destruct (expect ":" t1) as [t2|]; [|discriminate].
    destruct (fixed_digits 2 t2 0) as [[mm t3]|]; [|discriminate].
    destruct ((hh >? 24) || (mm >? 60))%bool; [discriminate|].
    destruct (Ascii.eqb s "+"); [intros H; inversion H; exists (hh * 60 + mm); ring|].
    destruct (Ascii.eqb s "-"); [intros H; inversion H; exists (- (hh * 60 + mm)); ring|discriminate]. }
  destruct s as [b0 b1 b2 b3 b4 b5 b6 b7].
  destruct b0, b1, b2, b3, b4, b5, b6, b7; try exact G.
  intros H. inversion H. exists 0. reflexivity.
Qed.

Lemma parse_time_wf s t : parse_time s = Some t -> wf_time t.
Proof.
  unfold parse_time, parse_time_l. set (l := str_to_list s). clearbody l.
  destruct (parse_ymd l) as [[[[y m] d] l1]|] eqn:Eymd; [|discriminate].
  destruct (expect "T" l1) as [l2|]; [|discriminate].
  destruct (loose_num l2) as [[hh l3]|] eqn:Eh; [|discriminate].
  destruct (hh >=? 24) eqn:Eh24; [discriminate|].
  destruct (expect ":" l3) as [l4|]; [|discriminate].
  destruct (fixed_digits 2 l4 0) as [[mi l5]|] eqn:Emi; [|discriminate].
  destruct (mi >=? 60) eqn:Emi60; [discriminate|].
  destruct (expect ":" l5) as [l6|]; [|discriminate].
  destruct (fixed_digits 2 l6 0) as [[ss l7]|] eqn:Ess; [|discriminate].
  destruct (ss >=? 60) eqn:Ess60; [discriminate|].
  destruct (parse_frac l7) as [ns l8] eqn:Efr.
  destruct (parse_zone l8) as [[off [|? ?]]|] eqn:Ez; try discriminate.
  destruct (day_ok y m d) eqn:Ed; [|discriminate].
  intros H. inversion H. subst t. unfold wf_time. simpl.
  (* year, month, day *)
  unfold parse_ymd in Eymd.
  destruct (fixed_digits 4 l 0) as [[y' k1]|] eqn:Ey; [|discriminate].
  destruct (expect "-" k1) as [k2|]; [|discriminate].
  destruct (fixed_digits 2 k2 0) as [[m' k3]|] eqn:Em; [|discriminate].
  destruct ((m' <? 1) || (m' >? 12))%bool eqn:Emr; [discriminate|].
  destruct (expect "-" k3) as [k4|]; [|discriminate].
  destruct (fixed_digits 2 k4 0) as [[d' k5]|] eqn:Edd; [|discriminate].
  inversion Eymd. subst y' m' d' k5.
  apply fixed_digits_bounds in Ey, Edd, Emi, Ess. apply loose_num_bounds in Eh.
  apply parse_frac_bounds in Efr. apply parse_zone_mult in Ez.
  apply orb_false_iff in Emr. destruct Emr as [Em1 Em2].
  apply Z.ltb_ge in Em1. rewrite Z.gtb_ltb in Em2. apply Z.ltb_ge in Em2.
  rewrite Z.geb_leb in Eh24, Emi60, Ess60. apply Z.leb_gt in Eh24, Emi60, Ess60.
  change (10 ^ Z.of_nat 4) with 10000 in Ey. change (10 ^ Z.of_nat 2) with 100 in *.
  repeat split; try lia; assumption.
Qed.

(* ---- printing then parsing ---- *)
Lemma expect_cons c l : expect c (c :: l) = Some l.
Proof. unfold expect. rewrite Ascii.eqb_refl. reflexivity. Qed.

Lemma format_parse t s' : wf_time t -> format_time t = Some s' -> parse_time s' = Some t.
Proof.
  intros (Hy & Hmo & Hd & Hday & Hh & Hmi & Hs & Hns & Hoff). destruct t as [y mo d h mi s ns off]. cbn [t_y t_mo t_d t_h t_mi t_s t_ns t_off] in *.
  unfold format_time. cbn [t_y t_mo t_d t_h t_mi t_s t_ns t_off]. destruct (Z.abs off / 3600 >=? 24) eqn:Ez; [discriminate|].
  rewrite Z.geb_leb in Ez. apply Z.leb_gt in Ez.
  intros H. apply (f_equal (fun o => match o with Some x => x | None => s' end)) in H. cbn beta iota in H.
  subst s'. unfold parse_time. rewrite str_to_of_list.
  unfold parse_time_l, parse_ymd.
  rewrite fixed_digits_exact by (simpl; lia). cbn beta iota. rewrite expect_cons. cbn beta iota.
  rewrite fixed_digits_exact by (simpl; lia). cbn beta iota.
  assert (E1 : ((mo <? 1) || (mo >? 12))%bool = false).
  { apply orb_false_iff. split; [apply Z.ltb_ge; lia|rewrite Z.gtb_ltb; apply Z.ltb_ge; lia]. }
  rewrite E1. rewrite expect_cons. cbn beta iota.
  rewrite fixed_digits_exact by (simpl; lia). cbn beta iota. rewrite expect_cons. cbn beta iota.
  rewrite loose_num_digits2 by lia. cbn beta iota.
  assert (E2 : (h >=? 24) = false) by (rewrite Z.geb_leb; apply Z.leb_gt; lia). rewrite E2.
  rewrite expect_cons. cbn beta iota.
  rewrite fixed_digits_exact by (simpl; lia). cbn beta iota.
  assert (E3 : (mi >=? 60) = false) by (rewrite Z.geb_leb; apply Z.leb_gt; lia). rewrite E3.
  rewrite expect_cons. cbn beta iota.
  rewrite fixed_digits_exact by (simpl; lia). cbn beta iota.
  assert (E4 : (s >=? 60) = false) by (rewrite Z.geb_leb; apply Z.leb_gt; lia). rewrite E4.
  rewrite parse_frac_frac_chars by (assumption || apply zone_chars_start). cbn beta iota.
  rewrite parse_zone_zone_chars by assumption. cbn beta iota.
  rewrite Hday. reflexivity.
Qed.

Theorem time_roundtrip s t s' :
  parse_time s = Some t -> format_time t = Some s' -> parse_time s' = Some t.
Proof. intros Hp Hf. eapply format_parse; eauto. eapply parse_time_wf; eauto. Qed.

(* the instant (Unix seconds, nanoseconds) computed by Value/Time.v — the value
   xsd:dateTime leaves are built from (C04_time) — is the one of the civil fields *)
Theorem parse_time_instant s t :
  parse_time s = Some t -> parse_rfc3339 (str_to_list s) = Some (instant t, t_ns t).
Proof.
  unfold parse_time, parse_time_l, parse_rfc3339. set (l := str_to_list s). clearbody l.
  destruct (parse_ymd l) as [[[[y m] d] l1]|]; [|discriminate].
  destruct (expect "T" l1) as [l2|]; [|discriminate].
  destruct (loose_num l2) as [[hh l3]|]; [|discriminate].
  destruct (hh >=? 24); [discriminate|].
  destruct (expect ":" l3) as [l4|]; [|discriminate].
  destruct (fixed_digits 2 l4 0) as [[mi l5]|]; [|discriminate].
  destruct (mi >=? 60); [discriminate|].
  destruct (expect ":" l5) as [l6|]; [|discriminate].
  destruct (fixed_digits 2 l6 0) as [[ss l7]|]; [|discriminate].
  destruct (ss >=? 60); [discriminate|].
  destruct (parse_frac l7) as [ns l8].
  destruct (parse_zone l8) as [[off [|? ?]]|]; try discriminate.
  destruct (day_ok y m d); [|discriminate].
  intros H. inversion H. reflexivity.
Qed.
