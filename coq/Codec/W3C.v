(* Codec/W3C.v — the generic theorems of Codec/Theory.v instantiated with the
   descriptors extracted from /repo on this run (Generated/Structs.v).  The side
   conditions are evaluated here by vm_compute on the generated lists: a change of a
   tag, an omitempty flag, a field type, the Merklize call sequence or the proof
   dispatch makes this file fail to compile (reported as a broken proof). *)
From Coq Require Import ZArith List String Ascii Bool.
From GSP Require Import Base.Prelude Codec.Desc Codec.Json Codec.Time Codec.Model Codec.JsonTheory
  Codec.Theory Codec.Inst Generated.Structs.
Import ListNotations.
Open Scope string_scope.
Open Scope list_scope.

(* ---- W3CCredential.Merklize: marshal, unmarshal into a map, delete "proof", marshal, merklize ---- *)
Example merklize_deletes_exactly_proof : merklize_deleted = ["proof"].
Proof. vm_compute. reflexivity. Qed.

Example merklize_calls_as_modelled :
  merklize_calls = ["json.Marshal"; "json.Unmarshal"; "delete:proof"; "json.Marshal";
                    "merklize.MerklizeJSONLD"; "bytes.NewReader"].
Proof. vm_compute. reflexivity. Qed.

(* ---- extractProof dispatch and the set of hand-written codecs, as modelled ---- *)
Example proof_dispatch_as_modelled :
  proof_dispatch = [("BJJSignature2021", "BJJSignatureProof2021");
                    ("Iden3SparseMerkleProof", "Iden3SparseMerkleProof");
                    ("Iden3SparseMerkleTreeProof", "Iden3SparseMerkleTreeProof");
                    ("", "CommonProof")].
Proof. vm_compute. reflexivity. Qed.

Example custom_codecs_as_modelled :
  custom_codecs = [("Authentication", true, true); ("BJJSignatureProof2021", false, true);
                   ("CommonProof", false, true); ("CredentialProofs", false, true);
                   ("GistInfoProof", true, true); ("Iden3SparseMerkleProof", false, true);
                   ("Iden3SparseMerkleTreeProof", false, true)].
Proof. vm_compute. reflexivity. Qed.

(* ---- the document does not depend on the proofs ---- *)
Theorem cred_merklize_doc_independent O c c' d d' :
  agree_out merklize_deleted d_W3CCredential c c' ->
  cred_merklize_doc O c = Ok d -> cred_merklize_doc O c' = Ok d' -> d = d'.
Proof. apply merklize_doc_independent. Qed.
