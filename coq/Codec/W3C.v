(* Codec/W3C.v — the generic theorems of Codec/Theory.v instantiated with the
   descriptors extracted from /repo on this run (Generated/Structs.v).  The side
   conditions are evaluated here by vm_compute on the generated lists: a change of a
   tag, an omitempty flag, a field type, the Merklize call sequence or the proof
   dispatch makes this file fail to compile (reported as a broken proof). *)
From Coq Require Import ZArith List String Ascii Bool.
From GSP Require Import Base.Prelude Value.Time Codec.Desc Codec.Json Codec.Time Codec.TimeTheory Codec.Model Codec.JsonTheory
  Codec.Theory Codec.Inst Generated.Structs.
Import ListNotations.
Open Scope string_scope.
Open Scope list_scope.

(* ---- W3CCredential.Merklize: marshal, unmarshal into a map, delete "proof", marshal, merklize ---- *)
Example merklize_deletes_exactly_proof : merklize_deleted = ["proof"].
Proof. vm_compute. reflexivity. Qed.

Example merklize_calls_as_modelled :
  merklize_calls = ["json.Marshal"; "json.Unmarshal"; "delete:proof"; "json.Marshal";
                    "merklize.MerklizeJSONLD"; "bytes.NewReader"].
Proof. vm_compute. reflexivity. Qed.

(* ---- extractProof dispatch and the set of hand-written codecs, as modelled ---- *)
Example proof_dispatch_as_modelled :
  proof_dispatch = [("BJJSignature2021", "BJJSignatureProof2021");
                    ("Iden3SparseMerkleProof", "Iden3SparseMerkleProof");
                    ("Iden3SparseMerkleTreeProof", "Iden3SparseMerkleTreeProof");
                    ("", "CommonProof")].
Proof. vm_compute. reflexivity. Qed.

Example custom_codecs_as_modelled :
  custom_codecs = [("Authentication", true, true); ("BJJSignatureProof2021", false, true);
                   ("CommonProof", false, true); ("CredentialProofs", false, true);
                   ("GistInfoProof", true, true); ("Iden3SparseMerkleProof", false, true);
                   ("Iden3SparseMerkleTreeProof", false, true);
                   ("IssuerData", false, true); ("RevocationStatus", false, true)].
Proof. vm_compute. reflexivity. Qed.

(* IssuerData.UnmarshalJSON: reflection decode of every member except "mtp" (decodeMTP) *)
Example guarded_structs_as_modelled : guarded_structs = [("IssuerData", ["mtp"])].
Proof. vm_compute. reflexivity. Qed.

(* ---- the document does not depend on the proofs ---- *)
Theorem cred_merklize_doc_independent O c c' d d' :
  agree_out merklize_deleted d_W3CCredential c c' ->
  cred_merklize_doc O c = Ok d -> cred_merklize_doc O c' = Ok d' -> d = d'.
Proof. apply merklize_doc_independent. Qed.

(* ==================================================================== *)
(* C14_lossless on the descriptors of this run                          *)
From GSP Require Import Codec.Lossless.

(* side conditions of Lossless.top_lossless, evaluated on the generated list: JSON names
   distinct up to case; every field except the deleted ones ("proof") is of a lossless
   kind (string, pointer, []string, interface{}, map, nested plain struct) or *time.Time *)
Example w3c_side_conditions : top_ok merklize_deleted d_W3CCredential = true.
Proof. vm_compute. reflexivity. Qed.

Lemma w3c_time_keys k :
  time_key d_W3CCredential k = (String.eqb "expirationDate" k || String.eqb "issuanceDate" k)%bool.
Proof.
  unfold time_key. simpl.
  rewrite ?andb_false_r, ?andb_true_r. simpl. rewrite ?orb_false_r.
  destruct (String.eqb "expirationDate" k), (String.eqb "issuanceDate" k); reflexivity.
Qed.

(* ---- the supported document shape, spelled out ---- *)
Section Supported.
  Variable O : oracles.
  Notation renum := (o_renum O).

  Definition absent_or_null (m : members) (key : string) : Prop :=
    jget key m = None \/ jget key m = Some JNull.
  Definition has (m : members) (key : string) (P : json -> Prop) : Prop :=
    exists v, jget key m = Some v /\ P v.

  Definition is_string (v : json) : Prop := exists s, v = JStr s.
  Definition is_string_array (v : json) : Prop := exists l, v = JArr (map JStr l).
  (* an RFC 3339 time accepted by time.Time's decoder whose re-encoding succeeds (zone hour < 24) *)
  Definition is_time_string (v : json) : Prop :=
    exists s t s', v = JStr s /\ parse_time s = Some t /\ format_time t = Some s'.
  (* any JSON value / object whose numbers are in float64 range *)
  Definition is_any (v : json) : Prop := v <> JNull /\ exists a, norm renum v = Some a.
  Definition is_any_object (v : json) : Prop := exists sm a, v = JObj sm /\ norm renum v = Some a.
  (* exactly {"id": string, "type": string}, in any order *)
  Definition is_id_type_object (v : json) : Prop :=
    exists sm i t, v = JObj sm /\ NoDup (keys sm) /\ incl (keys sm) ["id"; "type"] /\
                   jget "id" sm = Some (JStr i) /\ jget "type" sm = Some (JStr t).

  Definition proof_field : fdesc := FD "" "proof" true (KCustom CuCredentialProofs).

  Definition w3c_supported (j : json) : Prop :=
    exists m, j = JObj m /\ NoDup (keys m) /\
      incl (keys m) ["id"; "@context"; "type"; "expirationDate"; "issuanceDate"; "credentialSubject";
                     "credentialStatus"; "issuer"; "credentialSchema"; "proof"; "refreshService"; "displayMethod"] /\
      (jget "id" m = None \/ has m "id" (fun v => exists s, v = JStr s /\ s <> "")) /\
      has m "@context" is_string_array /\
      has m "type" is_string_array /\
      (absent_or_null m "expirationDate" \/ has m "expirationDate" is_time_string) /\
      (absent_or_null m "issuanceDate" \/ has m "issuanceDate" is_time_string) /\
      has m "credentialSubject" is_any_object /\
      (absent_or_null m "credentialStatus" \/ has m "credentialStatus" is_any) /\
      has m "issuer" is_string /\
      has m "credentialSchema" is_id_type_object /\
      (absent_or_null m "refreshService" \/ has m "refreshService" is_id_type_object) /\
      (absent_or_null m "displayMethod" \/ has m "displayMethod" is_id_type_object) /\
      (* any proof member the decoder accepts: 0..n proofs of known and unknown types *)
      (exists oa, field_out O (cdec1 O repo_env) (cenc1 repo_env) m proof_field = Ok oa) /\
      (forall v, jget "proof" m = Some v -> exists a, norm renum v = Some a).

  Lemma id_type_shape v : is_id_type_object v ->
    shape O (KStruct [FD "ID" "id" false KString; FD "Type" "type" false KString]) v /\
    shape O (KPtrStruct [FD "ID" "id" false KString; FD "Type" "type" false KString]) v.
  Proof.
    intros (sm & i & t & -> & Hnd & Hincl & Hi & Ht).
    assert (F : Forall (fun f => (jget (fd_key f) sm = None /\ fd_omit f = true /\ is_empty (zero (fd_kind f)) = true) \/
                 (exists v, jget (fd_key f) sm = Some v /\ shape O (fd_kind f) v /\
                            (fd_omit f = true -> nonempty (fd_kind f) v)))
               [FD "ID" "id" false KString; FD "Type" "type" false KString]).
    { constructor; [right; exists (JStr i); simpl; split; [assumption|split; [constructor|discriminate]]|].
      constructor; [right; exists (JStr t); simpl; split; [assumption|split; [constructor|discriminate]]|constructor]. }
    split; [apply sh_struct|apply sh_pstruct]; assumption.
  Qed.
End Supported.

Section SupportedShape.
  Variable O : oracles.

  Ltac absent_case := left; repeat split; assumption.
  Ltac null_case := right; left; repeat split; assumption.

  Lemma w3c_supported_shape j :
    w3c_supported O j ->
    top_shape O (cdec1 O repo_env) (cenc1 repo_env) merklize_deleted d_W3CCredential j.
  Proof.
    intros (m & -> & Hnd & Hincl & Hid & Hctx & Hty & Hexp & Hiss & Hsub & Hst & Hissuer & Hsch & Hrs & Hdm & Hproof & Hpn).
    exists m. split; [reflexivity|]. split; [assumption|]. split; [exact Hincl|]. split.
    - unfold d_W3CCredential.
      (* id *)
      constructor.
      { unfold top_field_ok; simpl. destruct Hid as [H|(v & H & s & -> & Hs)]; [absent_case|].
        right; right. exists (JStr s). split; [assumption|]. split; [constructor|].
        intros _ E. inversion E. contradiction. }
      (* @context *)
      constructor.
      { unfold top_field_ok; simpl. destruct Hctx as (v & H & l & ->).
        right; right. exists (JArr (map JStr l)). split; [assumption|]. split; [constructor|discriminate]. }
      (* type *)
      constructor.
      { unfold top_field_ok; simpl. destruct Hty as (v & H & l & ->).
        right; right. exists (JArr (map JStr l)). split; [assumption|]. split; [constructor|discriminate]. }
      (* expirationDate *)
      constructor.
      { unfold top_field_ok; simpl. destruct Hexp as [[H|H]|(v & H & s & t & s' & -> & Hp & Hf)]; [absent_case|null_case|].
        right; right. exists (JStr s). split; [assumption|]. split; [econstructor; eauto|intros _; exact I]. }
      (* issuanceDate *)
      constructor.
      { unfold top_field_ok; simpl. destruct Hiss as [[H|H]|(v & H & s & t & s' & -> & Hp & Hf)]; [absent_case|null_case|].
        right; right. exists (JStr s). split; [assumption|]. split; [econstructor; eauto|intros _; exact I]. }
      (* credentialSubject *)
      constructor.
      { unfold top_field_ok; simpl. destruct Hsub as (v & H & sm & a & -> & Hn).
        right; right. exists (JObj sm). split; [assumption|]. split; [econstructor; eauto|discriminate]. }
      (* credentialStatus *)
      constructor.
      { unfold top_field_ok; simpl. destruct Hst as [[H|H]|(v & H & Hnn & a & Hn)]; [absent_case|null_case|].
        right; right. exists v. split; [assumption|]. split; [econstructor; eauto|intros _; exact I]. }
      (* issuer *)
      constructor.
      { unfold top_field_ok; simpl. destruct Hissuer as (v & H & s & ->).
        right; right. exists (JStr s). split; [assumption|]. split; [constructor|discriminate]. }
      (* credentialSchema *)
      constructor.
      { unfold top_field_ok; simpl. destruct Hsch as (v & H & Hv).
        right; right. exists v. split; [assumption|]. split; [apply (id_type_shape O v Hv)|discriminate]. }
      (* proof: deleted by Merklize *)
      constructor.
      { unfold top_field_ok; simpl. exact Hproof. }
      (* refreshService *)
      constructor.
      { unfold top_field_ok; simpl. destruct Hrs as [[H|H]|(v & H & Hv)]; [absent_case|null_case|].
        right; right. exists v. split; [assumption|]. split; [apply (id_type_shape O v Hv)|intros _; exact I]. }
      (* displayMethod *)
      constructor.
      { unfold top_field_ok; simpl. destruct Hdm as [[H|H]|(v & H & Hv)]; [absent_case|null_case|].
        right; right. exists v. split; [assumption|]. split; [apply (id_type_shape O v Hv)|intros _; exact I]. }
      constructor.
    - intros k v Hk G. simpl in Hk. destruct Hk as [Hk|Hk]; [subst k|contradiction]. apply Hpn. assumption.
  Qed.

  Hypothesis renum_idem : forall n n', o_renum O n = Some n' -> o_renum O n' = Some n'.

  (* C14_lossless *)
  Theorem cred_lossless j :
    w3c_supported O j ->
    exists c d r,
      cred_decode O j = Ok c /\
      cred_merklize_doc O c = Ok (JObj d) /\
      cred_reference_doc O j = Ok (JObj r) /\
      forall k,
        (k = "expirationDate" \/ k = "issuanceDate" -> same_time (jget_nn k d) (jget_nn k r)) /\
        (k <> "expirationDate" -> k <> "issuanceDate" -> jget_nn k d = jget_nn k r).
  Proof.
    intros Hs. apply w3c_supported_shape in Hs.
    destruct (top_lossless O (cdec1 O repo_env) (cenc1 repo_env) renum_idem time_roundtrip
                merklize_deleted d_W3CCredential j w3c_side_conditions Hs) as (c & d & r & Hd & Hm & Hr & Hk).
    exists c, d, r. split; [exact Hd|]. split; [exact Hm|]. split; [exact Hr|].
    intros k. specialize (Hk k). rewrite w3c_time_keys in Hk. split.
    - intros [E|E]; subst k; simpl in Hk; exact Hk.
    - intros H1 H2.
      destruct (String.eqb "expirationDate" k) eqn:E1; [apply String.eqb_eq in E1; congruence|].
      destruct (String.eqb "issuanceDate" k) eqn:E2; [apply String.eqb_eq in E2; congruence|].
      exact Hk.
  Qed.
End SupportedShape.

(* "hence equal facts and equal root": any function of the document that does not
   look at member order (both documents are maps), at null members (JSON-LD drops them)
   and at the RFC 3339 spelling of the two xsd:dateTime members (C04_time: the leaf is
   the instant) gives the same result on both documents. *)
Definition doc_equiv (d r : members) : Prop :=
  forall k,
    (k = "expirationDate" \/ k = "issuanceDate" -> same_time (jget_nn k d) (jget_nn k r)) /\
    (k <> "expirationDate" -> k <> "issuanceDate" -> jget_nn k d = jget_nn k r).

Theorem cred_same_root (R : Type) (mz : json -> R) O j :
  (forall n n', o_renum O n = Some n' -> o_renum O n' = Some n') ->
  (forall d r, doc_equiv d r -> mz (JObj d) = mz (JObj r)) ->
  w3c_supported O j ->
  exists c d r, cred_decode O j = Ok c /\ cred_merklize_doc O c = Ok d /\
                cred_reference_doc O j = Ok r /\ mz d = mz r.
Proof.
  intros H1 Hmz Hs. destruct (cred_lossless O H1 j Hs) as (c & d & r & Hd & Hm & Hr & Hk).
  exists c, (JObj d), (JObj r). repeat split; try assumption. apply Hmz. exact Hk.
Qed.

(* two spellings related by same_time denote the same instant for the merklizer: the
   parser of Value/Time.v (C04_time) gives the same (Unix seconds, nanoseconds) *)
Theorem same_time_same_instant s s' t :
  parse_time s = Some t -> parse_time s' = Some t ->
  parse_rfc3339 (str_to_list s) = parse_rfc3339 (str_to_list s') /\ parse_rfc3339 (str_to_list s) <> None.
Proof.
  intros H1 H2. rewrite (parse_time_instant _ _ H1), (parse_time_instant _ _ H2). split; [reflexivity|discriminate].
Qed.

(* ---- non-vacuity: a concrete supported document (all optional members, dates with
   offset and fraction, nested subject, one unknown and no known proof) ---- *)
Definition ex_oracles : oracles :=
  {| o_renum := fun n => Some n; o_mtp := fun j => Some j; o_claim := fun _ => true; o_sig := fun _ => true |}.

Definition ex_doc : json :=
  JObj [("@context", JArr [JStr "https://www.w3.org/2018/credentials/v1"; JStr "https://example.com/c14/context.jsonld"]);
        ("id", JStr "urn:uuid:1");
        ("type", JArr [JStr "VerifiableCredential"; JStr "C14Credential"]);
        ("issuanceDate", JStr "2024-03-05T10:20:30.500+05:30");
        ("expirationDate", JNull);
        ("credentialSubject", JObj [("id", JStr "did:example:1"); ("age", JNum (NInt 42));
                                    ("address", JObj [("zip", JNum (NInt 7)); ("street", JStr "x")])]);
        ("issuer", JStr "did:example:issuer");
        ("credentialSchema", JObj [("type", JStr "JsonSchemaValidator2018"); ("id", JStr "https://example.com/s.json")]);
        ("displayMethod", JObj [("id", JStr "https://example.com/d"); ("type", JStr "C14Display")]);
        ("proof", JArr [JObj [("type", JStr "Ed25519Signature2018"); ("jws", JStr "abc")]])].

Lemma incl_check (l1 l2 : list string) : forallb (fun k => str_mem k l2) l1 = true -> incl l1 l2.
Proof.
  intros H k Hk. rewrite forallb_forall in H. apply str_mem_in. apply H. assumption.
Qed.

Example ex_doc_supported : w3c_supported ex_oracles ex_doc.
Proof.
  exists (match ex_doc with JObj m => m | _ => [] end). split; [reflexivity|].
  split. { apply str_nodup_NoDup. vm_compute. reflexivity. }
  split. { apply incl_check. vm_compute. reflexivity. }
  split. { right. exists (JStr "urn:uuid:1"). split; [reflexivity|]. exists "urn:uuid:1". split; [reflexivity|discriminate]. }
  split. { eexists. split; [reflexivity|]. exists ["https://www.w3.org/2018/credentials/v1"; "https://example.com/c14/context.jsonld"]. reflexivity. }
  split. { eexists. split; [reflexivity|]. exists ["VerifiableCredential"; "C14Credential"]. reflexivity. }
  split. { left. right. reflexivity. }
  split. { right. eexists. split; [reflexivity|]. eexists _, _, _. split; [reflexivity|]. split; [vm_compute; reflexivity|]. vm_compute. reflexivity. }
  split. { eexists. split; [reflexivity|]. eexists _, _. split; [reflexivity|]. vm_compute. reflexivity. }
  split. { left. left. reflexivity. }
  split. { eexists. split; [reflexivity|]. eexists. reflexivity. }
  split. { eexists. split; [reflexivity|]. eexists _, _, _. split; [reflexivity|].
           split. { apply str_nodup_NoDup. vm_compute. reflexivity. }
           split. { apply incl_check. vm_compute. reflexivity. }
           split; reflexivity. }
  split. { left. left. reflexivity. }
  split. { right. eexists. split; [reflexivity|]. eexists _, _, _. split; [reflexivity|].
           split. { apply str_nodup_NoDup. vm_compute. reflexivity. }
           split. { apply incl_check. vm_compute. reflexivity. }
           split; reflexivity. }
  split. { eexists. vm_compute. reflexivity. }
  intros v Hv. vm_compute in Hv. inversion Hv. eexists. vm_compute. reflexivity.
Qed.


(* and the model evaluates on it: the struct view re-spells the date and drops the null *)
Example ex_doc_evaluates :
  match cred_decode ex_oracles ex_doc with
  | Ok c => match cred_merklize_doc ex_oracles c, cred_reference_doc ex_oracles ex_doc with
            | Ok (JObj d), Ok (JObj r) =>
                jget "issuanceDate" d = Some (JStr "2024-03-05T10:20:30.5+05:30") /\
                jget "issuanceDate" r = Some (JStr "2024-03-05T10:20:30.500+05:30") /\
                jget "expirationDate" d = None /\ jget "expirationDate" r = Some JNull /\
                jget "proof" d = None /\ jget "proof" r = None /\
                jget "credentialSubject" d = jget "credentialSubject" r /\
                all_kinds c = ["CommonProof"]
            | _, _ => False
            end
  | _ => False
  end.
Proof. vm_compute. repeat split; reflexivity. Qed.

(* ==================================================================== *)
(* C14_roundtrip on the descriptors of this run                         *)
From GSP Require Import Codec.Roundtrip Codec.Known.

(* side conditions, evaluated on the generated lists: no json.RawMessage / recursive
   type, nested JSON names distinct up to case, CredentialProofs fields are omitempty *)
Example w3c_rt_side : rt_kind (KStruct d_W3CCredential) = true. Proof. vm_compute. reflexivity. Qed.
Example did_rt_side : rt_kind (KStruct d_DIDDocument) = true. Proof. vm_compute. reflexivity. Qed.
Example cvm_rt_side : rt_kind (KStruct (pe_cvm repo_env)) = true. Proof. vm_compute. reflexivity. Qed.
(* no omitempty field of W3CCredential is a slice or a map: every decoded credential is canonical *)
Example w3c_nice : nice (KStruct d_W3CCredential) = true. Proof. vm_compute. reflexivity. Qed.

Section RoundtripInst.
  Variable O : oracles.
  Hypothesis renum_idem : forall n n', o_renum O n = Some n' -> o_renum O n' = Some n'.
  Hypothesis mtp_idem : forall j p, o_mtp O j = Some p -> p <> JNull /\ o_mtp O p = Some p.
  Hypothesis mtp_gist : forall j pm t, o_mtp O j = Some (JObj pm) ->
    o_mtp O (JObj (mins "type" (JStr t) (msort pm))) = Some (JObj pm) /\
    (forall a, In a (keys pm) -> fold_eqb a "type" = false).
  (* merkletree.Proof prints strings and booleans only: its output is already normal *)
  Hypothesis mtp_normal : forall j p, o_mtp O j = Some p -> norm (o_renum O) p = Some p.

  (* the three known proof structs through extractProof (Codec/Known.v), on the wire /
     full descriptors of this run *)
  Lemma known_rt : forall g pd a v e,
    lookup_str g (pe_proofs repo_env) = Some pd -> norm (o_renum O) a = Some a -> dec_known O g pd a = Ok v ->
    enc_proof repo_env v = Ok e -> extract_proof O repo_env e = Ok v.
  Proof.
    intros g pd a v e Hl Hn Hk He.
    assert (Hkn : kn_kind (KStruct d_IssuerData) = true) by (vm_compute; reflexivity).
    assert (Hni : nice (KStruct d_IssuerData) = true) by (vm_compute; reflexivity).
    unfold repo_env in Hl. cbn [pe_proofs lookup_str] in Hl.
    destruct (String.eqb "BJJSignatureProof2021" g) eqn:E1.
    { apply String.eqb_eq in E1. subst g. inversion Hl. subst pd.
      eapply (known_sig_rt O renum_idem mtp_idem mtp_normal d_IssuerData Hkn Hni
                "BJJSignatureProof2021" "BJJSignature2021" repo_env); try eassumption; reflexivity. }
    destruct (String.eqb "Iden3SparseMerkleProof" g) eqn:E2.
    { apply String.eqb_eq in E2. subst g. inversion Hl. subst pd.
      eapply (known_mtp_rt O renum_idem mtp_idem mtp_normal d_IssuerData Hkn Hni
                "Iden3SparseMerkleProof" "Iden3SparseMerkleProof" repo_env); try eassumption; reflexivity. }
    destruct (String.eqb "Iden3SparseMerkleTreeProof" g) eqn:E3; [|discriminate Hl].
    apply String.eqb_eq in E3. subst g. inversion Hl. subst pd.
    eapply (known_mtp_rt O renum_idem mtp_idem mtp_normal d_IssuerData Hkn Hni
              "Iden3SparseMerkleTreeProof" "Iden3SparseMerkleTreeProof" repo_env); try eassumption; reflexivity.
  Qed.

  Theorem cred_roundtrip j c e :
    cred_decode O j = Ok c -> cred_encode c = Ok e -> cred_decode O e = Ok c.
  Proof.
    apply (top_roundtrip_nice O repo_env renum_idem time_roundtrip mtp_idem mtp_gist cvm_rt_side known_rt
             d_W3CCredential j c e w3c_rt_side w3c_nice).
  Qed.

  Theorem did_roundtrip j c e :
    did_decode O j = Ok c ->
    canon (ccanon1 repo_env) (KStruct d_DIDDocument) (VStruct c) ->
    did_encode c = Ok e -> did_decode O e = Ok c.
  Proof.
    apply (top_roundtrip O repo_env renum_idem time_roundtrip mtp_idem mtp_gist cvm_rt_side known_rt
             d_DIDDocument j c e did_rt_side).
  Qed.
End RoundtripInst.

(* ---- non-vacuity of the round-trip theorems: oracles satisfying every hypothesis, and
   the model evaluated on concrete documents ---- *)
Definition ex_mtp_out : json := JObj [("existence", JBool true); ("siblings", JArr [])].
Definition ex_oracles2 : oracles :=
  {| o_renum := fun n => Some n;
     o_mtp := fun j => match j with JObj _ => Some ex_mtp_out | _ => None end;
     o_claim := fun _ => true; o_sig := fun _ => true |}.

Example ex_oracles2_hyps :
  (forall n n', o_renum ex_oracles2 n = Some n' -> o_renum ex_oracles2 n' = Some n') /\
  (forall j p, o_mtp ex_oracles2 j = Some p -> p <> JNull /\ o_mtp ex_oracles2 p = Some p) /\
  (forall j pm t, o_mtp ex_oracles2 j = Some (JObj pm) ->
     o_mtp ex_oracles2 (JObj (mins "type" (JStr t) (msort pm))) = Some (JObj pm) /\
     (forall a, In a (keys pm) -> fold_eqb a "type" = false)) /\
  (forall j p, o_mtp ex_oracles2 j = Some p -> norm (o_renum ex_oracles2) p = Some p).
Proof.
  split; [intros n n' H; inversion H; reflexivity|].
  split. { intros j p H. destruct j; simpl in H; inversion H. split; [discriminate|reflexivity]. }
  split. { intros j pm t H. destruct j; simpl in H; inversion H. split; [reflexivity|].
           intros a [<-|[<-|[]]]; reflexivity. }
  intros j p H. destruct j; simpl in H; inversion H. vm_compute. reflexivity.
Qed.

Definition ex_cred2 : json :=
  JObj [("@context", JArr [JStr "https://www.w3.org/2018/credentials/v1"]);
        ("type", JArr [JStr "VerifiableCredential"]);
        ("issuanceDate", JStr "2024-03-05T10:20:30.500+05:30");
        ("credentialSubject", JObj [("b", JNum (NInt 2)); ("a", JStr "x")]);
        ("issuer", JStr "did:example:issuer");
        ("credentialSchema", JObj [("id", JStr "s"); ("type", JStr "T")]);
        ("proof", JArr [
           JObj [("type", JStr "BJJSignature2021");
                 ("issuerData", JObj [("id", JStr "did:example:issuer");
                                      ("state", JObj [("blockNumber", JNum (NInt 5)); ("value", JStr "ab")]);
                                      ("mtp", JObj [("existence", JBool true); ("siblings", JArr [])])]);
                 ("coreClaim", JStr "00"); ("signature", JStr "11")];
           JObj [("type", JStr "Iden3SparseMerkleTreeProof"); ("issuerData", JObj []);
                 ("coreClaim", JStr "00"); ("mtp", JNull)];
           JObj [("type", JStr "FutureProof2030"); ("z", JNum (NInt 1))]])].

Example ex_cred2_roundtrip :
  match cred_decode ex_oracles2 ex_cred2 with
  | Ok c => match cred_encode c with
            | Ok e => cred_decode ex_oracles2 e = Ok c /\
                      all_kinds c = ["BJJSignatureProof2021"; "Iden3SparseMerkleTreeProof"; "CommonProof"]
            | _ => False end
  | _ => False
  end.
Proof. vm_compute. split; reflexivity. Qed.

Definition ex_did : json :=
  JObj [("@context", JStr "https://www.w3.org/ns/did/v1"); ("id", JStr "did:example:123");
        ("verificationMethod", JArr [
           JObj [("id", JStr "did:example:123#state"); ("type", JStr "Iden3StateInfo2023");
                 ("controller", JStr "did:example:123"); ("published", JBool true);
                 ("info", JObj [("id", JStr "did:example:123"); ("state", JStr "ab")]);
                 ("global", JObj [("root", JStr "cd");
                                  ("proof", JObj [("type", JStr "Iden3SparseMerkleTreeProof");
                                                  ("existence", JBool true); ("siblings", JArr [])])])]]);
        ("authentication", JArr [JStr "did:example:123#key-1";
                                 JObj [("id", JStr "did:example:123#key-2"); ("type", JStr "JsonWebKey2020");
                                       ("controller", JStr "did:example:123")]])].

Example ex_did_roundtrip :
  match did_decode ex_oracles2 ex_did with
  | Ok c => match did_encode c with
            | Ok e => did_decode ex_oracles2 e = Ok c /\ all_kinds c = ["did"; "method"]
            | _ => False end
  | _ => False
  end.
Proof. vm_compute. split; reflexivity. Qed.

(* the boundary of C14_did_roundtrip: an empty list member is decoded as an empty slice,
   dropped by omitempty, and comes back as nil *)
Example ex_did_empty_list_not_stable :
  let j := JObj [("id", JStr "did:example:123"); ("service", JArr [])] in
  match did_decode ex_oracles2 j with
  | Ok c => match did_encode c with
            | Ok e => exists c', did_decode ex_oracles2 e = Ok c' /\ c' <> c
            | _ => False end
  | _ => False
  end.
Proof. vm_compute. eexists. split; [reflexivity|discriminate]. Qed.

(* ==================================================================== *)
(* The hand-written codecs one by one, decoding into a non-zero receiver, purity         *)
From GSP Require Import Codec.State Codec.StateTheory.

Section Codecs.
  Variable O : oracles.
  Hypothesis renum_idem : forall n n', o_renum O n = Some n' -> o_renum O n' = Some n'.
  Hypothesis mtp_idem : forall j p, o_mtp O j = Some p -> p <> JNull /\ o_mtp O p = Some p.
  Hypothesis mtp_gist : forall j pm t, o_mtp O j = Some (JObj pm) ->
    o_mtp O (JObj (mins "type" (JStr t) (msort pm))) = Some (JObj pm) /\
    (forall a, In a (keys pm) -> fold_eqb a "type" = false).
  Hypothesis mtp_normal : forall j p, o_mtp O j = Some p -> norm (o_renum O) p = Some p.

  (* GistInfoProof: UnmarshalJSON (decodeMTP on the whole object + the type member) after
     MarshalJSON (proof members, whatever they are called by merkletree.Proof, + type) *)
  Theorem gist_roundtrip j v e :
    dec_gist O j = Ok v -> enc_gist v = Ok e -> dec_gist O e = Ok v.
  Proof.
    intros Hd He.
    apply (custom_rt0 O mtp_idem mtp_gist CuPtrGistInfoProof v e); [right; exists j; exact Hd|discriminate|exact He].
  Qed.

  (* one proof of the proof list, known or unknown type, through extractProof *)
  Theorem proof_roundtrip j p e :
    extract_proof O repo_env j = Ok p -> enc_proof repo_env p = Ok e -> extract_proof O repo_env e = Ok p.
  Proof.
    intros Hd He. apply (proof_rt O repo_env renum_idem (known_rt O renum_idem mtp_idem mtp_normal) p e); eauto.
  Qed.

  (* one authentication / assertionMethod entry *)
  Theorem auth_roundtrip j a e :
    dec_auth O repo_env j = Ok a ->
    match a with VAuthMethod vals => canon0 (KStruct (pe_cvm repo_env)) (VStruct vals) | _ => True end ->
    enc_auth repo_env a = Ok e -> dec_auth O repo_env e = Ok a.
  Proof.
    intros Hd Hc He.
    apply (auth_rt O repo_env renum_idem time_roundtrip mtp_idem mtp_gist cvm_rt_side a e); eauto.
  Qed.
End Codecs.

Theorem auth_embedded_vs_reference (O : oracles) j a e :
  dec_auth O repo_env j = Ok a -> enc_auth repo_env a = Ok e ->
  match j with
  | JObj _ => (exists vals, a = VAuthMethod vals) /\ exists m, e = JObj m
  | JStr s => if String.eqb s "" then a = VAuthMethod (zeros (pe_cvm repo_env)) else a = VAuthDid s /\ e = JStr s
  | _ => False
  end.
Proof.
  intros Hd He. pose proof (dec_auth_kind O repo_env j a Hd) as Hk. pose proof (enc_auth_kind repo_env a e He) as Hk'.
  destruct j; try exact Hk.
  - destruct (String.eqb s ""); [exact Hk|]. subst a. split; [reflexivity|exact Hk'].
  - destruct Hk as (vals & ->). split; [eauto|exact Hk'].
Qed.

(* ---- seeded variants, refuted by concrete witnesses ---- *)
Definition ex_prev_ref : option auth_state := Some (zeros (pe_cvm repo_env), "did:example:someone-else#key-1").
Definition ex_method : json := JObj [("id", JStr "did:example:123#key-1"); ("controller", JStr "did:example:123")].

(* C14-c / C14-q: the object branch of Authentication.UnmarshalJSON does not reset did *)
Example decode_keeps_did_refuted :
  exists prev j, j <> JStr "" /\
    res_map auth_view (dec_auth_into_keeps_did ex_oracles2 repo_env prev j) <> dec_auth ex_oracles2 repo_env j.
Proof. exists ex_prev_ref, ex_method. split; [discriminate|]. vm_compute. discriminate. Qed.

(* C14-m: the decoded method is never stored *)
Example decode_drops_method_refuted :
  exists prev j, j <> JStr "" /\
    res_map auth_view (dec_auth_into_drops_method ex_oracles2 repo_env prev j) <> dec_auth ex_oracles2 repo_env j.
Proof. exists None, ex_method. split; [discriminate|]. vm_compute. discriminate. Qed.

(* C14-f: MarshalJSON prints an embedded method without type as a reference to its id *)
Definition enc_auth_untyped_as_reference (v : gval) : res json :=
  match v with
  | VAuthMethod (VStr id :: VStr "" :: _) => if String.eqb id "" then enc_auth repo_env v else Ok (JStr id)
  | _ => enc_auth repo_env v
  end.
Example auth_untyped_as_reference_refuted :
  exists j a e, dec_auth ex_oracles2 repo_env j = Ok a /\ enc_auth_untyped_as_reference a = Ok e /\
                dec_auth ex_oracles2 repo_env e <> Ok a.
Proof. exists ex_method. eexists. eexists. split; [vm_compute; reflexivity|]. split; [vm_compute; reflexivity|]. vm_compute. discriminate. Qed.

(* C14-n / C14-p: GistInfoProof.MarshalJSON names the auxiliary node "nodeAux"; with a
   merkletree.Proof codec that reads existence / siblings / node_aux the node is lost *)
Definition ex_mtp_members : list string := ["existence"; "node_aux"; "siblings"].
Definition ex_oracles3 : oracles :=
  {| o_renum := fun n => Some n;
     o_mtp := fun j => match j with
                       | JObj m => Some (JObj (msort (filter (fun kv => str_mem (fst kv) ex_mtp_members) m)))
                       | _ => None end;
     o_claim := fun _ => true; o_sig := fun _ => true |}.
Definition rename_key (a b : string) (m : members) : members :=
  map (fun kv => if String.eqb (fst kv) a then (b, snd kv) else kv) m.
Definition enc_gist_nodeAux (v : gval) : res json :=
  match enc_gist v with Ok (JObj m) => Ok (JObj (msort (rename_key "node_aux" "nodeAux" m))) | r => r end.
Definition ex_gist : json :=
  JObj [("type", JStr "Iden3SparseMerkleTreeProof"); ("existence", JBool false); ("siblings", JArr []);
        ("node_aux", JObj [("key", JStr "1"); ("value", JStr "2")])].
Example gist_nodeAux_refuted :
  exists v e, dec_gist ex_oracles3 ex_gist = Ok v /\ enc_gist_nodeAux v = Ok e /\ dec_gist ex_oracles3 e <> Ok v.
Proof. eexists. eexists. split; [vm_compute; reflexivity|]. split; [vm_compute; reflexivity|]. vm_compute. discriminate. Qed.
(* while the modelled encoder keeps it on the same input *)
Example gist_node_aux_kept :
  match dec_gist ex_oracles3 ex_gist with
  | Ok v => match enc_gist v with Ok e => dec_gist ex_oracles3 e = Ok v | _ => False end
  | _ => False end.
Proof. vm_compute. reflexivity. Qed.

(* C14-o / C14-d: the proofs are detached while Merklize / verifyCredentialCoreClaim work
   and put back on the success path only: a failing JSON-LD step loses them *)
Example merklize_detach_refuted :
  match cred_decode ex_oracles2 ex_cred2 with
  | Ok c => fst (merklize_st_detach ex_oracles2 repo_env merklize_deleted d_W3CCredential unit
                   (fun _ => Err "network is down") c) <> c
  | _ => False
  end.
Proof. vm_compute. discriminate. Qed.
Example verifyclaim_detach_refuted :
  match cred_decode ex_oracles2 ex_cred2 with
  | Ok c => fst (verifyclaim_st_detach ex_oracles2 repo_env merklize_deleted d_W3CCredential unit unit
                   (fun _ => Err "network is down") (fun _ _ => Ok tt) (fun _ => Ok tt) c) <> c
  | _ => False
  end.
Proof. vm_compute. discriminate. Qed.
(* and they agree with the modelled functions when every step succeeds *)
Example merklize_detach_same_on_success :
  match cred_decode ex_oracles2 ex_cred2 with
  | Ok c => fst (merklize_st_detach ex_oracles2 repo_env merklize_deleted d_W3CCredential unit (fun _ => Ok tt) c) = c
  | _ => False
  end.
Proof. vm_compute. reflexivity. Qed.
