(* Codec/Roundtrip.v — encode then decode gives the value back: for every value the
   decoder can produce ("reach") that is canonical (an omitempty slice / map field is
   not empty-but-non-nil: encoding/json cannot represent the difference).
   Generic in the descriptors and in the hand-written codecs (hypothesis on KCustom). *)
From Coq Require Import ZArith List String Ascii Bool Lia.
From GSP Require Import Base.Prelude Codec.Desc Codec.Json Codec.Time Codec.Model Codec.JsonTheory
  Codec.Theory Codec.Lossless.
Import ListNotations.
Open Scope string_scope.
Open Scope list_scope.

(* kinds the round trip is claimed for: no json.RawMessage (wire structs only), no
   recursive type; nested field lists have names distinct up to case; a field of type
   CredentialProofs is omitempty (nil proofs print as null, which the decoder rejects) *)
Fixpoint rt_kind (k : kind) : bool :=
  match k with
  | KRaw | KRec _ => false
  | KStruct fs | KPtrStruct fs | KSliceStruct fs =>
      (fix go (fs : list fdesc) : bool :=
         match fs with
         | [] => true
         | FD _ _ o k' :: t =>
             rt_kind k' && (match k' with KCustom CuCredentialProofs => o | _ => true end) && go t
         end) fs && fold_keys_nodup fs
  | _ => true
  end.

Definition field_rt_ok (f : fdesc) : bool :=
  rt_kind (fd_kind f) && (match fd_kind f with KCustom CuCredentialProofs => fd_omit f | _ => true end).

Lemma rt_fields_forall fs :
  (fix go (fs : list fdesc) : bool :=
     match fs with
     | [] => true
     | FD _ _ o k' :: t =>
         rt_kind k' && (match k' with KCustom CuCredentialProofs => o | _ => true end) && go t
     end) fs = true ->
  Forall (fun f => field_rt_ok f = true) fs.
Proof.
  induction fs as [|[g key o k] t IH]; intros H; constructor.
  - unfold field_rt_ok. simpl. apply andb_true_iff in H. tauto.
  - apply IH. apply andb_true_iff in H. tauto.
Qed.

Lemma Forall2_combine {A B} (P : A -> B -> Prop) l1 l2 :
  Forall2 P l1 l2 -> forall a b, In (a, b) (combine l1 l2) -> P a b.
Proof.
  induction 1 as [|x y l1 l2 Hxy H IH]; simpl; intros a b Hin; [tauto|].
  destruct Hin as [E|Hin]; [inversion E; subst; assumption|auto].
Qed.

Lemma Forall2_length' {A B} (P : A -> B -> Prop) l1 l2 : Forall2 P l1 l2 -> List.length l1 = List.length l2.
Proof. induction 1; simpl; congruence. Qed.

Lemma in_combine_key (fs : list fdesc) (vs : list gval) f v :
  In (f, v) (combine fs vs) -> In (fd_key f) (field_keys fs).
Proof. intros H. apply in_combine_l in H. apply in_map. assumption. Qed.

Lemma norm_nonnull renum j a : norm renum j = Some a -> j <> JNull -> a <> JNull.
Proof.
  intros H Hn. destruct j.
  - tauto.
  - simpl in H. inversion H. discriminate.
  - simpl in H. destruct (renum n); inversion H. discriminate.
  - simpl in H. inversion H. discriminate.
  - rewrite norm_arr in H. destruct (norm_list renum l); inversion H. discriminate.
  - rewrite norm_obj in H. destruct (norm_members renum m); inversion H. discriminate.
Qed.

Section RT.
  Variable O : oracles.
  Variable cdec : custom -> json -> res gval.
  Variable cenc : custom -> gval -> res json.
  Notation renum := (o_renum O).
  Hypothesis renum_idem : forall n n', renum n = Some n' -> renum n' = Some n'.
  Hypothesis time_rt : forall s t s', parse_time s = Some t -> format_time t = Some s' -> parse_time s' = Some t.

  (* values the decoder produces for a field of kind k *)
  Definition reach (k : kind) (v : gval) : Prop :=
    v = zero k \/ exists j, decode_val O cdec k j = Ok v.

  (* canonicity of the values of the hand-written codecs (given by the layer above) *)
  Variable ccanon : custom -> gval -> Prop.

  (* canonical: what is dropped by omitempty is the zero value *)
  Inductive canon : kind -> gval -> Prop :=
  | cn_struct fs vs :
      Forall2 (fun f v => canon (fd_kind f) v /\
                          (fd_omit f = true -> is_empty v = true -> v = zero (fd_kind f))) fs vs ->
      canon (KStruct fs) (VStruct vs)
  | cn_pstruct fs vs :
      Forall2 (fun f v => canon (fd_kind f) v /\
                          (fd_omit f = true -> is_empty v = true -> v = zero (fd_kind f))) fs vs ->
      canon (KPtrStruct fs) (VOptStruct (Some vs))
  | cn_structs fs l :
      Forall (fun vs => Forall2 (fun f v => canon (fd_kind f) v /\
                          (fd_omit f = true -> is_empty v = true -> v = zero (fd_kind f))) fs vs) l ->
      canon (KSliceStruct fs) (VStructs (Some l))
  | cn_custom c v : ccanon c v -> canon (KCustom c) v
  | cn_other k v :
      (forall c, k <> KCustom c) ->
      (forall fs vs, (k, v) <> (KStruct fs, VStruct vs)) ->
      (forall fs vs, (k, v) <> (KPtrStruct fs, VOptStruct (Some vs))) ->
      (forall fs l, (k, v) <> (KSliceStruct fs, VStructs (Some l))) ->
      canon k v.

  (* the hand-written codecs round-trip on what they decode; a nil value of a custom
     kind other than CredentialProofs round-trips as well *)
  Hypothesis custom_rt : forall c v e,
    reach (KCustom c) v -> (c = CuCredentialProofs -> v <> zero (KCustom c)) ->
    ccanon c v -> cenc c v = Ok e -> cdec c e = Ok v.

  Definition rt_at (k : kind) : Prop :=
    forall v, reach k v -> canon k v ->
    (k = KCustom CuCredentialProofs -> v <> zero k) ->
    forall e, encode_val cenc k v = Ok e -> decode_val O cdec k e = Ok v.

  (* ---- the encoded members ---- *)
  Lemma enc_fields_keys fs : forall vs em, enc_fields cenc fs vs = Ok em -> incl (keys em) (field_keys fs).
  Proof.
    induction fs as [|[g key o k] t IH]; intros vs em H; destruct vs as [|v vt]; simpl in H; try discriminate.
    - inversion H. intros x [].
    - apply bind_ok in H. destruct H as (r & Hr & H). specialize (IH _ _ Hr).
      destruct (o && is_empty v).
      + inversion H. subst. intros x Hx. right. apply IH. assumption.
      + apply bind_ok in H. destruct H as (e & He & H). inversion H. subst. simpl.
        intros x [<-|Hx]; [left; reflexivity|right; apply IH; assumption].
  Qed.

  Lemma enc_fields_nodup fs : forall vs em, NoDup (field_keys fs) -> enc_fields cenc fs vs = Ok em -> NoDup (keys em).
  Proof.
    induction fs as [|[g key o k] t IH]; intros vs em Hnd H; destruct vs as [|v vt]; simpl in H; try discriminate.
    - inversion H. constructor.
    - inversion Hnd as [|? ? Hn Hnd']; subst.
      apply bind_ok in H. destruct H as (r & Hr & H). pose proof (enc_fields_keys _ _ _ Hr) as Hk.
      specialize (IH _ _ Hnd' Hr).
      destruct (o && is_empty v).
      + inversion H. subst. assumption.
      + apply bind_ok in H. destruct H as (e & He & H). inversion H. subst. simpl.
        constructor; [|assumption]. intros Hin. apply Hn. apply Hk. assumption.
  Qed.

  Lemma enc_fields_spec fs : forall vs em, NoDup (field_keys fs) -> enc_fields cenc fs vs = Ok em ->
    List.length fs = List.length vs /\
    forall f v, In (f, v) (combine fs vs) ->
      (fd_omit f && is_empty v = true /\ jget (fd_key f) em = None) \/
      (fd_omit f && is_empty v = false /\ exists e, encode_val cenc (fd_kind f) v = Ok e /\ jget (fd_key f) em = Some e).
  Proof.
    induction fs as [|[g key o k] t IH]; intros vs em Hnd H; destruct vs as [|v vt]; simpl in H; try discriminate.
    - split; [reflexivity|]. simpl. tauto.
    - inversion Hnd as [|? ? Hn Hnd']; subst.
      apply bind_ok in H. destruct H as (r & Hr & H). pose proof (enc_fields_keys _ _ _ Hr) as Hk.
      destruct (IH _ _ Hnd' Hr) as [Hlen IHs]. split; [simpl; congruence|].
      intros f v' Hin. simpl in Hin. destruct Hin as [E|Hin].
      + inversion E. subst f v'. simpl. destruct (o && is_empty v) eqn:Eo.
        * inversion H. subst. left. split; [reflexivity|]. apply jget_notin. intros Hx. apply Hn, Hk, Hx.
        * apply bind_ok in H. destruct H as (e & He & H). inversion H. subst. right. split; [reflexivity|].
          exists e. split; [assumption|]. simpl. rewrite String.eqb_refl. reflexivity.
      + assert (Hne : key <> fd_key f).
        { intros ->. apply Hn. eapply in_combine_key; eauto. }
        specialize (IHs f v' Hin).
        destruct (o && is_empty v).
        * inversion H. subst. assumption.
        * apply bind_ok in H. destruct H as (e & He & H). inversion H. subst. simpl.
          apply String.eqb_neq in Hne. rewrite Hne. assumption.
  Qed.

  Lemma dec_fields_from fs em : forall vs, List.length fs = List.length vs ->
    (forall f v, In (f, v) (combine fs vs) -> dec_member O cdec (fd_kind f) (jfind_all (fd_key f) em) = Ok v) ->
    dec_fields O cdec fs em = Ok vs.
  Proof.
    induction fs as [|[g key o k] t IH]; intros vs Hlen H; destruct vs as [|v vt]; simpl in Hlen; try discriminate.
    - reflexivity.
    - cbn [dec_fields]. pose proof (H (FD g key o k) v (or_introl eq_refl)) as H0.
      cbn [fd_kind fd_key] in H0. rewrite H0. cbn [bind].
      rewrite (IH vt); [reflexivity|congruence|]. intros f v' Hin. apply H. simpl. auto.
  Qed.

  (* ---- values reached by a struct decode ---- *)
  Lemma dup_apply_reach k keep js : forall cur, reach k cur ->
    forall v, dup_apply (decode_val O cdec k) keep cur js = Ok v -> reach k v.
  Proof.
    induction js as [|j t IH]; intros cur Hc v H; simpl in H.
    - inversion H. subst. assumption.
    - assert (G : forall w, decode_val O cdec k j = Ok w -> dup_apply (decode_val O cdec k) keep w t = Ok v -> reach k v).
      { intros w Hw Hd. eapply IH; [|exact Hd]. right. eauto. }
      destruct j; try (apply bind_ok in H; destruct H as (w & Hw & H); eapply G; eauto).
      destruct keep; [eapply IH; eauto|].
      apply bind_ok in H; destruct H as (w & Hw & H); eapply G; eauto.
  Qed.

  Lemma dec_member_reach k js v : dec_member O cdec k js = Ok v -> reach k v.
  Proof.
    unfold dec_member. destruct js as [|j [|j' t]]; intros H.
    - inversion H. left. reflexivity.
    - right. eauto.
    - destruct (seq_kind k); [|discriminate]. eapply dup_apply_reach; [|exact H]. left. reflexivity.
  Qed.

  Lemma dec_fields_reach fs m : forall vs, dec_fields O cdec fs m = Ok vs ->
    Forall2 (fun f v => reach (fd_kind f) v) fs vs.
  Proof.
    induction fs as [|[g key o k] t IH]; intros vs H; simpl in H.
    - inversion H. constructor.
    - apply bind_ok in H. destruct H as (v & Hv & H). apply bind_ok in H. destruct H as (r & Hr & H).
      inversion H. subst. constructor; [simpl; eapply dec_member_reach; eauto|apply IH; assumption].
  Qed.

  Lemma zeros_reach fs : Forall2 (fun f v => reach (fd_kind f) v) fs (zeros fs).
  Proof. induction fs as [|f t IH]; simpl; constructor; [left; reflexivity|assumption]. Qed.

  Lemma zero_struct fs : zero (KStruct fs) = VStruct (zeros fs).
  Proof.
    simpl. f_equal. induction fs as [|[g key o k] t IH]; simpl; [reflexivity|]. rewrite IH. reflexivity.
  Qed.

  (* ---- the field loop ---- *)
  Lemma fields_rt fs vs em :
    Forall (fun f => rt_at (fd_kind f)) fs ->
    Forall (fun f => field_rt_ok f = true) fs ->
    NoDup (map fold_str (field_keys fs)) ->
    Forall2 (fun f v => reach (fd_kind f) v) fs vs ->
    Forall2 (fun f v => canon (fd_kind f) v /\
                        (fd_omit f = true -> is_empty v = true -> v = zero (fd_kind f))) fs vs ->
    enc_fields cenc fs vs = Ok em ->
    dec_fields O cdec fs em = Ok vs.
  Proof.
    intros IH Hok Hfk Hreach Hcanon He.
    assert (NDfk : NoDup (field_keys fs)) by (eapply NoDup_map_inv; eauto).
    destruct (enc_fields_spec fs vs em NDfk He) as [Hlen Hspec].
    apply dec_fields_from; [assumption|].
    intros f v Hin.
    pose proof (enc_fields_keys _ _ _ He) as Hk. pose proof (enc_fields_nodup _ _ _ NDfk He) as Hnd.
    rewrite (jfind_all_exact (field_keys fs)); try assumption; [|eapply in_combine_key; eauto].
    pose proof (Forall2_combine _ _ _ Hreach f v Hin) as Hr.
    pose proof (Forall2_combine _ _ _ Hcanon f v Hin) as [Hcn Hz].
    assert (Hinf : In f fs) by (eapply in_combine_l; eauto).
    rewrite Forall_forall in IH, Hok. specialize (IH f Hinf). specialize (Hok f Hinf).
    destruct (Hspec f v Hin) as [[Eo G]|[Eo (e & Ee & G)]]; rewrite G; cbn [dec_member].
    - apply andb_true_iff in Eo. destruct Eo as [Eo1 Eo2]. rewrite (Hz Eo1 Eo2). reflexivity.
    - apply IH; try assumption.
      intros Ek Ez. unfold field_rt_ok in Hok. rewrite Ek in Hok. simpl in Hok.
      rewrite Hok in Eo. simpl in Eo. rewrite Ez, Ek in Eo. simpl in Eo. discriminate.
  Qed.

  (* ---- the theorem, by induction on the kind ---- *)
  Lemma canon_struct_inv fs vs : canon (KStruct fs) (VStruct vs) ->
    Forall2 (fun f v => canon (fd_kind f) v /\
                        (fd_omit f = true -> is_empty v = true -> v = zero (fd_kind f))) fs vs.
  Proof. intros H. inversion H; subst; [assumption|]. exfalso. eapply H1. reflexivity. Qed.

  Lemma canon_pstruct_inv fs vs : canon (KPtrStruct fs) (VOptStruct (Some vs)) ->
    Forall2 (fun f v => canon (fd_kind f) v /\
                        (fd_omit f = true -> is_empty v = true -> v = zero (fd_kind f))) fs vs.
  Proof. intros H. inversion H; subst; [assumption|]. exfalso. eapply H2. reflexivity. Qed.

  Lemma canon_structs_inv fs l : canon (KSliceStruct fs) (VStructs (Some l)) ->
    Forall (fun vs => Forall2 (fun f v => canon (fd_kind f) v /\
                        (fd_omit f = true -> is_empty v = true -> v = zero (fd_kind f))) fs vs) l.
  Proof. intros H. inversion H; subst; [assumption|]. exfalso. eapply H3. reflexivity. Qed.

  Lemma decode_struct_reach fs j vs : decode_val O cdec (KStruct fs) j = Ok (VStruct vs) ->
    Forall2 (fun f v => reach (fd_kind f) v) fs vs.
  Proof.
    destruct j; try discriminate.
    - intros H. rewrite <- zero_struct in H || idtac. change (Ok (zero (KStruct fs)) = Ok (VStruct vs)) in H.
      rewrite zero_struct in H. inversion H. apply zeros_reach.
    - rewrite decode_struct_obj. intros H. apply bind_ok in H. destruct H as (r & Hr & H). inversion H. subst.
      eapply dec_fields_reach; eauto.
  Qed.

  Lemma reach_struct fs vs : reach (KStruct fs) (VStruct vs) -> Forall2 (fun f v => reach (fd_kind f) v) fs vs.
  Proof.
    intros [H|(j & H)].
    - rewrite zero_struct in H. inversion H. apply zeros_reach.
    - eapply decode_struct_reach; eauto.
  Qed.

  Lemma reach_pstruct fs vs : reach (KPtrStruct fs) (VOptStruct (Some vs)) -> Forall2 (fun f v => reach (fd_kind f) v) fs vs.
  Proof.
    intros [H|(j & H)]; [discriminate H|].
    destruct j; try discriminate.
    rewrite decode_ptrstruct_obj in H. apply bind_ok in H. destruct H as (r & Hr & H). inversion H. subst.
    eapply dec_fields_reach; eauto.
  Qed.

  Lemma rt_struct_fields fs :
    Forall (fun f => rt_kind (fd_kind f) = true -> rt_at (fd_kind f)) fs ->
    Forall (fun f => field_rt_ok f = true) fs ->
    Forall (fun f => rt_at (fd_kind f)) fs.
  Proof.
    intros H1 H2. rewrite Forall_forall in *. intros f Hin. apply H1; [assumption|].
    specialize (H2 f Hin). unfold field_rt_ok in H2. apply andb_true_iff in H2. tauto.
  Qed.

  Theorem rt_all k : rt_kind k = true -> rt_at k.
  Proof.
    induction k as [| | | | | | fs IH | fs IH | | fs IH | | | | | c | n] using kind_ind'; intros Hk v Hr Hc Hnz e He;
      try discriminate Hk.
    - (* KString *) destruct v; try discriminate He. inversion He. reflexivity.
    - (* KPtrString *) destruct v as [| [s|] | | | | | | | | | | | | | | | | | | | | |]; try discriminate He; inversion He; reflexivity.
    - (* KPtrInt *)
      destruct v as [| | [z|] | | | | | | | | | | | | | | | | | | | |]; try discriminate He; inversion He; [|reflexivity].
      destruct Hr as [Hr|(j & Hr)]; [discriminate Hr|].
      destruct j as [| |[z'|]| | |]; simpl in Hr; try discriminate Hr.
      destruct (int64_ok z') eqn:Ez; [|discriminate]. inversion Hr. subst. simpl. rewrite Ez. reflexivity.
    - (* KPtrBool *) destruct v as [| | | [b|] | | | | | | | | | | | | | | | | | | |]; try discriminate He; inversion He; reflexivity.
    - (* KUint64 *)
      destruct v; try discriminate He. inversion He.
      destruct Hr as [Hr|(j & Hr)]; [inversion Hr; reflexivity|].
      destruct j as [| |[z'|]| | |]; simpl in Hr; try discriminate Hr.
      + inversion Hr. reflexivity.
      + destruct (uint64_ok z') eqn:Ez; [|discriminate]. inversion Hr. subst. simpl. rewrite Ez. reflexivity.
    - (* KPtrTime *)
      destruct v as [| | | | | [t|] | | | | | | | | | | | | | | | | |]; try discriminate He; [|inversion He; reflexivity].
      simpl in He. destruct (format_time t) as [s'|] eqn:Ef; [|discriminate]. inversion He.
      destruct Hr as [Hr|(j & Hr)]; [discriminate Hr|].
      destruct j; simpl in Hr; try discriminate Hr.
      destruct (parse_time s) eqn:Ep; [|discriminate]. inversion Hr. subst.
      simpl. rewrite (time_rt _ _ _ Ep Ef). reflexivity.
    - (* KStruct *)
      destruct v; try discriminate He.
      simpl in Hk. apply andb_true_iff in Hk. destruct Hk as [Hf Hfk].
      apply rt_fields_forall in Hf. unfold fold_keys_nodup in Hfk. apply str_nodup_NoDup in Hfk.
      rewrite encode_struct_eq in He. apply bind_ok in He. destruct He as (em & Hem & He). inversion He. subst e.
      rewrite decode_struct_obj.
      rewrite (fields_rt fs fs0 em); try assumption; [reflexivity| | |].
      + apply rt_struct_fields; assumption.
      + apply reach_struct. assumption.
      + apply canon_struct_inv. assumption.
    - (* KPtrStruct *)
      destruct v as [| | | | | | | [vs|] | | | | | | | | | | | | | | |]; try discriminate He; [|inversion He; reflexivity].
      simpl in Hk. apply andb_true_iff in Hk. destruct Hk as [Hf Hfk].
      apply rt_fields_forall in Hf. unfold fold_keys_nodup in Hfk. apply str_nodup_NoDup in Hfk.
      rewrite encode_ptrstruct_eq in He. apply bind_ok in He. destruct He as (em & Hem & He). inversion He. subst e.
      rewrite decode_ptrstruct_obj.
      rewrite (fields_rt fs vs em); try assumption; [reflexivity| | |].
      + apply rt_struct_fields; assumption.
      + apply reach_pstruct. assumption.
      + apply canon_pstruct_inv. assumption.
    - (* KSliceString *)
      destruct v as [| | | | | | | | [l|] | | | | | | | | | | | | | |]; try discriminate He; inversion He; [|reflexivity].
      simpl. rewrite map_res_strs. reflexivity.
    - (* KSliceStruct *)
      destruct v as [| | | | | | | | | [l|] | | | | | | | | | | | | |]; try discriminate He; [|inversion He; reflexivity].
      simpl in Hk. apply andb_true_iff in Hk. destruct Hk as [Hf Hfk].
      apply rt_fields_forall in Hf. unfold fold_keys_nodup in Hfk. apply str_nodup_NoDup in Hfk.
      pose proof (rt_struct_fields fs IH Hf) as IH'.
      rewrite encode_slicestruct_eq in He. apply bind_ok in He. destruct He as (r & Hr' & He). inversion He. subst e.
      rewrite decode_slicestruct_arr.
      (* every element was produced by the field loop *)
      assert (Hel : Forall (fun vs => Forall2 (fun f v => reach (fd_kind f) v) fs vs) l).
      { destruct Hr as [Hr|(j & Hr)]; [discriminate Hr|].
        destruct j; try discriminate Hr. rewrite decode_slicestruct_arr in Hr.
        apply bind_ok in Hr. destruct Hr as (r0 & Hr0 & Hr). inversion Hr. subst r0.
        clear - Hr0. revert l Hr0. induction l0 as [|x t IHt]; intros l Hr0; simpl in Hr0.
        - inversion Hr0. constructor.
        - apply bind_ok in Hr0. destruct Hr0 as (b & Hb & Hr0). apply bind_ok in Hr0. destruct Hr0 as (rt & Hrt & Hr0).
          inversion Hr0. subst. constructor; [|apply IHt; assumption].
          destruct x; simpl in Hb; try discriminate Hb.
          + inversion Hb. apply zeros_reach.
          + eapply dec_fields_reach; eauto. }
      pose proof (canon_structs_inv _ _ Hc) as Hcl.
      assert (G : map_res (dec_elem O cdec fs) r = Ok l).
      { clear Hr Hc Hnz He. revert r Hr' Hel Hcl. induction l as [|vs t IHt]; intros r Hr' Hel Hcl; simpl in Hr'.
        - inversion Hr'. reflexivity.
        - apply bind_ok in Hr'. destruct Hr' as (b & Hb & Hr'). apply bind_ok in Hr'. destruct Hr' as (rt & Hrt & Hr').
          inversion Hr'. subst r. apply bind_ok in Hb. destruct Hb as (em & Hem & Hb). inversion Hb. subst b.
          inversion Hel; subst. inversion Hcl; subst.
          simpl. rewrite (fields_rt fs vs em); try assumption. cbn [bind].
          rewrite (IHt rt Hrt) by assumption. reflexivity. }
      rewrite G. reflexivity.
    - (* KAny *)
      destruct v as [| | | | | | | | | | [a|] | | | | | | | | | | | |]; try discriminate He; inversion He; [subst e|reflexivity].
      destruct Hr as [Hr|(j & Hr)]; [discriminate Hr|].
      assert (Hj : j <> JNull /\ norm renum j = Some a).
      { destruct j; [discriminate Hr| | | | |]; (split; [discriminate|]);
          cbn [decode_val] in Hr; unfold dec_any in Hr;
          match type of Hr with context [norm renum ?x] => destruct (norm renum x) eqn:En end;
          simpl in Hr; inversion Hr; reflexivity. }
      destruct Hj as [Hnn Hn].
      pose proof (norm_nonnull _ _ _ Hn Hnn) as Ha. pose proof (norm_idem _ renum_idem _ _ Hn) as Hi.
      simpl. destruct a; try tauto; unfold dec_any; rewrite Hi; reflexivity.
    - (* KMapAny *)
      destruct v as [| | | | | | | | | | | [m|] | | | | | | | | | | |]; try discriminate He; inversion He; [subst e|reflexivity].
      destruct Hr as [Hr|(j & Hr)]; [discriminate Hr|].
      destruct j; simpl in Hr; try discriminate Hr.
      unfold dec_any in Hr. destruct (norm renum (JObj m0)) as [a|] eqn:En; simpl in Hr; [|discriminate].
      destruct a; try discriminate Hr. inversion Hr. subst.
      pose proof (norm_idem _ renum_idem _ _ En) as Hi.
      simpl. unfold dec_any. rewrite Hi. reflexivity.
    - (* KSliceAny *)
      destruct v as [| | | | | | | | | | | | [l|] | | | | | | | | | |]; try discriminate He; inversion He; [subst e|reflexivity].
      destruct Hr as [Hr|(j & Hr)]; [discriminate Hr|].
      destruct j; simpl in Hr; try discriminate Hr.
      unfold dec_any in Hr. destruct (norm renum (JArr l0)) as [a|] eqn:En; simpl in Hr; [|discriminate].
      destruct a; try discriminate Hr. inversion Hr. subst.
      pose proof (norm_idem _ renum_idem _ _ En) as Hi.
      simpl. unfold dec_any. rewrite Hi. reflexivity.
    - (* KCustom *)
      simpl in He. simpl. inversion Hc as [| | |c' v' Hcc|k' v' Hn]; subst; [|exfalso; eapply Hn; reflexivity].
      apply (custom_rt c v e); try assumption.
      intros ->. apply Hnz. reflexivity.
  Qed.
End RT.

(* ==================================================================== *)
(* The hand-written codecs, layer 0: *merkletree.Proof and *GistInfoProof *)
Lemma jfind_all_none k m : (forall a, In a (keys m) -> fold_eqb a k = false) -> jfind_all k m = [].
Proof.
  induction m as [|[a v] t IH]; simpl; intros H; [reflexivity|].
  rewrite (H a) by auto. apply IH. intros b Hb. apply H. auto.
Qed.

Lemma fold_eqb_refl k : fold_eqb k k = true.
Proof. unfold fold_eqb. apply String.eqb_refl. Qed.

Lemma jfind_all_mins k v acc :
  (forall a, In a (keys acc) -> fold_eqb a k = false) -> jfind_all k (mins k v acc) = [v].
Proof.
  induction acc as [|[a w] t IH]; simpl; intros H.
  - rewrite fold_eqb_refl. reflexivity.
  - destruct (String.compare k a) eqn:C.
    + apply compare_eq in C. subst a. exfalso. pose proof (H k (or_introl eq_refl)) as F.
      rewrite fold_eqb_refl in F. discriminate.
    + simpl. rewrite fold_eqb_refl. rewrite (H a) by auto.
      rewrite jfind_all_none; [reflexivity|]. intros b Hb. apply H. auto.
    + simpl. rewrite (H a) by auto. apply IH. intros b Hb. apply H. auto.
Qed.

Lemma keys_msort_incl m : incl (keys (msort m)) (keys m).
Proof.
  unfold msort.
  assert (G : forall l acc x, In x (keys (fold_left (fun acc kv => mins (fst kv) (snd kv) acc) l acc)) ->
                              In x (keys l) \/ In x (keys acc)).
  { induction l as [|[a v] t IH]; intros acc x Hx; simpl in *; [tauto|].
    apply IH in Hx. destruct Hx as [Hx|Hx]; [tauto|]. apply keys_mins in Hx. destruct Hx as [->|Hx]; tauto. }
  intros x Hx. apply G in Hx. simpl in Hx. tauto.
Qed.

Section Level0.
  Variable O : oracles.
  (* merkletree.Proof (external): the canonical re-encoding is never null and decodes to
     itself; its member names are not "type"; adding a "type" member and sorting the
     members (GistInfoProof.MarshalJSON) does not change what it decodes to *)
  Hypothesis mtp_idem : forall j p, o_mtp O j = Some p -> p <> JNull /\ o_mtp O p = Some p.
  Hypothesis mtp_gist : forall j pm t, o_mtp O j = Some (JObj pm) ->
    o_mtp O (JObj (mins "type" (JStr t) (msort pm))) = Some (JObj pm) /\
    (forall a, In a (keys pm) -> fold_eqb a "type" = false).

  Lemma dec_mtp_some p : p <> JNull -> o_mtp O p = Some p -> dec_mtp O p = Ok (VMtp (Some p)).
  Proof. intros Hn Hp. destruct p; try tauto; simpl; rewrite Hp; reflexivity. Qed.

  Lemma custom_rt0 c v e :
    reach O (cdec0 O) (KCustom c) v -> (c = CuCredentialProofs -> v <> zero (KCustom c)) ->
    cenc0 c v = Ok e -> cdec0 O c e = Ok v.
  Proof.
    intros Hr Hz He. destruct c.
    - destruct Hr as [Hr|(j & Hr)]; [exfalso; apply Hz; auto|discriminate Hr].
    - (* *merkletree.Proof *)
      assert (Hv : v = VMtp None \/ exists j p, v = VMtp (Some p) /\ o_mtp O j = Some p).
      { destruct Hr as [Hr|(j & Hr)]; [left; exact Hr|].
        simpl in Hr. unfold dec_mtp in Hr. destruct j; try (inversion Hr; left; reflexivity);
          match type of Hr with context [o_mtp O ?x] => destruct (o_mtp O x) eqn:Em end;
          inversion Hr; right; eauto. }
      destruct Hv as [->|(j & p & -> & Hp)]; simpl in He; inversion He; subst e; simpl.
      + reflexivity.
      + destruct (mtp_idem _ _ Hp) as [Hn Hpp]. apply dec_mtp_some; assumption.
    - destruct Hr as [Hr|(j & Hr)]; [subst v; discriminate He|discriminate Hr].
    - (* *GistInfoProof *)
      assert (Hv : v = VGist None \/ exists j p t, v = VGist (Some (p, t)) /\ o_mtp O j = Some p).
      { destruct Hr as [Hr|(j & Hr)]; [left; exact Hr|].
        simpl in Hr. unfold dec_gist in Hr. destruct j; try (inversion Hr; left; reflexivity);
          match type of Hr with context [o_mtp O ?x] => destruct (o_mtp O x) eqn:Em end; try discriminate Hr.
        destruct (jfind_all "type" m).
        - inversion Hr. right. eauto.
        - apply bind_ok in Hr. destruct Hr as (t & _ & Hr). inversion Hr. right. eauto. }
      destruct Hv as [->|(j & p & t & -> & Hp)]; simpl in He.
      + inversion He. reflexivity.
      + destruct p; try discriminate He. inversion He. subst e.
        destruct (mtp_gist _ _ t Hp) as [Hg Hk].
        simpl. unfold dec_gist. rewrite Hg.
        rewrite jfind_all_mins; [reflexivity|].
        intros a Ha. apply Hk. apply keys_msort_incl. assumption.
  Qed.
End Level0.

(* ==================================================================== *)
(* Layer 1: CredentialProofs and []Authentication                        *)
Section Level1.
  Variable O : oracles.
  Variable E : penv.
  Notation renum := (o_renum O).
  Hypothesis renum_idem : forall n n', renum n = Some n' -> renum n' = Some n'.
  Hypothesis time_rt : forall s t s', parse_time s = Some t -> format_time t = Some s' -> parse_time s' = Some t.
  Hypothesis mtp_idem : forall j p, o_mtp O j = Some p -> p <> JNull /\ o_mtp O p = Some p.
  Hypothesis mtp_gist : forall j pm t, o_mtp O j = Some (JObj pm) ->
    o_mtp O (JObj (mins "type" (JStr t) (msort pm))) = Some (JObj pm) /\
    (forall a, In a (keys pm) -> fold_eqb a "type" = false).
  (* side condition on the descriptors of CommonVerificationMethod *)
  Hypothesis cvm_ok : rt_kind (KStruct (pe_cvm E)) = true.
  (* the three known proof structs: see known_rt below *)
  Hypothesis known_rt : forall g pd a v e,
    lookup_str g (pe_proofs E) = Some pd -> norm (o_renum O) a = Some a -> dec_known O g pd a = Ok v ->
    enc_proof E v = Ok e -> extract_proof O E e = Ok v.

  Definition ctrue (c : custom) (v : gval) : Prop := True.
  Definition canon0 := canon ctrue.

  Lemma rt0 k : rt_kind k = true -> rt_at O (cdec0 O) cenc0 ctrue k.
  Proof.
    apply rt_all; try assumption.
    intros c v e Hr Hz _ He. eapply custom_rt0; eauto.
  Qed.

  (* canonicity of the layer-1 values: embedded verification methods are canonical *)
  Definition ccanon1 (c : custom) (v : gval) : Prop :=
    match c, v with
    | CuSliceAuthentication, VAuths (Some l) =>
        Forall (fun a => match a with
                         | VAuthMethod vals => canon0 (KStruct (pe_cvm E)) (VStruct vals)
                         | _ => True end) l
    | _, _ => True
    end.

  Lemma auth_rt a e :
    (exists j, dec_auth O E j = Ok a) ->
    (match a with VAuthMethod vals => canon0 (KStruct (pe_cvm E)) (VStruct vals) | _ => True end) ->
    enc_auth E a = Ok e -> dec_auth O E e = Ok a.
  Proof.
    intros (j & Hj) Hc He.
    assert (Ha : (exists s, a = VAuthDid s /\ s <> "") \/
                 (exists vals, a = VAuthMethod vals /\ reach O (cdec0 O) (KStruct (pe_cvm E)) (VStruct vals))).
    { unfold dec_auth in Hj. destruct j; try discriminate Hj.
      - destruct (String.eqb s "") eqn:Es; inversion Hj.
        + right. eexists. split; [reflexivity|]. left. rewrite zero_struct. reflexivity.
        + left. exists s. split; [reflexivity|]. intros ->. discriminate Es.
      - apply bind_ok in Hj. destruct Hj as (r & Hr & Hj). inversion Hj. right. eexists. split; [reflexivity|].
        right. exists (JObj m). unfold decode_struct in Hr. rewrite decode_fields_eq in Hr.
        rewrite decode_struct_obj, Hr. reflexivity. }
    destruct Ha as [(s & -> & Hs)|(vals & -> & Hr)].
    - simpl in He. inversion He. simpl. apply String.eqb_neq in Hs. rewrite Hs. reflexivity.
    - simpl in He. unfold encode_struct in He.
      pose proof (rt0 _ cvm_ok (VStruct vals) Hr Hc) as G.
      assert (Hnz : KStruct (pe_cvm E) = KCustom CuCredentialProofs -> VStruct vals <> zero (KStruct (pe_cvm E))) by discriminate.
      specialize (G Hnz e He).
      rewrite encode_struct_eq in He. apply bind_ok in He. destruct He as (em & Hem & He). inversion He. subst e.
      unfold dec_auth, decode_struct. rewrite decode_fields_eq.
      rewrite decode_struct_obj in G. apply bind_ok in G. destruct G as (r & Hr' & G). inversion G. subst r.
      rewrite Hr'. reflexivity.
  Qed.

  Lemma extract_proof_inv j p : extract_proof O E j = Ok p ->
    exists m0 m ty g, j = JObj m0 /\ norm renum j = Some (JObj m) /\ jget "type" m = Some (JStr ty) /\
      (match lookup_str ty (pe_dispatch E) with Some g' => Some g' | None => lookup_str "" (pe_dispatch E) end) = Some g /\
      ((exists pd, lookup_str g (pe_proofs E) = Some pd /\ dec_known O g pd (JObj m) = Ok p) \/
       (lookup_str g (pe_proofs E) = None /\ g = "CommonProof" /\ dec_common O (JObj m) = Ok p)).
  Proof.
    unfold extract_proof. destruct j as [| | | | |m0]; try discriminate. intros H.
    apply bind_ok in H. destruct H as (a & Ha & H). unfold dec_any in Ha.
    destruct (norm renum (JObj m0)) as [a'|] eqn:En; simpl in Ha; [|discriminate]. inversion Ha. subst a'.
    destruct a as [| | | | |m]; try discriminate H.
    destruct (jget "type" m) as [[| | |ty| |]|] eqn:Et; try discriminate H.
    destruct (match lookup_str ty (pe_dispatch E) with Some g' => Some g' | None => lookup_str "" (pe_dispatch E) end) as [g|] eqn:Eg; [|discriminate H].
    exists m0, m, ty, g. repeat split; try assumption.
    destruct (lookup_str g (pe_proofs E)) as [pd|] eqn:Ep.
    - left. eauto.
    - right. destruct (String.eqb g "CommonProof") eqn:Ec; [|discriminate H].
      apply String.eqb_eq in Ec. auto.
  Qed.

  Lemma proof_rt p e : (exists j, extract_proof O E j = Ok p) -> enc_proof E p = Ok e -> extract_proof O E e = Ok p.
  Proof.
    intros (j & Hj) He.
    destruct (extract_proof_inv _ _ Hj) as (m0 & m & ty & g & -> & Hn & Ht & Hg & [(pd & Hp & Hk)|(Hp & -> & Hc)]).
    - eapply known_rt; eauto. eapply norm_idem; eauto.
    - (* unknown proof type: the normalised object itself *)
      pose proof (norm_idem _ renum_idem _ _ Hn) as Hi.
      unfold dec_common in Hc. unfold dec_any in Hc. rewrite Hi in Hc. simpl in Hc. rewrite Ht in Hc. inversion Hc. subst p.
      simpl in He. inversion He. subst e.
      unfold extract_proof. unfold dec_any. rewrite Hi. simpl. rewrite Ht, Hg, Hp. simpl.
      unfold dec_any. rewrite Hi. simpl. rewrite Ht. reflexivity.
  Qed.

  Lemma map_res_rt {A B} (dec : B -> res A) (enc : A -> res B) (P : A -> Prop) l :
    (forall a b, P a -> enc a = Ok b -> dec b = Ok a) ->
    Forall P l -> forall r, map_res enc l = Ok r -> map_res dec r = Ok l.
  Proof.
    intros H. induction 1 as [|a t Ha Ht IH]; intros r Hr; simpl in Hr.
    - inversion Hr. reflexivity.
    - apply bind_ok in Hr. destruct Hr as (b & Hb & Hr). apply bind_ok in Hr. destruct Hr as (rt & Hrt & Hr).
      inversion Hr. simpl. rewrite (H _ _ Ha Hb). simpl. rewrite (IH _ Hrt). reflexivity.
  Qed.

  Lemma map_res_forall {A B} (f : A -> res B) l : forall r, map_res f l = Ok r ->
    Forall (fun b => exists a, f a = Ok b) r.
  Proof.
    induction l as [|a t IH]; intros r H; simpl in H.
    - inversion H. constructor.
    - apply bind_ok in H. destruct H as (b & Hb & H). apply bind_ok in H. destruct H as (rt & Hrt & H).
      inversion H. constructor; eauto.
  Qed.

  Lemma custom_rt1 c v e :
    reach O (cdec1 O E) (KCustom c) v -> (c = CuCredentialProofs -> v <> zero (KCustom c)) ->
    ccanon1 c v -> cenc1 E c v = Ok e -> cdec1 O E c e = Ok v.
  Proof.
    intros Hr Hz Hc He. destruct c.
    - (* CredentialProofs *)
      assert (Hv : exists l, v = VProofs (Some l) /\ l <> [] /\ Forall (fun p => exists j, extract_proof O E j = Ok p) l).
      { destruct Hr as [Hr|(j & Hr)]; [exfalso; apply Hz; auto|].
        change (dec_proofs O E j = Ok v) in Hr. unfold dec_proofs in Hr.
        assert (G : forall j', (p <- extract_proof O E j' ;; Ok (VProofs (Some [p]))) = Ok v ->
                    exists l, v = VProofs (Some l) /\ l <> [] /\ Forall (fun p => exists j, extract_proof O E j = Ok p) l).
        { intros j' H. apply bind_ok in H. destruct H as (p & Hp & H). inversion H.
          exists [p]. split; [reflexivity|]. split; [discriminate|]. constructor; eauto. }
        destruct j; try (apply (G _ Hr)); try discriminate Hr.
        apply bind_ok in Hr. destruct Hr as (r & Hr0 & Hr). destruct r as [|p r].
        - inversion Hr. subst v. exfalso. apply Hz; reflexivity.
        - inversion Hr. exists (p :: r). split; [reflexivity|]. split; [discriminate|].
          exact (map_res_forall _ _ _ Hr0). }
      destruct Hv as (l & -> & Hne & Hl). simpl in He.
      apply bind_ok in He. destruct He as (r & Hr' & He). inversion He. subst e.
      simpl. rewrite (map_res_rt (extract_proof O E) (enc_proof E) _ l (fun a b Ha Hb => proof_rt a b Ha Hb) Hl r Hr').
      simpl. destruct l; [tauto|reflexivity].
    - (* *merkletree.Proof *) eapply custom_rt0; eauto.
    - (* []Authentication *)
      assert (Hv : v = VAuths None \/ exists l, v = VAuths (Some l) /\ Forall (fun a => exists j, dec_auth O E j = Ok a) l).
      { destruct Hr as [Hr|(j & Hr)]; [left; exact Hr|].
        change (cdec1 O E CuSliceAuthentication j = Ok v) in Hr. unfold cdec1 in Hr.
        destruct j; try discriminate Hr.
        - inversion Hr. subst. left. reflexivity.
        - apply bind_ok in Hr. destruct Hr as (r & Hr0 & Hr). inversion Hr. subst. right. eexists. split; [reflexivity|].
          exact (map_res_forall _ _ _ Hr0). }
      destruct Hv as [->|(l & -> & Hl)]; simpl in He.
      + inversion He. reflexivity.
      + apply bind_ok in He. destruct He as (r & Hr' & He). inversion He. subst e. simpl in Hc.
        simpl.
        assert (Hboth : Forall (fun a => (exists j, dec_auth O E j = Ok a) /\
                  match a with VAuthMethod vals => canon0 (KStruct (pe_cvm E)) (VStruct vals) | _ => True end) l).
        { rewrite Forall_forall in *. intros a Ha. split; [apply Hl; assumption|apply Hc; assumption]. }
        rewrite (map_res_rt (dec_auth O E) (enc_auth E) _ l (fun a b Ha Hb => auth_rt a b (proj1 Ha) (proj2 Ha) Hb) Hboth r Hr').
        reflexivity.
    - (* *GistInfoProof *) eapply custom_rt0; eauto.
  Qed.

  (* encode then decode, for any value json.Unmarshal produces for a struct of kind k *)
  Theorem rt1 k : rt_kind k = true -> rt_at O (cdec1 O E) (cenc1 E) ccanon1 k.
  Proof. apply rt_all; try assumption. intros c v e. apply custom_rt1. Qed.
End Level1.

(* ==================================================================== *)
(* Decoded values are canonical when no omitempty field is a slice or a map *)
Definition omit_safe (k : kind) : bool :=
  match k with
  | KSliceString | KSliceStruct _ | KSliceAny | KMapAny | KCustom CuSliceAuthentication => false
  | _ => true
  end.

Fixpoint nice (k : kind) : bool :=
  match k with
  | KStruct fs | KPtrStruct fs | KSliceStruct fs =>
      (fix go (fs : list fdesc) : bool :=
         match fs with
         | [] => true
         | FD _ _ o k' :: t => nice k' && (negb o || omit_safe k') && go t
         end) fs
  | KCustom CuSliceAuthentication => false
  | _ => true
  end.

Definition field_nice (f : fdesc) : bool := nice (fd_kind f) && (negb (fd_omit f) || omit_safe (fd_kind f)).

Lemma nice_fields_forall fs :
  (fix go (fs : list fdesc) : bool :=
     match fs with
     | [] => true
     | FD _ _ o k' :: t => nice k' && (negb o || omit_safe k') && go t
     end) fs = true ->
  Forall (fun f => field_nice f = true) fs.
Proof.
  induction fs as [|[g key o k] t IH]; intros H; constructor.
  - unfold field_nice. simpl. apply andb_true_iff in H. tauto.
  - apply IH. apply andb_true_iff in H. tauto.
Qed.

Section Canon.
  Variable O : oracles.
  Variable cdec : custom -> json -> res gval.
  Variable ccan : custom -> gval -> Prop.
  (* the hand-written codecs: an empty decoded value is nil; canonicity is trivial except
     for []Authentication (excluded by [nice]) *)
  Hypothesis custom_empty : forall c v, omit_safe (KCustom c) = true ->
    reach O cdec (KCustom c) v -> is_empty v = true -> v = zero (KCustom c).
  Hypothesis custom_canon : forall c v, nice (KCustom c) = true -> ccan c v.

  (* an empty value of an omit-safe kind that the decoder produced is the zero value *)
  Lemma reach_empty_zero k v : omit_safe k = true -> reach O cdec k v -> is_empty v = true -> v = zero k.
  Proof.
    intros Hs [Hr|(j & Hr)] He; [assumption|].
    destruct k; try discriminate Hs.
    - (* KString *) destruct j; simpl in Hr; inversion Hr; subst; try reflexivity.
      simpl in He. apply String.eqb_eq in He. subst. reflexivity.
    - destruct j; simpl in Hr; inversion Hr; subst; try reflexivity; discriminate He.
    - destruct j as [| |[z|]| | |]; simpl in Hr; try (inversion Hr; subst; reflexivity || discriminate Hr).
      destruct (int64_ok z); inversion Hr; subst. discriminate He.
    - destruct j; simpl in Hr; inversion Hr; subst; try reflexivity; discriminate He.
    - destruct j as [| |[z|]| | |]; simpl in Hr; try (inversion Hr; subst; reflexivity || discriminate Hr).
      destruct (uint64_ok z); inversion Hr; subst. simpl in He. apply Z.eqb_eq in He. subst. reflexivity.
    - destruct j; simpl in Hr; try (inversion Hr; subst; reflexivity || discriminate Hr).
      destruct (parse_time s); inversion Hr; subst. discriminate He.
    - (* KStruct: never empty *)
      destruct j; try discriminate Hr.
      + simpl in Hr. inversion Hr. reflexivity.
      + rewrite decode_struct_obj in Hr. apply bind_ok in Hr. destruct Hr as (r & _ & Hr). inversion Hr. subst. discriminate He.
    - destruct j; try discriminate Hr.
      + simpl in Hr. inversion Hr. reflexivity.
      + rewrite decode_ptrstruct_obj in Hr. apply bind_ok in Hr. destruct Hr as (r & _ & Hr). inversion Hr. subst. discriminate He.
    - (* KAny *) destruct j; cbn [decode_val] in Hr; try (inversion Hr; subst; reflexivity);
        apply bind_ok in Hr; destruct Hr as (a & _ & Hr); inversion Hr; subst; discriminate He.
    - (* KRaw *) simpl in Hr. inversion Hr. subst. discriminate He.
    - (* KCustom *) apply custom_empty; [assumption|right; eauto|assumption].
    - (* KRec *) simpl in Hr. discriminate Hr.
  Qed.

  Lemma reach_struct_form fs v : reach O cdec (KStruct fs) v -> exists vs, v = VStruct vs.
  Proof.
    intros [Hr|(j & Hr)]; [rewrite zero_struct in Hr; eauto|].
    destruct j; try discriminate Hr.
    - simpl in Hr. inversion Hr. eauto.
    - rewrite decode_struct_obj in Hr. apply bind_ok in Hr. destruct Hr as (r & _ & Hr). inversion Hr. eauto.
  Qed.

  Lemma fields_canon fs vs :
    Forall (fun f => nice (fd_kind f) = true -> forall v, reach O cdec (fd_kind f) v -> canon ccan (fd_kind f) v) fs ->
    Forall (fun f => field_nice f = true) fs ->
    Forall2 (fun f v => reach O cdec (fd_kind f) v) fs vs ->
    Forall2 (fun f v => canon ccan (fd_kind f) v /\
                        (fd_omit f = true -> is_empty v = true -> v = zero (fd_kind f))) fs vs.
  Proof.
    intros IH Hn Hr. induction Hr as [|f v fs vs Hfv Hr IHr]; constructor.
    - inversion IH; subst. inversion Hn; subst.
      unfold field_nice in H3. apply andb_true_iff in H3. destruct H3 as [Hk Ho].
      split; [apply H1; assumption|].
      intros Hom He. rewrite Hom in Ho. simpl in Ho. apply reach_empty_zero; assumption.
    - inversion IH; subst. inversion Hn; subst. apply IHr; assumption.
  Qed.

  Theorem reach_canon k : nice k = true -> forall v, reach O cdec k v -> canon ccan k v.
  Proof.
    induction k as [| | | | | | fs IH | fs IH | | fs IH | | | | | c | n] using kind_ind'; intros Hk v Hr;
      try solve [apply cn_other; [intros c' H; discriminate H|intros fs' vs' H; inversion H|intros fs' vs' H; inversion H|intros fs' l' H; inversion H]].
    - (* KStruct *)
      destruct (reach_struct_form _ _ Hr) as (vs & ->). constructor.
      simpl in Hk. apply nice_fields_forall in Hk.
      apply fields_canon; try assumption. apply reach_struct. assumption.
    - (* KPtrStruct *)
      destruct v as [| | | | | | | [vs|] | | | | | | | | | | | | | | |];
        try solve [apply cn_other; [intros c' H; discriminate H|intros fs' vs' H; inversion H|intros fs' vs' H; inversion H|intros fs' l' H; inversion H]].
      constructor. simpl in Hk. apply nice_fields_forall in Hk.
      apply fields_canon; try assumption. apply reach_pstruct. assumption.
    - (* KSliceStruct *)
      destruct v as [| | | | | | | | | [l|] | | | | | | | | | | | | |];
        try solve [apply cn_other; [intros c' H; discriminate H|intros fs' vs' H; inversion H|intros fs' vs' H; inversion H|intros fs' l' H; inversion H]].
      constructor. simpl in Hk. apply nice_fields_forall in Hk.
      destruct Hr as [Hr|(j & Hr)]; [discriminate Hr|].
      destruct j; try discriminate Hr. rewrite decode_slicestruct_arr in Hr.
      apply bind_ok in Hr. destruct Hr as (r0 & Hr0 & Hr). inversion Hr. subst r0.
      clear Hr. revert l Hr0. induction l0 as [|x t IHt]; intros l Hr0; simpl in Hr0.
      + inversion Hr0. constructor.
      + apply bind_ok in Hr0. destruct Hr0 as (b & Hb & Hr0). apply bind_ok in Hr0. destruct Hr0 as (rt & Hrt & Hr0).
        inversion Hr0. subst. constructor; [|apply IHt; assumption].
        apply fields_canon; try assumption.
        destruct x; simpl in Hb; try discriminate Hb.
        * inversion Hb. apply zeros_reach.
        * eapply dec_fields_reach; eauto.
    - (* KCustom *)
      apply cn_custom. apply custom_canon. assumption.
  Qed.
End Canon.

(* the two instances *)
Lemma custom_empty1 O E c v : omit_safe (KCustom c) = true ->
  reach O (cdec1 O E) (KCustom c) v -> is_empty v = true -> v = zero (KCustom c).
Proof.
  intros Hs [Hr|(j & Hr)] He; [assumption|].
  destruct c; try discriminate Hs.
  - change (dec_proofs O E j = Ok v) in Hr. unfold dec_proofs in Hr.
    destruct j; try discriminate Hr;
      try (apply bind_ok in Hr; destruct Hr as (p & _ & Hr); inversion Hr; subst; discriminate He).
    apply bind_ok in Hr. destruct Hr as (r & _ & Hr). destruct r; inversion Hr; subst; [reflexivity|discriminate He].
  - change (dec_mtp O j = Ok v) in Hr. unfold dec_mtp in Hr.
    destruct j; try (inversion Hr; subst; reflexivity);
      match type of Hr with context [o_mtp O ?x] => destruct (o_mtp O x) end; inversion Hr; subst; discriminate He.
  - change (dec_gist O j = Ok v) in Hr. unfold dec_gist in Hr.
    destruct j; try (inversion Hr; subst; reflexivity);
      match type of Hr with context [o_mtp O ?x] => destruct (o_mtp O x) end; try discriminate Hr.
    destruct (jfind_all "type" m); [inversion Hr; subst; discriminate He|].
    apply bind_ok in Hr. destruct Hr as (t & _ & Hr). inversion Hr. subst. discriminate He.
Qed.

Lemma custom_empty0 O c v : omit_safe (KCustom c) = true ->
  reach O (cdec0 O) (KCustom c) v -> is_empty v = true -> v = zero (KCustom c).
Proof.
  intros Hs [Hr|(j & Hr)] He; [assumption|].
  destruct c; try discriminate Hs.
  - discriminate Hr.
  - change (dec_mtp O j = Ok v) in Hr. unfold dec_mtp in Hr.
    destruct j; try (inversion Hr; subst; reflexivity);
      match type of Hr with context [o_mtp O ?x] => destruct (o_mtp O x) end; inversion Hr; subst; discriminate He.
  - change (dec_gist O j = Ok v) in Hr. unfold dec_gist in Hr.
    destruct j; try (inversion Hr; subst; reflexivity);
      match type of Hr with context [o_mtp O ?x] => destruct (o_mtp O x) end; try discriminate Hr.
    destruct (jfind_all "type" m); [inversion Hr; subst; discriminate He|].
    apply bind_ok in Hr. destruct Hr as (t & _ & Hr). inversion Hr. subst. discriminate He.
Qed.

Lemma custom_canon1 E c v : nice (KCustom c) = true -> ccanon1 E c v.
Proof. destruct c; intros H; try discriminate H; destruct v; exact I. Qed.

Lemma custom_canon0 c v : nice (KCustom c) = true -> ctrue c v.
Proof. intros _. exact I. Qed.


(* ==================================================================== *)
(* json.Unmarshal ; json.Marshal ; json.Unmarshal on a whole struct       *)
Section Top.
  Variable O : oracles.
  Variable E : penv.
  Hypothesis renum_idem : forall n n', o_renum O n = Some n' -> o_renum O n' = Some n'.
  Hypothesis time_rt : forall s t s', parse_time s = Some t -> format_time t = Some s' -> parse_time s' = Some t.
  Hypothesis mtp_idem : forall j p, o_mtp O j = Some p -> p <> JNull /\ o_mtp O p = Some p.
  Hypothesis mtp_gist : forall j pm t, o_mtp O j = Some (JObj pm) ->
    o_mtp O (JObj (mins "type" (JStr t) (msort pm))) = Some (JObj pm) /\
    (forall a, In a (keys pm) -> fold_eqb a "type" = false).
  Hypothesis cvm_ok : rt_kind (KStruct (pe_cvm E)) = true.
  Hypothesis known_rt : forall g pd a v e,
    lookup_str g (pe_proofs E) = Some pd -> norm (o_renum O) a = Some a -> dec_known O g pd a = Ok v ->
    enc_proof E v = Ok e -> extract_proof O E e = Ok v.

  Lemma decode_top_reach fs j c : decode_top O E fs j = Ok c -> reach O (cdec1 O E) (KStruct fs) (VStruct c).
  Proof.
    unfold decode_top, decode_struct. destruct j; try discriminate.
    - intros H. inversion H. left. rewrite zero_struct. reflexivity.
    - rewrite decode_fields_eq. intros H. right. exists (JObj m). rewrite decode_struct_obj, H. reflexivity.
  Qed.

  Theorem top_roundtrip fs j c e :
    rt_kind (KStruct fs) = true ->
    decode_top O E fs j = Ok c ->
    canon (ccanon1 E) (KStruct fs) (VStruct c) ->
    encode_top E fs c = Ok e ->
    decode_top O E fs e = Ok c.
  Proof.
    intros Hk Hd Hc He. unfold encode_top, encode_struct in He.
    pose proof (rt1 O E renum_idem time_rt mtp_idem mtp_gist cvm_ok known_rt _ Hk (VStruct c)
                  (decode_top_reach _ _ _ Hd) Hc) as G.
    assert (Hnz : KStruct fs = KCustom CuCredentialProofs -> VStruct c <> zero (KStruct fs)) by discriminate.
    specialize (G Hnz e He).
    rewrite encode_struct_eq in He. apply bind_ok in He. destruct He as (em & Hem & He). inversion He. subst e.
    unfold decode_top, decode_struct. rewrite decode_fields_eq.
    rewrite decode_struct_obj in G. apply bind_ok in G. destruct G as (r & Hr & G). inversion G. subst r. assumption.
  Qed.

  (* when no omitempty field is a slice or a map, every decoded value is canonical *)
  Theorem top_roundtrip_nice fs j c e :
    rt_kind (KStruct fs) = true -> nice (KStruct fs) = true ->
    decode_top O E fs j = Ok c -> encode_top E fs c = Ok e -> decode_top O E fs e = Ok c.
  Proof.
    intros Hk Hn Hd He. eapply top_roundtrip; eauto.
    apply (reach_canon O (cdec1 O E) (ccanon1 E) (custom_empty1 O E) (custom_canon1 E)); [assumption|].
    eapply decode_top_reach; eauto.
  Qed.
End Top.

(* ==================================================================== *)
(* Layer 0 through a generic map: values decoded from NORMALISED JSON, encoded,
   normalised again (json.Marshal of map[string]interface{}) and decoded give the same
   value.  This is the path of extractProof / reUnmarshalFromObj for the known proofs. *)
Fixpoint kn_kind (k : kind) : bool :=
  match k with
  | KRaw | KRec _ | KUint64 => false
  | KCustom CuPtrMtProof => true
  | KCustom _ => false
  | KStruct fs | KPtrStruct fs =>
      (fix go (fs : list fdesc) : bool :=
         match fs with [] => true | FD _ _ _ k' :: t => kn_kind k' && go t end) fs && fold_keys_nodup fs
  | KSliceStruct _ => false
  | _ => true
  end.

Lemma kn_fields_forall fs :
  (fix go (fs : list fdesc) : bool :=
     match fs with [] => true | FD _ _ _ k' :: t => kn_kind k' && go t end) fs = true ->
  Forall (fun f => kn_kind (fd_kind f) = true) fs.
Proof.
  induction fs as [|[g key o k] t IH]; intros H; constructor.
  - simpl. apply andb_true_iff in H. tauto.
  - apply IH. apply andb_true_iff in H. tauto.
Qed.

Section RTN.
  Variable O : oracles.
  Notation renum := (o_renum O).
  Notation cdec := (cdec0 O).
  Hypothesis renum_idem : forall n n', renum n = Some n' -> renum n' = Some n'.
  Hypothesis time_rt : forall s t s', parse_time s = Some t -> format_time t = Some s' -> parse_time s' = Some t.
  Hypothesis mtp_idem : forall j p, o_mtp O j = Some p -> p <> JNull /\ o_mtp O p = Some p.
  (* merkletree.Proof prints strings and booleans only: its output is already normal *)
  Hypothesis mtp_normal : forall j p, o_mtp O j = Some p -> norm renum p = Some p.

  Definition reachN (k : kind) (v : gval) : Prop :=
    v = zero k \/ exists j, normal renum j /\ decode_val O cdec k j = Ok v.

  Definition rtn_at (k : kind) : Prop :=
    forall v, reachN k v -> canon ctrue k v ->
    forall e, encode_val cenc0 k v = Ok e ->
    exists n, norm renum e = Some n /\ decode_val O cdec k n = Ok v.

  Lemma reachN_reach k v : reachN k v -> reach O cdec k v.
  Proof. intros [H|(j & _ & H)]; [left; assumption|right; eauto]. Qed.

  Lemma dup_apply_reachN k keep js : Forall (normal renum) js -> forall cur, reachN k cur ->
    forall v, dup_apply (decode_val O cdec k) keep cur js = Ok v -> reachN k v.
  Proof.
    induction 1 as [|j t Hj Ht IH]; intros cur Hc v H; simpl in H.
    - inversion H. subst. assumption.
    - assert (G : forall w, decode_val O cdec k j = Ok w -> dup_apply (decode_val O cdec k) keep w t = Ok v -> reachN k v).
      { intros w Hw Hd. eapply IH; [|exact Hd]. right. eauto. }
      destruct j; try (apply bind_ok in H; destruct H as (w & Hw & H); eapply G; eauto).
      destruct keep; [eapply IH; eauto|].
      apply bind_ok in H; destruct H as (w & Hw & H); eapply G; eauto.
  Qed.

  Lemma dec_member_reachN k js v : Forall (normal renum) js -> dec_member O cdec k js = Ok v -> reachN k v.
  Proof.
    unfold dec_member. intros Hn. destruct js as [|j [|j' t]]; intros H.
    - inversion H. left. reflexivity.
    - right. inversion Hn. eauto.
    - destruct (seq_kind k); [|discriminate]. eapply dup_apply_reachN; [exact Hn| |exact H]. left. reflexivity.
  Qed.

  Lemma jfind_all_values key m (P : json -> Prop) :
    Forall (fun kv => P (snd kv)) m -> Forall P (jfind_all key m).
  Proof.
    induction 1 as [|[a v] t Hv Ht IH]; simpl; [constructor|].
    destruct (fold_eqb a key); [constructor; assumption|assumption].
  Qed.

  Lemma dec_fields_reachN fs m : Forall (fun kv => normal renum (snd kv)) m ->
    forall vs, dec_fields O cdec fs m = Ok vs -> Forall2 (fun f v => reachN (fd_kind f) v) fs vs.
  Proof.
    intros Hm. induction fs as [|[g key o k] t IH]; intros vs H; simpl in H.
    - inversion H. constructor.
    - apply bind_ok in H. destruct H as (v & Hv & H). apply bind_ok in H. destruct H as (r & Hr & H).
      inversion H. subst. constructor; [|apply IH; assumption].
      simpl. eapply dec_member_reachN; [|exact Hv]. apply jfind_all_values. assumption.
  Qed.

  Lemma zeros_reachN fs : Forall2 (fun f v => reachN (fd_kind f) v) fs (zeros fs).
  Proof. induction fs as [|f t IH]; simpl; constructor; [left; reflexivity|assumption]. Qed.

  Lemma normal_obj_values m : normal renum (JObj m) -> Forall (fun kv => normal renum (snd kv)) m.
  Proof. intros H. inversion H. assumption. Qed.

  Lemma reachN_struct fs vs : reachN (KStruct fs) (VStruct vs) -> Forall2 (fun f v => reachN (fd_kind f) v) fs vs.
  Proof.
    intros [H|(j & Hj & H)].
    - rewrite zero_struct in H. inversion H. apply zeros_reachN.
    - destruct j; try discriminate H.
      + simpl in H. change (Ok (zero (KStruct fs)) = Ok (VStruct vs)) in H. rewrite zero_struct in H. inversion H. apply zeros_reachN.
      + rewrite decode_struct_obj in H. apply bind_ok in H. destruct H as (r & Hr & H). inversion H. subst.
        exact (dec_fields_reachN fs _ (normal_obj_values _ Hj) _ Hr).
  Qed.

  Lemma reachN_pstruct fs vs : reachN (KPtrStruct fs) (VOptStruct (Some vs)) -> Forall2 (fun f v => reachN (fd_kind f) v) fs vs.
  Proof.
    intros [H|(j & Hj & H)]; [discriminate H|].
    destruct j; try discriminate H.
    rewrite decode_ptrstruct_obj in H. apply bind_ok in H. destruct H as (r & Hr & H). inversion H. subst.
    exact (dec_fields_reachN fs _ (normal_obj_values _ Hj) _ Hr).
  Qed.

  (* the encoded members, normalised *)
  Lemma norm_members_exists em :
    (forall k e, jget k em = Some e -> exists n, norm renum e = Some n) -> NoDup (keys em) ->
    exists nem, norm_members renum em = Some nem.
  Proof.
    induction em as [|[k v] t IH]; intros H Hnd; [exists []; reflexivity|].
    inversion Hnd as [|? ? Hn Hnd']; subst. simpl.
    destruct (H k v) as (a & Ha); [simpl; rewrite String.eqb_refl; reflexivity|]. rewrite Ha.
    destruct IH as (nt & Hnt); [|assumption|rewrite Hnt; eauto].
    intros k' v' G. apply (H k' v'). simpl. destruct (String.eqb k k') eqn:E; [|assumption].
    apply String.eqb_eq in E. subst. exfalso. apply Hn. apply jget_some_in in G. apply (in_map fst) in G. exact G.
  Qed.

  Lemma fields_rtn fs vs em :
    Forall (fun f => rtn_at (fd_kind f)) fs ->
    NoDup (map fold_str (field_keys fs)) ->
    Forall2 (fun f v => reachN (fd_kind f) v) fs vs ->
    Forall2 (fun f v => canon ctrue (fd_kind f) v /\
                        (fd_omit f = true -> is_empty v = true -> v = zero (fd_kind f))) fs vs ->
    enc_fields cenc0 fs vs = Ok em ->
    exists nem, norm_members renum em = Some nem /\ dec_fields O cdec fs (msort nem) = Ok vs.
  Proof.
    intros IH Hfk Hreach Hcanon He.
    assert (NDfk : NoDup (field_keys fs)) by (eapply NoDup_map_inv; eauto).
    destruct (enc_fields_spec cenc0 fs vs em NDfk He) as [Hlen Hspec].
    pose proof (enc_fields_keys _ _ _ _ He) as Hk. pose proof (enc_fields_nodup _ _ _ _ NDfk He) as Hnd.
    (* every emitted member normalises to something that decodes back *)
    assert (Hem : forall f v, In (f, v) (combine fs vs) -> forall e, jget (fd_key f) em = Some e ->
              exists n, norm renum e = Some n /\ decode_val O cdec (fd_kind f) n = Ok v).
    { intros f v Hin e G.
      destruct (Hspec f v Hin) as [[_ G']|[_ (e' & Ee & G')]]; rewrite G in G'; [discriminate|]. inversion G'. subst e'.
      assert (Hinf : In f fs) by (eapply in_combine_l; eauto).
      rewrite Forall_forall in IH. apply (IH f Hinf v); try assumption.
      - exact (Forall2_combine _ _ _ Hreach f v Hin).
      - exact (proj1 (Forall2_combine _ _ _ Hcanon f v Hin)). }
    destruct (norm_members_exists em) as (nem & Hnem); [|assumption|].
    { intros k e G. assert (Hkin : In k (field_keys fs)) by (apply Hk; apply jget_some_in in G; apply (in_map fst) in G; exact G).
      apply in_map_iff in Hkin. destruct Hkin as (f & <- & Hinf).
      assert (exists v, In (f, v) (combine fs vs)) as (v & Hin).
      { clear - Hinf Hlen. revert vs Hlen. induction fs as [|f0 t IHt]; intros vs Hlen; [destruct Hinf|].
        destruct vs as [|v0 vt]; [discriminate|]. simpl in Hinf. destruct Hinf as [->|Hinf].
        - exists v0. simpl. auto.
        - destruct (IHt Hinf vt) as (v & Hv); [simpl in Hlen; congruence|]. exists v. simpl. auto. }
      destruct (Hem f v Hin e G) as (n & Hn & _). eauto. }
    exists nem. split; [assumption|].
    assert (Hkeys : keys nem = keys em) by (eapply keys_norm_members; eauto).
    assert (Hk' : incl (keys (msort nem)) (field_keys fs)).
    { intros x Hx. apply Hk. rewrite <- Hkeys. apply keys_msort_incl. assumption. }
    assert (Hnd' : NoDup (keys (msort nem))) by (apply ssorted_nodup, msort_sorted).
    apply dec_fields_from; [assumption|].
    intros f v Hin.
    rewrite (jfind_all_exact (field_keys fs)); try assumption; [|eapply in_combine_key; eauto].
    rewrite jget_msort, jget_last_nodup by (rewrite Hkeys; assumption).
    rewrite (jget_norm_members _ _ _ Hnem).
    pose proof (Forall2_combine _ _ _ Hcanon f v Hin) as [_ Hz].
    destruct (Hspec f v Hin) as [[Eo G]|[Eo (e & Ee & G)]]; rewrite G.
    - cbn [dec_member]. apply andb_true_iff in Eo. destruct Eo as [Eo1 Eo2]. rewrite (Hz Eo1 Eo2). reflexivity.
    - destruct (Hem f v Hin e G) as (n & Hn & Hdn). rewrite Hn. cbn [dec_member]. assumption.
  Qed.

  Lemma normal_not_null_norm j a : normal renum j -> norm renum j = Some a -> a = j.
  Proof. intros Hn H. rewrite (normal_norm _ _ Hn) in H. inversion H. reflexivity. Qed.

  Theorem rtn_all k : kn_kind k = true -> rtn_at k.
  Proof.
    induction k as [| | | | | | fs IH | fs IH | | fs IH | | | | | c | n] using kind_ind'; intros Hk v Hr Hc e He;
      try discriminate Hk.
    - (* KString *) destruct v; try discriminate He. inversion He. exists (JStr s). split; reflexivity.
    - (* KPtrString *)
      destruct v as [| [s|] | | | | | | | | | | | | | | | | | | | | |]; try discriminate He; inversion He;
        eexists; split; reflexivity.
    - (* KPtrInt *)
      destruct v as [| | [z|] | | | | | | | | | | | | | | | | | | | |]; try discriminate He; inversion He;
        [|exists JNull; split; reflexivity].
      destruct Hr as [Hr|(j & Hj & Hr)]; [discriminate Hr|].
      destruct j as [| |[z'|]| | |]; simpl in Hr; try discriminate Hr.
      destruct (int64_ok z') eqn:Ez; [|discriminate]. inversion Hr. subst.
      inversion Hj as [| |n' Hn'| | |]; subst.
      exists (JNum (NInt z)). simpl. rewrite Hn', Ez. split; reflexivity.
    - (* KPtrBool *)
      destruct v as [| | | [b|] | | | | | | | | | | | | | | | | | | |]; try discriminate He; inversion He;
        eexists; split; reflexivity.
    - (* KPtrTime *)
      destruct v as [| | | | | [t|] | | | | | | | | | | | | | | | | |]; try discriminate He;
        [|inversion He; exists JNull; split; reflexivity].
      simpl in He. destruct (format_time t) as [s'|] eqn:Ef; [|discriminate]. inversion He.
      destruct Hr as [Hr|(j & _ & Hr)]; [discriminate Hr|].
      destruct j; simpl in Hr; try discriminate Hr.
      destruct (parse_time s) eqn:Ep; [|discriminate]. inversion Hr. subst.
      exists (JStr s'). simpl. rewrite (time_rt _ _ _ Ep Ef). split; reflexivity.
    - (* KStruct *)
      destruct v; try discriminate He.
      simpl in Hk. apply andb_true_iff in Hk. destruct Hk as [Hf Hfk].
      apply kn_fields_forall in Hf. unfold fold_keys_nodup in Hfk. apply str_nodup_NoDup in Hfk.
      rewrite encode_struct_eq in He. apply bind_ok in He. destruct He as (em & Hem & He). inversion He. subst e.
      destruct (fields_rtn fs fs0 em) as (nem & Hnem & Hdec); try assumption.
      + rewrite Forall_forall in *. intros f Hin. apply IH; auto.
      + apply reachN_struct. assumption.
      + apply canon_struct_inv. assumption.
      + exists (JObj (msort nem)). rewrite norm_obj, Hnem. split; [reflexivity|].
        rewrite decode_struct_obj, Hdec. reflexivity.
    - (* KPtrStruct *)
      destruct v as [| | | | | | | [vs|] | | | | | | | | | | | | | | |]; try discriminate He;
        [|inversion He; exists JNull; split; reflexivity].
      simpl in Hk. apply andb_true_iff in Hk. destruct Hk as [Hf Hfk].
      apply kn_fields_forall in Hf. unfold fold_keys_nodup in Hfk. apply str_nodup_NoDup in Hfk.
      rewrite encode_ptrstruct_eq in He. apply bind_ok in He. destruct He as (em & Hem & He). inversion He. subst e.
      destruct (fields_rtn fs vs em) as (nem & Hnem & Hdec); try assumption.
      + rewrite Forall_forall in *. intros f Hin. apply IH; auto.
      + apply reachN_pstruct. assumption.
      + apply canon_pstruct_inv. assumption.
      + exists (JObj (msort nem)). rewrite norm_obj, Hnem. split; [reflexivity|].
        rewrite decode_ptrstruct_obj, Hdec. reflexivity.
    - (* KSliceString *)
      destruct v as [| | | | | | | | [l|] | | | | | | | | | | | | | |]; try discriminate He; inversion He;
        [|exists JNull; split; reflexivity].
      exists (JArr (map JStr l)). rewrite norm_arr. unfold norm_list. rewrite map_opt_norm_strs.
      split; [reflexivity|]. simpl. rewrite map_res_strs. reflexivity.
    - (* KAny *)
      destruct v as [| | | | | | | | | | [a|] | | | | | | | | | | | |]; try discriminate He; inversion He;
        [subst e|exists JNull; split; reflexivity].
      destruct Hr as [Hr|(j & Hj & Hr)]; [discriminate Hr|].
      assert (Hja : j <> JNull /\ norm renum j = Some a).
      { destruct j; [discriminate Hr| | | | |]; (split; [discriminate|]);
          cbn [decode_val] in Hr; unfold dec_any in Hr;
          match type of Hr with context [norm renum ?x] => destruct (norm renum x) eqn:En end;
          simpl in Hr; inversion Hr; reflexivity. }
      destruct Hja as [Hnn Hn]. pose proof (normal_not_null_norm _ _ Hj Hn) as ->.
      exists j. split; [assumption|].
      destruct j; try tauto; cbn [decode_val]; unfold dec_any; rewrite Hn; reflexivity.
    - (* KMapAny *)
      destruct v as [| | | | | | | | | | | [m|] | | | | | | | | | | |]; try discriminate He; inversion He;
        [subst e|exists JNull; split; reflexivity].
      destruct Hr as [Hr|(j & Hj & Hr)]; [discriminate Hr|].
      destruct j; simpl in Hr; try discriminate Hr.
      unfold dec_any in Hr. destruct (norm renum (JObj m0)) as [a|] eqn:En; simpl in Hr; [|discriminate].
      destruct a; try discriminate Hr. inversion Hr. subst.
      pose proof (norm_idem _ renum_idem _ _ En) as Hi.
      exists (JObj m). split; [assumption|]. simpl. unfold dec_any. rewrite Hi. reflexivity.
    - (* KSliceAny *)
      destruct v as [| | | | | | | | | | | | [l|] | | | | | | | | | |]; try discriminate He; inversion He;
        [subst e|exists JNull; split; reflexivity].
      destruct Hr as [Hr|(j & Hj & Hr)]; [discriminate Hr|].
      destruct j; simpl in Hr; try discriminate Hr.
      unfold dec_any in Hr. destruct (norm renum (JArr l0)) as [a|] eqn:En; simpl in Hr; [|discriminate].
      destruct a; try discriminate Hr. inversion Hr. subst.
      pose proof (norm_idem _ renum_idem _ _ En) as Hi.
      exists (JArr l). split; [assumption|]. simpl. unfold dec_any. rewrite Hi. reflexivity.
    - (* KCustom: *merkletree.Proof only *)
      destruct c; try discriminate Hk.
      assert (Hv : v = VMtp None \/ exists j p, v = VMtp (Some p) /\ o_mtp O j = Some p).
      { destruct Hr as [Hr|(j & _ & Hr)]; [left; exact Hr|].
        simpl in Hr. unfold dec_mtp in Hr. destruct j; try (inversion Hr; left; reflexivity);
          match type of Hr with context [o_mtp O ?x] => destruct (o_mtp O x) eqn:Em end;
          inversion Hr; right; eauto. }
      destruct Hv as [->|(j & p & -> & Hp)]; simpl in He; inversion He; subst e.
      + exists JNull. split; reflexivity.
      + destruct (mtp_idem _ _ Hp) as [Hn Hpp]. exists p. split; [eapply mtp_normal; eauto|].
        simpl. apply dec_mtp_some; assumption.
  Qed.
End RTN.
