(* Loader/Run.v — evaluation of per-run case files for the document-loader model
   (C19).  A case is a whole history: configuration, operations, and what the
   real loader did at every Load (outcome + requests that reached the scripted
   origin), plus the final content of the cache engine.  Numbers are primitive
   ints, strings are interned by the case file. *)
From Coq Require Import ZArith NArith List String Ascii Bool Uint63.
From GSP Require Import Base.Prelude Base.Decode Loader.Model.
Import ListNotations.
Open Scope list_scope.

Definition zi (i : int) : Z := Uint63.to_Z i.
Definition zs (neg : bool) (i : int) : Z := if neg then (- zi i)%Z else zi i.

Definition policy_of (k : int) (n : Z) : option policy :=
  match zi k with
  | 0 => Some (PMaxAge n) | 1 => Some (PSMaxAge n) | 2 => Some (PPublicMaxAge n)
  | 3 => Some (PExpiresDate n) | 4 => Some (PExpires n)
  | 5 => Some PNoStore | 6 => Some PPrivate | 7 => Some (PPrivateMaxAge n)
  | 8 => Some PNone | 9 => Some PNoCache | 10 => Some PExpiresInvalid
  | 11 => Some PMalformed | 12 => Some (PBadDate n)
  | _ => None
  end%Z.

Definition fkind_of (k : int) : option fkind :=
  match zi k with
  | 0 => Some FTransport | 1 => Some FStatus | 2 => Some FBody | _ => None
  end%Z.

(* operations as written in case files *)
Inductive rop :=
| RServe (u : string) (v : int) (pk : int) (neg : bool) (n : int)
| RFail (u : string) (fk : int)
| RLoad (u : string)
| RTick (dt : int).

Definition op_of (r : rop) : option op :=
  match r with
  | RServe u v pk neg n =>
      match policy_of pk (zs neg n) with Some p => Some (Serve u (zi v) p) | None => None end
  | RFail u fk => match fkind_of fk with Some k => Some (Fail u k) | None => None end
  | RLoad u => Some (Load u)
  | RTick dt => Some (Tick (Z.to_N (zi dt)))
  end.

Fixpoint ops_of (l : list rop) : option (list op) :=
  match l with
  | [] => Some []
  | r :: t =>
      match op_of r, ops_of t with
      | Some o, Some t' => Some (o :: t')
      | _, _ => None
      end
  end.

(* configuration as written in case files.
   mode: 0 default engine, 1 cache off, 2 memory engine with embedded documents,
         3 third-party engine, 4 third-party engine whose Get fails, 5 whose Set fails.
   urltab: recorded primitive http.NewRequest("GET", u, NoBody) == nil error. *)
Inductive rcfg := RCfg (mode : int) (emb : list (string * int)) (cli : bool) (gw : string)
                       (urltab : list (string * bool)).

Fixpoint lookup_s {V} (k : string) (t : list (string * V)) : option V :=
  match t with
  | [] => None
  | (a, b) :: r => if String.eqb a k then Some b else lookup_s k r
  end.

Definition mode_of (m : int) (emb : list (string * int)) : option cache_mode :=
  match zi m with
  | 0 => Some CacheDefault
  | 1 => Some CacheOff
  | 2 => Some (CacheMemory (map (fun kv => (fst kv, zi (snd kv))) emb))
  | 3 => Some (CacheCustom false false)
  | 4 => Some (CacheCustom true false)
  | 5 => Some (CacheCustom false true)
  | _ => None
  end%Z.

Definition cfg_of (r : rcfg) : option config :=
  match r with
  | RCfg m emb cli gw tab =>
      match mode_of m emb with
      | Some cm =>
          Some {| cache_mode_of := cm; ipfs_client := cli; gateway := gw;
                  url_ok := fun u => match lookup_s u tab with Some b => b | None => false end |}
      | None => None
      end
  end.

(* every key the model hands to http.NewRequest must be in the recorded table:
   a miss is a disagreement, never a default *)
Definition http_key (cli : bool) (gw : string) (u : string) : option string :=
  if has_prefix "http://" u || has_prefix "https://" u then Some u
  else if has_prefix "ipfs://" u then
    if cli then None else if String.eqb gw "" then None else Some (gateway_url gw (drop 7 u))
  else None.

Definition table_complete (r : rcfg) (ops : list op) : bool :=
  match r with
  | RCfg _ _ cli gw tab =>
      forallb (fun o => match o with
                        | Load u => match http_key cli gw u with
                                    | Some k => match lookup_s k tab with Some _ => true | None => false end
                                    | None => true
                                    end
                        | _ => true
                        end) ops
  end.

(* what the real loader did at one Load *)
Inductive robs :=
| ObDoc (v : int) (reqs : list (bool * string))   (* document version; requests (true = IPFS node) *)
| ObErr (reqs : list (bool * string))
| ObPanic.

Definition chan_eqb (c : channel) (node : bool) : bool :=
  match c, node with CNode, true | CHttp, false => true | _, _ => false end.

Fixpoint reqs_eqb (a : list (channel * url)) (b : list (bool * string)) : bool :=
  match a, b with
  | [], [] => true
  | (c, k) :: a', (n, s) :: b' => chan_eqb c n && String.eqb k s && reqs_eqb a' b'
  | _, _ => false
  end.

(* the model's log is newest first; a Load issues at most one request, and the
   harness writes its delta in the same order *)
Definition obs_agree (m : outcome * list (channel * url)) (o : robs) : bool :=
  match m, o with
  | (ODoc d, rq), ObDoc v rq' => Z.eqb d (zi v) && reqs_eqb rq rq'
  | (OErr, rq), ObErr rq' => reqs_eqb rq rq'
  | _, _ => false
  end.

Fixpoint all_agree {A B} (f : A -> B -> bool) (a : list A) (b : list B) : bool :=
  match a, b with
  | [], [] => true
  | x :: a', y :: b' => f x y && all_agree f a' b'
  | _, _ => false
  end.

(* what engine.Get answered for a key after the history *)
Inductive rdump :=
| DHit (v : int) (zero : bool) (neg : bool) (e : int)   (* version; expiry: zero time / virtual seconds *)
| DMiss
| DErr.

Definition etime_eqb (a b : etime) : bool :=
  match a, b with
  | TZero, TZero => true
  | TAt x, TAt y => Z.eqb x y
  | _, _ => false
  end.

Definition dump_agree (m : getres) (o : rdump) : bool :=
  match m, o with
  | GHit d e, DHit v zero neg z =>
      Z.eqb d (zi v) && etime_eqb e (if zero then TZero else TAt (zs neg z))
  | GMiss, DMiss => true
  | GErr, DErr => true
  | _, _ => false
  end.

Record hcase := { h_id : int; h_cfg : rcfg; h_ops : list rop; h_obs : list robs;
                  h_keys : list string; h_dump : list rdump }.
Definition mkh (id : int) (c : rcfg) (ops : list rop) (obs : list robs)
               (keys : list string) (dmp : list rdump) : hcase :=
  {| h_id := id; h_cfg := c; h_ops := ops; h_obs := obs; h_keys := keys; h_dump := dmp |}.

Definition case_agrees (c : hcase) : bool :=
  match cfg_of (h_cfg c), ops_of (h_ops c) with
  | Some cfg, Some ops =>
      table_complete (h_cfg c) ops &&
      all_agree obs_agree (observe cfg init ops) (h_obs c) &&
      all_agree dump_agree (dump cfg (run cfg ops) (h_keys c)) (h_dump c)
  | _, _ => false
  end.

Definition hmismatches (cs : list hcase) : list int :=
  fold_right (fun c acc => if case_agrees c then acc else h_id c :: acc) [] cs.

(* ---- engine-level cases: Set/Get called directly on the cache engine ---- *)
Inductive reop :=
| ESet (k : string) (v : int) (neg : bool) (dt : int)   (* Set(k, doc v, now + dt) *)
| EGet (k : string) (expect : rdump)
| ETick (dt : int).

Fixpoint engine_run (cfg : config) (st : state) (l : list reop) : bool :=
  match l with
  | [] => true
  | ESet k v neg dt :: t =>
      match engine_set cfg st k (zi v) (TAt (now st + zs neg dt)) with
      | Some st' => engine_run cfg st' t
      | None => false
      end
  | EGet k x :: t => dump_agree (engine_get cfg st k) x && engine_run cfg st t
  | ETick dt :: t => engine_run cfg (set_now st (now st + zi dt)) t
  end.

Record ecase := { e_id : int; e_cfg : rcfg; e_ops : list reop }.
Definition mke (id : int) (c : rcfg) (ops : list reop) : ecase :=
  {| e_id := id; e_cfg := c; e_ops := ops |}.

Definition emismatches (cs : list ecase) : list int :=
  fold_right (fun c acc =>
      match cfg_of (e_cfg c) with
      | Some cfg => if engine_run cfg init (e_ops c) then acc else e_id c :: acc
      | None => e_id c :: acc
      end) [] cs.

Definition mismatches (hs : list hcase) (es : list ecase) : list int :=
  hmismatches hs ++ emismatches es.
