(* Loader/Run.v — evaluation of per-run case files for the document-loader model
   (C19).  A case is a whole history: configuration, operations, and what the
   real loader did at every Load (outcome + requests that reached the scripted
   origin), plus the final content of the cache engine (through Get, and the raw
   map through the verif hook).  Numbers are primitive ints, strings are interned
   by the case file.  The answers of pquerna/cachecontrol and of http.NewRequest
   are recorded tables; a miss is a disagreement. *)
From Coq Require Import ZArith NArith List String Ascii Bool Uint63.
From GSP Require Import Base.Prelude Base.Decode Loader.Model.
Import ListNotations.
Open Scope list_scope.

Definition zi (i : int) : Z := Uint63.to_Z i.
Definition zs (neg : bool) (i : int) : Z := if neg then (- zi i)%Z else zi i.

Definition policy_of (k : int) (n : Z) : option policy :=
  match zi k with
  | 0 => Some (PMaxAge n) | 1 => Some (PSMaxAge n) | 2 => Some (PPublicMaxAge n)
  | 3 => Some (PExpiresDate n) | 4 => Some (PExpires n)
  | 5 => Some PNoStore | 6 => Some PPrivate | 7 => Some (PPrivateMaxAge n)
  | 8 => Some PNone | 9 => Some PNoCache | 10 => Some PExpiresInvalid
  | 11 => Some PMalformed | 12 => Some (PBadDate n)
  | 13 => Some (PNoStoreMaxAge n) | 14 => Some (PMustRevalidate n) | 15 => Some (PNoCacheMaxAge n)
  | _ => None
  end%Z.

Definition policy_code (p : policy) : Z * Z :=
  match p with
  | PMaxAge n => (0, n) | PSMaxAge n => (1, n) | PPublicMaxAge n => (2, n)
  | PExpiresDate n => (3, n) | PExpires n => (4, n)
  | PNoStore => (5, 0) | PPrivate => (6, 0) | PPrivateMaxAge n => (7, n)
  | PNone => (8, 0) | PNoCache => (9, 0) | PExpiresInvalid => (10, 0)
  | PMalformed => (11, 0) | PBadDate n => (12, n)
  | PNoStoreMaxAge n => (13, n) | PMustRevalidate n => (14, n) | PNoCacheMaxAge n => (15, n)
  | PRaw _ => (16, 0)
  end%Z.

Definition policy_eqb (a b : policy) : bool :=
  match a, b with
  | PRaw x, PRaw y => list_eqb (list_eqb Z.eqb) x y
  | _, _ =>
      let '(ka, na) := policy_code a in
      let '(kb, nb) := policy_code b in
      Z.eqb ka kb && Z.eqb na nb
  end.

(* ---- the recorded cachecontrol table ---- *)
(* CCE kind neg n store has_lifetime lneg l nocache : for the header set (kind, +-n)
   cachecontrol.CachableResponse said store (no error, no reasons) and returned an expiry of call
   time +-l seconds, or the zero time; cacheobject.ParseResponseCacheControl reported NoCachePresent
   = nocache *)
(* sf sr sn: what RFC 7234 says about the header set — all its Cache-Control lines, which is also the
   text handed to the library since the loader joins them (directive names are case-insensitive):
   it forbids storing (no-store / private), demands revalidation (no-cache), has no
   freshness information — written by the harness's own header parser, used only to check the
   assumption `cc_respects_headers` on header sets the model knows by number only (PRaw) *)
Inductive ccentry :=
| CCE (pk : int) (neg : bool) (n : int) (store : bool)
      (haslt : bool) (lneg : bool) (l : int) (nocache : bool) (sf sr sn : bool)
| CCT (text : list int) (store : bool)          (* a row for ONE Cache-Control line given as text: the *)
      (haslt : bool) (lneg : bool) (l : int) (nocache : bool) (sf sr sn : bool).
                                                (* comma-joined original lines `text` *)

Definition entry_policy (e : ccentry) : option policy :=
  match e with
  | CCE pk neg n _ _ _ _ _ _ _ _ => policy_of pk (zs neg n)
  | CCT text _ _ _ _ _ _ _ _ => Some (PRaw [map zi text])
  end.

Definition cc_of_table (tab : list ccentry) (p : policy) : option ccdec :=
  match find (fun e => match entry_policy e with
                       | Some q => policy_eqb p q
                       | None => false
                       end) tab with
  | Some (CCE _ _ _ store haslt lneg l nocache _ _ _)
  | Some (CCT _ store haslt lneg l nocache _ _ _) =>
      Some (store, (if haslt then Some (zs lneg l) else None), nocache)
  | None => None
  end.

(* the assumption of Theory.load_no_reuse_headers, checked on the recorded table *)
Definition forbids_b (p : policy) : bool :=
  match p with PNoStore | PPrivate | PPrivateMaxAge _ | PNoStoreMaxAge _ => true | _ => false end.
Definition revalidate_b (p : policy) : bool :=
  match p with PNoCache | PNoCacheMaxAge _ => true | _ => false end.
Definition no_freshness_b (p : policy) : bool :=
  match p with PNone | PNoCache | PExpiresInvalid => true | _ => false end.

Definition cc_table_respects_headers (tab : list ccentry) : bool :=
  forallb (fun e => match e with
                    | CCE _ _ _ store haslt _ _ nocache sf sr sn
                    | CCT _ store haslt _ _ nocache sf sr sn =>
                        match entry_policy e with
                        | Some p => (if forbids_b p || sf then negb store else true) &&
                                    (if revalidate_b p || sr then nocache else true) &&
                                    (if no_freshness_b p || sn then negb haslt else true)
                        | None => false
                        end
                    end) tab.

(* operations as written in case files *)
Inductive rop :=
| RServe (u : string) (code : int) (json : bool) (v : int) (pk : int) (neg : bool) (n : int)
| RServeAlt (u : string) (code : int) (json : bool) (v : int) (pk : int) (neg : bool) (n : int)
            (target : string) (jsonct : bool)
    (* the same with `Link: <target>; rel="alternate"; type="application/ld+json"`.  jsonct: the media
       type of the response WITHOUT its parameters (mime.ParseMediaType, fix 04a0982) matches
       ^application/(\w*\+)?json$ — then loadDocumentFromHTTP does not follow the link and parses the
       body: for the model this is a response without alternate link *)
| RServeRaw (u : string) (code : int) (json : bool) (v : int) (h : list (list int))
    (* a response whose Cache-Control header LINES are h (one singleton text per line) *)
| RDown (u : string)                 (* transport failure from now on *)
| RLoad (u : string)
| RTick (dt : int).

Definition op_of (r : rop) : option op :=
  match r with
  | RServe u code json v pk neg n =>
      match policy_of pk (zs neg n) with
      | Some p => Some (Serve u (RResp (zi code) (if json then BJson (zi v) else BGarbage) p None))
      | None => None
      end
  | RServeAlt u code json v pk neg n target jsonct =>
      match policy_of pk (zs neg n) with
      | Some p => Some (Serve u (RResp (zi code) (if json then BJson (zi v) else BGarbage) p
                                       (if jsonct then None else Some target)))
      | None => None
      end
  | RServeRaw u code json v h =>
      Some (Serve u (RResp (zi code) (if json then BJson (zi v) else BGarbage)
                           (PRaw (map (map zi) h)) None))
  | RDown u => Some (Serve u RTransport)
  | RLoad u => Some (Load u)
  | RTick dt => Some (Tick (Z.to_N (zi dt)))
  end.

Fixpoint ops_of (l : list rop) : option (list op) :=
  match l with
  | [] => Some []
  | r :: t =>
      match op_of r, ops_of t with
      | Some o, Some t' => Some (o :: t')
      | _, _ => None
      end
  end.

(* configuration as written in case files.
   mode: 0 default engine, 1 cache off, 2 memory engine with embedded documents,
         3 third-party engine, 4 third-party engine whose Get fails, 5 whose Set fails.
   urltab: recorded primitive http.NewRequest("GET", u, NoBody) == nil error. *)
Inductive rcfg := RCfg (mode : int) (emb : list (string * int)) (cli : bool) (gw : string)
                       (urltab : list (string * bool)).

Fixpoint lookup_s {V} (k : string) (t : list (string * V)) : option V :=
  match t with
  | [] => None
  | (a, b) :: r => if String.eqb a k then Some b else lookup_s k r
  end.

Definition mode_of (m : int) (emb : list (string * int)) : option cache_mode :=
  match zi m with
  | 0 => Some CacheDefault
  | 1 => Some CacheOff
  | 2 => Some (CacheMemory (map (fun kv => (fst kv, zi (snd kv))) emb))
  | 3 => Some (CacheCustom false false)
  | 4 => Some (CacheCustom true false)
  | 5 => Some (CacheCustom false true)
  | _ => None
  end%Z.

Definition cfg_of (cctab : list ccentry) (r : rcfg) : option config :=
  match r with
  | RCfg m emb cli gw tab =>
      match mode_of m emb with
      | Some cm =>
          Some {| cache_mode_of := cm; ipfs_client := cli; gateway := gw;
                  url_ok := fun u => match lookup_s u tab with Some b => b | None => false end;
                  cc := fun p => match cc_of_table cctab p with Some d => d | None => (false, None, false) end |}
      | None => None
      end
  end.

(* every key the model hands to http.NewRequest, and every header set it hands to cachecontrol,
   must be in the recorded tables: a miss is a disagreement, never a default *)
Definition http_key (cli : bool) (gw : string) (u : string) : option string :=
  if has_prefix "http://" u || has_prefix "https://" u then Some u
  else if has_prefix "ipfs://" u then
    if cli then None else if String.eqb gw "" then None else Some (gateway_url gw (drop 7 u))
  else None.

Definition table_complete (cctab : list ccentry) (r : rcfg) (ops : list op) : bool :=
  match r with
  | RCfg _ _ cli gw tab =>
      forallb (fun o => match o with
                        | Load u => match http_key cli gw u with
                                    | Some k => match lookup_s k tab with Some _ => true | None => false end
                                    | None => true
                                    end
                        | Serve _ (RResp _ _ p alt) =>
                            match cc_of_table cctab (lib_view p) with Some _ => true | None => false end &&
                            match alt with
                            | Some t => match http_key cli gw t with
                                        | Some k => match lookup_s k tab with Some _ => true | None => false end
                                        | None => true
                                        end
                            | None => true
                            end
                        | _ => true
                        end) ops
  end.

(* what the real loader did at one Load *)
Inductive robs :=
| ObDoc (v : int) (reqs : list (bool * string))   (* document version; requests (true = IPFS node) *)
| ObErr (reqs : list (bool * string))
| ObExhausted (reqs : list (bool * string))   (* the origin refused after run_fuel+1 answered requests *)
| ObPanic.

Definition chan_eqb (c : channel) (node : bool) : bool :=
  match c, node with CNode, true | CHttp, false => true | _, _ => false end.

Fixpoint reqs_eqb (a : list (channel * url)) (b : list (bool * string)) : bool :=
  match a, b with
  | [], [] => true
  | (c, k) :: a', (n, s) :: b' => chan_eqb c n && String.eqb k s && reqs_eqb a' b'
  | _, _ => false
  end.

(* fuel of the model in case files.  The scripted origin of the harness answers at most
   run_fuel + 1 requests per load and refuses the next one, which is exactly where the model
   runs out of fuel (every level of an unfinished chain of alternate links issues one request);
   histories without alternate links never get there. *)
Definition run_fuel : nat := 7.

(* the model's log is newest first, and the harness writes its delta in the same order *)
Definition obs_agree (m : outcome * list (channel * url)) (o : robs) : bool :=
  match m, o with
  | (ODoc d, rq), ObDoc v rq' => Z.eqb d (zi v) && reqs_eqb rq rq'
  | (OErr, rq), ObErr rq' => reqs_eqb rq rq'
  | (ODiverge, rq), ObExhausted rq' => reqs_eqb rq rq'
  | _, _ => false
  end.

Fixpoint all_agree {A B} (f : A -> B -> bool) (a : list A) (b : list B) : bool :=
  match a, b with
  | [], [] => true
  | x :: a', y :: b' => f x y && all_agree f a' b'
  | _, _ => false
  end.

(* what engine.Get answered for a key after the history / what the raw map holds *)
Inductive rdump :=
| DHit (v : int) (zero : bool) (neg : bool) (e : int)   (* version; expiry: zero time / virtual seconds *)
| DMiss
| DErr.

Definition etime_eqb (a b : etime) : bool :=
  match a, b with
  | TZero, TZero => true
  | TAt x, TAt y => Z.eqb x y
  | _, _ => false
  end.

Definition dump_agree (m : getres) (o : rdump) : bool :=
  match m, o with
  | GHit d e, DHit v zero neg z =>
      Z.eqb d (zi v) && etime_eqb e (if zero then TZero else TAt (zs neg z))
  | GMiss, DMiss => true
  | GErr, DErr => true
  | _, _ => false
  end.

Definition raw_agree (m : option (doc * etime)) (o : rdump) : bool :=
  match m, o with
  | Some (d, e), DHit v zero neg z =>
      Z.eqb d (zi v) && etime_eqb e (if zero then TZero else TAt (zs neg z))
  | None, DMiss => true
  | _, _ => false
  end.

(* h_raw = [] when the raw map is not observable (cache off, default engine without hook access) *)
Record hcase := { h_id : int; h_cfg : rcfg; h_ops : list rop; h_obs : list robs;
                  h_keys : list string; h_dump : list rdump; h_raw : list rdump }.
Definition mkh (id : int) (c : rcfg) (ops : list rop) (obs : list robs)
               (keys : list string) (dmp : list rdump) (raw : list rdump) : hcase :=
  {| h_id := id; h_cfg := c; h_ops := ops; h_obs := obs; h_keys := keys; h_dump := dmp; h_raw := raw |}.

Definition case_agrees (cctab : list ccentry) (c : hcase) : bool :=
  match cfg_of cctab (h_cfg c), ops_of (h_ops c) with
  | Some cfg, Some ops =>
      table_complete cctab (h_cfg c) ops &&
      all_agree obs_agree (observe run_fuel cfg init ops) (h_obs c) &&
      all_agree dump_agree (dump cfg (run run_fuel cfg ops) (h_keys c)) (h_dump c) &&
      match h_raw c with
      | [] => true
      | raw => all_agree raw_agree (rawdump (run run_fuel cfg ops) (h_keys c)) raw
      end
  | _, _ => false
  end.

Definition hmismatches (cctab : list ccentry) (cs : list hcase) : list int :=
  fold_right (fun c acc => if case_agrees cctab c then acc else h_id c :: acc) [] cs.

(* ---- engine-level cases: Set/Get called directly on the cache engine ---- *)
Inductive reop :=
| ESet (k : string) (v : int) (neg : bool) (dt : int)   (* Set(k, doc v, now + dt) *)
| EGet (k : string) (expect : rdump)
| ERaw (k : string) (expect : rdump)                    (* the raw map at k (verif hook) *)
| ETick (dt : int).

Fixpoint engine_run (cfg : config) (st : state) (l : list reop) : bool :=
  match l with
  | [] => true
  | ESet k v neg dt :: t =>
      match engine_set cfg st k (zi v) (TAt (now st + zs neg dt)) with
      | Some st' => engine_run cfg st' t
      | None => false
      end
  | EGet k x :: t => dump_agree (engine_get cfg st k) x && engine_run cfg st t
  | ERaw k x :: t => raw_agree (assoc String.eqb k (cache st)) x && engine_run cfg st t
  | ETick dt :: t => engine_run cfg (set_now st (now st + zi dt)) t
  end.

Record ecase := { e_id : int; e_cfg : rcfg; e_ops : list reop }.
Definition mke (id : int) (c : rcfg) (ops : list reop) : ecase :=
  {| e_id := id; e_cfg := c; e_ops := ops |}.

Definition emismatches (cs : list ecase) : list int :=
  fold_right (fun c acc =>
      match cfg_of [] (e_cfg c) with
      | Some cfg => if engine_run cfg init (e_ops c) then acc else e_id c :: acc
      | None => e_id c :: acc
      end) [] cs.

(* id reported when the recorded cachecontrol table contradicts the assumption
   `cc_respects_headers` of C19_no_reuse_headers *)
Definition cc_assumption_id : int := 999999%uint63.

Definition mismatches (cctab : list ccentry) (hs : list hcase) (es : list ecase) : list int :=
  (if cc_table_respects_headers cctab then [] else [cc_assumption_id]) ++
  hmismatches cctab hs ++ emismatches es.
