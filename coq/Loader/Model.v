(* Loader/Model.v — executable model of loaders/document_loader.go and
   loaders/memory_cache.go (property C19).  NO proofs in this file.

   A state machine: the loader's cache, a clock, a scripted origin and the log
   of requests that reached the origin.  `load` mirrors LoadDocument /
   loadDocumentFromHTTP / loadDocumentFromIPFSGW / loadDocumentFromIPFSNode and
   memoryCacheEngine.Get/Set statement by statement.

   External code: github.com/pquerna/cachecontrol is NOT modelled.  Its answers
   (`cachecontrol.CachableResponse(req, res, Options{})` on a 200 response with a
   given set of cache headers, and `cacheobject.ParseResponseCacheControl` on its
   Cache-Control header) are a field of the configuration, `cc`, an arbitrary
   function in every theorem and a recorded table in the per-run case files.

   The rel=alternate branch of the Link header IS modelled (`alt` field of a response:
   the response carries `Link: <target>; rel="alternate"; type="application/ld+json"`
   and a content type whose media type, parameters stripped (fix 04a0982), is not
   application/json or application/*+json): loadDocumentFromHTTP then calls
   d.LoadDocument(target) recursively, with no bound in the Go code — here recursion
   on explicit fuel, `Diverge` when it runs out.  The main correspondence stream and the
   property theorems are about histories without such a header (`alt = None`).
   Not modelled: the context-link part of the Link header (doc.ContextURL), content
   negotiation, the Accept header, res.Request.URL, relative alternate targets
   (ld.Resolve), HTTP redirects (3xx handled inside net/http.Client). *)
From Coq Require Import ZArith NArith List String Ascii Bool.
From GSP Require Import Base.Prelude.
Import ListNotations.
Open Scope string_scope.
Open Scope Z_scope.

Definition url := string.
Definition doc := Z.            (* a document is identified by its version number *)

(* ---- cache headers of a response: the header sets the scripted origin can send ---- *)
Inductive policy :=
| PMaxAge (n : Z)          (* Cache-Control: max-age=n *)
| PSMaxAge (n : Z)         (* Cache-Control: s-maxage=n *)
| PPublicMaxAge (n : Z)    (* Cache-Control: public, max-age=n *)
| PExpiresDate (n : Z)     (* Date: D, Expires: D+n  (n may be <= 0) *)
| PExpires (n : Z)         (* Expires: now+n, no Date header *)
| PNoStore                 (* Cache-Control: no-store *)
| PPrivate                 (* Cache-Control: private *)
| PPrivateMaxAge (n : Z)   (* Cache-Control: private, max-age=n *)
| PNone                    (* no Cache-Control, Expires or Date header at all *)
| PNoCache                 (* Cache-Control: no-cache  (alone) *)
| PExpiresInvalid          (* Expires: 0 *)
| PMalformed               (* Cache-Control: max-age=oops  (the library returns an error) *)
| PBadDate (n : Z)         (* Cache-Control: max-age=n, Date: garbage (the library returns an error) *)
| PNoStoreMaxAge (n : Z)   (* Cache-Control: no-store, max-age=n *)
| PMustRevalidate (n : Z)  (* Cache-Control: must-revalidate, max-age=n *)
| PNoCacheMaxAge (n : Z)   (* Cache-Control: no-cache, max-age=n *)
| PRaw (h : list (list Z)).
    (* any other set of Cache-Control header LINES, in the order of the response.  The text of a line
       is known to the model only as a sequence of numbers (one number per original header line; a
       longer sequence is the comma-joined text of those lines); the strings live in the harness:
       other letter case (No-Cache, NO-STORE, MAX-AGE=..), white space, quoted arguments *)

(* The answers of the library for a header set, as the loader uses them.  The loader first joins
   several Cache-Control header lines into one comma separated line (fix f797550), so the library
   is asked about ALL directives of the response:
   cc_store    = (err == nil && len(reasons) == 0) of cachecontrol.CachableResponse
   cc_lifetime = Some n when the expiry returned by CachableResponse is (time of the call) + n
                 seconds, None when it is the ZERO time.Time
   cc_nocache  = cacheobject.ParseResponseCacheControl succeeds and reports NoCachePresent
                 (requiresRevalidation in document_loader.go). *)
Definition ccdec := (bool * option Z * bool)%type.

(* time.Time as used for expiry: the zero value (year 1) or an instant in seconds *)
Inductive etime := TZero | TAt (z : Z).

(* expireTime.After(now) — strict *)
Definition after (e : etime) (now : Z) : bool :=
  match e with TZero => false | TAt z => Z.ltb now z end.

Definition expiry_of (l : option Z) (now : Z) : etime :=
  match l with None => TZero | Some n => TAt (now + n) end.

(* ---- origin ---- *)
Inductive body := BJson (d : doc) | BGarbage.       (* a JSON document (version d) / not JSON *)

Inductive response :=
| RResp (code : Z) (b : body) (p : policy) (alt : option url)
    (* an HTTP response: status, body, cache headers; alt = Some t: it also carries
       `Link: <t>; rel="alternate"; type="application/ld+json"` and a non-JSON content type *)
| RTransport.                                       (* httpClient.Do / ipfsCli.Cat returns an error *)

(* which client a request went through *)
Inductive channel := CHttp | CNode.

(* a logged request: channel, key, time of the request, what the origin answered *)
Definition req := (channel * url * Z * response)%type.

(* ---- configuration (constant along a history) ---- *)
Inductive cache_mode :=
| CacheDefault                              (* no option: NewMemoryCacheEngine() inside NewDocumentLoader *)
| CacheOff                                  (* WithCacheEngine(nil) *)
| CacheMemory (emb : list (url * doc))      (* WithCacheEngine(NewMemoryCacheEngine(WithEmbeddedDocumentBytes ...)) *)
| CacheCustom (get_err set_err : bool).     (* a third-party CacheEngine: a plain map, optionally failing *)

Record config := {
  cache_mode_of : cache_mode;
  ipfs_client : bool;           (* ipfsCli != nil *)
  gateway : string;             (* ipfsGW, "" = not set *)
  url_ok : url -> bool;         (* recorded primitive: http.NewRequest("GET", u, NoBody) succeeds *)
  cc : policy -> ccdec          (* recorded primitives: cachecontrol.CachableResponse on a 200 response,
                                   cacheobject.ParseResponseCacheControl *)
}.

(* `if cc := res.Header.Values("Cache-Control"); len(cc) > 1 { res.Header.Set("Cache-Control",
   strings.Join(cc, ", ")) }` (fix f797550): several lines become ONE line, their comma-joined text *)
Definition join_cc (h : list (list Z)) : list (list Z) :=
  if (1 <? List.length h)%nat then [List.concat h] else h.

(* Header.Get("Cache-Control"), which is all the library and requiresRevalidation read: the first line *)
Definition first_line (h : list (list Z)) : list Z :=
  match h with [] => [] | l :: _ => l end.

(* the header set as the library gets to see it *)
Definition lib_view (p : policy) : policy :=
  match p with
  | PRaw h => PRaw [first_line (join_cc h)]
  | q => q
  end.

Definition cc_store (cfg : config) (p : policy) : bool := fst (fst (cc cfg (lib_view p))).
Definition cc_lifetime (cfg : config) (p : policy) : option Z := snd (fst (cc cfg (lib_view p))).
Definition cc_nocache (cfg : config) (p : policy) : bool := snd (cc cfg (lib_view p)).

(* the loader's shouldCache: err == nil && len(reasons) == 0 && !requiresRevalidation(res.Header) *)
Definition storable (cfg : config) (p : policy) : bool := cc_store cfg p && negb (cc_nocache cfg p).

Definition embedded (cfg : config) : list (url * doc) :=
  match cache_mode_of cfg with CacheMemory emb => emb | _ => [] end.

(* d.cacheEngine != nil *)
Definition cache_on (cfg : config) : bool :=
  match cache_mode_of cfg with CacheOff => false | _ => true end.

(* ---- state ---- *)
Record state := {
  cache : list (url * (doc * etime));   (* memoryCacheEngine.cache (or the third-party engine's map) *)
  now : Z;
  origin : url -> response;
  reqlog : list req             (* newest first *)
}.

Definition set_cache (st : state) (c : list (url * (doc * etime))) : state :=
  {| cache := c; now := now st; origin := origin st; reqlog := reqlog st |}.
Definition set_now (st : state) (n : Z) : state :=
  {| cache := cache st; now := n; origin := origin st; reqlog := reqlog st |}.
Definition set_origin (st : state) (u : url) (r : response) : state :=
  {| cache := cache st; now := now st;
     origin := fun x => if String.eqb x u then r else origin st x;
     reqlog := reqlog st |}.
Definition log_req (st : state) (r : req) : state :=
  {| cache := cache st; now := now st; origin := origin st; reqlog := r :: reqlog st |}.

(* nothing is served anywhere: every URL answers 404 with a non-JSON body *)
Definition not_found : response := RResp 404 BGarbage PNone None.
Definition init : state :=
  {| cache := []; now := 0; origin := fun _ => not_found; reqlog := [] |}.

(* ---- memoryCacheEngine.Get / Set (and the third-party engine) ---- *)
Inductive getres := GHit (d : doc) (e : etime) | GMiss | GErr.

(* the third-party engine's failure switches *)
Definition get_fails (cfg : config) : bool :=
  match cache_mode_of cfg with CacheCustom true _ => true | _ => false end.
Definition set_fails (cfg : config) : bool :=
  match cache_mode_of cfg with CacheCustom _ true => true | _ => false end.

Definition engine_get (cfg : config) (st : state) (k : url) : getres :=
  if get_fails cfg then GErr else
  match assoc String.eqb k (embedded cfg) with
  | Some d => GHit d (TAt (now st + 3600))        (* time.Now().Add(time.Hour) *)
  | None =>
      match assoc String.eqb k (cache st) with
      | Some (d, e) => GHit d e
      | None => GMiss                              (* ErrCacheMiss *)
      end
  end.

(* None = Set returned an error *)
Definition engine_set (cfg : config) (st : state) (k : url) (d : doc) (e : etime) : option state :=
  if set_fails cfg then None else
  match assoc String.eqb k (embedded cfg) with
  | Some _ => Some st                              (* embedded documents are not overwritten *)
  | None => Some (set_cache st (upsert String.eqb k (d, e) (cache st)))
  end.

(* ---- loadDocumentFromHTTP, from http.NewRequest on ---- *)
(* the tail of loadDocumentFromHTTP once a document d is at hand:
   `if shouldCache && d.cacheEngine != nil { Set(u, doc, expireTime) }; return doc` *)
Definition store_and_return (cfg : config) (st : state) (u : url) (p : policy) (t0 : Z) (d : doc)
  : state * res doc :=
  (* Cache-Control lines joined; cachecontrol.CachableResponse, requiresRevalidation:
     shouldCache, expireTime *)
  let should_cache := storable cfg p in
  let expire := expiry_of (cc_lifetime cfg p) t0 in
  if should_cache && cache_on cfg then
    match engine_set cfg st u d expire with
    | None => (st, Err "cache-set")
    | Some st2 => (st2, Ok d)
    end
  else (st, Ok d).

(* `rec` is d.LoadDocument, called for a rel=alternate link *)
Definition fetch (rec : state -> url -> state * res doc)
                 (cfg : config) (st : state) (u : url) : state * res doc :=
  (* http.NewRequest *)
  if negb (url_ok cfg u) then (st, Err "new-request") else
  (* httpClient.Do *)
  let r := origin st u in
  let st1 := log_req st (CHttp, u, now st, r) in
  match r with
  | RTransport => (st1, Err "transport")
  | RResp code b p alt =>
      (* res.StatusCode != http.StatusOK *)
      if negb (code =? 200) then (st1, Err "status") else
      match alt with
      | Some target =>
          (* doc, err = d.LoadDocument(finalURL); the body of this response is not parsed *)
          let '(st2, r2) := rec st1 target in
          match r2 with
          | Ok d => store_and_return cfg st2 u p (now st) d
          | Err _ => (st2, Err "alternate")
          | Panic w => (st2, Panic w)
          | Diverge => (st2, Diverge)
          end
      | None =>
          (* ld.DocumentFromReader(res.Body) *)
          match b with
          | BGarbage => (st1, Err "parse")
          | BJson d => store_and_return cfg st1 u p (now st) d
          end
      end
  end.

(* loadDocumentFromHTTP: cache lookup and expiry comparison first *)
Definition load_http (rec : state -> url -> state * res doc)
                     (cfg : config) (st : state) (u : url) : state * res doc :=
  if cache_on cfg then
    match engine_get cfg st u with
    | GErr => (st, Err "cache-get")
    | GMiss => fetch rec cfg st u
    | GHit d e => if after e (now st) then (st, Ok d) else fetch rec cfg st u
    end
  else fetch rec cfg st u.

(* ---- loadDocumentFromIPFSNode: no cache.  The harness's IPFS client answers from the
   same scripted origin under the key "ipfs://<rest>": transport failure or a status
   other than 200 makes Cat return an error, otherwise Cat returns the body. ---- *)
Definition node_key (rest : string) : url := "ipfs://" ++ rest.

Definition load_node (cfg : config) (st : state) (rest : string) : state * res doc :=
  let k := node_key rest in
  let r := origin st k in
  let st1 := log_req st (CNode, k, now st, r) in
  match r with
  | RTransport => (st1, Err "cat")
  | RResp code b _ _ =>
      if negb (code =? 200) then (st1, Err "cat") else
      match b with
      | BGarbage => (st1, Err "parse")
      | BJson d => (st1, Ok d)
      end
  end.

(* ---- loadDocumentFromIPFSGW: URL rewriting, then the HTTP path with its cache ---- *)
Definition is_slash (c : ascii) : bool := Ascii.eqb c "/"%char.

Fixpoint trim_left_slash (s : string) : string :=
  match s with
  | String c t => if is_slash c then trim_left_slash t else s
  | EmptyString => EmptyString
  end.

Fixpoint trim_right_slash (s : string) : string :=
  match s with
  | EmptyString => EmptyString
  | String c t =>
      match trim_right_slash t with
      | EmptyString => if is_slash c then EmptyString else String c EmptyString
      | t' => String c t'
      end
  end.

Definition gateway_url (gw rest : string) : url :=
  trim_right_slash gw ++ "/ipfs/" ++ trim_left_slash rest.

Fixpoint drop (n : nat) (s : string) : string :=
  match n, s with
  | S n', String _ t => drop n' t
  | _, _ => s
  end.

(* strings.HasPrefix *)
Fixpoint has_prefix (p s : string) : bool :=
  match p with
  | EmptyString => true
  | String a p' =>
      match s with
      | String b s' => Ascii.eqb a b && has_prefix p' s'
      | EmptyString => false
      end
  end.

(* ---- LoadDocument ---- *)
Definition load_with (rec : state -> url -> state * res doc)
                     (cfg : config) (st : state) (u : url) : state * res doc :=
  if has_prefix "http://" u || has_prefix "https://" u then load_http rec cfg st u
  else if has_prefix "ipfs://" u then
    let rest := drop 7 u in
    if ipfs_client cfg then load_node cfg st rest
    else if negb (String.eqb (gateway cfg) "") then load_http rec cfg st (gateway_url (gateway cfg) rest)
    else (st, Err "ipfs-not-configured")
  else (st, Err "unsupported-scheme").

(* the Go recursion LoadDocument -> loadDocumentFromHTTP -> LoadDocument has no bound:
   `load fuel` allows `fuel` nested alternate links and answers Diverge beyond *)
Fixpoint load (fuel : nat) (cfg : config) (st : state) (u : url) {struct fuel} : state * res doc :=
  load_with (fun st' u' => match fuel with
                           | O => (st', Diverge)
                           | S f => load f cfg st' u'
                           end) cfg st u.

(* ---- histories ---- *)
Inductive op :=
| Serve (u : url) (r : response)   (* from now on the origin answers r at u: a new version with a cache
                                      policy, a non-200 status, an unparsable body, a transport failure *)
| Load (u : url)
| Tick (dt : N).                   (* dt seconds pass *)

Definition step (fuel : nat) (cfg : config) (st : state) (o : op) : state :=
  match o with
  | Serve u r => set_origin st u r
  | Load u => fst (load fuel cfg st u)
  | Tick dt => set_now st (now st + Z.of_N dt)
  end.

Definition run (fuel : nat) (cfg : config) (ops : list op) : state :=
  fold_left (step fuel cfg) ops init.

(* ---- observables: per Load, the outcome and the requests it issued ---- *)
Inductive outcome := ODoc (v : doc) | OErr | ODiverge | OBad.   (* OBad: Panic, never produced *)
Definition outcome_of (r : res doc) : outcome :=
  match r with Ok d => ODoc d | Err _ => OErr | Diverge => ODiverge | Panic _ => OBad end.

(* requests issued by a step = the new prefix of the log *)
Definition new_reqs (before after_ : state) : list (channel * url) :=
  map (fun r => match r with (c, k, _, _) => (c, k) end)
      (firstn (List.length (reqlog after_) - List.length (reqlog before))%nat (reqlog after_)).

Fixpoint observe (fuel : nat) (cfg : config) (st : state) (ops : list op)
  : list (outcome * list (channel * url)) :=
  match ops with
  | [] => []
  | Load u :: t =>
      let '(st', out) := load fuel cfg st u in
      (outcome_of out, new_reqs st st') :: observe fuel cfg st' t
  | o :: t => observe fuel cfg (step fuel cfg st o) t
  end.

(* what engine.Get answers for a key at the end of a history (cache dump through the public API) *)
Definition dump (cfg : config) (st : state) (keys : list url) : list getres :=
  map (engine_get cfg st) keys.

(* the raw cache map at the end of a history (read through the verif hook) *)
Definition rawdump (st : state) (keys : list url) : list (option (doc * etime)) :=
  map (fun k => assoc String.eqb k (cache st)) keys.
