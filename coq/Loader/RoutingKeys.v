(* Loader/RoutingKeys.v — two oracles of the Go driver lifted into the development (property C19):
   (a) the target of a rel=alternate Link is loaded through the SAME scheme dispatch as a direct
       load (seeds C19-i, C19-n, C19-q load it through the HTTP path directly);
   (b) cache keys are the URL string as given, fragment included (seed C19-j strips "#fragment"
       in Get/Set while embedded documents stay registered under the raw URL).
   Statements for all states / configurations / fuels; `_refuted` witnesses for the seeded variants. *)
From Coq Require Import ZArith NArith List String Ascii Bool Lia.
From GSP Require Import Base.Prelude Loader.Model Loader.Theory.
Import ListNotations.
Open Scope string_scope.
Open Scope list_scope.
Open Scope Z_scope.

(* ================= (a) the alternate target is routed by scheme ================= *)

(* what loadDocumentFromHTTP does with the outcome of d.LoadDocument(target) *)
Definition after_alternate (cfg : config) (u : url) (p : policy) (t0 : Z)
                           (r : state * res doc) : state * res doc :=
  match r with
  | (st2, Ok d) => store_and_return cfg st2 u p t0 d
  | (st2, Err _) => (st2, Err "alternate")
  | (st2, Panic w) => (st2, Panic w)
  | (st2, Diverge) => (st2, Diverge)
  end.

(* a 200 response with an alternate link: the request is logged, then the target goes through
   `load` itself, i.e. through LoadDocument's scheme dispatch, whatever the target is *)
Theorem alternate_is_full_load fuel cfg st u b p t :
  url_ok cfg u = true -> origin st u = RResp 200 b p (Some t) ->
  fetch (recf (S fuel) cfg) cfg st u =
  after_alternate cfg u p (now st)
    (load fuel cfg (log_req st (CHttp, u, now st, RResp 200 b p (Some t))) t).
Proof.
  intros Hu Ho. unfold fetch. rewrite Hu, Ho. cbn [negb Z.eqb Pos.eqb recf].
  destruct (load fuel cfg (log_req st (CHttp, u, now st, RResp 200 b p (Some t))) t) as [st2 [d|e|w|]];
    reflexivity.
Qed.

(* the decision table applied to the TARGET: IPFS client / gateway (HTTP path under the gateway key,
   with that key's own cache entry) / HTTP path under the target's own key / rejected *)
Theorem alternate_routed_by_scheme fuel cfg st u b p t :
  url_ok cfg u = true -> origin st u = RResp 200 b p (Some t) ->
  let st1 := log_req st (CHttp, u, now st, RResp 200 b p (Some t)) in
  match route_of cfg t with
  | ToHttp k =>
      fetch (recf (S fuel) cfg) cfg st u =
      after_alternate cfg u p (now st) (load_http (recf fuel cfg) cfg st1 k)
  | ToNode r =>
      fetch (recf (S fuel) cfg) cfg st u = after_alternate cfg u p (now st) (load_node cfg st1 r)
  | Reject =>
      fetch (recf (S fuel) cfg) cfg st u = (st1, Err "alternate")
  end.
Proof.
  intros Hu Ho st1. rewrite (alternate_is_full_load fuel cfg st u b p t Hu Ho). fold st1.
  pose proof (load_route_dispatch fuel cfg st1 t) as Hr.
  destruct (route_of cfg t) as [k|r|].
  - rewrite Hr. reflexivity.
  - rewrite Hr. reflexivity.
  - destruct Hr as [e Hr]. rewrite Hr. reflexivity.
Qed.

(* consequences in terms of requests: a rejected target costs no second request and the load fails
   with the cache untouched; an ipfs target with a client is asked of the IPFS client *)
Corollary alternate_rejected_target fuel cfg st u b p t :
  url_ok cfg u = true -> origin st u = RResp 200 b p (Some t) -> route_of cfg t = Reject ->
  let r := fetch (recf (S fuel) cfg) cfg st u in
  snd r = Err "alternate" /\ cache (fst r) = cache st /\
  reqlog (fst r) = (CHttp, u, now st, RResp 200 b p (Some t)) :: reqlog st.
Proof.
  intros Hu Ho Hr. pose proof (alternate_routed_by_scheme fuel cfg st u b p t Hu Ho) as H.
  rewrite Hr in H. cbv zeta in *. rewrite H. simpl. auto.
Qed.

Corollary alternate_node_target fuel cfg st u b p t r :
  url_ok cfg u = true -> origin st u = RResp 200 b p (Some t) -> route_of cfg t = ToNode r ->
  reqlog (fst (fetch (recf (S fuel) cfg) cfg st u)) =
  (CNode, node_key r, now st, origin st (node_key r)) ::
  (CHttp, u, now st, RResp 200 b p (Some t)) :: reqlog st.
Proof.
  intros Hu Ho Hr. pose proof (alternate_routed_by_scheme fuel cfg st u b p t Hu Ho) as H.
  rewrite Hr in H. cbv zeta in H. rewrite H.
  unfold load_node. simpl origin. simpl now.
  destruct (origin st (node_key r)) as [code bd q alt|]; simpl; [|reflexivity].
  destruct (code =? 200); simpl; [|reflexivity].
  destruct bd as [d|]; simpl; [|reflexivity].
  unfold store_and_return. destruct (storable cfg p && cache_on cfg); [|reflexivity].
  unfold engine_set. destruct (set_fails cfg); [reflexivity|].
  destruct (assoc String.eqb u (embedded cfg)); reflexivity.
Qed.

(* concrete: every row, and "its own cache entry" for an http target *)
Definition rk_cfg (cli : bool) (gw : string) : config :=
  {| cache_mode_of := CacheMemory []; ipfs_client := cli; gateway := gw; url_ok := fun _ => true;
     cc := cc_reference |}.
Definition link_to (t : url) : response := RResp 200 BGarbage (PMaxAge 3000) (Some t).

Example ex_alt_http_own_entries :
  let ops := [Serve u_url (link_to alt_url); Serve alt_url (ok_resp 1 (PMaxAge 1000)); Load u_url] in
  observe 1 (rk_cfg false "") init ops = [(ODoc 1, [(CHttp, alt_url); (CHttp, u_url)])] /\
  cache (run 1 (rk_cfg false "") ops) = [(alt_url, (1, TAt 1000)); (u_url, (1, TAt 3000))].
Proof. vm_compute. split; reflexivity. Qed.

Example ex_alt_ipfs_client :
  let ops := [Serve u_url (link_to "ipfs://Qm/x"); Serve "ipfs://Qm/x" (ok_resp 1 PNone); Load u_url] in
  observe 1 (rk_cfg true "http://gw.test") init ops = [(ODoc 1, [(CNode, "ipfs://Qm/x"); (CHttp, u_url)])].
Proof. vm_compute. reflexivity. Qed.

Example ex_alt_ipfs_gateway :
  let ops := [Serve u_url (link_to "ipfs://Qm/x"); Serve "http://gw.test/ipfs/Qm/x" (ok_resp 1 (PMaxAge 1000));
              Load u_url] in
  observe 1 (rk_cfg false "http://gw.test/") init ops =
    [(ODoc 1, [(CHttp, "http://gw.test/ipfs/Qm/x"); (CHttp, u_url)])] /\
  cache (run 1 (rk_cfg false "http://gw.test/") ops) =
    [("http://gw.test/ipfs/Qm/x", (1, TAt 1000)); (u_url, (1, TAt 3000))].
Proof. vm_compute. split; reflexivity. Qed.

Example ex_alt_rejected :
  let ops := [Serve u_url (link_to "ftp://a.test/d1"); Serve "ftp://a.test/d1" (ok_resp 1 (PMaxAge 1000));
              Load u_url] in
  observe 1 (rk_cfg true "http://gw.test") init ops = [(OErr, [(CHttp, u_url)])] /\
  cache (run 1 (rk_cfg true "http://gw.test") ops) = [].
Proof. vm_compute. split; reflexivity. Qed.

(* the seeded variant (C19-i, C19-n, C19-q): the target handed to the HTTP path directly.  It asks the
   HTTP client for an ftp:// URL that LoadDocument rejects, and asks the HTTP client instead of the
   IPFS client for an ipfs:// URL: both contradict alternate_routed_by_scheme *)
Definition alternate_unrouted (fuel : nat) (cfg : config) (st : state) (t : url) : state * res doc :=
  load_http (recf fuel cfg) cfg st t.

Theorem alternate_unrouted_refuted :
  let cfg := rk_cfg true "http://gw.test" in
  let st := run 1 cfg [Serve "ftp://a.test/d1" (ok_resp 1 (PMaxAge 1000));
                       Serve "ipfs://Qm/x" (ok_resp 2 PNone)] in
  (* unsupported scheme: rejected by the dispatch, fetched (and even cached) by the variant *)
  load 0 cfg st "ftp://a.test/d1" = (st, Err "unsupported-scheme") /\
  snd (alternate_unrouted 0 cfg st "ftp://a.test/d1") = Ok 1 /\
  new_reqs st (fst (alternate_unrouted 0 cfg st "ftp://a.test/d1")) = [(CHttp, "ftp://a.test/d1")] /\
  (* ipfs target with a client: IPFS client by the dispatch, HTTP client by the variant *)
  new_reqs st (fst (load 0 cfg st "ipfs://Qm/x")) = [(CNode, "ipfs://Qm/x")] /\
  new_reqs st (fst (alternate_unrouted 0 cfg st "ipfs://Qm/x")) = [(CHttp, "ipfs://Qm/x")].
Proof. vm_compute. repeat split; reflexivity. Qed.

(* ================= (b) cache keys are the URL string, fragment included ================= *)

Lemma assoc_upsert_other {V} (k k' : string) (v : V) l :
  k <> k' -> assoc String.eqb k (upsert String.eqb k' v l) = assoc String.eqb k l.
Proof.
  intros Hne. induction l as [|[a b] t IH]; simpl.
  - destruct (String.eqb k' k) eqn:E; [apply String.eqb_eq in E; congruence|reflexivity].
  - destruct (String.eqb a k') eqn:E1; simpl.
    + apply String.eqb_eq in E1. subst a.
      destruct (String.eqb k' k) eqn:E; [apply String.eqb_eq in E; congruence|reflexivity].
    + destruct (String.eqb a k); [reflexivity|exact IH].
Qed.

Lemma assoc_upsert_same {V} (k : string) (v : V) l :
  assoc String.eqb k (upsert String.eqb k v l) = Some v.
Proof.
  induction l as [|[a b] t IH]; simpl.
  - rewrite String.eqb_refl. reflexivity.
  - destruct (String.eqb a k) eqn:E; simpl; rewrite E; [reflexivity|exact IH].
Qed.

(* Set under one URL never changes what Get answers under ANY other URL string *)
Theorem set_other_key cfg st k' d e st' k :
  engine_set cfg st k' d e = Some st' -> k <> k' -> engine_get cfg st' k = engine_get cfg st k.
Proof.
  unfold engine_set. destruct (set_fails cfg); [discriminate|].
  destruct (assoc String.eqb k' (embedded cfg)).
  - intros H _. inversion H. reflexivity.
  - intros H Hne. inversion H. subst st'. unfold engine_get. simpl.
    rewrite (assoc_upsert_other k k' (d, e) (cache st) Hne). reflexivity.
Qed.

(* ... and is found again under exactly that string (unless the URL is embedded) *)
Theorem set_then_get cfg st k d e st' :
  engine_set cfg st k d e = Some st' -> get_fails cfg = false ->
  assoc String.eqb k (embedded cfg) = None -> engine_get cfg st' k = GHit d e.
Proof.
  unfold engine_set. destruct (set_fails cfg); [discriminate|]. intros H Hg He. rewrite He in H.
  inversion H. subst st'. unfold engine_get. rewrite Hg, He. simpl.
  rewrite assoc_upsert_same. reflexivity.
Qed.

(* Get consults the embedded documents and the cache under exactly the string it is given *)
Theorem get_exact_key cfg st k :
  get_fails cfg = false ->
  engine_get cfg st k =
  match assoc String.eqb k (embedded cfg) with
  | Some d => GHit d (TAt (now st + 3600))
  | None => match assoc String.eqb k (cache st) with Some (d, e) => GHit d e | None => GMiss end
  end.
Proof. intros Hg. unfold engine_get. rewrite Hg. reflexivity. Qed.

Lemma http_step_own_key cfg st u st' out k' :
  http_step cfg st u st' out -> k' <> u ->
  assoc String.eqb k' (cache st') = assoc String.eqb k' (cache st).
Proof.
  intros H Hne. destruct H; simpl; try reflexivity. apply assoc_upsert_other. exact Hne.
Qed.

(* a load (no alternate links) can only create or replace the entry of its OWN key: the entry of
   every other URL string — e.g. one that differs only in the fragment — stays as it is *)
Theorem load_touches_own_key fuel cfg st u st' out k' :
  link_free st -> load fuel cfg st u = (st', out) ->
  (forall k, route_of cfg u = ToHttp k -> k' <> k) ->
  assoc String.eqb k' (cache st') = assoc String.eqb k' (cache st).
Proof.
  intros Hlf Hl Hne. pose proof (load_route fuel cfg st u) as Hr.
  destruct (route_of cfg u) as [k|r|].
  - rewrite Hr in Hl. pose proof (load_http_spec (recf fuel cfg) cfg st k Hlf) as Hs.
    rewrite Hl in Hs. simpl in Hs. apply (http_step_own_key _ _ _ _ _ _ Hs). apply Hne. reflexivity.
  - rewrite Hr in Hl. destruct (load_node_eq cfg st r Hlf) as [H1 _]. rewrite Hl in H1.
    simpl in H1. subst st'. reflexivity.
  - destruct Hr as [t Hr]. rewrite Hr in Hl. inversion Hl. reflexivity.
Qed.

(* the seeded variant C19-j: Get/Set strip "#fragment" from the key, embedded documents stay
   registered under the raw URL *)
Fixpoint strip_fragment (s : string) : string :=
  match s with
  | EmptyString => EmptyString
  | String c t => if Ascii.eqb c "#"%char then EmptyString else String c (strip_fragment t)
  end.
Definition get_stripped (cfg : config) (st : state) (k : url) : getres :=
  engine_get cfg st (strip_fragment k).
Definition set_stripped (cfg : config) (st : state) (k : url) (d : doc) (e : etime) : option state :=
  engine_set cfg st (strip_fragment k) d e.

Theorem fragment_stripping_refuted :
  let cfg := {| cache_mode_of := CacheMemory [("https://schema.example/kyc.jsonld#v2", 902)];
                ipfs_client := false; gateway := ""; url_ok := fun _ => true; cc := cc_reference |} in
  (* the embedded document is found by the model, lost by the variant *)
  engine_get cfg init "https://schema.example/kyc.jsonld#v2" = GHit 902 (TAt 3600) /\
  get_stripped cfg init "https://schema.example/kyc.jsonld#v2" = GMiss /\
  (* the overwrite guard of Set misses it *)
  engine_set cfg init "https://schema.example/kyc.jsonld#v2" 7 (TAt 1000) = Some init /\
  (exists st', set_stripped cfg init "https://schema.example/kyc.jsonld#v2" 7 (TAt 1000) = Some st' /\
               cache st' = [("https://schema.example/kyc.jsonld", (7, TAt 1000))]) /\
  (* two URLs that differ only in the fragment share one entry in the variant, not in the model *)
  (exists st', set_stripped cfg init "http://a.test/d1#v1" 4 (TAt 3000) = Some st' /\
               get_stripped cfg st' "http://a.test/d1#v2" = GHit 4 (TAt 3000)) /\
  (exists st', engine_set cfg init "http://a.test/d1#v1" 4 (TAt 3000) = Some st' /\
               engine_get cfg st' "http://a.test/d1#v2" = GMiss).
Proof.
  vm_compute. repeat split; try reflexivity; eexists; split; reflexivity.
Qed.

(* ================= (c) every Cache-Control line reaches the library ================= *)

(* whatever the number of Cache-Control lines of a response, the ONE line the library and
   requiresRevalidation read (Header.Get after the join of f797550) is the comma-joined text of ALL of
   them, in order: a directive on a later line (no-store, no-cache, private, max-age) is never lost *)
Theorem library_sees_every_line h :
  lib_view (PRaw h) = PRaw [List.concat h].
Proof.
  unfold lib_view, join_cc.
  destruct h as [|l1 [|l2 t]]; simpl; try reflexivity.
  rewrite app_nil_r. reflexivity.
Qed.

(* consequently the loader's decisions on a multi-line header set are its decisions on the joined line *)
Corollary multi_line_decisions cfg h :
  cc_store cfg (PRaw h) = cc_store cfg (PRaw [List.concat h]) /\
  cc_nocache cfg (PRaw h) = cc_nocache cfg (PRaw [List.concat h]) /\
  cc_lifetime cfg (PRaw h) = cc_lifetime cfg (PRaw [List.concat h]) /\
  storable cfg (PRaw h) = storable cfg (PRaw [List.concat h]).
Proof.
  assert (E : lib_view (PRaw h) = lib_view (PRaw [List.concat h])).
  { unfold lib_view, join_cc. destruct h as [|l1 [|l2 t]]; simpl; try reflexivity.
    rewrite !app_nil_r. reflexivity. }
  unfold storable, cc_store, cc_nocache, cc_lifetime. rewrite E. auto.
Qed.

(* the seeded variant C19-l joins only when there are MORE THAN TWO lines; the tree before f797550 (D32)
   never joined: with two lines both hand the library the first line only *)
Definition join_cc_more_than_two (h : list (list Z)) : list (list Z) :=
  if (2 <? List.length h)%nat then [List.concat h] else h.

Theorem join_off_by_one_refuted :
  first_line (join_cc [[1]; [2]]) = [1; 2] /\
  first_line (join_cc_more_than_two [[1]; [2]]) = [1] /\
  first_line [[1]; [2]] = [1].
Proof. vm_compute. repeat split; reflexivity. Qed.
