(* Loader/Theory.v — theorems about the document-loader model (property C19).
   Every statement is for ALL configurations (cache mode, embedded documents,
   IPFS client / gateway, URL-parser oracle) and ALL histories
   (`run cfg ops = fold_left (step cfg) ops init`), proved by induction over the
   history; the `Example`s show the hypotheses are satisfiable. *)
From Coq Require Import ZArith NArith List String Ascii Bool Lia.
From GSP Require Import Base.Prelude Loader.Model.
Import ListNotations.
Open Scope string_scope.
Open Scope list_scope.
Open Scope Z_scope.

(* ---- association lists ---- *)
Lemma assoc_in {V} (k : string) (v : V) l : assoc String.eqb k l = Some v -> In (k, v) l.
Proof.
  induction l as [|[a b] t IH]; simpl; intros H; [discriminate|].
  destruct (String.eqb a k) eqn:E.
  - apply String.eqb_eq in E. inversion H. subst. left; reflexivity.
  - right; auto.
Qed.

Lemma in_upsert {V} (k : string) (v : V) l k' v' :
  In (k', v') (upsert String.eqb k v l) -> (k' = k /\ v' = v) \/ In (k', v') l.
Proof.
  induction l as [|[a b] t IH]; simpl; intros H.
  - destruct H as [H|[]]. inversion H. left; split; reflexivity.
  - destruct (String.eqb a k) eqn:E.
    + apply String.eqb_eq in E. subst a. destruct H as [H|H].
      * inversion H. left; split; reflexivity.
      * right; right; exact H.
    + destruct H as [H|H].
      * right; left; exact H.
      * destruct (IH H) as [H1|H1]; [left; exact H1|right; right; exact H1].
Qed.

(* ---- the routing decision table, written independently of `load` ---- *)
Inductive route := ToHttp (k : url) | ToNode (rest : string) | Reject.

Definition route_of (cfg : config) (u : url) : route :=
  if has_prefix "http://" u then ToHttp u
  else if has_prefix "https://" u then ToHttp u
  else if has_prefix "ipfs://" u then
    if ipfs_client cfg then ToNode (drop 7 u)
    else if String.eqb (gateway cfg) "" then Reject
    else ToHttp (gateway_url (gateway cfg) (drop 7 u))
  else Reject.

Lemma load_route cfg st u :
  match route_of cfg u with
  | ToHttp k => load cfg st u = load_http cfg st k
  | ToNode r => load cfg st u = load_node cfg st r
  | Reject => exists t, load cfg st u = (st, Err t)
  end.
Proof.
  unfold route_of, load.
  destruct (has_prefix "http://" u), (has_prefix "https://" u), (has_prefix "ipfs://" u);
    cbn [orb]; try reflexivity; try (eexists; reflexivity);
    destruct (ipfs_client cfg); try reflexivity;
    destruct (String.eqb (gateway cfg) ""); cbn [negb]; try reflexivity; eexists; reflexivity.
Qed.

(* the table itself, on explicit URL shapes *)
Lemma route_http cfg s : route_of cfg ("http://" ++ s)%string = ToHttp ("http://" ++ s)%string.
Proof. reflexivity. Qed.
Lemma route_https cfg s : route_of cfg ("https://" ++ s)%string = ToHttp ("https://" ++ s)%string.
Proof. reflexivity. Qed.
Lemma route_ipfs_client cfg s :
  ipfs_client cfg = true -> route_of cfg ("ipfs://" ++ s)%string = ToNode s.
Proof. intros H. unfold route_of. cbn. rewrite H. reflexivity. Qed.
Lemma route_ipfs_gateway cfg s :
  ipfs_client cfg = false -> gateway cfg <> "" ->
  route_of cfg ("ipfs://" ++ s)%string = ToHttp (gateway_url (gateway cfg) s).
Proof.
  intros H Hg. unfold route_of. cbn. rewrite H.
  destruct (String.eqb (gateway cfg) "") eqn:E; [apply String.eqb_eq in E; contradiction|reflexivity].
Qed.
Lemma route_ipfs_none cfg s :
  ipfs_client cfg = false -> gateway cfg = "" -> route_of cfg ("ipfs://" ++ s)%string = Reject.
Proof. intros H Hg. unfold route_of. cbn. rewrite H, Hg. reflexivity. Qed.
Lemma route_other cfg u :
  has_prefix "http://" u = false -> has_prefix "https://" u = false ->
  has_prefix "ipfs://" u = false -> route_of cfg u = Reject.
Proof. intros H1 H2 H3. unfold route_of. rewrite H1, H2, H3. reflexivity. Qed.

(* ---- what one HTTP load can do ---- *)
Inductive http_step (cfg : config) (st : state) (u : url) : state -> res doc -> Prop :=
| HS_quiet_err t :                       (* engine Get error / URL does not parse: nothing happened *)
    http_step cfg st u st (Err t)
| HS_hit d e :                           (* fresh cache entry or embedded document, no request *)
    cache_on cfg = true -> engine_get cfg st u = GHit d e -> after e (now st) = true ->
    http_step cfg st u st (Ok d)
| HS_fail f t :                          (* request, failed response: logged, nothing stored *)
    origin st u = RFail f ->
    http_step cfg st u (log_req st (CHttp, u, now st, RFail f)) (Err t)
| HS_unstored d p :                      (* request, current document returned, nothing stored *)
    origin st u = ROk d p ->
    http_step cfg st u (log_req st (CHttp, u, now st, ROk d p)) (Ok d)
| HS_set_err d p t :                     (* request, engine Set error *)
    origin st u = ROk d p ->
    http_step cfg st u (log_req st (CHttp, u, now st, ROk d p)) (Err t)
| HS_store d p :                         (* request, current document returned and stored *)
    origin st u = ROk d p -> cachable p = true -> cache_on cfg = true ->
    assoc String.eqb u (embedded cfg) = None ->
    http_step cfg st u
      (set_cache (log_req st (CHttp, u, now st, ROk d p))
                 (upsert String.eqb u (d, expiry p (now st)) (cache st)))
      (Ok d).

Lemma fetch_spec cfg st u :
  http_step cfg st u (fst (fetch cfg st u)) (snd (fetch cfg st u)).
Proof.
  unfold fetch.
  destruct (url_ok cfg u) eqn:Hu; simpl; [|apply HS_quiet_err].
  destruct (origin st u) as [d p|f] eqn:Ho.
  - destruct (cachable p) eqn:Hc; simpl; [|apply (HS_unstored _ _ _ d p Ho)].
    destruct (cache_on cfg) eqn:Hon; simpl; [|apply (HS_unstored _ _ _ d p Ho)].
    unfold engine_set.
    destruct (set_fails cfg) eqn:Hs; simpl; [apply (HS_set_err _ _ _ d p _ Ho)|].
    destruct (assoc String.eqb u (embedded cfg)) as [d0|] eqn:He; simpl.
    + apply (HS_unstored _ _ _ d p Ho).
    + apply (HS_store _ _ _ d p Ho Hc Hon He).
  - destruct f; simpl; apply HS_fail; exact Ho.
Qed.

Lemma load_http_spec cfg st u :
  http_step cfg st u (fst (load_http cfg st u)) (snd (load_http cfg st u)).
Proof.
  unfold load_http.
  destruct (cache_on cfg) eqn:Hon; [|apply fetch_spec].
  destruct (engine_get cfg st u) as [d e| |] eqn:Hg.
  - destruct (after e (now st)) eqn:Ha; simpl.
    + apply (HS_hit _ _ _ d e Hon Hg Ha).
    + apply fetch_spec.
  - apply fetch_spec.
  - simpl. apply HS_quiet_err.
Qed.

Lemma load_node_eq cfg st r :
  fst (load_node cfg st r) = log_req st (CNode, node_key r, now st, origin st (node_key r)) /\
  match snd (load_node cfg st r) with
  | Ok d => exists p, origin st (node_key r) = ROk d p
  | Err _ => exists f, origin st (node_key r) = RFail f
  | _ => False
  end.
Proof.
  unfold load_node.
  destruct (origin st (node_key r)) as [d p|f] eqn:Ho; simpl.
  - split; [reflexivity|eexists; reflexivity].
  - destruct f; simpl; (split; [reflexivity|eexists; reflexivity]).
Qed.

(* ---- frame facts ---- *)
Lemma http_step_frame cfg st u st' out :
  http_step cfg st u st' out ->
  now st' = now st /\ origin st' = origin st /\
  (reqlog st' = reqlog st \/ reqlog st' = (CHttp, u, now st, origin st u) :: reqlog st).
Proof.
  intros H. destruct H as [t|d e Hon Hg Ha|f t Ho|d p Ho|d p t Ho|d p Ho Hc Hon He]; simpl;
    repeat split; auto; right; rewrite Ho; reflexivity.
Qed.

Lemma load_frame cfg st u :
  now (fst (load cfg st u)) = now st /\ origin (fst (load cfg st u)) = origin st /\
  (reqlog (fst (load cfg st u)) = reqlog st \/
   exists c k, reqlog (fst (load cfg st u)) = (c, k, now st, origin st k) :: reqlog st).
Proof.
  pose proof (load_route cfg st u) as Hr.
  destruct (route_of cfg u) as [k|r|].
  - rewrite Hr. destruct (http_step_frame _ _ _ _ _ (load_http_spec cfg st k)) as [H1 [H2 H3]].
    repeat split; auto. destruct H3 as [H3|H3]; [left; exact H3|right; eauto].
  - rewrite Hr. destruct (load_node_eq cfg st r) as [H1 _]. rewrite H1. simpl.
    repeat split; auto. right; eauto.
  - destruct Hr as [t Hr]. rewrite Hr. simpl. auto.
Qed.

Lemma step_now_mono cfg st o : now st <= now (step cfg st o).
Proof.
  destruct o as [u v p|u k|u|dt]; simpl; try lia.
  destruct (load_frame cfg st u) as [H _]. rewrite H. lia.
Qed.

Lemma fold_now_mono cfg ops st : now st <= now (fold_left (step cfg) ops st).
Proof.
  revert st. induction ops as [|o t IH]; intros st; simpl; [lia|].
  pose proof (step_now_mono cfg st o). pose proof (IH (step cfg st o)). lia.
Qed.

Lemma run_app cfg pre post : run cfg (pre ++ post) = fold_left (step cfg) post (run cfg pre).
Proof. unfold run. apply fold_left_app. Qed.

Lemma run_now_mono cfg pre post : now (run cfg pre) <= now (run cfg (pre ++ post)).
Proof. rewrite run_app. apply fold_now_mono. Qed.

(* ---- the request log is a faithful record of the history ---- *)
(* `requested cfg ops k t r`: some Load of the history was executed at time t,
   when the origin's answer for key k was r *)
Definition requested (cfg : config) (ops : list op) (k : url) (t : Z) (r : response) : Prop :=
  exists pre u post, ops = pre ++ Load u :: post /\
                     now (run cfg pre) = t /\ origin (run cfg pre) k = r.

Lemma requested_snoc cfg ops o k t r : requested cfg ops k t r -> requested cfg (ops ++ [o]) k t r.
Proof.
  intros [pre [u [post [H1 [H2 H3]]]]]. exists pre, u, (post ++ [o]). subst ops.
  rewrite <- app_assoc. simpl. auto.
Qed.

Lemma reqlog_history cfg ops c k t r :
  In (c, k, t, r) (reqlog (run cfg ops)) -> requested cfg ops k t r.
Proof.
  induction ops as [|o l IH] using rev_ind; [intros []|].
  rewrite run_app. simpl. intros Hin.
  destruct o as [u v p|u f|u|dt]; simpl in Hin;
    try (apply requested_snoc; apply IH; exact Hin).
  destruct (load_frame cfg (run cfg l) u) as [_ [_ [Hl|[c0 [k0 Hl]]]]]; rewrite Hl in Hin.
  - apply requested_snoc; apply IH; exact Hin.
  - destruct Hin as [Heq|Hin].
    + inversion Heq. subst. exists l, u, []. auto.
    + apply requested_snoc; apply IH; exact Hin.
Qed.

(* ---- the cache invariant ---- *)
Definition justified (cfg : config) (st : state) (k : url) (d : doc) (e : etime) : Prop :=
  assoc String.eqb k (embedded cfg) = None /\
  exists t p, In (CHttp, k, t, ROk d p) (reqlog st) /\ cachable p = true /\
              e = expiry p t /\ t <= now st.

Definition inv (cfg : config) (st : state) : Prop :=
  forall k d e, In (k, (d, e)) (cache st) -> justified cfg st k d e.

Lemma justified_weaken cfg st st' k d e :
  justified cfg st k d e -> (forall r, In r (reqlog st) -> In r (reqlog st')) ->
  now st <= now st' -> justified cfg st' k d e.
Proof.
  intros [He [t [p [Hin [Hc [Hx Ht]]]]]] Hsub Hnow. split; [exact He|].
  exists t, p. repeat split; auto. lia.
Qed.

Lemma http_step_inv cfg st u st' out : inv cfg st -> http_step cfg st u st' out -> inv cfg st'.
Proof.
  intros Hinv H.
  destruct H as [t|d e Hon Hg Ha|f t Ho|d p Ho|d p t Ho|d p Ho Hc Hon He]; auto;
    try (intros k0 d0 e0 Hin; simpl in Hin;
         apply (justified_weaken cfg st); [apply Hinv; exact Hin|simpl; auto|simpl; lia]).
  intros k0 d0 e0 Hin. simpl in Hin. apply in_upsert in Hin. destruct Hin as [[Hk Hv]|Hin].
  - inversion Hv. subst. split; [exact He|]. exists (now st), p. simpl. repeat split; auto. lia.
  - apply (justified_weaken cfg st); [apply Hinv; exact Hin|simpl; auto|simpl; lia].
Qed.

Lemma step_inv cfg st o : inv cfg st -> inv cfg (step cfg st o).
Proof.
  intros Hinv. destruct o as [u v p|u f|u|dt]; simpl.
  - exact Hinv.
  - exact Hinv.
  - pose proof (load_route cfg st u) as Hr.
    destruct (route_of cfg u) as [k|r|].
    + rewrite Hr. apply (http_step_inv cfg st k _ _ Hinv (load_http_spec cfg st k)).
    + rewrite Hr. destruct (load_node_eq cfg st r) as [H1 _]. rewrite H1.
      intros k0 d0 e0 Hin. simpl in Hin.
      apply (justified_weaken cfg st); [apply Hinv; exact Hin|simpl; auto|simpl; lia].
    + destruct Hr as [t Hr]. rewrite Hr. exact Hinv.
  - intros k0 d0 e0 Hin. simpl in Hin.
    apply (justified_weaken cfg st); [apply Hinv; exact Hin|simpl; auto|simpl; lia].
Qed.

Lemma fold_inv cfg ops st : inv cfg st -> inv cfg (fold_left (step cfg) ops st).
Proof.
  revert st. induction ops as [|o t IH]; intros st H; simpl; [exact H|].
  apply IH. apply step_inv. exact H.
Qed.

Theorem run_inv cfg ops : inv cfg (run cfg ops).
Proof. apply fold_inv. intros k d e []. Qed.

(* C19_inv, history form: every cache entry (k -> d, e) of every reachable state
   was the origin's answer at k, with a caching-permitting policy p, when some
   earlier Load of the history was executed at time t, e = t + lifetime p (the zero
   time when the library gives none), and k is not an embedded URL. *)
Definition from_history (cfg : config) (ops : list op) (k : url) (d : doc) (e : etime) : Prop :=
  assoc String.eqb k (embedded cfg) = None /\
  exists t p, requested cfg ops k t (ROk d p) /\ cachable p = true /\
              e = expiry p t /\ t <= now (run cfg ops).

Theorem cache_from_history cfg ops k d e :
  In (k, (d, e)) (cache (run cfg ops)) -> from_history cfg ops k d e.
Proof.
  intros Hin. destruct (run_inv cfg ops k d e Hin) as [He [t [p [Hl [Hc [Hx Ht]]]]]].
  split; [exact He|]. exists t, p. repeat split; auto.
  apply (reqlog_history cfg ops CHttp). exact Hl.
Qed.

Theorem embedded_never_cached cfg ops k d d' e :
  assoc String.eqb k (embedded cfg) = Some d -> ~ In (k, (d', e)) (cache (run cfg ops)).
Proof.
  intros He Hin. destruct (run_inv cfg ops k d' e Hin) as [Hn _]. congruence.
Qed.

(* ---- C19_fresh ---- *)
Lemma engine_get_hit cfg st k d e :
  engine_get cfg st k = GHit d e ->
  (assoc String.eqb k (embedded cfg) = Some d /\ e = TAt (now st + 3600)) \/
  (assoc String.eqb k (embedded cfg) = None /\ In (k, (d, e)) (cache st)).
Proof.
  unfold engine_get. destruct (get_fails cfg); [discriminate|].
  destruct (assoc String.eqb k (embedded cfg)) as [d0|] eqn:He.
  - intros H. inversion H. left; auto.
  - destruct (assoc String.eqb k (cache st)) as [[d0 e0]|] eqn:Hc; [|discriminate].
    intros H. inversion H. subst. right. split; [reflexivity|]. apply assoc_in. exact Hc.
Qed.

(* where a returned document may come from *)
Inductive source (cfg : config) (ops : list op) (k : url) (d : doc) (st st' : state) : Prop :=
| SrcOrigin p :                 (* the origin's current document, fetched by exactly one request *)
    origin st k = ROk d p -> reqlog st' = (CHttp, k, now st, ROk d p) :: reqlog st ->
    source cfg ops k d st st'
| SrcCache e :                  (* an earlier cachable response whose lifetime has not expired *)
    In (k, (d, e)) (cache st) -> from_history cfg ops k d e -> after e (now st) = true ->
    st' = st -> source cfg ops k d st st'
| SrcEmbedded :                 (* an embedded document *)
    assoc String.eqb k (embedded cfg) = Some d -> st' = st -> source cfg ops k d st st'.

Lemma http_step_source cfg ops k st' d :
  http_step cfg (run cfg ops) k st' (Ok d) -> source cfg ops k d (run cfg ops) st'.
Proof.
  intros H. inversion H as [t|d0 e Hon Hg Ha|f t Ho|d0 p Ho|d0 p t Ho|d0 p Ho Hc Hon He]; subst.
  - destruct (engine_get_hit _ _ _ _ _ Hg) as [[He Hx]|[He Hin]].
    + apply SrcEmbedded; auto.
    + apply (SrcCache _ _ _ _ _ _ e); auto. apply cache_from_history. exact Hin.
  - apply (SrcOrigin _ _ _ _ _ _ p); auto.
  - apply (SrcOrigin _ _ _ _ _ _ p); auto.
Qed.

Theorem load_fresh cfg ops u st' out :
  load cfg (run cfg ops) u = (st', out) ->
  (exists t, out = Err t) \/
  exists d, out = Ok d /\
    match route_of cfg u with
    | ToHttp k => source cfg ops k d (run cfg ops) st'
    | ToNode r => exists p, origin (run cfg ops) (node_key r) = ROk d p
    | Reject => False
    end.
Proof.
  intros Hl. pose proof (load_route cfg (run cfg ops) u) as Hr.
  destruct (route_of cfg u) as [k|r|].
  - rewrite Hr in Hl. pose proof (load_http_spec cfg (run cfg ops) k) as Hs.
    rewrite Hl in Hs. simpl in Hs.
    destruct out as [d|t|w|].
    + right. exists d. split; [reflexivity|]. apply http_step_source. exact Hs.
    + left. eauto.
    + inversion Hs.
    + inversion Hs.
  - rewrite Hr in Hl. destruct (load_node_eq cfg (run cfg ops) r) as [_ H2].
    rewrite Hl in H2. simpl in H2. destruct out as [d|t|w|]; try contradiction.
    + right. exists d. split; [reflexivity|exact H2].
    + left. eauto.
  - destruct Hr as [t Hr]. rewrite Hr in Hl. inversion Hl. left. eauto.
Qed.

(* ---- C19_no_reuse ---- *)
(* the policies under which a stored response can ever be served again *)
Lemma reusable_policies p l :
  cachable p = true -> lifetime p = Some l ->
  p = PMaxAge l \/ p = PSMaxAge l \/ p = PPublicMaxAge l \/ p = PExpiresDate l \/ p = PExpires l.
Proof.
  destruct p; simpl; intros Hc Hl; try discriminate; inversion Hl; subst; auto 6.
Qed.

Lemma after_expiry p t n : after (expiry p t) n = true -> exists l, lifetime p = Some l /\ n < t + l.
Proof.
  unfold expiry. destruct (lifetime p) as [l|]; simpl; [|discriminate].
  intros H. apply Z.ltb_lt in H. eauto.
Qed.

Theorem load_no_reuse cfg ops u st' d k :
  load cfg (run cfg ops) u = (st', Ok d) ->
  route_of cfg u = ToHttp k ->
  (forall p, origin (run cfg ops) k <> ROk d p) ->      (* the origin no longer serves d at k *)
  assoc String.eqb k (embedded cfg) = None ->
  exists t p l, requested cfg ops k t (ROk d p) /\ cachable p = true /\ lifetime p = Some l /\
                now (run cfg ops) < t + l /\ st' = run cfg ops.
Proof.
  intros Hl Hr Hchg Hemb.
  destruct (load_fresh cfg ops u st' (Ok d) Hl) as [[t Ht]|[d0 [Hd Hs]]]; [discriminate|].
  inversion Hd. subst d0. rewrite Hr in Hs.
  destruct Hs as [p Ho _|e Hin Hh Ha Hst|He Hst].
  - exfalso. apply (Hchg p). exact Ho.
  - destruct Hh as [_ [t [p [Hq [Hc [He Ht]]]]]]. subst e.
    destruct (after_expiry _ _ _ Ha) as [l [Hlt Hn]].
    exists t, p, l. auto.
  - congruence.
Qed.

(* ---- C19_failures ---- *)
Lemma http_step_err_cache cfg st u st' t : http_step cfg st u st' (Err t) -> cache st' = cache st.
Proof. intros H. inversion H; subst; reflexivity. Qed.

Theorem load_err_cache cfg st u st' t : load cfg st u = (st', Err t) -> cache st' = cache st.
Proof.
  intros Hl. pose proof (load_route cfg st u) as Hr.
  destruct (route_of cfg u) as [k|r|].
  - rewrite Hr in Hl. pose proof (load_http_spec cfg st k) as Hs. rewrite Hl in Hs.
    apply (http_step_err_cache _ _ _ _ _ Hs).
  - rewrite Hr in Hl. destruct (load_node_eq cfg st r) as [H1 _]. rewrite Hl in H1.
    simpl in H1. subst st'. reflexivity.
  - destruct Hr as [t0 Hr]. rewrite Hr in Hl. inversion Hl. reflexivity.
Qed.

(* the key at which a load consults the origin *)
Definition origin_key (cfg : config) (u : url) : option url :=
  match route_of cfg u with ToHttp k => Some k | ToNode r => Some (node_key r) | Reject => None end.

Theorem load_failure cfg st u st' out k f :
  load cfg st u = (st', out) -> origin_key cfg u = Some k -> origin st k = RFail f ->
  cache st' = cache st /\
  ((exists t, out = Err t) \/ (exists d, out = Ok d /\ st' = st)).
Proof.
  intros Hl Hk Ho. unfold origin_key in Hk. pose proof (load_route cfg st u) as Hr.
  destruct (route_of cfg u) as [k0|r|]; [| |discriminate]; inversion Hk; subst k.
  - rewrite Hr in Hl. pose proof (load_http_spec cfg st k0) as Hs. rewrite Hl in Hs. simpl in Hs.
    inversion Hs as [t|d e Hon Hg Ha|f0 t Ho0|d p Ho0|d p t Ho0|d p Ho0 Hc Hon He]; subst;
      try congruence; simpl; split; eauto.
  - rewrite Hr in Hl. destruct (load_node_eq cfg st r) as [H1 H2]. rewrite Hl in H1, H2.
    simpl in H1, H2. subst st'. simpl. split; [reflexivity|].
    destruct out as [d|t|w|]; try contradiction.
    + destruct H2 as [p H2]. congruence.
    + left. eauto.
Qed.

(* ---- C19_embedded ---- *)
Lemma embedded_mode cfg k d :
  assoc String.eqb k (embedded cfg) = Some d ->
  cache_on cfg = true /\ get_fails cfg = false /\ set_fails cfg = false.
Proof.
  unfold embedded, cache_on, get_fails, set_fails.
  destruct (cache_mode_of cfg); simpl; intros H; try discriminate. auto.
Qed.

Theorem embedded_get cfg st k d :
  assoc String.eqb k (embedded cfg) = Some d ->
  engine_get cfg st k = GHit d (TAt (now st + 3600)).
Proof.
  intros He. destruct (embedded_mode cfg k d He) as [_ [Hg _]].
  unfold engine_get. rewrite Hg, He. reflexivity.
Qed.

Theorem embedded_not_overwritten cfg st k d d' e :
  assoc String.eqb k (embedded cfg) = Some d -> engine_set cfg st k d' e = Some st.
Proof.
  intros He. destruct (embedded_mode cfg k d He) as [_ [_ Hs]].
  unfold engine_set. rewrite Hs, He. reflexivity.
Qed.

Theorem embedded_served cfg st u k d :
  route_of cfg u = ToHttp k -> assoc String.eqb k (embedded cfg) = Some d ->
  load cfg st u = (st, Ok d).
Proof.
  intros Hr He. pose proof (load_route cfg st u) as Hl. rewrite Hr in Hl. rewrite Hl.
  destruct (embedded_mode cfg k d He) as [Hon _].
  unfold load_http. rewrite Hon, (embedded_get cfg st k d He).
  unfold after. replace (now st <? now st + 3600) with true; [reflexivity|].
  symmetry. apply Z.ltb_lt. lia.
Qed.

(* ---- C19_route: which client is asked, for every configuration ---- *)
Theorem load_route_requests cfg st u st' out :
  load cfg st u = (st', out) ->
  match route_of cfg u with
  | ToHttp k => reqlog st' = reqlog st \/ reqlog st' = (CHttp, k, now st, origin st k) :: reqlog st
  | ToNode r => reqlog st' = (CNode, node_key r, now st, origin st (node_key r)) :: reqlog st
  | Reject => st' = st /\ exists t, out = Err t
  end.
Proof.
  intros Hl. pose proof (load_route cfg st u) as Hr.
  destruct (route_of cfg u) as [k|r|].
  - rewrite Hr in Hl. pose proof (load_http_spec cfg st k) as Hs. rewrite Hl in Hs.
    destruct (http_step_frame _ _ _ _ _ Hs) as [_ [_ H3]]. exact H3.
  - rewrite Hr in Hl. destruct (load_node_eq cfg st r) as [H1 _]. rewrite Hl in H1.
    simpl in H1. subst st'. reflexivity.
  - destruct Hr as [t Hr]. rewrite Hr in Hl. inversion Hl. eauto.
Qed.

(* ---- non-vacuity: concrete histories ---- *)
Definition ex_cfg : config :=
  {| cache_mode_of := CacheMemory [("https://e.test/ctx", 900)];
     ipfs_client := false; gateway := "http://gw.test//"; url_ok := fun _ => true |}.

Definition ex_ops : list op :=
  [ Serve "http://a.test/d" 1 (PMaxAge 3000); Load "http://a.test/d";
    Serve "http://a.test/d" 2 PNoStore; Load "http://a.test/d";       (* v1 from the cache *)
    Tick 3000; Load "http://a.test/d";                                (* expired: v2, not stored *)
    Serve "http://a.test/d" 3 PNone; Load "http://a.test/d";          (* v3, stored with zero expiry *)
    Serve "http://a.test/d" 4 (PMaxAge 1000); Load "http://a.test/d"; (* v4: v3 was not reused *)
    Fail "http://a.test/d" FStatus; Load "http://a.test/d";           (* v4 from the cache *)
    Tick 1000; Load "http://a.test/d";                                (* expired and failing: error *)
    Load "https://e.test/ctx";                                        (* embedded *)
    Serve "http://gw.test/ipfs/Qm/x" 7 (PSMaxAge 1000); Load "ipfs:///Qm/x";
    Load "ftp://a.test/d" ].

Example ex_observe :
  observe ex_cfg init ex_ops =
  [ (ODoc 1, [(CHttp, "http://a.test/d")]); (ODoc 1, []);
    (ODoc 2, [(CHttp, "http://a.test/d")]);
    (ODoc 3, [(CHttp, "http://a.test/d")]);
    (ODoc 4, [(CHttp, "http://a.test/d")]);
    (ODoc 4, []);
    (OErr, [(CHttp, "http://a.test/d")]);
    (ODoc 900, []);
    (ODoc 7, [(CHttp, "http://gw.test/ipfs/Qm/x")]);
    (OErr, []) ].
Proof. vm_compute. reflexivity. Qed.

(* C19_inv is not vacuous: a reachable state with a non-empty cache *)
Example ex_inv :
  cache (run ex_cfg ex_ops) =
  [ ("http://a.test/d", (4, TAt 4000)); ("http://gw.test/ipfs/Qm/x", (7, TAt 5000)) ].
Proof. vm_compute. reflexivity. Qed.

(* C19_fresh / C19_no_reuse: a load that returns a document the origin no longer serves *)
Example ex_no_reuse :
  let ops := firstn 3 ex_ops in
  snd (load ex_cfg (run ex_cfg ops) "http://a.test/d") = Ok 1 /\
  origin (run ex_cfg ops) "http://a.test/d" = ROk 2 PNoStore.
Proof. vm_compute. split; reflexivity. Qed.

(* C19_failures: the origin fails, the load fails, the cache is untouched *)
Example ex_failure :
  let st := run ex_cfg (firstn 14 ex_ops) in
  origin st "http://a.test/d" = RFail FStatus /\
  snd (load ex_cfg st "http://a.test/d") = Err "status" /\
  cache (fst (load ex_cfg st "http://a.test/d")) = cache st /\ cache st <> [].
Proof. vm_compute. repeat split; try reflexivity. discriminate. Qed.

(* C19_embedded *)
Example ex_embedded :
  route_of ex_cfg "https://e.test/ctx" = ToHttp "https://e.test/ctx" /\
  assoc String.eqb "https://e.test/ctx" (embedded ex_cfg) = Some 900.
Proof. vm_compute. split; reflexivity. Qed.

(* C19_route: every row of the table is inhabited *)
Example ex_route :
  route_of ex_cfg "ipfs://Qm/x" = ToHttp "http://gw.test/ipfs/Qm/x" /\
  route_of {| cache_mode_of := CacheOff; ipfs_client := true; gateway := "http://gw.test";
              url_ok := fun _ => true |} "ipfs://Qm/x" = ToNode "Qm/x" /\
  route_of {| cache_mode_of := CacheDefault; ipfs_client := false; gateway := "";
              url_ok := fun _ => true |} "ipfs://Qm/x" = Reject /\
  route_of ex_cfg "httpx://a.test/d" = Reject /\ route_of ex_cfg "" = Reject /\
  route_of ex_cfg "file:///etc/passwd" = Reject.
Proof. vm_compute. repeat split; reflexivity. Qed.
