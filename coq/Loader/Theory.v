(* Loader/Theory.v — theorems about the document-loader model (property C19).
   Every statement is for ALL configurations (cache mode, embedded documents,
   IPFS client / gateway, URL-parser oracle, and ANY behaviour `cc` of the
   cachecontrol library) and ALL histories (`run cfg ops = fold_left (step cfg)
   ops init`), proved by induction over the history; the `Example`s show the
   hypotheses are satisfiable.  The property theorems are stated for histories in
   which no response carries a rel=alternate Link header (`link_free_ops`), for every
   fuel; with such headers two of them fail — witnesses `link_reuse_refuted`,
   `link_diverges_refuted` at the end. *)
From Coq Require Import ZArith NArith List String Ascii Bool Lia.
From GSP Require Import Base.Prelude Loader.Model.
Import ListNotations.
Open Scope string_scope.
Open Scope list_scope.
Open Scope Z_scope.

(* ---- association lists ---- *)
Lemma assoc_in {V} (k : string) (v : V) l : assoc String.eqb k l = Some v -> In (k, v) l.
Proof.
  induction l as [|[a b] t IH]; simpl; intros H; [discriminate|].
  destruct (String.eqb a k) eqn:E.
  - apply String.eqb_eq in E. inversion H. subst. left; reflexivity.
  - right; auto.
Qed.

Lemma in_upsert {V} (k : string) (v : V) l k' v' :
  In (k', v') (upsert String.eqb k v l) -> (k' = k /\ v' = v) \/ In (k', v') l.
Proof.
  induction l as [|[a b] t IH]; simpl; intros H.
  - destruct H as [H|[]]. inversion H. left; split; reflexivity.
  - destruct (String.eqb a k) eqn:E.
    + apply String.eqb_eq in E. subst a. destruct H as [H|H].
      * inversion H. left; split; reflexivity.
      * right; right; exact H.
    + destruct H as [H|H].
      * right; left; exact H.
      * destruct (IH H) as [H1|H1]; [left; exact H1|right; right; exact H1].
Qed.

(* the only kind of response that carries a usable document: 200 with a JSON body *)
Definition ok_resp (d : doc) (p : policy) : response := RResp 200 (BJson d) p None.
Definition failing (r : response) : Prop := forall d p, r <> ok_resp d p.

(* no response carries a rel=alternate Link header: in a state, in a history *)
Definition link_free (st : state) : Prop :=
  forall k code b p t, origin st k <> RResp code b p (Some t).
Definition link_free_ops (ops : list op) : Prop :=
  forall u code b p t, ~ In (Serve u (RResp code b p (Some t))) ops.

Lemma link_free_app_l a b : link_free_ops (a ++ b) -> link_free_ops a.
Proof. intros H u code bd p t Hin. apply (H u code bd p t). apply in_or_app. left. exact Hin. Qed.

(* ---- the routing decision table, written independently of `load` ---- *)
Inductive route := ToHttp (k : url) | ToNode (rest : string) | Reject.

Definition route_of (cfg : config) (u : url) : route :=
  if has_prefix "http://" u then ToHttp u
  else if has_prefix "https://" u then ToHttp u
  else if has_prefix "ipfs://" u then
    if ipfs_client cfg then ToNode (drop 7 u)
    else if String.eqb (gateway cfg) "" then Reject
    else ToHttp (gateway_url (gateway cfg) (drop 7 u))
  else Reject.

(* the client and the key under which a load consults the origin *)
Definition chan_key (cfg : config) (u : url) : option (channel * url) :=
  match route_of cfg u with
  | ToHttp k => Some (CHttp, k)
  | ToNode r => Some (CNode, node_key r)
  | Reject => None
  end.

(* d.LoadDocument as seen from inside a load running with `fuel` *)
Definition recf (fuel : nat) (cfg : config) : state -> url -> state * res doc :=
  fun st' u' => match fuel with O => (st', Diverge) | S f => load f cfg st' u' end.

Lemma load_unfold fuel cfg st u : load fuel cfg st u = load_with (recf fuel cfg) cfg st u.
Proof. destruct fuel; reflexivity. Qed.

Lemma load_route fuel cfg st u :
  match route_of cfg u with
  | ToHttp k => load fuel cfg st u = load_http (recf fuel cfg) cfg st k
  | ToNode r => load fuel cfg st u = load_node cfg st r
  | Reject => exists t, load fuel cfg st u = (st, Err t)
  end.
Proof.
  rewrite load_unfold. unfold route_of, load_with.
  destruct (has_prefix "http://" u), (has_prefix "https://" u), (has_prefix "ipfs://" u);
    cbn [orb]; try reflexivity; try (eexists; reflexivity);
    destruct (ipfs_client cfg); try reflexivity;
    destruct (String.eqb (gateway cfg) ""); cbn [negb]; try reflexivity; eexists; reflexivity.
Qed.

(* the table itself, on explicit URL shapes *)
Lemma route_http cfg s : route_of cfg ("http://" ++ s)%string = ToHttp ("http://" ++ s)%string.
Proof. reflexivity. Qed.
Lemma route_https cfg s : route_of cfg ("https://" ++ s)%string = ToHttp ("https://" ++ s)%string.
Proof. reflexivity. Qed.
Lemma route_ipfs_client cfg s :
  ipfs_client cfg = true -> route_of cfg ("ipfs://" ++ s)%string = ToNode s.
Proof. intros H. unfold route_of. cbn. rewrite H. reflexivity. Qed.
Lemma route_ipfs_gateway cfg s :
  ipfs_client cfg = false -> gateway cfg <> "" ->
  route_of cfg ("ipfs://" ++ s)%string = ToHttp (gateway_url (gateway cfg) s).
Proof.
  intros H Hg. unfold route_of. cbn. rewrite H.
  destruct (String.eqb (gateway cfg) "") eqn:E; [apply String.eqb_eq in E; contradiction|reflexivity].
Qed.
Lemma route_ipfs_none cfg s :
  ipfs_client cfg = false -> gateway cfg = "" -> route_of cfg ("ipfs://" ++ s)%string = Reject.
Proof. intros H Hg. unfold route_of. cbn. rewrite H, Hg. reflexivity. Qed.
Lemma route_other cfg u :
  has_prefix "http://" u = false -> has_prefix "https://" u = false ->
  has_prefix "ipfs://" u = false -> route_of cfg u = Reject.
Proof. intros H1 H2 H3. unfold route_of. rewrite H1, H2, H3. reflexivity. Qed.

Theorem route_table cfg :
  (forall s, route_of cfg ("http://" ++ s)%string = ToHttp ("http://" ++ s)%string) /\
  (forall s, route_of cfg ("https://" ++ s)%string = ToHttp ("https://" ++ s)%string) /\
  (forall s, ipfs_client cfg = true -> route_of cfg ("ipfs://" ++ s)%string = ToNode s) /\
  (forall s, ipfs_client cfg = false -> gateway cfg <> "" ->
             route_of cfg ("ipfs://" ++ s)%string = ToHttp (gateway_url (gateway cfg) s)) /\
  (forall s, ipfs_client cfg = false -> gateway cfg = "" -> route_of cfg ("ipfs://" ++ s)%string = Reject) /\
  (forall u, has_prefix "http://" u = false -> has_prefix "https://" u = false ->
             has_prefix "ipfs://" u = false -> route_of cfg u = Reject).
Proof.
  split; [intros; apply route_http|].
  split; [intros; apply route_https|].
  split; [intros; apply route_ipfs_client; assumption|].
  split; [intros; apply route_ipfs_gateway; assumption|].
  split; [intros; apply route_ipfs_none; assumption|].
  intros; apply route_other; assumption.
Qed.

(* ---- what one HTTP load can do ---- *)
Inductive http_step (cfg : config) (st : state) (u : url) : state -> res doc -> Prop :=
| HS_quiet_err t :                       (* engine Get error / URL does not parse: nothing happened *)
    http_step cfg st u st (Err t)
| HS_hit d e :                           (* fresh cache entry or embedded document, no request *)
    cache_on cfg = true -> engine_get cfg st u = GHit d e -> after e (now st) = true ->
    http_step cfg st u st (Ok d)
| HS_fail r t :                          (* request, failed response: logged, nothing stored *)
    origin st u = r -> failing r ->
    http_step cfg st u (log_req st (CHttp, u, now st, r)) (Err t)
| HS_unstored d p :                      (* request, current document returned, nothing stored *)
    origin st u = ok_resp d p ->
    http_step cfg st u (log_req st (CHttp, u, now st, ok_resp d p)) (Ok d)
| HS_set_err d p t :                     (* request, engine Set error *)
    origin st u = ok_resp d p ->
    http_step cfg st u (log_req st (CHttp, u, now st, ok_resp d p)) (Err t)
| HS_store d p :                         (* request, current document returned and stored *)
    origin st u = ok_resp d p -> storable cfg p = true -> cache_on cfg = true ->
    assoc String.eqb u (embedded cfg) = None ->
    http_step cfg st u
      (set_cache (log_req st (CHttp, u, now st, ok_resp d p))
                 (upsert String.eqb u (d, expiry_of (cc_lifetime cfg p) (now st)) (cache st)))
      (Ok d).

Lemma failing_transport : failing RTransport.
Proof. intros d p H. discriminate. Qed.
Lemma failing_status code b p alt : (code =? 200) = false -> failing (RResp code b p alt).
Proof. intros H d q E. inversion E. subst. discriminate. Qed.
Lemma failing_garbage code p alt : failing (RResp code BGarbage p alt).
Proof. intros d q E. inversion E. Qed.

Lemma fetch_spec rec cfg st u :
  link_free st ->
  http_step cfg st u (fst (fetch rec cfg st u)) (snd (fetch rec cfg st u)).
Proof.
  intros Hlf. unfold fetch.
  destruct (url_ok cfg u) eqn:Hu; simpl; [|apply HS_quiet_err].
  destruct (origin st u) as [code b p alt|] eqn:Ho.
  - destruct (code =? 200) eqn:Hcode; simpl.
    + apply Z.eqb_eq in Hcode. subst code.
      destruct alt as [t|]; [exfalso; apply (Hlf u 200 b p t Ho)|].
      destruct b as [d|]; simpl.
      * change (RResp 200 (BJson d) p None) with (ok_resp d p) in *.
        unfold store_and_return.
        destruct (storable cfg p) eqn:Hc; simpl; [|apply (HS_unstored _ _ _ d p Ho)].
        destruct (cache_on cfg) eqn:Hon; simpl; [|apply (HS_unstored _ _ _ d p Ho)].
        unfold engine_set.
        destruct (set_fails cfg) eqn:Hs; simpl; [apply (HS_set_err _ _ _ d p _ Ho)|].
        destruct (assoc String.eqb u (embedded cfg)) as [d0|] eqn:He; simpl.
        -- apply (HS_unstored _ _ _ d p Ho).
        -- apply (HS_store _ _ _ d p Ho Hc Hon He).
      * apply HS_fail; [exact Ho|apply failing_garbage].
    + apply HS_fail; [exact Ho|apply failing_status; exact Hcode].
  - simpl. apply HS_fail; [exact Ho|apply failing_transport].
Qed.

Lemma load_http_spec rec cfg st u :
  link_free st ->
  http_step cfg st u (fst (load_http rec cfg st u)) (snd (load_http rec cfg st u)).
Proof.
  intros Hlf. unfold load_http.
  destruct (cache_on cfg) eqn:Hon; [|apply fetch_spec; exact Hlf].
  destruct (engine_get cfg st u) as [d e| |] eqn:Hg.
  - destruct (after e (now st)) eqn:Ha; simpl.
    + apply (HS_hit _ _ _ d e Hon Hg Ha).
    + apply fetch_spec; exact Hlf.
  - apply fetch_spec; exact Hlf.
  - simpl. apply HS_quiet_err.
Qed.

Lemma load_node_eq cfg st r :
  link_free st ->
  fst (load_node cfg st r) = log_req st (CNode, node_key r, now st, origin st (node_key r)) /\
  match snd (load_node cfg st r) with
  | Ok d => exists p, origin st (node_key r) = ok_resp d p
  | Err _ => failing (origin st (node_key r))
  | _ => False
  end.
Proof.
  intros Hlf. unfold load_node.
  destruct (origin st (node_key r)) as [code b p alt|] eqn:Ho; simpl.
  - destruct alt as [t|]; [exfalso; apply (Hlf _ _ _ _ _ Ho)|].
    destruct (code =? 200) eqn:Hcode; simpl.
    + apply Z.eqb_eq in Hcode. subst code.
      destruct b as [d|]; simpl; (split; [reflexivity|]).
      * exists p. reflexivity.
      * apply failing_garbage.
    + split; [reflexivity|apply failing_status; exact Hcode].
  - split; [reflexivity|apply failing_transport].
Qed.

(* ---- the clock and the origin are never touched by a load (with or without links) ---- *)
Definition keeps (rec : state -> url -> state * res doc) : Prop :=
  forall st u, now (fst (rec st u)) = now st /\ origin (fst (rec st u)) = origin st.

Lemma store_and_return_keeps cfg st u p t0 d :
  now (fst (store_and_return cfg st u p t0 d)) = now st /\
  origin (fst (store_and_return cfg st u p t0 d)) = origin st.
Proof.
  unfold store_and_return. destruct (storable cfg p && cache_on cfg); [|auto].
  unfold engine_set. destruct (set_fails cfg); [auto|].
  destruct (assoc String.eqb u (embedded cfg)); simpl; auto.
Qed.

Lemma fetch_keeps rec cfg : keeps rec -> keeps (fetch rec cfg).
Proof.
  intros Hrec st u. unfold fetch.
  destruct (url_ok cfg u); simpl; [|auto].
  destruct (origin st u) as [code b p alt|]; [|simpl; auto].
  destruct (code =? 200); simpl; [|auto].
  destruct alt as [t|].
  - pose proof (Hrec (log_req st (CHttp, u, now st, RResp code b p (Some t))) t) as [H1 H2].
    destruct (rec (log_req st (CHttp, u, now st, RResp code b p (Some t))) t) as [st2 r2].
    simpl in H1, H2.
    destruct r2 as [d|e|w|]; simpl; try (split; assumption).
    destruct (store_and_return_keeps cfg st2 u p (now st) d) as [H3 H4].
    rewrite H3, H4. split; assumption.
  - destruct b as [d|]; [|simpl; auto].
    destruct (store_and_return_keeps cfg (log_req st (CHttp, u, now st, RResp code (BJson d) p None))
                                     u p (now st) d) as [H3 H4].
    rewrite H3, H4. simpl. auto.
Qed.

Lemma load_http_keeps rec cfg : keeps rec -> keeps (load_http rec cfg).
Proof.
  intros Hrec st u. unfold load_http.
  destruct (cache_on cfg); [|apply fetch_keeps; exact Hrec].
  destruct (engine_get cfg st u) as [d e| |]; [|apply fetch_keeps; exact Hrec|simpl; auto].
  destruct (after e (now st)); [simpl; auto|apply fetch_keeps; exact Hrec].
Qed.

Lemma load_node_keeps cfg : keeps (load_node cfg).
Proof.
  intros st r. unfold load_node.
  destruct (origin st (node_key r)) as [code b p alt|]; [|simpl; auto].
  destruct (code =? 200); simpl; [|auto]. destruct b; simpl; auto.
Qed.

Lemma load_with_keeps rec cfg : keeps rec -> keeps (load_with rec cfg).
Proof.
  intros Hrec st u. unfold load_with.
  destruct (has_prefix "http://" u || has_prefix "https://" u); [apply load_http_keeps; exact Hrec|].
  destruct (has_prefix "ipfs://" u); [|simpl; auto].
  destruct (ipfs_client cfg); [apply load_node_keeps|].
  destruct (negb (String.eqb (gateway cfg) "")); [apply load_http_keeps; exact Hrec|simpl; auto].
Qed.

Lemma load_keeps fuel cfg : keeps (load fuel cfg).
Proof.
  induction fuel as [|f IH]; intros st u; rewrite load_unfold; apply load_with_keeps.
  - intros st' u'. simpl. auto.
  - exact IH.
Qed.

(* ---- frame facts ---- *)
Lemma http_step_frame cfg st u st' out :
  http_step cfg st u st' out ->
  now st' = now st /\ origin st' = origin st /\
  (reqlog st' = reqlog st \/ reqlog st' = (CHttp, u, now st, origin st u) :: reqlog st).
Proof.
  intros H. destruct H as [t|d e Hon Hg Ha|r t Ho Hf|d p Ho|d p t Ho|d p Ho Hc Hon He]; simpl;
    repeat split; auto; right; rewrite Ho; reflexivity.
Qed.

Lemma load_frame fuel cfg st u :
  link_free st ->
  now (fst (load fuel cfg st u)) = now st /\ origin (fst (load fuel cfg st u)) = origin st /\
  (reqlog (fst (load fuel cfg st u)) = reqlog st \/
   exists c k, chan_key cfg u = Some (c, k) /\
               reqlog (fst (load fuel cfg st u)) = (c, k, now st, origin st k) :: reqlog st).
Proof.
  intros Hlf. pose proof (load_route fuel cfg st u) as Hr. unfold chan_key.
  destruct (route_of cfg u) as [k|r|].
  - rewrite Hr.
    destruct (http_step_frame _ _ _ _ _ (load_http_spec (recf fuel cfg) cfg st k Hlf)) as [H1 [H2 H3]].
    repeat split; auto. destruct H3 as [H3|H3]; [left; exact H3|right; eauto].
  - rewrite Hr. destruct (load_node_eq cfg st r Hlf) as [H1 _]. rewrite H1. simpl.
    repeat split; auto. right; eauto.
  - destruct Hr as [t Hr]. rewrite Hr. simpl. auto.
Qed.

Lemma run_app fuel cfg pre post :
  run fuel cfg (pre ++ post) = fold_left (step fuel cfg) post (run fuel cfg pre).
Proof. unfold run. apply fold_left_app. Qed.

(* ---- the clock and the origin are functions of the history alone ---- *)
Definition elapsed (ops : list op) : Z :=
  fold_left (fun t o => match o with Tick dt => t + Z.of_N dt | _ => t end) ops 0.

Definition served (ops : list op) (k : url) : response :=
  fold_left (fun r o => match o with Serve u r' => if String.eqb k u then r' else r | _ => r end)
            ops not_found.

Lemma now_run fuel cfg ops : now (run fuel cfg ops) = elapsed ops.
Proof.
  induction ops as [|o l IH] using rev_ind; [reflexivity|].
  rewrite run_app. unfold elapsed. rewrite fold_left_app. fold (elapsed l). rewrite <- IH. simpl.
  destruct o as [u r|u|dt]; simpl; try reflexivity.
  destruct (load_keeps fuel cfg (run fuel cfg l) u) as [H _]. exact H.
Qed.

Lemma origin_run fuel cfg ops k : origin (run fuel cfg ops) k = served ops k.
Proof.
  induction ops as [|o l IH] using rev_ind; [reflexivity|].
  rewrite run_app. unfold served. rewrite fold_left_app. fold (served l k). rewrite <- IH. simpl.
  destruct o as [u r|u|dt]; simpl; try reflexivity.
  destruct (load_keeps fuel cfg (run fuel cfg l) u) as [_ H]. rewrite H. reflexivity.
Qed.

(* what the origin serves is the initial 404 or the argument of some Serve of the history *)
Lemma served_cases ops k : served ops k = not_found \/ exists u, In (Serve u (served ops k)) ops.
Proof.
  induction ops as [|o l IH] using rev_ind; [left; reflexivity|].
  unfold served. rewrite fold_left_app. fold (served l k). simpl.
  destruct o as [u r|u|dt].
  - destruct (String.eqb k u).
    + right. exists u. apply in_or_app. right. left. reflexivity.
    + destruct IH as [IH|[u0 IH]]; [left; exact IH|].
      right. exists u0. apply in_or_app. left. exact IH.
  - destruct IH as [IH|[u0 IH]]; [left; exact IH|].
    right. exists u0. apply in_or_app. left. exact IH.
  - destruct IH as [IH|[u0 IH]]; [left; exact IH|].
    right. exists u0. apply in_or_app. left. exact IH.
Qed.

Lemma link_free_run fuel cfg ops : link_free_ops ops -> link_free (run fuel cfg ops).
Proof.
  intros Hlf k code b p t Ho. rewrite origin_run in Ho.
  destruct (served_cases ops k) as [Hs|[u Hs]].
  - rewrite Hs in Ho. discriminate.
  - rewrite Ho in Hs. apply (Hlf u code b p t Hs).
Qed.

Lemma elapsed_app pre post : elapsed pre <= elapsed (pre ++ post).
Proof.
  unfold elapsed. rewrite fold_left_app. generalize (fold_left
    (fun t o => match o with Tick dt => t + Z.of_N dt | _ => t end) pre 0).
  induction post as [|o t IH]; intros z; simpl; [lia|].
  destruct o as [u r|u|dt]; try apply IH.
  pose proof (IH (z + Z.of_N dt)). lia.
Qed.

(* ---- the request log is a faithful record of the history ---- *)
(* `requested cfg ops c k t r`: some `Load u` of the history, routed to client c under key k,
   was executed at time t, when the origin's answer at k was r *)
Definition requested (cfg : config) (ops : list op) (c : channel) (k : url) (t : Z) (r : response) : Prop :=
  exists pre u post, ops = pre ++ Load u :: post /\ chan_key cfg u = Some (c, k) /\
                     elapsed pre = t /\ served pre k = r.

Lemma requested_snoc cfg ops o c k t r :
  requested cfg ops c k t r -> requested cfg (ops ++ [o]) c k t r.
Proof.
  intros [pre [u [post [H1 [H2 [H3 H4]]]]]]. exists pre, u, (post ++ [o]). subst ops.
  rewrite <- app_assoc. simpl. auto.
Qed.

Lemma reqlog_history fuel cfg ops c k t r :
  link_free_ops ops ->
  In (c, k, t, r) (reqlog (run fuel cfg ops)) -> requested cfg ops c k t r.
Proof.
  induction ops as [|o l IH] using rev_ind; [intros _ []|].
  intros Hlf. pose proof (link_free_app_l _ _ Hlf) as Hlf'.
  rewrite run_app. simpl. intros Hin.
  destruct o as [u r0|u|dt]; simpl in Hin;
    try (apply requested_snoc; apply (IH Hlf'); exact Hin).
  destruct (load_frame fuel cfg (run fuel cfg l) u (link_free_run fuel cfg l Hlf'))
    as [_ [_ [Hl|[c0 [k0 [Hck Hl]]]]]]; rewrite Hl in Hin.
  - apply requested_snoc; apply (IH Hlf'); exact Hin.
  - destruct Hin as [Heq|Hin].
    + inversion Heq. subst. exists l, u, []. repeat split; auto.
      * symmetry. apply now_run.
      * symmetry. apply origin_run.
    + apply requested_snoc; apply (IH Hlf'); exact Hin.
Qed.

(* ---- the cache invariant ---- *)
Definition justified (cfg : config) (st : state) (k : url) (d : doc) (e : etime) : Prop :=
  assoc String.eqb k (embedded cfg) = None /\
  exists t p, In (CHttp, k, t, ok_resp d p) (reqlog st) /\ storable cfg p = true /\
              e = expiry_of (cc_lifetime cfg p) t.

Definition inv (cfg : config) (st : state) : Prop :=
  forall k d e, In (k, (d, e)) (cache st) -> justified cfg st k d e.

Lemma justified_weaken cfg st st' k d e :
  justified cfg st k d e -> (forall r, In r (reqlog st) -> In r (reqlog st')) ->
  justified cfg st' k d e.
Proof.
  intros [He [t [p [Hin [Hc Hx]]]]] Hsub. split; [exact He|].
  exists t, p. repeat split; auto.
Qed.

Lemma http_step_inv cfg st u st' out : inv cfg st -> http_step cfg st u st' out -> inv cfg st'.
Proof.
  intros Hinv H.
  destruct H as [t|d e Hon Hg Ha|r t Ho Hf|d p Ho|d p t Ho|d p Ho Hc Hon He]; auto;
    try (intros k0 d0 e0 Hin; simpl in Hin;
         apply (justified_weaken cfg st); [apply Hinv; exact Hin|simpl; auto]).
  intros k0 d0 e0 Hin. simpl in Hin. apply in_upsert in Hin. destruct Hin as [[Hk Hv]|Hin].
  - inversion Hv. subst. split; [exact He|]. exists (now st), p. simpl. repeat split; auto.
  - apply (justified_weaken cfg st); [apply Hinv; exact Hin|simpl; auto].
Qed.

Lemma step_inv fuel cfg st o :
  link_free st -> inv cfg st -> inv cfg (step fuel cfg st o).
Proof.
  intros Hlf Hinv. destruct o as [u r|u|dt]; simpl.
  - exact Hinv.
  - pose proof (load_route fuel cfg st u) as Hr.
    destruct (route_of cfg u) as [k|r|].
    + rewrite Hr. apply (http_step_inv cfg st k _ _ Hinv (load_http_spec _ cfg st k Hlf)).
    + rewrite Hr. destruct (load_node_eq cfg st r Hlf) as [H1 _]. rewrite H1.
      intros k0 d0 e0 Hin. simpl in Hin.
      apply (justified_weaken cfg st); [apply Hinv; exact Hin|simpl; auto].
    + destruct Hr as [t Hr]. rewrite Hr. exact Hinv.
  - intros k0 d0 e0 Hin. simpl in Hin.
    apply (justified_weaken cfg st); [apply Hinv; exact Hin|simpl; auto].
Qed.

Theorem run_inv fuel cfg ops : link_free_ops ops -> inv cfg (run fuel cfg ops).
Proof.
  induction ops as [|o l IH] using rev_ind; intros Hlf; [intros k d e []|].
  pose proof (link_free_app_l _ _ Hlf) as Hlf'.
  rewrite run_app. simpl. apply step_inv; [apply link_free_run; exact Hlf'|apply IH; exact Hlf'].
Qed.

Lemma chan_key_http cfg u k : chan_key cfg u = Some (CHttp, k) -> route_of cfg u = ToHttp k.
Proof.
  unfold chan_key. destruct (route_of cfg u) as [k0|r|]; intros H; inversion H; reflexivity.
Qed.

(* C19_inv: every cache entry (k -> d, e) of every reachable state is the 200/JSON answer the
   origin gave at k, with headers p the loader accepts for storing, when an earlier Load of
   the history (routed to the HTTP client under key k) was executed; e is that moment plus the
   lifetime the library computed (the zero time when it gives none); and k is not an embedded URL. *)
Theorem cache_from_history fuel cfg ops k d e :
  link_free_ops ops ->
  In (k, (d, e)) (cache (run fuel cfg ops)) ->
  assoc String.eqb k (embedded cfg) = None /\
  exists pre u post p,
    ops = pre ++ Load u :: post /\ route_of cfg u = ToHttp k /\
    served pre k = RResp 200 (BJson d) p None /\ storable cfg p = true /\
    e = expiry_of (cc_lifetime cfg p) (elapsed pre).
Proof.
  intros Hlf Hin. destruct (run_inv fuel cfg ops Hlf k d e Hin) as [He [t [p [Hl [Hc Hx]]]]].
  split; [exact He|].
  destruct (reqlog_history fuel cfg ops CHttp k t _ Hlf Hl) as [pre [u [post [H1 [H2 [H3 H4]]]]]].
  exists pre, u, post, p. subst t. repeat split; auto. apply chan_key_http. exact H2.
Qed.

Theorem embedded_never_cached fuel cfg ops k d d' e :
  link_free_ops ops ->
  assoc String.eqb k (embedded cfg) = Some d -> ~ In (k, (d', e)) (cache (run fuel cfg ops)).
Proof.
  intros Hlf He Hin. destruct (run_inv fuel cfg ops Hlf k d' e Hin) as [Hn _]. congruence.
Qed.

(* ---- embedded documents ---- *)
Lemma embedded_mode cfg k d :
  assoc String.eqb k (embedded cfg) = Some d ->
  cache_on cfg = true /\ get_fails cfg = false /\ set_fails cfg = false.
Proof.
  unfold embedded, cache_on, get_fails, set_fails.
  destruct (cache_mode_of cfg); simpl; intros H; try discriminate. auto.
Qed.

Theorem embedded_get cfg st k d :
  assoc String.eqb k (embedded cfg) = Some d ->
  engine_get cfg st k = GHit d (TAt (now st + 3600)).
Proof.
  intros He. destruct (embedded_mode cfg k d He) as [_ [Hg _]].
  unfold engine_get. rewrite Hg, He. reflexivity.
Qed.

Theorem embedded_not_overwritten cfg st k d d' e :
  assoc String.eqb k (embedded cfg) = Some d -> engine_set cfg st k d' e = Some st.
Proof.
  intros He. destruct (embedded_mode cfg k d He) as [_ [_ Hs]].
  unfold engine_set. rewrite Hs, He. reflexivity.
Qed.

(* an embedded document is returned in EVERY state (whatever the origin serves, links included),
   and the state (cache, request log) is unchanged *)
Theorem embedded_served fuel cfg st u k d :
  route_of cfg u = ToHttp k -> assoc String.eqb k (embedded cfg) = Some d ->
  load fuel cfg st u = (st, Ok d).
Proof.
  intros Hr He. pose proof (load_route fuel cfg st u) as Hl. rewrite Hr in Hl. rewrite Hl.
  destruct (embedded_mode cfg k d He) as [Hon _].
  unfold load_http. rewrite Hon, (embedded_get cfg st k d He).
  unfold after. replace (now st <? now st + 3600) with true; [reflexivity|].
  symmetry. apply Z.ltb_lt. lia.
Qed.

(* ---- C19_fresh ---- *)
Lemma engine_get_hit cfg st k d e :
  engine_get cfg st k = GHit d e ->
  (assoc String.eqb k (embedded cfg) = Some d /\ e = TAt (now st + 3600)) \/
  (assoc String.eqb k (embedded cfg) = None /\ In (k, (d, e)) (cache st)).
Proof.
  unfold engine_get. destruct (get_fails cfg); [discriminate|].
  destruct (assoc String.eqb k (embedded cfg)) as [d0|] eqn:He.
  - intros H. inversion H. left; auto.
  - destruct (assoc String.eqb k (cache st)) as [[d0 e0]|] eqn:Hc; [|discriminate].
    intros H. inversion H. subst. right. split; [reflexivity|]. apply assoc_in. exact Hc.
Qed.

Lemma after_expiry l t n : after (expiry_of l t) n = true -> exists z, l = Some z /\ n < t + z.
Proof.
  destruct l as [z|]; simpl; [|discriminate].
  intros H. apply Z.ltb_lt in H. eauto.
Qed.

(* where a returned document comes from *)
Definition from_origin (fuel : nat) (cfg : config) (ops : list op) (u : url) (d : doc) (st' : state) : Prop :=
  exists c k p, chan_key cfg u = Some (c, k) /\ served ops k = RResp 200 (BJson d) p None /\
                reqlog st' = (c, k, elapsed ops, RResp 200 (BJson d) p None) :: reqlog (run fuel cfg ops).

Definition from_cache (fuel : nat) (cfg : config) (ops : list op) (u : url) (d : doc) (st' : state) : Prop :=
  exists k pre u0 post p l,
    route_of cfg u = ToHttp k /\ assoc String.eqb k (embedded cfg) = None /\
    ops = pre ++ Load u0 :: post /\ route_of cfg u0 = ToHttp k /\
    served pre k = RResp 200 (BJson d) p None /\ storable cfg p = true /\
    cc_lifetime cfg p = Some l /\ elapsed ops < elapsed pre + l /\
    In (k, (d, TAt (elapsed pre + l))) (cache (run fuel cfg ops)) /\
    st' = run fuel cfg ops.

Definition from_embedded (fuel : nat) (cfg : config) (ops : list op) (u : url) (d : doc) (st' : state) : Prop :=
  exists k, route_of cfg u = ToHttp k /\ assoc String.eqb k (embedded cfg) = Some d /\
            st' = run fuel cfg ops.

Lemma http_step_source fuel cfg ops u k st' d :
  link_free_ops ops ->
  route_of cfg u = ToHttp k ->
  http_step cfg (run fuel cfg ops) k st' (Ok d) ->
  from_origin fuel cfg ops u d st' \/ from_cache fuel cfg ops u d st' \/ from_embedded fuel cfg ops u d st'.
Proof.
  intros Hlf Hr H.
  assert (Hck : chan_key cfg u = Some (CHttp, k)) by (unfold chan_key; rewrite Hr; reflexivity).
  inversion H as [t|d0 e Hon Hg Ha|r t Ho Hf|d0 p Ho|d0 p t Ho|d0 p Ho Hc Hon He]; subst.
  - destruct (engine_get_hit _ _ _ _ _ Hg) as [[He Hx]|[He Hin]].
    + right; right. exists k. auto.
    + right; left.
      destruct (cache_from_history fuel cfg ops k d e Hlf Hin)
        as [_ [pre [u0 [post [p [H1 [H2 [H3 [H4 H5]]]]]]]]].
      subst e. rewrite now_run in Ha. destruct (after_expiry _ _ _ Ha) as [l [Hl Hlt]].
      rewrite Hl in Hin. simpl in Hin.
      exists k, pre, u0, post, p, l. repeat split; auto.
  - left. exists CHttp, k, p. rewrite origin_run in Ho. rewrite now_run.
    repeat split; auto.
  - left. exists CHttp, k, p. rewrite origin_run in Ho. simpl. rewrite now_run.
    repeat split; auto.
Qed.

Theorem load_fresh fuel cfg ops u st' out :
  link_free_ops ops ->
  load fuel cfg (run fuel cfg ops) u = (st', out) ->
  (exists t, out = Err t) \/
  exists d, out = Ok d /\
    (from_origin fuel cfg ops u d st' \/ from_cache fuel cfg ops u d st' \/ from_embedded fuel cfg ops u d st').
Proof.
  intros Hlf Hl. pose proof (link_free_run fuel cfg ops Hlf) as Hst.
  pose proof (load_route fuel cfg (run fuel cfg ops) u) as Hr.
  destruct (route_of cfg u) as [k|r|] eqn:Hroute.
  - rewrite Hr in Hl. pose proof (load_http_spec (recf fuel cfg) cfg (run fuel cfg ops) k Hst) as Hs.
    rewrite Hl in Hs. simpl in Hs.
    destruct out as [d|t|w|].
    + right. exists d. split; [reflexivity|]. apply (http_step_source fuel cfg ops u k); assumption.
    + left. eauto.
    + inversion Hs.
    + inversion Hs.
  - rewrite Hr in Hl. destruct (load_node_eq cfg (run fuel cfg ops) r Hst) as [H1 H2].
    rewrite Hl in H1, H2. simpl in H1, H2. destruct out as [d|t|w|]; try contradiction.
    + right. exists d. split; [reflexivity|]. left. destruct H2 as [p H2].
      exists CNode, (node_key r), p. unfold chan_key. rewrite Hroute.
      rewrite origin_run in H2. rewrite H1. simpl. rewrite now_run, origin_run, H2.
      repeat split; auto.
    + left. eauto.
  - destruct Hr as [t Hr]. rewrite Hr in Hl. inversion Hl. left. eauto.
Qed.

(* in the cached and the embedded case nothing at all changes: in particular no request is logged *)
Lemma from_cache_quiet fuel cfg ops u d st' :
  from_cache fuel cfg ops u d st' -> reqlog st' = reqlog (run fuel cfg ops).
Proof. intros [k [pre [u0 [post [p [l H]]]]]]. decompose [and] H. subst st'. reflexivity. Qed.
Lemma from_embedded_quiet fuel cfg ops u d st' :
  from_embedded fuel cfg ops u d st' -> reqlog st' = reqlog (run fuel cfg ops).
Proof. intros [k [_ [_ H]]]. subst st'. reflexivity. Qed.

(* ---- C19_no_reuse ---- *)
(* If every response carrying document d that an earlier load obtained at k was one the loader
   does not store, or had no lifetime, or its lifetime is over, then a load returning d has just
   fetched it: d is what the origin serves now and exactly one request was issued. *)
Theorem load_no_reuse fuel cfg ops u k d st' :
  link_free_ops ops ->
  load fuel cfg (run fuel cfg ops) u = (st', Ok d) ->
  route_of cfg u = ToHttp k ->
  assoc String.eqb k (embedded cfg) = None ->
  (forall pre u0 post p,
     ops = pre ++ Load u0 :: post -> route_of cfg u0 = ToHttp k ->
     served pre k = RResp 200 (BJson d) p None ->
     storable cfg p = false \/ cc_lifetime cfg p = None \/
     (exists l, cc_lifetime cfg p = Some l /\ elapsed pre + l <= elapsed ops)) ->
  exists p, served ops k = RResp 200 (BJson d) p None /\
            reqlog st' = (CHttp, k, elapsed ops, RResp 200 (BJson d) p None) :: reqlog (run fuel cfg ops).
Proof.
  intros Hlf Hl Hr Hemb Hall.
  destruct (load_fresh fuel cfg ops u st' (Ok d) Hlf Hl) as [[t Ht]|[d0 [Hd Hs]]]; [discriminate|].
  inversion Hd. subst d0.
  destruct Hs as [[c [k0 [p [Hck [Hsv Hlog]]]]]|[Hc|He]].
  - unfold chan_key in Hck. rewrite Hr in Hck. inversion Hck. subst c k0. exists p. auto.
  - exfalso. destruct Hc as [k0 [pre [u0 [post [p [l H]]]]]].
    destruct H as [H1 [H2 [H3 [H4 [H5 [H6 [H7 [H8 _]]]]]]]].
    rewrite Hr in H1. inversion H1. subst k0.
    destruct (Hall pre u0 post p H3 H4 H5) as [Hn|[Hn|[l' [Hn Hle]]]]; try congruence.
    rewrite H7 in Hn. inversion Hn. subst l'. lia.
  - exfalso. destruct He as [k0 [H1 [H2 _]]]. rewrite Hr in H1. inversion H1. subst k0. congruence.
Qed.

(* header sets that forbid storing, that demand revalidation before any reuse, and header sets
   without freshness information *)
Definition forbids (p : policy) : Prop :=
  match p with PNoStore | PPrivate | PPrivateMaxAge _ | PNoStoreMaxAge _ => True | _ => False end.
Definition revalidate (p : policy) : Prop :=
  match p with PNoCache | PNoCacheMaxAge _ => True | _ => False end.
Definition no_freshness (p : policy) : Prop :=
  match p with PNone | PNoCache | PExpiresInvalid => True | _ => False end.

(* the assumption on the dependency that turns the statement above into one about header names
   (checked against the recorded table on every run) *)
Definition cc_respects_headers (cfg : config) : Prop :=
  (forall p, forbids p -> cc_store cfg p = false) /\
  (forall p, revalidate p -> cc_nocache cfg p = true) /\
  (forall p, no_freshness p -> cc_lifetime cfg p = None).

Corollary load_no_reuse_headers fuel cfg ops u k d st' :
  link_free_ops ops ->
  cc_respects_headers cfg ->
  load fuel cfg (run fuel cfg ops) u = (st', Ok d) ->
  route_of cfg u = ToHttp k ->
  assoc String.eqb k (embedded cfg) = None ->
  (forall pre u0 post p,
     ops = pre ++ Load u0 :: post -> route_of cfg u0 = ToHttp k ->
     served pre k = RResp 200 (BJson d) p None -> forbids p \/ revalidate p \/ no_freshness p) ->
  exists p, served ops k = RResp 200 (BJson d) p None /\
            reqlog st' = (CHttp, k, elapsed ops, RResp 200 (BJson d) p None) :: reqlog (run fuel cfg ops).
Proof.
  intros Hlf [Hf [Hv Hn]] Hl Hr Hemb Hall. apply (load_no_reuse fuel cfg ops u k d st' Hlf Hl Hr Hemb).
  intros pre u0 post p H1 H2 H3. destruct (Hall pre u0 post p H1 H2 H3) as [H|[H|H]].
  - left. unfold storable. rewrite (Hf p H). reflexivity.
  - left. unfold storable. rewrite (Hv p H). apply andb_false_r.
  - right; left. apply Hn. exact H.
Qed.

(* The same for ANY classification of header sets (F: forbids storing, R: demands revalidation,
   N: no freshness information) that the library respects.  For the header sets the model knows by
   number only (PRaw: other letter case, white space, quoted arguments, several Cache-Control lines,
   which the loader joins before asking the library) the classification is the RFC verdict written
   into the recorded table by the harness, and `Run.cc_table_respects_headers` checks exactly the
   three premises on every run. *)
Theorem load_no_reuse_verdict fuel cfg (F R N : policy -> Prop) ops u k d st' :
  link_free_ops ops ->
  (forall p, F p -> cc_store cfg p = false) ->
  (forall p, R p -> cc_nocache cfg p = true) ->
  (forall p, N p -> cc_lifetime cfg p = None) ->
  load fuel cfg (run fuel cfg ops) u = (st', Ok d) ->
  route_of cfg u = ToHttp k ->
  assoc String.eqb k (embedded cfg) = None ->
  (forall pre u0 post p,
     ops = pre ++ Load u0 :: post -> route_of cfg u0 = ToHttp k ->
     served pre k = RResp 200 (BJson d) p None -> F p \/ R p \/ N p) ->
  exists p, served ops k = RResp 200 (BJson d) p None /\
            reqlog st' = (CHttp, k, elapsed ops, RResp 200 (BJson d) p None) :: reqlog (run fuel cfg ops).
Proof.
  intros Hlf Hf Hv Hn Hl Hr Hemb Hall. apply (load_no_reuse fuel cfg ops u k d st' Hlf Hl Hr Hemb).
  intros pre u0 post p H1 H2 H3. destruct (Hall pre u0 post p H1 H2 H3) as [H|[H|H]].
  - left. unfold storable. rewrite (Hf p H). reflexivity.
  - left. unfold storable. rewrite (Hv p H). apply andb_false_r.
  - right; left. apply Hn. exact H.
Qed.

(* ---- C19_failures ---- *)
Lemma http_step_err_cache cfg st u st' t : http_step cfg st u st' (Err t) -> cache st' = cache st.
Proof. intros H. inversion H; subst; reflexivity. Qed.

(* a load that returns an error never changes the cache *)
Theorem load_err_cache fuel cfg st u st' t :
  link_free st -> load fuel cfg st u = (st', Err t) -> cache st' = cache st.
Proof.
  intros Hlf Hl. pose proof (load_route fuel cfg st u) as Hr.
  destruct (route_of cfg u) as [k|r|].
  - rewrite Hr in Hl. pose proof (load_http_spec (recf fuel cfg) cfg st k Hlf) as Hs. rewrite Hl in Hs.
    apply (http_step_err_cache _ _ _ _ _ Hs).
  - rewrite Hr in Hl. destruct (load_node_eq cfg st r Hlf) as [H1 _]. rewrite Hl in H1.
    simpl in H1. subst st'. reflexivity.
  - destruct Hr as [t0 Hr]. rewrite Hr in Hl. inversion Hl. reflexivity.
Qed.

(* while the origin's answer at the key of u is not a 200/JSON response, a load of u leaves the
   cache unchanged and returns an error — or a document without any request (state unchanged) *)
Theorem load_failure_state fuel cfg st u st' out c k :
  link_free st ->
  load fuel cfg st u = (st', out) -> chan_key cfg u = Some (c, k) -> failing (origin st k) ->
  cache st' = cache st /\
  ((exists t, out = Err t) \/ (exists d, out = Ok d /\ st' = st)).
Proof.
  intros Hlf Hl Hk Ho. unfold chan_key in Hk. pose proof (load_route fuel cfg st u) as Hr.
  destruct (route_of cfg u) as [k0|r|]; [| |discriminate]; inversion Hk; subst c k.
  - rewrite Hr in Hl. pose proof (load_http_spec (recf fuel cfg) cfg st k0 Hlf) as Hs.
    rewrite Hl in Hs. simpl in Hs.
    inversion Hs as [t|d e Hon Hg Ha|r0 t Ho0 Hf|d p Ho0|d p t Ho0|d p Ho0 Hc Hon He]; subst;
      try (exfalso; apply (Ho d p); exact Ho0); simpl; split; eauto.
  - rewrite Hr in Hl. destruct (load_node_eq cfg st r Hlf) as [H1 H2]. rewrite Hl in H1, H2.
    simpl in H1, H2. subst st'. simpl. split; [reflexivity|].
    destruct out as [d|t|w|]; try contradiction.
    + destruct H2 as [p H2]. exfalso. apply (Ho d p). exact H2.
    + left. eauto.
Qed.

Theorem load_failure fuel cfg ops u st' out c k :
  link_free_ops ops ->
  load fuel cfg (run fuel cfg ops) u = (st', out) -> chan_key cfg u = Some (c, k) ->
  (forall d p, served ops k <> RResp 200 (BJson d) p None) ->
  cache st' = cache (run fuel cfg ops) /\
  ((exists t, out = Err t) \/
   (exists d, out = Ok d /\ (from_cache fuel cfg ops u d st' \/ from_embedded fuel cfg ops u d st'))).
Proof.
  intros Hlf Hl Hk Hf.
  assert (Hf' : failing (origin (run fuel cfg ops) k)).
  { intros d p. rewrite origin_run. apply Hf. }
  destruct (load_failure_state _ _ _ _ _ _ _ _ (link_free_run fuel cfg ops Hlf) Hl Hk Hf') as [Hc Hout].
  split; [exact Hc|].
  destruct (load_fresh fuel cfg ops u st' out Hlf Hl) as [He|[d [Hd Hs]]]; [left; exact He|].
  right. exists d. split; [exact Hd|].
  destruct Hs as [[c0 [k0 [p [Hck [Hsv _]]]]]|Hs]; [|exact Hs].
  exfalso. rewrite Hk in Hck. inversion Hck. subst c0 k0. apply (Hf d p). exact Hsv.
Qed.

(* ---- C19_route: which client is asked, for every configuration ---- *)
Theorem load_route_requests fuel cfg st u st' out :
  link_free st ->
  load fuel cfg st u = (st', out) ->
  match route_of cfg u with
  | ToHttp k => reqlog st' = reqlog st \/ reqlog st' = (CHttp, k, now st, origin st k) :: reqlog st
  | ToNode r => reqlog st' = (CNode, node_key r, now st, origin st (node_key r)) :: reqlog st
  | Reject => st' = st /\ exists t, out = Err t
  end.
Proof.
  intros Hlf Hl. pose proof (load_route fuel cfg st u) as Hr.
  destruct (route_of cfg u) as [k|r|].
  - rewrite Hr in Hl. pose proof (load_http_spec (recf fuel cfg) cfg st k Hlf) as Hs. rewrite Hl in Hs.
    destruct (http_step_frame _ _ _ _ _ Hs) as [_ [_ H3]]. exact H3.
  - rewrite Hr in Hl. destruct (load_node_eq cfg st r Hlf) as [H1 _]. rewrite Hl in H1.
    simpl in H1. subst st'. reflexivity.
  - destruct Hr as [t Hr]. rewrite Hr in Hl. inversion Hl. eauto.
Qed.

(* the dispatch itself does not depend on what the origin serves (links included): the first
   client a load talks to, if any, is the one of its row *)
Theorem load_route_dispatch fuel cfg st u :
  match route_of cfg u with
  | ToHttp k => load fuel cfg st u = load_http (recf fuel cfg) cfg st k
  | ToNode r => load fuel cfg st u = load_node cfg st r
  | Reject => exists t, load fuel cfg st u = (st, Err t)
  end.
Proof. exact (load_route fuel cfg st u). Qed.

(* ---- the observables compared by the per-run correspondence are the objects of the theorems ---- *)
Lemma observe_app fuel cfg st pre post :
  observe fuel cfg st (pre ++ post) =
  observe fuel cfg st pre ++ observe fuel cfg (fold_left (step fuel cfg) pre st) post.
Proof.
  revert st. induction pre as [|o t IH]; intros st; [reflexivity|].
  destruct o as [u r|u|dt]; simpl.
  - apply IH.
  - destruct (load fuel cfg st u) as [st' out] eqn:Hl. simpl. rewrite IH. reflexivity.
  - apply IH.
Qed.

(* every Load of a history contributes (its outcome, the requests it issued) to `observe` *)
Theorem observe_load fuel cfg pre u post :
  In (outcome_of (snd (load fuel cfg (run fuel cfg pre) u)),
      new_reqs (run fuel cfg pre) (fst (load fuel cfg (run fuel cfg pre) u)))
     (observe fuel cfg init (pre ++ Load u :: post)).
Proof.
  rewrite observe_app. apply in_or_app. right. fold (run fuel cfg pre). simpl.
  destruct (load fuel cfg (run fuel cfg pre) u) as [st' out]. left. reflexivity.
Qed.

Lemma new_reqs_none st st' : reqlog st' = reqlog st -> new_reqs st st' = [].
Proof. intros H. unfold new_reqs. rewrite H, Nat.sub_diag. reflexivity. Qed.

Lemma new_reqs_one st st' c k t r :
  reqlog st' = (c, k, t, r) :: reqlog st -> new_reqs st st' = [(c, k)].
Proof.
  intros H. unfold new_reqs. rewrite H. simpl List.length.
  replace (S (List.length (reqlog st)) - List.length (reqlog st))%nat with 1%nat by lia. reflexivity.
Qed.

(* without links no load ever panics or diverges (whatever the fuel), and it issues at most one
   request, to the client and key of its row of the routing table *)
Theorem load_total fuel cfg st u :
  link_free st ->
  ((exists d, outcome_of (snd (load fuel cfg st u)) = ODoc d) \/
   outcome_of (snd (load fuel cfg st u)) = OErr) /\
  (new_reqs st (fst (load fuel cfg st u)) = [] \/
   exists c k, chan_key cfg u = Some (c, k) /\ new_reqs st (fst (load fuel cfg st u)) = [(c, k)]).
Proof.
  intros Hlf. split.
  - pose proof (load_route fuel cfg st u) as Hr.
    destruct (route_of cfg u) as [k|r|].
    + rewrite Hr. pose proof (load_http_spec (recf fuel cfg) cfg st k Hlf) as Hs.
      destruct (snd (load_http (recf fuel cfg) cfg st k)); simpl; eauto; inversion Hs.
    + rewrite Hr. destruct (load_node_eq cfg st r Hlf) as [_ H2].
      destruct (snd (load_node cfg st r)); simpl; eauto; contradiction.
    + destruct Hr as [t Hr]. rewrite Hr. simpl. auto.
  - destruct (load_frame fuel cfg st u Hlf) as [_ [_ [H|[c [k [Hck H]]]]]].
    + left. apply new_reqs_none. exact H.
    + right. exists c, k. split; [exact Hck|]. apply (new_reqs_one _ _ _ _ _ _ H).
Qed.

(* without links the fuel is irrelevant: every fuel gives the same machine *)
Theorem load_fuel_irrelevant f1 f2 cfg st u :
  link_free st -> load f1 cfg st u = load f2 cfg st u.
Proof.
  intros Hlf. rewrite !load_unfold. unfold load_with.
  assert (Hf : forall k, fetch (recf f1 cfg) cfg st k = fetch (recf f2 cfg) cfg st k).
  { intros k. unfold fetch. destruct (url_ok cfg k); simpl; [|reflexivity].
    destruct (origin st k) as [code b p alt|] eqn:Ho; [|reflexivity].
    destruct (code =? 200); simpl; [|reflexivity].
    destruct alt as [t|]; [exfalso; apply (Hlf _ _ _ _ _ Ho)|reflexivity]. }
  assert (Hh : forall k, load_http (recf f1 cfg) cfg st k = load_http (recf f2 cfg) cfg st k).
  { intros k. unfold load_http. rewrite Hf. reflexivity. }
  rewrite !Hh. reflexivity.
Qed.

(* ---- fuel only matters for Diverge ---- *)
Definition extends (rec1 rec2 : state -> url -> state * res doc) : Prop :=
  forall st u, snd (rec1 st u) <> Diverge -> rec2 st u = rec1 st u.

Lemma fetch_mono rec1 rec2 cfg st u :
  extends rec1 rec2 -> snd (fetch rec1 cfg st u) <> Diverge ->
  fetch rec2 cfg st u = fetch rec1 cfg st u.
Proof.
  intros Hx. unfold fetch.
  destruct (url_ok cfg u); simpl; [|reflexivity].
  destruct (origin st u) as [code b p alt|]; [|reflexivity].
  destruct (code =? 200); simpl; [|reflexivity].
  destruct alt as [t|]; [|reflexivity].
  pose proof (Hx (log_req st (CHttp, u, now st, RResp code b p (Some t))) t) as Hx1.
  destruct (rec1 (log_req st (CHttp, u, now st, RResp code b p (Some t))) t) as [st2 r2] eqn:E1.
  simpl in Hx1. intros Hnd.
  assert (Hr2 : r2 <> Diverge).
  { intros E. subst r2. apply Hnd. reflexivity. }
  rewrite (Hx1 Hr2). reflexivity.
Qed.

Lemma load_with_mono rec1 rec2 cfg st u :
  extends rec1 rec2 -> snd (load_with rec1 cfg st u) <> Diverge ->
  load_with rec2 cfg st u = load_with rec1 cfg st u.
Proof.
  intros Hx.
  assert (Hh : forall k, snd (load_http rec1 cfg st k) <> Diverge ->
                         load_http rec2 cfg st k = load_http rec1 cfg st k).
  { intros k. unfold load_http.
    destruct (cache_on cfg); [|apply fetch_mono; exact Hx].
    destruct (engine_get cfg st k) as [d e| |]; [|apply fetch_mono; exact Hx|reflexivity].
    destruct (after e (now st)); [reflexivity|apply fetch_mono; exact Hx]. }
  unfold load_with.
  destruct (has_prefix "http://" u || has_prefix "https://" u); [apply Hh|].
  destruct (has_prefix "ipfs://" u); [|reflexivity].
  destruct (ipfs_client cfg); [reflexivity|].
  destruct (negb (String.eqb (gateway cfg) "")); [apply Hh|reflexivity].
Qed.

Lemma load_mono_S fuel cfg : extends (load fuel cfg) (load (S fuel) cfg).
Proof.
  induction fuel as [|f IH]; intros st u Hnd.
  - rewrite (load_unfold 1), (load_unfold 0) in *. apply load_with_mono; [|exact Hnd].
    intros st' u' H. exfalso. apply H. reflexivity.
  - rewrite (load_unfold (S (S f))), (load_unfold (S f)) in *. apply load_with_mono; [|exact Hnd].
    exact IH.
Qed.

(* more fuel never changes a load that did not run out of fuel *)
Theorem load_mono f1 f2 cfg st u :
  (f1 <= f2)%nat -> snd (load f1 cfg st u) <> Diverge -> load f2 cfg st u = load f1 cfg st u.
Proof.
  intros Hle. induction Hle as [|m Hle IH]; intros Hnd; [reflexivity|].
  rewrite <- (IH Hnd). apply load_mono_S. rewrite (IH Hnd). exact Hnd.
Qed.

(* ---- non-vacuity: concrete histories ---- *)
(* the behaviour of pquerna/cachecontrol v0.0.0-20180517163645-1555304b9b35 on the header sets,
   written down by hand; the per-run case files carry the recorded table instead *)
Definition cc_reference (p : policy) : ccdec :=
  match p with
  | PMaxAge n | PSMaxAge n | PPublicMaxAge n | PExpiresDate n | PExpires n
  | PMustRevalidate n => (true, Some n, false)
  | PNoCacheMaxAge n => (true, Some n, true)
  | PNone | PExpiresInvalid => (true, None, false)
  | PNoCache => (true, None, true)
  | PNoStore | PPrivate | PBadDate _ => (false, None, false)
  | PMalformed => (false, None, false)
  | PPrivateMaxAge n | PNoStoreMaxAge n => (false, Some n, false)
  | PRaw _ => (false, None, false)
  end.

Example cc_reference_respects_headers cm cli gw uok :
  cc_respects_headers {| cache_mode_of := cm; ipfs_client := cli; gateway := gw; url_ok := uok;
                         cc := cc_reference |}.
Proof.
  split; [|split]; intros p; destruct p; simpl; intros H; try contradiction; reflexivity.
Qed.

Definition ex_cfg : config :=
  {| cache_mode_of := CacheMemory [("https://e.test/ctx", 900)];
     ipfs_client := false; gateway := "http://gw.test//"; url_ok := fun _ => true;
     cc := cc_reference |}.

Definition a_url : url := "http://a.test/d".

Definition ex_ops : list op :=
  [ Serve a_url (ok_resp 1 (PMaxAge 3000)); Load a_url;
    Serve a_url (ok_resp 2 PNoStore); Load a_url;                (* v1 from the cache *)
    Tick 3000; Load a_url;                                       (* expired: v2, not stored *)
    Serve a_url (ok_resp 3 PNone); Load a_url;                   (* v3, stored with zero expiry *)
    Serve a_url (ok_resp 4 (PMaxAge 1000)); Load a_url;          (* v4: v3 was not reused *)
    Serve a_url (RResp 404 (BJson 5) (PMaxAge 1000) None); Load a_url; (* v4 from the cache *)
    Tick 1000; Load a_url;                                       (* expired and failing: error *)
    Load "https://e.test/ctx";                                   (* embedded *)
    Serve "http://gw.test/ipfs/Qm/x" (ok_resp 7 (PSMaxAge 1000)); Load "ipfs:///Qm/x";
    Load "ftp://a.test/d" ].

Example ex_link_free : link_free_ops ex_ops.
Proof.
  intros u code b p t Hin. simpl in Hin.
  repeat (destruct Hin as [Hin|Hin]; [discriminate Hin|]). exact Hin.
Qed.

Example ex_observe :
  observe 0 ex_cfg init ex_ops =
  [ (ODoc 1, [(CHttp, a_url)]); (ODoc 1, []);
    (ODoc 2, [(CHttp, a_url)]);
    (ODoc 3, [(CHttp, a_url)]);
    (ODoc 4, [(CHttp, a_url)]);
    (ODoc 4, []);
    (OErr, [(CHttp, a_url)]);
    (ODoc 900, []);
    (ODoc 7, [(CHttp, "http://gw.test/ipfs/Qm/x")]);
    (OErr, []) ].
Proof. vm_compute. reflexivity. Qed.

(* C19_inv is not vacuous: a reachable state with a non-empty cache *)
Example ex_inv :
  cache (run 0 ex_cfg ex_ops) =
  [ (a_url, (4, TAt 4000)); ("http://gw.test/ipfs/Qm/x", (7, TAt 5000)) ].
Proof. vm_compute. reflexivity. Qed.

(* C19_fresh: a document from the cache although the origin has moved on *)
Example ex_fresh_cache :
  let ops := firstn 3 ex_ops in
  load 0 ex_cfg (run 0 ex_cfg ops) a_url = (run 0 ex_cfg ops, Ok 1) /\
  served ops a_url = ok_resp 2 PNoStore /\ In (a_url, (1, TAt 3000)) (cache (run 0 ex_cfg ops)).
Proof. vm_compute. repeat split; auto. Qed.

(* C19_no_reuse: v3 was served without freshness information and stored (zero expiry);
   the next load does not return it but fetches v4 *)
Example ex_no_reuse :
  let ops := firstn 9 ex_ops in
  assoc String.eqb a_url (cache (run 0 ex_cfg ops)) = Some (3, TZero) /\
  served ops a_url = ok_resp 4 (PMaxAge 1000) /\
  snd (load 0 ex_cfg (run 0 ex_cfg ops) a_url) = Ok 4 /\
  new_reqs (run 0 ex_cfg ops) (fst (load 0 ex_cfg (run 0 ex_cfg ops) a_url)) = [(CHttp, a_url)].
Proof. vm_compute. repeat split; reflexivity. Qed.

(* C19_failures: the origin answers 404 with a JSON body and max-age: the load fails once the
   cached copy has expired, and the cache is untouched *)
Example ex_failure :
  let st := run 0 ex_cfg (firstn 14 ex_ops) in
  origin st a_url = RResp 404 (BJson 5) (PMaxAge 1000) None /\
  snd (load 0 ex_cfg st a_url) = Err "status" /\
  cache (fst (load 0 ex_cfg st a_url)) = cache st /\ cache st <> [].
Proof. vm_compute. repeat split; try reflexivity. discriminate. Qed.

(* embedded *)
Example ex_embedded :
  route_of ex_cfg "https://e.test/ctx" = ToHttp "https://e.test/ctx" /\
  assoc String.eqb "https://e.test/ctx" (embedded ex_cfg) = Some 900.
Proof. vm_compute. split; reflexivity. Qed.

(* C19_route: every row of the table is inhabited *)
Example ex_route :
  route_of ex_cfg "ipfs://Qm/x" = ToHttp "http://gw.test/ipfs/Qm/x" /\
  route_of {| cache_mode_of := CacheOff; ipfs_client := true; gateway := "http://gw.test";
              url_ok := fun _ => true; cc := cc_reference |} "ipfs://Qm/x" = ToNode "Qm/x" /\
  route_of {| cache_mode_of := CacheDefault; ipfs_client := false; gateway := "";
              url_ok := fun _ => true; cc := cc_reference |} "ipfs://Qm/x" = Reject /\
  route_of ex_cfg "httpx://a.test/d" = Reject /\ route_of ex_cfg "" = Reject /\
  route_of ex_cfg "file:///etc/passwd" = Reject.
Proof. vm_compute. repeat split; reflexivity. Qed.

(* the premises of C19_no_reuse are satisfiable: v1 was only ever received with no-store *)
Example ex_no_reuse_premises :
  let ops := [Serve a_url (ok_resp 1 PNoStore); Load a_url] in
  link_free_ops ops /\
  (exists st', load 0 ex_cfg (run 0 ex_cfg ops) a_url = (st', Ok 1)) /\
  route_of ex_cfg a_url = ToHttp a_url /\
  assoc String.eqb a_url (embedded ex_cfg) = None /\
  (forall pre u0 post p,
     ops = pre ++ Load u0 :: post -> route_of ex_cfg u0 = ToHttp a_url ->
     served pre a_url = RResp 200 (BJson 1) p None ->
     storable ex_cfg p = false \/ cc_lifetime ex_cfg p = None \/
     (exists l, cc_lifetime ex_cfg p = Some l /\ elapsed pre + l <= elapsed ops)).
Proof.
  cbv zeta. split.
  { intros u code b p t Hin. simpl in Hin.
    repeat (destruct Hin as [Hin|Hin]; [discriminate Hin|]). exact Hin. }
  split; [eexists; vm_compute; reflexivity|].
  split; [reflexivity|]. split; [reflexivity|].
  intros pre u0 post p Heq _ Hs.
  destruct pre as [|o1 pre]; [discriminate|].
  inversion Heq as [[Ho1 Hrest]]. subst o1.
  destruct pre as [|o2 pre].
  - unfold served in Hs. simpl in Hs. inversion Hs. subst p. left. reflexivity.
  - destruct pre; discriminate.
Qed.

(* `Cache-Control: no-cache, max-age=n`: the library alone would let it be stored with lifetime n;
   since the fix da1a3b4 (requiresRevalidation) the loader does not store it, so the next load
   asks the origin again and returns v2 *)
Example nocache_maxage_not_reused :
  let ops := [Serve a_url (ok_resp 1 (PNoCacheMaxAge 3000)); Load a_url;
              Serve a_url (ok_resp 2 (PNoCacheMaxAge 3000)); Tick 1000] in
  cache (run 0 ex_cfg ops) = [] /\
  snd (load 0 ex_cfg (run 0 ex_cfg ops) a_url) = Ok 2 /\
  new_reqs (run 0 ex_cfg ops) (fst (load 0 ex_cfg (run 0 ex_cfg ops) a_url)) = [(CHttp, a_url)].
Proof. vm_compute. repeat split; reflexivity. Qed.

(* ---- with rel=alternate Link headers two statements FAIL (observations O-L2, O-L1; outside the
   property's quantifier, whose histories have no Link header) ---- *)
Definition u_url : url := "http://a.test/u".
Definition alt_url : url := "http://a.test/alt".

(* O-L2.  U answers 200 text/html, max-age=3000, Link alternate -> A; A answers {"v":1} with
   no-store.  The load of U fetches both and stores A's document under U with U's lifetime.  A moves
   on to v2; 1000 s later a load of U returns v1 with no request at all, although the only response
   that ever carried v1 said no-store.  Holds for every fuel >= 1. *)
Definition link_reuse_ops : list op :=
  [ Serve u_url (RResp 200 BGarbage (PMaxAge 3000) (Some alt_url));
    Serve alt_url (ok_resp 1 PNoStore); Load u_url;
    Serve alt_url (ok_resp 2 PNoStore); Tick 1000 ].

Theorem link_reuse_refuted fuel :
  (1 <= fuel)%nat ->
  let st := run fuel ex_cfg link_reuse_ops in
  load fuel ex_cfg st u_url = (st, Ok 1) /\
  served link_reuse_ops alt_url = ok_resp 2 PNoStore /\
  cache st = [(u_url, (1, TAt 3000))] /\
  (forall u r, In (Serve u r) link_reuse_ops ->
               (exists code p alt, r = RResp code (BJson 1) p alt) ->
               u = alt_url /\ r = ok_resp 1 PNoStore).
Proof.
  intros Hle.
  assert (Hrun : run fuel ex_cfg link_reuse_ops = run 1 ex_cfg link_reuse_ops).
  { unfold run, link_reuse_ops. cbn [fold_left step].
    rewrite (load_mono 1 fuel ex_cfg _ u_url Hle); [reflexivity|]. vm_compute. discriminate. }
  cbv zeta. rewrite Hrun.
  split; [|split; [|split]].
  - rewrite (load_mono 1 fuel ex_cfg _ u_url Hle); [vm_compute; reflexivity|]. vm_compute. discriminate.
  - vm_compute. reflexivity.
  - vm_compute. reflexivity.
  - intros u r Hin [code [p [alt Hr]]]. simpl in Hin.
    repeat (destruct Hin as [Hin|Hin];
            [inversion Hin; subst; unfold ok_resp in *; try congruence; split; reflexivity|]).
    contradiction.
Qed.

(* O-L1.  U answers 200 text/html with a Link alternate pointing to U itself.  Whatever the fuel, the
   load runs out of it, and the number of requests it has issued by then grows with the fuel: the Go
   recursion LoadDocument -> loadDocumentFromHTTP -> LoadDocument never ends (until the stack is gone). *)
Definition loop_cfg : config :=
  {| cache_mode_of := CacheOff; ipfs_client := false; gateway := ""; url_ok := fun _ => true;
     cc := cc_reference |}.
Definition loop_resp : response := RResp 200 BGarbage PNoStore (Some u_url).

Lemma loop_diverges fuel : forall st,
  origin st u_url = loop_resp ->
  snd (load fuel loop_cfg st u_url) = Diverge /\
  List.length (reqlog (fst (load fuel loop_cfg st u_url))) = (List.length (reqlog st) + S fuel)%nat.
Proof.
  induction fuel as [|f IH]; intros st Ho.
  - rewrite load_unfold. unfold load_with. cbn [has_prefix u_url orb Ascii.eqb Bool.eqb andb].
    unfold load_http. cbn [cache_on loop_cfg cache_mode_of]. unfold fetch.
    cbn [url_ok loop_cfg negb]. rewrite Ho. unfold loop_resp. cbn [Z.eqb Pos.eqb negb recf fst snd].
    split; [reflexivity|]. simpl. lia.
  - rewrite load_unfold. unfold load_with. cbn [has_prefix u_url orb Ascii.eqb Bool.eqb andb].
    unfold load_http. cbn [cache_on loop_cfg cache_mode_of]. unfold fetch.
    cbn [url_ok loop_cfg negb]. rewrite Ho. unfold loop_resp. cbn [Z.eqb Pos.eqb negb recf].
    fold loop_resp.
    destruct (IH (log_req st (CHttp, u_url, now st, loop_resp)) Ho) as [H1 H2].
    destruct (load f loop_cfg (log_req st (CHttp, u_url, now st, loop_resp)) u_url) as [st2 r2].
    simpl in H1, H2. subst r2. simpl. split; [reflexivity|]. rewrite H2. simpl. lia.
Qed.

Theorem link_diverges_refuted fuel :
  let st := run fuel loop_cfg [Serve u_url loop_resp] in
  snd (load fuel loop_cfg st u_url) = Diverge /\
  List.length (reqlog (fst (load fuel loop_cfg st u_url))) = S fuel.
Proof.
  cbv zeta. destruct (loop_diverges fuel (run fuel loop_cfg [Serve u_url loop_resp])) as [H1 H2].
  - reflexivity.
  - split; [exact H1|]. rewrite H2. reflexivity.
Qed.
