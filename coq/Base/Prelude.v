(* Base/Prelude.v — shared definitions: outcome type, association lists,
   byte-wise string order.  No proofs here (models must still evaluate when a
   proof elsewhere breaks). *)
From Coq Require Import ZArith List String Ascii Bool Arith.
Import ListNotations.
Open Scope string_scope.
Open Scope list_scope.

(* Outcome of a Go function returning (T, error).  Error classes are a small
   enum carried as a string tag chosen by the model (never the Go message);
   Panic and Diverge are explicit outcomes so that totality is a statement. *)
Inductive res (A : Type) : Type :=
| Ok (a : A)
| Err (tag : string)
| Panic (what : string)
| Diverge.
Arguments Ok {A} a.
Arguments Err {A} tag.
Arguments Panic {A} what.
Arguments Diverge {A}.

Definition bind {A B} (r : res A) (f : A -> res B) : res B :=
  match r with
  | Ok a => f a
  | Err t => Err t
  | Panic w => Panic w
  | Diverge => Diverge
  end.

Notation "x <- r ;; k" := (bind r (fun x => k))
  (at level 61, r at next level, right associativity).

Definition is_ok {A} (r : res A) : bool := match r with Ok _ => true | _ => false end.
Definition is_err {A} (r : res A) : bool := match r with Err _ => true | _ => false end.

(* Observable class of an outcome: what the correspondence compares. *)
Inductive oclass := COk | CErr | CPanic | CDiverge.
Definition class_of {A} (r : res A) : oclass :=
  match r with Ok _ => COk | Err _ => CErr | Panic _ => CPanic | Diverge => CDiverge end.
Definition oclass_eqb (a b : oclass) : bool :=
  match a, b with
  | COk, COk | CErr, CErr | CPanic, CPanic | CDiverge, CDiverge => true
  | _, _ => false
  end.

Definition of_option {A} (o : option A) (tag : string) : res A :=
  match o with Some a => Ok a | None => Err tag end.

(* ---- association lists (Go maps built by insertion) ---- *)
Section AList.
  Context {K V : Type} (eqb : K -> K -> bool).
  Fixpoint assoc (k : K) (l : list (K * V)) : option V :=
    match l with
    | [] => None
    | (a, b) :: t => if eqb a k then Some b else assoc k t
    end.
  Fixpoint upsert (k : K) (v : V) (l : list (K * V)) : list (K * V) :=
    match l with
    | [] => [(k, v)]
    | (a, b) :: t => if eqb a k then (a, v) :: t else (a, b) :: upsert k v t
    end.
  Fixpoint remove_key (k : K) (l : list (K * V)) : list (K * V) :=
    match l with
    | [] => []
    | (a, b) :: t => if eqb a k then remove_key k t else (a, b) :: remove_key k t
    end.
End AList.

(* ---- byte-wise string order (Go's < on strings, sort.Strings) ---- *)
Fixpoint str_leb (a b : string) : bool :=
  match a, b with
  | EmptyString, _ => true
  | String _ _, EmptyString => false
  | String x a', String y b' =>
      let nx := nat_of_ascii x in
      let ny := nat_of_ascii y in
      if Nat.ltb nx ny then true else if Nat.ltb ny nx then false else str_leb a' b'
  end.

Fixpoint str_ins (s : string) (l : list string) : list string :=
  match l with
  | [] => [s]
  | h :: t => if str_leb s h then s :: l else h :: str_ins s t
  end.
Definition sort_strings (l : list string) : list string := fold_right str_ins [] l.

Fixpoint index_from {A} (i : nat) (l : list A) : list (nat * A) :=
  match l with [] => [] | h :: t => (i, h) :: index_from (S i) t end.

Definition option_eqb {A} (eqb : A -> A -> bool) (a b : option A) : bool :=
  match a, b with
  | Some x, Some y => eqb x y
  | None, None => true
  | _, _ => false
  end.

Fixpoint list_eqb {A} (eqb : A -> A -> bool) (a b : list A) : bool :=
  match a, b with
  | [], [] => true
  | x :: a', y :: b' => eqb x y && list_eqb eqb a' b'
  | _, _ => false
  end.

(* string helpers used by several parsers *)
Fixpoint str_to_list (s : string) : list ascii :=
  match s with EmptyString => [] | String c t => c :: str_to_list t end.
Fixpoint str_of_list (l : list ascii) : string :=
  match l with [] => EmptyString | c :: t => String c (str_of_list t) end.

Definition is_digit (c : ascii) : bool :=
  let n := nat_of_ascii c in Nat.leb 48 n && Nat.leb n 57.
Definition digit_val (c : ascii) : Z := Z.of_nat (nat_of_ascii c) - 48.
