(* Base/Decode.v — ONLY for per-run case files: big numbers are written as
   little-endian lists of 62-bit limbs in primitive Uint63 literals, which parse
   25x faster than Z numerals; they are converted to Z under vm_compute.
   No model, lemma or theorem depends on this file. *)
From Coq Require Import ZArith List Uint63.
Import ListNotations.

Definition limbs := list int.

Fixpoint z_of_limbs (l : limbs) : Z :=
  match l with
  | [] => 0%Z
  | x :: t => (Uint63.to_Z x + Z.shiftl (z_of_limbs t) 62)%Z
  end.

(* sign-carrying number: (negative?, magnitude limbs) *)
Definition snum := (bool * limbs)%type.
Definition z_of_snum (s : snum) : Z :=
  let '(neg, l) := s in if neg then (- z_of_limbs l)%Z else z_of_limbs l.
