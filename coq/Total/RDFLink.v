(* Total/RDFLink.v — totality of the model of EntriesFromRDF (RDF/Model.v, owned by
   the C01 development) in the form property C12 needs: with complete float tables
   the outcome is Ok or Err, never Panic or Diverge.  Built on RDF/ThTotal.v
   (pigeonhole argument for the parent walk). *)
From Coq Require Import ZArith List String Ascii Bool Arith Lia.
From GSP Require Import Base.Prelude Value.Time Value.Model RDF.Model RDF.Spec RDF.ThTotal
  Total.Model Total.Theory.
Import ListNotations.
Open Scope string_scope.

Theorem entries_from_rdf_total F prime ds :
  floats_ok F -> ok_or_err (entries_from_rdf F prime ds).
Proof.
  intros HF. destruct (entries_total F prime ds) as [Hnd Hp].
  destruct (entries_from_rdf F prime ds) as [es|t|w|] eqn:E; simpl; try exact I.
  - destruct (Hp w eq_refl) as (dt & v & Hc).
    pose proof (convert_ooe F dt v prime HF) as H. rewrite Hc in H. exact H.
  - congruence.
Qed.

(* the parent walk with ANY fuel above the number of quads never runs out of it *)
Theorem walk_fuel_bound fuel r ds i q k :
  quad_at ds i = Some q -> (total_quads ds < fuel)%nat -> walk fuel r ds [i] i k <> Diverge.
Proof. apply walk_fuel_suffices. Qed.

(* reference cycles of length 1..3 are errors *)
Definition nq (s p o : string) : quad := {| qs := NIri s; qp := NIri p; qo := NIri o; qg := None |}.
Definition cycle1 : dataset := [("@default", [nq "urn:a" "urn:p" "urn:a"])].
Definition cycle2 : dataset := [("@default", [nq "urn:a" "urn:p" "urn:b"; nq "urn:b" "urn:q" "urn:a"])].
Definition cycle3 : dataset :=
  [("@default", [nq "urn:a" "urn:p" "urn:b"; nq "urn:b" "urn:q" "urn:c"; nq "urn:c" "urn:r" "urn:a"])].

Example cycles_are_errors :
  class_of (entries_from_rdf demo_floats 97 cycle1) = CErr /\
  class_of (entries_from_rdf demo_floats 97 cycle2) = CErr /\
  class_of (entries_from_rdf demo_floats 97 cycle3) = CErr.
Proof. repeat split; vm_compute; reflexivity. Qed.

Example cycle2_error_is_the_cycle_guard :
  entries_from_rdf demo_floats 97 cycle2 = Err "reference-cycle".
Proof. vm_compute. reflexivity. Qed.
