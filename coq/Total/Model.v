(* Total/Model.v — control skeletons of the entry points that accept data from
   outside the process (property C12).  NO proofs in this file.

   Coq functions are total, so panics, hangs and unbounded allocation are PUT
   INTO the model: every dereference of a nil-able pointer, every `make` with a
   decoded length, every call that can hand back a nil element, every library
   call that is known to panic is an explicit `Panic` outcome (or an `alloc`
   figure).  The checks that the repair commits added are switchable through a
   `guards` record: `all_guards` is the code as it is in /repo NOW; switching a
   guard off gives the code before that repair, and Total/Theory.v shows for
   each of them an input on which the skeleton then panics (so the Panic
   outcomes are not decoration).

   Go code modelled (as it is in /repo now, same order of checks):
     merklize/merklize.go      PoseidonHasher.HashBytes (guard 58805e9), Path.MtEntry,
                               mkValueMtEntry, valueToHash / HashValue,
                               AddEntriesToMerkleTree, tail of MerklizeJSONLD
     merklize/binary_encoding.go  RDFEntry.UnmarshalBinary, Merklizer.UnmarshalBinary
                               (count guard ca7ff03), MerklizerFromBytes
     verifiable/credential.go  VerifyProof, verifyBJJSignatureProof,
                               verifyIden3SparseMerkleTreeProof (nil checks f02e04b),
                               validateIssuerState, verifyAuthClaimInclusion,
                               validateAuthClaimRevocation
     verifiable/credential_status.go  ValidateCredentialStatus, rootFromMerkleTreeProof
                               (guards 88617d1), verifyMerkleTreeProof,
                               coerceCredentialStatus, validateTreeState
     verifiable/proof.go       CredentialProofs.UnmarshalJSON, extractProof, the three
                               proof UnmarshalJSON methods
     verifiable/did_doc.go     Authentication.UnmarshalJSON (guard 132912a),
                               GistInfoProof.UnmarshalJSON, DIDDocument decoding
     go-merkletree-sql         Proof.UnmarshalJSON / NewProofFromData (dependency: panics
                               on a null sibling and on a non-zero sibling at level >= 240)

   External code (Poseidon, BabyJubJub, hex/DID parsing, encoding/json, gob,
   json-gold, RootFromProof) is represented by its OUTCOME, supplied as data:
   theorems quantify over every outcome, the per-run case files carry the outcome
   the harness recorded from the real primitive. *)
From Coq Require Import ZArith List String Ascii Bool Arith.
From GSP Require Import Base.Prelude Value.Time Value.Model.
Import ListNotations.
Open Scope string_scope.
Open Scope list_scope.
Open Scope Z_scope.

(* ------------------------------------------------------------------ guards *)
Record guards := mkguards {
  g_empty     : bool;  (* 58805e9  PoseidonHasher.HashBytes: nil hash -> error *)
  g_count     : bool;  (* ca7ff03  Merklizer.UnmarshalBinary: 0 <= entriesLen <= len(in) *)
  g_value     : bool;  (* f02e04b  IssuerData.State.Value == nil -> error (both verifiers) *)
  g_mtp       : bool;  (* f02e04b  Iden3SparseMerkleTreeProof.MTP == nil -> error *)
  g_ctr       : bool;  (* f02e04b / 6f84aa4  State.ClaimsTreeRoot == nil -> error (SMT verifier;
                          verifyAuthClaimInclusion of the BJJ verifier) *)
  g_published : bool;  (* f02e04b  IdentityState.Published == nil -> "not published" *)
  g_aux       : bool;  (* 88617d1  NodeAux without key / value -> error *)
  g_recover   : bool;  (* 88617d1  recover() around merkletree.RootFromProof *)
  g_authlen   : bool;  (* 132912a  Authentication.UnmarshalJSON: len(b) == 0 *)
  g_didnull   : bool;  (* e2efde3  HTTPDIDResolver.Resolve: Decode(res), not Decode(&res) *)
  g_mtpjson   : bool   (* c1afc2d  decodeMTP: > 240 siblings / a null sibling -> error, before the
                          dependency's decoder (and, later, its encoder) can panic *)
}.
Definition all_guards : guards := mkguards true true true true true true true true true true true.

(* --------------------------------------------------------- hashing, values *)
(* *big.Int that may be nil *)
Definition elem := option Z.

(* answer of a library hash call: (v,nil) | (nil,err) | (nil,nil) — poseidon.HashBytes
   really returns the last one for an empty message.  HMiss exists only for the
   per-run tables (a call the harness did not record); it is a Panic so that it
   can never agree with an observation, and theorems assume it away. *)
Inductive hres := HV (z : Z) | HE | HNil | HMiss.

Record prim := mkprim {
  p_prime : Z;                       (* Hasher.Prime() *)
  p_hash  : list Z -> hres;          (* poseidon.Hash on non-nil elements *)
  p_bytes : string -> hres           (* poseidon.HashBytes *)
}.

Definition miss := "oracle-miss".

(* PoseidonHasher.HashBytes *)
Definition hasher_bytes (g : guards) (P : prim) (s : string) : res elem :=
  match p_bytes P s with
  | HV z => Ok (Some z)
  | HE => Err "hashbytes"
  | HNil => if g_empty g then Err "empty-message" else Ok None
  | HMiss => Panic miss
  end.

Fixpoint all_some (l : list elem) : option (list Z) :=
  match l with
  | [] => Some []
  | None :: _ => None
  | Some z :: t => match all_some t with Some r => Some (z :: r) | None => None end
  end.

(* PoseidonHasher.Hash: poseidon.Hash calls Cmp on every element *)
Definition hasher_hash (P : prim) (l : list elem) : res elem :=
  match all_some l with
  | None => Panic "nil element passed to poseidon.Hash"
  | Some zs => match p_hash P zs with
               | HV z => Ok (Some z) | HE => Err "hash" | HNil => Ok None | HMiss => Panic miss
               end
  end.

(* mkValueMtEntry on the value kinds an entry can hold *)
Definition mk_value (g : guards) (P : prim) (v : xval) : res elem :=
  match v with
  | XInt64 z => Ok (Some (if 0 <=? z then z else p_prime P + z))
  | XBool b => hasher_hash P [Some (if b then 1 else 0)]
  | XStr s => hasher_bytes g P s
  | XTime u n =>
      if p_prime P =? 0 then Panic "division by zero"
      else Ok (Some ((u * 1000000000 + n) mod p_prime P))
  | XBig z =>
      if z >=? p_prime P then Err "big-too-big"
      else if z <? 0 then
        if z <? fst (min_max_from_prime (p_prime P)) then Err "big-too-small"
        else Ok (Some (z + p_prime P))
      else Ok (Some z)
  end.

(* merklize.HashValue / HashValueWithHasher: (nil,nil) is `Ok None` *)
Definition hash_value (g : guards) (P : prim) (F : floats) (dt : string) (v : goval) : res elem :=
  s <- any_to_string F v dt ;;
  x <- convert F dt s (p_prime P) ;;
  mk_value g P x.

(* path parts as gob / the RDF walk deliver them *)
Inductive wpart := WStr (s : string) | WInt (z : Z) | WOther.

Fixpoint parts_elems (g : guards) (P : prim) (l : list wpart) : res (list elem) :=
  match l with
  | [] => Ok []
  | p :: t =>
      e <- match p with
           | WStr s => hasher_bytes g P s
           | WInt z => Ok (Some z)
           | WOther => Err "unexpected-part-type"
           end ;;
      r <- parts_elems g P t ;;
      Ok (e :: r)
  end.

(* Path.MtEntry *)
Definition path_mt_entry (g : guards) (P : prim) (l : list wpart) : res elem :=
  es <- parts_elems g P l ;; hasher_hash P es.

Record wentry := mkwentry { w_parts : list wpart; w_val : xval }.

Section Tree.
(* the merkle tree behind mtAppender: any state type, any (total) insertion *)
Variable T : Type.
Variable tadd : T -> Z -> Z -> option T.

(* MerkleTree.Add: NewHashFromBigInt dereferences both arguments *)
Definition tree_add (t : T) (k v : elem) : res T :=
  match k, v with
  | Some k', Some v' => of_option (tadd t k' v') "tree-add"
  | _, _ => Panic "nil element passed to MerkleTree.Add"
  end.

(* AddEntriesToMerkleTree *)
Fixpoint add_entries (g : guards) (P : prim) (t : T) (es : list wentry) : res T :=
  match es with
  | [] => Ok t
  | e :: r =>
      k <- path_mt_entry g P (w_parts e) ;;
      v <- mk_value g P (w_val e) ;;
      t' <- tree_add t k v ;;
      add_entries g P t' r
  end.

(* MerklizeJSONLD after EntriesFromRDFWithHasher: key.String() per entry, tree
   insertion, proc.Compact (json-gold; its outcome is data) *)
Fixpoint key_strings (g : guards) (P : prim) (es : list wentry) : res unit :=
  match es with
  | [] => Ok tt
  | e :: r =>
      k <- path_mt_entry g P (w_parts e) ;;
      match k with
      | None => Panic "nil key: key.String()"
      | Some _ => key_strings g P r
      end
  end.

Definition merklize_tail (g : guards) (P : prim) (t0 : T) (es : list wentry) (compact_ok : bool)
  : res T :=
  _ <- key_strings g P es ;;
  t <- add_entries g P t0 es ;;
  if compact_ok then Ok t else Err "compact".

(* ------------------------------------------------------------ gob streams *)
(* what json.Unmarshal(compactedBytes, &map[string]any) makes of the bytes *)
Inductive jclass := JObject | JNullLit | JOtherValue | JInvalid.

(* one gob value of the stream, as the decoder sees it *)
Inductive tok :=
| TInt (z : Z)               (* int / int64 *)
| TUint (z : Z)              (* uint kinds (entryType) *)
| TBool (b : bool)
| TStr (s : string)
| TBytes (j : jclass)        (* []byte *)
| TBig (z : Z)               (* *big.Int (GobDecoder) *)
| TTime (u n : Z)            (* time.Time (GobDecoder) *)
| TParts (l : list wpart)    (* []interface{} *)
| TEntry (inner : list tok)  (* RDFEntry: bytes handed to UnmarshalBinary, a nested stream *)
| TJunk.                     (* a value of any other type, or undecodable bytes *)

Definition EEOF := "gob-eof".
Definition EType := "gob-type-mismatch".

Definition dec_int (s : list tok) : res (Z * list tok) :=
  match s with [] => Err EEOF | TInt z :: r => Ok (z, r) | _ => Err EType end.
Definition dec_uint8 (s : list tok) : res (Z * list tok) :=
  match s with
  | [] => Err EEOF
  | TUint z :: r => if 255 <? z then Err "gob-overflow" else Ok (z, r)
  | _ => Err EType
  end.
Definition dec_bool (s : list tok) : res (bool * list tok) :=
  match s with [] => Err EEOF | TBool b :: r => Ok (b, r) | _ => Err EType end.
Definition dec_str (s : list tok) : res (string * list tok) :=
  match s with [] => Err EEOF | TStr x :: r => Ok (x, r) | _ => Err EType end.
Definition dec_bytes (s : list tok) : res (jclass * list tok) :=
  match s with [] => Err EEOF | TBytes j :: r => Ok (j, r) | _ => Err EType end.
Definition dec_big (s : list tok) : res (Z * list tok) :=
  match s with [] => Err EEOF | TBig z :: r => Ok (z, r) | _ => Err EType end.
Definition dec_time (s : list tok) : res (Z * Z * list tok) :=
  match s with [] => Err EEOF | TTime u n :: r => Ok (u, n, r) | _ => Err EType end.
Definition dec_parts (s : list tok) : res (list wpart * list tok) :=
  match s with [] => Err EEOF | TParts l :: r => Ok (l, r) | _ => Err EType end.

(* RDFEntry.UnmarshalBinary (binary_encoding.go:92-144); trailing values are ignored *)
Definition rdfentry_unmarshal (s : list tok) : res wentry :=
  vr <- dec_int s ;;
  let '(ver, s1) := vr in
  if negb (ver =? 1) then Err "entry-version" else
  pr <- dec_parts s1 ;;
  let '(parts, s2) := pr in
  tr <- dec_uint8 s2 ;;
  let '(tp, s3) := tr in
  xr <- (if tp =? 0 then r <- dec_int s3 ;; Ok (XInt64 (fst r), snd r)
         else if tp =? 1 then r <- dec_bool s3 ;; Ok (XBool (fst r), snd r)
         else if tp =? 2 then r <- dec_str s3 ;; Ok (XStr (fst r), snd r)
         else if tp =? 3 then r <- dec_time s3 ;; Ok (XTime (fst (fst r)) (snd (fst r)), snd r)
         else if tp =? 4 then r <- dec_big s3 ;; Ok (XBig (fst r), snd r)
         else Err "entry-type") ;;
  let '(x, s4) := xr in
  dr <- dec_str s4 ;;
  Ok (mkwentry parts x).

(* RDFEntry.UnmarshalBinary followed by KeyValueMtEntries on the restored entry:
   the key parts and the value come from the untrusted bytes (a key part may be the
   empty string, for which HashBytes answers an error) *)
Definition rdfentry_key_value (g : guards) (P : prim) (s : list tok) : res (elem * elem) :=
  e <- rdfentry_unmarshal s ;;
  k <- path_mt_entry g P (w_parts e) ;;
  v <- mk_value g P (w_val e) ;;
  Ok (k, v).

(* the nested stream of an entry, as gob hands it to UnmarshalBinary *)
Definition dec_entry (s : list tok) : res (wentry * list tok) :=
  match s with
  | [] => Err EEOF
  | TEntry inner :: r => e <- rdfentry_unmarshal inner ;; Ok (e, r)
  | _ => Err EType
  end.

(* the loop `for i := 0; i < entriesLen; i++` *)
Fixpoint dec_entries (n : nat) (s : list tok) (acc : list wentry) : res (list wentry * list tok) :=
  match n with
  | O => Ok (rev acc, s)
  | S n' =>
      kr <- dec_str s ;;
      er <- dec_entry (snd kr) ;;
      dec_entries n' (snd er) (fst er :: acc)
  end.

(* make([]RDFEntry, n): a negative length panics *)
Definition make_slice (n : Z) : res nat :=
  if n <? 0 then Panic "makeslice: len out of range" else Ok (Z.to_nat n).

(* Merklizer.UnmarshalBinary / MerklizerFromBytes (binary_encoding.go:216-324).
   len_in = len(in); given = Some r when the caller supplied a tree (WithMerkleTree)
   whose root is r.  Header: everything up to and including the entry count. *)
Definition merklizer_header (g : guards) (len_in : Z) (given : option Z) (s : list tok)
  : res (Z * list tok) :=
  vr <- dec_int s ;;
  if negb (fst vr =? 1) then Err "mz-version" else
  sr <- dec_bytes (snd vr) ;;
  cr <- dec_bytes (snd sr) ;;
  match fst cr with
  | JOtherValue | JInvalid => Err "compacted-json"
  | _ =>
      rr <- dec_big (snd cr) ;;
      if (match given with Some r => negb (r =? fst rr) | None => false end)
      then Err "root-mismatch" else
      nr <- dec_int (snd rr) ;;
      if g_count g && ((fst nr <? 0) || (len_in <? fst nr)) then Err "entries-count"
      else Ok nr
  end.

(* from `entries := make([]RDFEntry, entriesLen)` to the end *)
Definition merklizer_body (g : guards) (P : prim) (t0 : T) (given : option Z) (h : Z * list tok)
  : res (T * bool) :=
  cnt <- make_slice (fst h) ;;
  er <- dec_entries cnt (snd h) [] ;;
  t <- match given with
       | None => add_entries g P t0 (fst er)
       | Some _ => Ok t0
       end ;;
  br <- dec_bool (snd er) ;;
  Ok (t, fst br).

(* Second component: the number of RDFEntry slots `make` is asked for (the slice and
   the map are sized by the same number); 0 when `make` is not reached. *)
Definition merklizer_unmarshal (g : guards) (P : prim) (t0 : T) (len_in : Z) (given : option Z)
           (s : list tok) : res (T * bool) * Z :=
  match merklizer_header g len_in given s with
  | Ok h => (merklizer_body g P t0 given h, fst h)
  | Err e => (Err e, 0)
  | Panic w => (Panic w, 0)
  | Diverge => (Diverge, 0)
  end.

End Tree.

(* ------------------------------------------- merkle proofs from JSON (dependency) *)
(* one element of "siblings": null, the zero hash, another field element, or
   something Hash.UnmarshalText / encoding/json rejects *)
Inductive sib := SNull | SZero | SNonZero | SBad.

(* Member lookup of encoding/json when it decodes an object into a struct: a member
   name matches a field case-insensitively, every occurrence assigns the field, so
   the LAST matching member wins ("siblings", "Siblings", "SIBLINGS" are the same
   field).  (ASCII case folding; json's Unicode simple folding is not modelled.) *)
Definition lower_ascii (c : ascii) : ascii :=
  let n := nat_of_ascii c in
  if Nat.leb 65 n && Nat.leb n 90 then ascii_of_nat (n + 32) else c.
Fixpoint lower (s : string) : string :=
  match s with EmptyString => EmptyString | String c t => String (lower_ascii c) (lower t) end.
Definition ci_eqb (a b : string) : bool := String.eqb (lower a) (lower b).

(* the value of the last member whose name satisfies `same` (None: no such member) *)
Fixpoint last_member {V} (same : string -> bool) (l : list (string * V)) (acc : option V) : option V :=
  match l with
  | [] => acc
  | (n, v) :: t => last_member same t (if same n then Some v else acc)
  end.

Record mtpj := mkmtpj_m {
  mj_kinds_ok : bool;        (* "existence" is a bool, "node_aux" an object with decodable members *)
  mj_sib_members : list (string * list sib)
                             (* in document order, the members whose name is "siblings" up to case,
                                with the spelling used *)
}.
(* what a struct field tagged `json:"siblings"` ends up holding *)
Definition mj_sibs (p : mtpj) : list sib :=
  match last_member (ci_eqb "siblings") (mj_sib_members p) None with Some l => l | None => [] end.
(* what a lookup of the exact key "siblings" in a map[string]json.RawMessage finds *)
Definition mj_sibs_exact (p : mtpj) : list sib :=
  match last_member (String.eqb "siblings") (mj_sib_members p) None with Some l => l | None => [] end.
(* the usual shape: one member, spelled "siblings" *)
Definition mkmtpj (kinds_ok : bool) (sibs : list sib) : mtpj := mkmtpj_m kinds_ok [("siblings", sibs)].

(* NewProofFromData: sibling.Equals(&HashZero) dereferences the sibling;
   SetBitBigEndian(p.notempties[:], lvl) indexes a [30]byte with lvl/8 *)
Fixpoint new_proof_from_data (lvl : nat) (l : list sib) : res unit :=
  match l with
  | [] => Ok tt
  | SNull :: _ => Panic "nil sibling: Hash.Equals"
  | SZero :: t => new_proof_from_data (S lvl) t
  | _ :: t => if Nat.leb 240 lvl then Panic "index out of range: SetBitBigEndian"
              else new_proof_from_data (S lvl) t
  end.

(* merkletree.Proof.UnmarshalJSON: a rejected element makes json.Unmarshal fail
   before NewProofFromData is reached *)
Definition mt_proof_unmarshal (p : mtpj) : res unit :=
  if existsb (fun s => match s with SBad => true | _ => false end) (mj_sibs p) then Err "mtp-json"
  else if negb (mj_kinds_ok p) then Err "mtp-json"
  else new_proof_from_data 0 (mj_sibs p).

(* the hypothesis under which the dependency's decoder is total (D12) *)
Fixpoint sibs_safe (lvl : nat) (l : list sib) : bool :=
  match l with
  | [] => true
  | SNull :: _ => false
  | SZero :: t => sibs_safe (S lvl) t
  | SBad :: t => sibs_safe (S lvl) t
  | SNonZero :: t => negb (Nat.leb 240 lvl) && sibs_safe (S lvl) t
  end.
Definition mtpj_safe (p : mtpj) : bool :=
  existsb (fun s => match s with SBad => true | _ => false end) (mj_sibs p)
  || negb (mj_kinds_ok p) || sibs_safe 0 (mj_sibs p).
Definition omtpj_safe (o : option mtpj) : bool :=
  match o with Some p => mtpj_safe p | None => true end.

Definition is_null (s : sib) : bool := match s with SNull => true | _ => false end.

(* verifiable.decodeMTP (mtp_json.go, c1afc2d) on a present, non-null value: the
   shape check (`siblings` is an array of at most 240 non-null values) runs before
   the dependency's decoder.  Without the guard the dependency's decoder is called
   directly, as encoding/json did through *mt.Proof / mt.Proof fields. *)
(* `exact_shape`: the shape check reads the siblings by exact key from a map instead of
   through a struct field - NOT what /repo does; kept to show why it must not *)
Definition decode_mtp_with (exact_shape : bool) (g : guards) (p : mtpj) : res unit :=
  if g_mtpjson g then
    let shape := if exact_shape then mj_sibs_exact p else mj_sibs p in
    if negb (mj_kinds_ok p) then Err "mtp-json"
    else if Nat.ltb 240 (List.length shape) then Err "mtp-too-many-siblings"
    else if existsb is_null shape then Err "mtp-null-sibling"
    else mt_proof_unmarshal p
  else mt_proof_unmarshal p.

Definition decode_mtp (g : guards) (p : mtpj) : res unit := decode_mtp_with false g p.

(* an optional "mtp" member (absent / null: the proof stays nil) *)
Definition opt_mtp_unmarshal (g : guards) (o : option mtpj) : res unit :=
  match o with Some p => decode_mtp g p | None => Ok tt end.

(* ------------------------------------------------ decoding proofs (proof.go) *)
Inductive pkind := PBJJ | PSMTOld | PSMT | PCommon.

(* issuerData as json.Unmarshal(obj.IssuerData, &p.IssuerData) sees it *)
Record issuerj := mkissuerj {
  ij_kinds_ok : bool;          (* every member has the JSON kind its field accepts *)
  ij_mtp : option mtpj         (* "mtp" member *)
}.

Record proofj := mkproofj {
  pj_obj : bool;               (* the element is a JSON object *)
  pj_type : option pkind;      (* "type" is a string, and which; None: absent or not a string *)
  pj_kinds_ok : bool;          (* members of the first json.Unmarshal have acceptable kinds *)
  pj_mtp : option mtpj;        (* top-level "mtp" (SMT proofs) *)
  pj_issuer : option issuerj;  (* "issuerData"; None: absent (nil RawMessage -> Unmarshal error) *)
  pj_claim_ok : bool;          (* validateHexCoreClaim *)
  pj_sig_ok : bool             (* validateCompSignature *)
}.

(* IssuerData.UnmarshalJSON (c1afc2d): the members first, then decodeMTP(mtp).
   Before: plain struct decoding, in which a kind error is remembered while
   decoding goes on and an error (or panic) of Proof.UnmarshalJSON ends it. *)
Definition issuer_unmarshal (g : guards) (o : option issuerj) : res unit :=
  match o with
  | None => Err "issuerData-absent"
  | Some i =>
      if g_mtpjson g then
        if negb (ij_kinds_ok i) then Err "issuerData-kind" else opt_mtp_unmarshal g (ij_mtp i)
      else
        _ <- opt_mtp_unmarshal g (ij_mtp i) ;;
        if ij_kinds_ok i then Ok tt else Err "issuerData-kind"
  end.

(* extractProof + the UnmarshalJSON method it selects *)
Definition extract_proof (g : guards) (p : proofj) : res pkind :=
  if negb (pj_obj p) then Err "proof-not-object" else
  match pj_type p with
  | None => Err "proof-type"
  | Some PCommon => Ok PCommon        (* CommonProof.UnmarshalJSON: map + "type" is a string *)
  | Some PBJJ =>
      (* aux struct has no mtp member *)
      if negb (pj_kinds_ok p) then Err "proof-kind" else
      _ <- issuer_unmarshal g (pj_issuer p) ;;
      if negb (pj_claim_ok p) then Err "core-claim" else
      if negb (pj_sig_ok p) then Err "signature" else Ok PBJJ
  | Some k =>
      if g_mtpjson g then
        (* "mtp" is taken as raw bytes and decoded last *)
        if negb (pj_kinds_ok p) then Err "proof-kind" else
        _ <- issuer_unmarshal g (pj_issuer p) ;;
        if negb (pj_claim_ok p) then Err "core-claim" else
        _ <- opt_mtp_unmarshal g (pj_mtp p) ;; Ok k
      else
        (* "mtp" was a *mt.Proof member of the first json.Unmarshal *)
        _ <- opt_mtp_unmarshal g (pj_mtp p) ;;
        if negb (pj_kinds_ok p) then Err "proof-kind" else
        _ <- issuer_unmarshal g (pj_issuer p) ;;
        if negb (pj_claim_ok p) then Err "core-claim" else Ok k
  end.

(* the JSON value under "proof" *)
Inductive proofsj := PJNull | PJArray (l : list proofj) | PJSingle (p : proofj).

Fixpoint extract_all (g : guards) (l : list proofj) : res (list pkind) :=
  match l with
  | [] => Ok []
  | p :: t => k <- extract_proof g p ;; r <- extract_all g t ;; Ok (k :: r)
  end.

(* CredentialProofs.UnmarshalJSON *)
Definition proofs_unmarshal (g : guards) (j : proofsj) : res (list pkind) :=
  match j with
  | PJNull => Err "proof-null"
  | PJArray l => extract_all g l
  | PJSingle p => k <- extract_proof g p ;; Ok [k]
  end.

(* W3CCredential: the "proof" member goes through CredentialProofs.UnmarshalJSON;
   a kind error in another member is remembered while decoding goes on *)
Record credj := mkcredj { cj_kinds_ok : bool; cj_proof : option proofsj }.
Definition cred_unmarshal (g : guards) (c : credj) : res unit :=
  _ <- match cj_proof c with Some j => proofs_unmarshal g j | None => Ok [] end ;;
  if cj_kinds_ok c then Ok tt else Err "credential-kind".

(* -------------------------------------------- DID documents, status answers *)
(* a verification method: embedded IdentityState.global.proof is a GistInfoProof,
   whose UnmarshalJSON first decodes a merkle proof from the same bytes *)
Record vmj := mkvmj { vj_kinds_ok : bool; vj_gist : option mtpj }.

Definition vm_unmarshal (g : guards) (v : vmj) : res unit :=
  _ <- opt_mtp_unmarshal g (vj_gist v) ;;
  if vj_kinds_ok v then Ok tt else Err "vm-kind".

(* the bytes handed to Authentication.UnmarshalJSON *)
Inductive authj :=
| ANilBytes               (* b == nil *)
| AEmpty                  (* non-nil, len(b) == 0 (direct call only; encoding/json never does it) *)
| AObject (v : vmj)       (* b[0] is an opening brace *)
| AString (ok : bool)     (* b[0] is a double quote *)
| AOtherByte.

Definition auth_unmarshal (g : guards) (a : authj) : res unit :=
  match a with
  | ANilBytes => Ok tt
  | AEmpty => if g_authlen g then Ok tt else Panic "index out of range [0] with length 0"
  | AObject v => match vm_unmarshal g v with
                 | Ok _ => Ok tt | Err _ => Err "auth-payload" | Panic w => Panic w | Diverge => Diverge
                 end
  | AString ok => if ok then Ok tt else Err "auth-did"
  | AOtherByte => Err "auth-invalid"
  end.

Record diddocj := mkdiddocj {
  dj_kinds_ok : bool;
  dj_vms : list vmj;
  dj_auths : list authj       (* assertionMethod ++ authentication, in document order *)
}.

Fixpoint each {A} (f : A -> res unit) (l : list A) : res unit :=
  match l with [] => Ok tt | a :: t => _ <- f a ;; each f t end.

(* members are decoded in the order of the bytes; the harness serialises objects
   with sorted keys: assertionMethod, authentication, ..., verificationMethod *)
Definition diddoc_unmarshal (g : guards) (d : diddocj) : res unit :=
  _ <- each (auth_unmarshal g) (dj_auths d) ;;
  _ <- each (vm_unmarshal g) (dj_vms d) ;;
  if dj_kinds_ok d then Ok tt else Err "diddoc-kind".

(* RevocationStatus: {"issuer": TreeState, "mtp": merkletree.Proof};
   RevocationStatus.UnmarshalJSON (c1afc2d): the members first, then decodeMTP(mtp) *)
Record statusj := mkstatusj { sj_kinds_ok : bool; sj_mtp : option mtpj }.
Definition status_unmarshal (g : guards) (s : statusj) : res unit :=
  if g_mtpjson g then
    if negb (sj_kinds_ok s) then Err "status-kind" else opt_mtp_unmarshal g (sj_mtp s)
  else
    _ <- opt_mtp_unmarshal g (sj_mtp s) ;;
    if sj_kinds_ok s then Ok tt else Err "status-kind".

(* --------------------------------------------------- verification skeletons *)
(* `*string` meant to hold the hex form of a 32-byte hash: nil / undecodable / decodable *)
Inductive hexf := HNil_ | HBad | HGood.

(* the four tree-state members + the two primitive facts about them *)
Record statef := mkstatef {
  s_value : hexf; s_ctr : hexf; s_rtr : hexf; s_ror : hexf;
  s_pos_ok : bool;      (* poseidon.Hash[ctr|0; rtr|0; ror|0] answers without error *)
  s_match : bool        (* ... and equals the value *)
}.

(* validateTreeState *)
Definition validate_tree_state (s : statef) : res bool :=
  match s_value s with
  | HNil_ => Err "state-nil"
  | v =>
      match s_ctr s with HBad => Err "hex" | _ =>
      match s_rtr s with HBad => Err "hex" | _ =>
      match s_ror s with HBad => Err "hex" | _ =>
        if negb (s_pos_ok s) then Err "poseidon" else
        match v with HBad => Err "hex" | _ => Ok (s_match s) end
      end end end
  end.

(* validateIssuerState *)
Definition validate_issuer_state (s : statef) : res unit :=
  ok <- validate_tree_state s ;;
  if ok then Ok tt else Err "issuer-state-inconsistent".

(* what merkletree.RootFromProof did on the decoded proof (library call under
   test conditions): a root (equal or not to the expected one), an error, a panic *)
Inductive libout := LRoot (eq : bool) | LErr | LPanic.

Record mtpf := mkmtpf {
  m_ex : bool;                         (* Existence *)
  m_aux : option (bool * bool);        (* NodeAux: None = nil; (Key <> nil, Value <> nil) *)
  m_lib : libout
}.

(* rootFromMerkleTreeProof, projected to "root equals the expected root" *)
Definition root_from_mtp (g : guards) (p : option mtpf) : res bool :=
  match p with
  | None => Err "proof-nil"
  | Some m =>
      let incomplete := match m_aux m with
                        | Some (k, v) => negb (k && v)
                        | None => false
                        end in
      if g_aux g && incomplete then Err "aux-incomplete" else
      match m_lib m with
      | LRoot e => Ok e
      | LErr => Err "root-from-proof"
      | LPanic => if g_recover g then Err "malformed-proof" else Panic "merkletree.RootFromProof"
      end
  end.

(* verifyMerkleTreeProof (the root key is never nil at its call sites) *)
Definition verify_mtp (g : guards) (p : option mtpf) : res bool :=
  match root_from_mtp g p with
  | Ok e => Ok e
  | Err _ => Ok false
  | Panic w => Panic w
  | Diverge => Diverge
  end.

(* answer of the DID resolver: a transport error, or a document that the resolver
   decodes with json into DIDDocument (HTTPDIDResolver.Resolve) *)
Inductive didans :=
| DErr
| DNull                                (* the HTTP body is the JSON literal null *)
| DDoc (dec : diddocj)                 (* shape of the document, for the decoder *)
       (info : option (option bool)).  (* None: no Iden3StateInfo2023 method; Some p: its `published` pointer *)

Record issuerf := mkissuerf {
  i_did_ok : bool;             (* w3c.ParseDID(issuerData.id) *)
  i_state : statef;
  i_resolve : didans;
  i_id_ok : bool;              (* core.IDFromDID *)
  i_genesis : option bool      (* core.CheckGenesisStateID; None = error *)
}.

(* HTTPDIDResolver.Resolve; the result is projected to what the verifiers look at:
   None = the document has no Iden3StateInfo2023 method, Some p = that method's
   `published` pointer *)
Definition did_resolve (g : guards) (a : didans) : res (option (option bool)) :=
  match a with
  | DErr => Err "did-resolve"
  | DNull => if g_didnull g then Ok None           (* the zero DIDDocument *)
             else Panic "nil dereference: res.DIDDocument"
  | DDoc dec info =>
      match diddoc_unmarshal g dec with
      | Err _ => Err "did-resolve"
      | Panic w => Panic w
      | Diverge => Diverge
      | Ok _ => Ok info
      end
  end.

(* `published or genesis` block shared by the two verifiers, from
   `State.Value == nil` to CheckGenesisStateID *)
Definition check_published (g : guards) (i : issuerf) : res unit :=
  match s_value (i_state i) with
  | HNil_ => if g_value g then Err "state-value-unset" else Panic "nil dereference: *State.Value"
  | HBad => Err "state-value-hex"
  | HGood =>
      info <- did_resolve g (i_resolve i) ;;
      pub <- of_option info "no-stateinfo" ;;    (* getIden3StateInfo2023FromDIDDocument *)
      published <- match pub with
                   | None => if g_published g then Ok false
                             else Panic "nil dereference: *Published"
                   | Some b => Ok b
                   end ;;
      if (published : bool) then Ok tt else
      if negb (i_id_ok i) then Err "id-from-did" else
      match i_genesis i with
      | None => Err "genesis-error"
      | Some false => Err "not-published-not-genesis"
      | Some true => Ok tt
      end
  end.

(* issuerData.credentialStatus as coerceCredentialStatus sees it (an `any` decoded
   from JSON is a map, or something else, or absent = nil interface) *)
Inductive statusraw :=
| RSObj (decodes : bool) (has_type : bool)
| RSOther.

(* resolver answer + the facts ValidateCredentialStatus consults *)
Inductive resolverans :=
| RAErr                                             (* transport / status code / size limit *)
| RAns (dec : statusj) (issuer : statef) (mtp : mtpf).  (* body, decoded by IssuerResolver with json *)

Record statusf := mkstatusf {
  st_raw : statusraw;
  st_nonce_eq : bool;          (* credStatus.RevocationNonce == authClaim.GetRevocationNonce() *)
  st_registered : bool;        (* registry.Get(type) finds a resolver *)
  st_answer : resolverans
}.

(* ValidateCredentialStatus after the option loop *)
Definition validate_status (g : guards) (st : statusf) : res unit :=
  if negb (st_registered st) then Err "status-type" else
  match st_answer st with
  | RAErr => Err "status-resolver"
  | RAns dec iss mtp =>
      _ <- match status_unmarshal g dec with
           | Err _ => Err "status-resolver"
           | other => other
           end ;;
      ok <- validate_tree_state iss ;;
      if negb ok then Err "tree-state" else
      match s_rtr iss with
      | HBad => Err "hex"
      | _ =>
          v <- verify_mtp g (Some mtp) ;;
          if negb v then Err "proof-invalid" else
          if m_ex mtp then Err "revoked" else Ok tt
      end
  end.

(* signature member *)
Inductive sigf := SigErr | SigNilNoErr | SigOk (valid : bool).

Record bjjf := mkbjjf {
  b_auth_ok : bool;            (* issuerData.authCoreClaim decodes (core.Claim.FromHex) *)
  b_sig : sigf;
  b_hihv_ok : bool;            (* coreClaim.HiHv() and the Poseidon of the pair *)
  b_mtp : option mtpf;         (* issuerData.mtp *)
  b_auth_hihv_ok : bool;
  b_issuer : issuerf;
  b_status : statusf
}.

(* verifyAuthClaimInclusion *)
Definition verify_auth_inclusion (g : guards) (b : bjjf) : res unit :=
  match b_mtp b with
  | None => Err "auth-mtp-unset"
  | Some m =>
      if negb (m_ex m) then Err "auth-mtp-not-existence" else
      match s_ctr (i_state (b_issuer b)) with
      | HNil_ => if g_ctr g then Err "claims-root-unset"
                 else Panic "nil dereference: *State.ClaimsTreeRoot"
      | HBad => Err "claims-root-hex"
      | HGood =>
          if negb (b_auth_hihv_ok b) then Err "auth-hihv" else
          v <- verify_mtp g (Some m) ;;
          if v then Ok tt else Err "auth-claim-not-included"
      end
  end.

(* validateAuthClaimRevocation *)
Definition validate_auth_revocation (g : guards) (b : bjjf) : res unit :=
  match st_raw (b_status b) with
  | RSOther => Err "status-format"
  | RSObj false _ => Err "status-json"
  | RSObj true false => Err "status-no-type"
  | RSObj true true =>
      if negb (b_auth_ok b) then Err "auth-claim" else
      if negb (st_nonce_eq (b_status b)) then Err "nonce-mismatch" else
      validate_status g (b_status b)
  end.

(* verifyBJJSignatureProof *)
Definition verify_bjj (g : guards) (b : bjjf) : res unit :=
  if negb (b_auth_ok b) then Err "auth-claim" else
  match b_sig b with
  | SigErr => Err "signature-decode"
  | SigNilNoErr => Ok tt            (* `if err != nil || sig == nil { return err }` *)
  | SigOk valid =>
      if negb (b_hihv_ok b) then Err "hihv" else
      if negb valid then Err "signature-invalid" else
      _ <- verify_auth_inclusion g b ;;
      _ <- validate_issuer_state (i_state (b_issuer b)) ;;
      if negb (i_did_ok (b_issuer b)) then Err "did-parse" else
      _ <- check_published g (b_issuer b) ;;
      validate_auth_revocation g b
  end.

Record smtf := mksmtf {
  sm_issuer : issuerf;
  sm_hihv_ok : bool;
  sm_mtp : option mtpf          (* proof.mtp *)
}.

(* verifyIden3SparseMerkleTreeProof *)
Definition verify_smt (g : guards) (s : smtf) : res unit :=
  if negb (i_did_ok (sm_issuer s)) then Err "did-parse" else
  _ <- check_published g (sm_issuer s) ;;
  if negb (sm_hihv_ok s) then Err "hihv" else
  match sm_mtp s with
  | None => if g_mtp g then Err "mtp-unset" else Panic "nil dereference: proof.MTP"
  | Some m =>
      if negb (m_ex m) then Err "mtp-not-existence" else
      e <- root_from_mtp g (Some m) ;;
      match s_ctr (i_state (sm_issuer s)) with
      | HNil_ => if g_ctr g then Err "claims-root-unset"
                 else Panic "nil dereference: *State.ClaimsTreeRoot"
      | HBad => Err "claims-root-hex"
      | HGood =>
          if negb e then Err "root-differs" else
          validate_issuer_state (i_state (sm_issuer s))
      end
  end.

(* W3CCredential.VerifyProof on a credential as json.Unmarshal delivered it.
   `deep`: some merkle proof of SOME typed proof of the credential has more than 240
   siblings.  Since c1afc2d the decoders reject such a proof (decodeMTP), so the
   credential does not decode and VerifyProof is never reached: with the guard the
   skeleton answers that decode error.  Before, the proof decoded when the siblings
   beyond level 239 were zero, and verifyCredentialCoreClaim -> ToCoreClaim -> Merklize
   -> json.Marshal(vc) -> Proof.MarshalJSON -> SiblingsFromProof indexed the 30-byte
   `notempties` with level/8 and panicked (remarshalObj would have done the same). *)
Inductive proofsel :=
| SelNone                          (* no proof of the requested type *)
| SelBJJ (claim_ok deep bind_ok remarshal_ok : bool) (b : bjjf)
| SelSMT (claim_ok deep bind_ok remarshal_ok : bool) (s : smtf)
| SelOther (claim_ok deep bind_ok : bool).   (* a proof type VerifyProof does not support *)

(* verifyCredentialCoreClaim, as far as totality is concerned *)
Definition binding (g : guards) (deep bind_ok : bool) : res unit :=
  if deep then
    if g_mtpjson g then Err "mtp-too-many-siblings"    (* json.Unmarshal already failed *)
    else Panic "Proof.MarshalJSON: index out of range (more than 240 siblings)"
  else if bind_ok then Ok tt else Err "binding".

Definition verify_proof (g : guards) (p : proofsel) : res unit :=
  match p with
  | SelNone => Err "proof-not-found"
  | SelBJJ c deep bd rm b =>
      if negb c then Err "core-claim" else
      _ <- binding g deep bd ;;
      if negb rm then Err "remarshal" else verify_bjj g b
  | SelSMT c deep bd rm s =>
      if negb c then Err "core-claim" else
      _ <- binding g deep bd ;;
      if negb rm then Err "remarshal" else verify_smt g s
  | SelOther c deep bd =>
      if negb c then Err "core-claim" else
      _ <- binding g deep bd ;; Err "proof-not-supported"
  end.

(* ------------------------------------------ iden3_serialization attribute (untrusted:
   it comes from the schema context).  verifiable.ParseSerializationAttr
   (core_utils.go): prefix, at most 4 '&'-separated parts, each `name=path` with a
   known slot name.  Indexing a Go slice out of range panics: `nth_or_panic`. *)
Fixpoint split_on (sep : ascii) (s : string) (cur : string) : list string :=
  (* strings.Split(s, sep) for a one-byte separator; `cur` accumulates reversed *)
  match s with
  | EmptyString => [cur]
  | String c t =>
      if Ascii.eqb c sep then cur :: split_on sep t EmptyString
      else split_on sep t (cur ++ String c EmptyString)
  end.
Definition go_split (sep : ascii) (s : string) : list string := split_on sep s EmptyString.

Definition nth_or_panic {A} (l : list A) (i : nat) : res A :=
  match nth_error l i with
  | Some a => Ok a
  | None => Panic "index out of range"
  end.

Fixpoint strip_prefix (p s : string) : option string :=
  match p, s with
  | EmptyString, _ => Some s
  | String a p', String b s' => if Ascii.eqb a b then strip_prefix p' s' else None
  | String _ _, EmptyString => None
  end.

Record slot_paths := mkslots { sp_ia : string; sp_ib : string; sp_va : string; sp_vb : string }.

(* exact_two = true: the check is `len(kv) != 2` (the code in /repo);
   false: `len(kv) > 2` - a slot name without '=' then reaches kv[1] *)
Fixpoint ser_parts (exact_two : bool) (parts : list string) (acc : slot_paths) : res slot_paths :=
  match parts with
  | [] => Ok acc
  | part :: rest =>
      let kv := go_split "="%char part in
      let n := List.length kv in
      if (if exact_two then negb (Nat.eqb n 2) else Nat.ltb 2 n) then Err "part-format" else
      k <- nth_or_panic kv 0 ;;
      (if String.eqb k "slotIndexA" then
         v <- nth_or_panic kv 1 ;; ser_parts exact_two rest (mkslots v (sp_ib acc) (sp_va acc) (sp_vb acc))
       else if String.eqb k "slotIndexB" then
         v <- nth_or_panic kv 1 ;; ser_parts exact_two rest (mkslots (sp_ia acc) v (sp_va acc) (sp_vb acc))
       else if String.eqb k "slotValueA" then
         v <- nth_or_panic kv 1 ;; ser_parts exact_two rest (mkslots (sp_ia acc) (sp_ib acc) v (sp_vb acc))
       else if String.eqb k "slotValueB" then
         v <- nth_or_panic kv 1 ;; ser_parts exact_two rest (mkslots (sp_ia acc) (sp_ib acc) (sp_va acc) v)
       else Err "unknown-slot")
  end.

Definition parse_ser_attr_with (exact_two : bool) (attr : string) : res slot_paths :=
  match strip_prefix "iden3:v1:" attr with
  | None => Err "prefix"
  | Some body =>
      let parts := go_split "&"%char body in
      if Nat.ltb 4 (List.length parts) then Err "too-many-parts"
      else ser_parts exact_two parts (mkslots "" "" "" "")
  end.
Definition parse_ser_attr (attr : string) : res slot_paths := parse_ser_attr_with true attr.

(* ------------------------------------------- merklize pathFromDocument (merklize.go):
   the walk of a dotted path through a JSON document, as far as totality goes.  What
   the JSON-LD context says about a term is data (`defined`: the term has a string
   @id; scoped contexts that redefine terms along the way are not modelled).  The two
   slice accesses, arr[i] and docObjT[0], are `nth_or_panic`. *)
Inductive jv := JVNull | JVScalar | JVArr (l : list jv) | JVObj (m : list (string * jv)).

(* one path segment: ^\d+$ (with its value) or anything else *)
Inductive seg := SNum (z : Z) | SName (s : string).

Inductive pathpart := PPName (s : string) | PPIdx (z : Z).

Record pvariant := mkpv {
  pv_zero_len : bool;   (* true: `len(docObjT) == 0` (the code);  false: `docObjT == nil`, never true for JSON [] *)
  pv_bound_ge : bool    (* true: `i64 >= len(arr)` (the code);    false: `idx > len(arr)` *)
}.
Definition pv_repo : pvariant := mkpv true true.

Fixpoint obj_get (m : list (string * jv)) (k : string) : jv :=
  match m with
  | [] => JVNull                      (* a missing member reads as nil *)
  | (a, v) :: t => if String.eqb a k then v else obj_get t k
  end.

Fixpoint path_from_doc (pv : pvariant) (defined : string -> bool) (parts : list seg) (doc : jv)
         (accept_array : bool) : res (list pathpart) :=
  match parts with
  | [] => Ok []
  | SNum i :: rest =>
      if 2147483647 <? i then Err "parse-int" else
      match doc with
      | JVArr arr =>
          let n := Z.of_nat (List.length arr) in
          if (if pv_bound_ge pv then n <=? i else n <? i) then Err "index-out-of-range" else
          e <- nth_or_panic arr (Z.to_nat i) ;;
          more <- path_from_doc pv defined rest e false ;;
          Ok (PPIdx i :: more)
      | other =>
          more <- path_from_doc pv defined rest other true ;;
          Ok (PPIdx i :: more)
      end
  | SName term :: rest =>
      (* an array is entered once (its first element); a second array right below is refused *)
      let enter (v : jv) (accept : bool) : res jv :=
        match v with
        | JVArr l =>
            if pv_zero_len pv && Nat.eqb (List.length l) 0 then Err "zero-sized-array" else
            if negb accept then Err "unexpected-array" else nth_or_panic l 0
        | other => Ok other
        end in
      v1 <- enter doc accept_array ;;
      v2 <- (match doc with JVArr _ => enter v1 false | _ => Ok v1 end) ;;
      match v2 with
      | JVObj m =>
          if negb (defined term) then Err "no-term-id" else
          more <- path_from_doc pv defined rest (obj_get m term) true ;;
          Ok (PPName term :: more)
      | JVArr _ => Err "unexpected-array"
      | _ => Err "not-array-or-object"
      end
  end.
