(* Total/Statements.v — the theorems of Total/Theory.v and Total/RDFLink.v in exactly
   the form in which Properties/C12.v restates them (outcome classes spelled out
   with Base.Prelude.class_of).  One lemma per property theorem. *)
From Coq Require Import ZArith List String Ascii Bool Arith Lia.
From GSP Require Import Base.Prelude Value.Time Value.Model RDF.Model RDF.Spec
  Total.Model Total.Theory Total.RDFLink.
Import ListNotations.
Open Scope string_scope.
Open Scope Z_scope.

Lemma c12_hash_value_total :
  forall (P : prim) (F : floats) (dt : string) (v : goval),
  prim_ok P -> floats_ok F -> p_prime P <> 0 ->
  (exists z, hash_value all_guards P F dt v = Ok (Some z)) \/
  (exists t, hash_value all_guards P F dt v = Err t).
Proof.
  intros P F dt v HP HF Hq. apply some_or_err_spec. apply hash_value_total; assumption.
Qed.

Lemma c12_merklize_tail_total :
  forall (T : Type) (tadd : T -> Z -> Z -> option T) (P : prim) (t0 : T) (es : list wentry) (compact_ok : bool),
  prim_ok P -> p_prime P <> 0 ->
  (class_of (merklize_tail T tadd all_guards P t0 es compact_ok) = COk \/ class_of (merklize_tail T tadd all_guards P t0 es compact_ok) = CErr).
Proof.
  intros. apply ok_or_err_class. apply merklize_tail_total; assumption.
Qed.

Lemma c12_rdfentry_unmarshal_total :
  forall s : list tok, (class_of (rdfentry_unmarshal s) = COk \/ class_of (rdfentry_unmarshal s) = CErr).
Proof.
  intros. apply ok_or_err_class. apply rdfentry_unmarshal_total.
Qed.

Lemma c12_merklizer_unmarshal_total :
  forall (T : Type) (tadd : T -> Z -> Z -> option T) (P : prim) (t0 : T) (len_in : Z) (given : option Z) (s : list tok),
  prim_ok P -> p_prime P <> 0 -> 0 <= len_in ->
  (class_of (fst (merklizer_unmarshal T tadd all_guards P t0 len_in given s)) = COk \/ class_of (fst (merklizer_unmarshal T tadd all_guards P t0 len_in given s)) = CErr) /\
  (0 <= snd (merklizer_unmarshal T tadd all_guards P t0 len_in given s) /\ snd (merklizer_unmarshal T tadd all_guards P t0 len_in given s) <= 1 * len_in).
Proof.
  intros T tadd P t0 len_in given s HP Hq Hl. destruct (merklizer_unmarshal_total T tadd P t0 len_in given s HP Hq Hl) as [H1 [H2 H3]]. split; [apply ok_or_err_class; exact H1|split; [exact H2|lia]].
Qed.

Lemma c12_entries_from_rdf_total :
  forall (F : floats) (prime : Z) (ds : dataset),
  floats_ok F -> (class_of (entries_from_rdf F prime ds) = COk \/ class_of (entries_from_rdf F prime ds) = CErr).
Proof.
  intros. apply ok_or_err_class. apply entries_from_rdf_total; assumption.
Qed.

Lemma c12_walk_fuel_bound :
  forall (fuel : nat) (r : rel) (ds : dataset) (i : didx) (q : quad) (k : list part),
  quad_at ds i = Some q -> (total_quads ds < fuel)%nat -> walk fuel r ds [i] i k <> Diverge.
Proof.
  exact walk_fuel_bound.
Qed.

Lemma c12_cycles_are_errors :
  class_of (entries_from_rdf demo_floats 97 cycle1) = CErr /\
  class_of (entries_from_rdf demo_floats 97 cycle2) = CErr /\
  class_of (entries_from_rdf demo_floats 97 cycle3) = CErr.
Proof.
  exact cycles_are_errors.
Qed.

Lemma c12_decode_mtp_total :
  forall p : mtpj, (class_of (decode_mtp all_guards p) = COk \/ class_of (decode_mtp all_guards p) = CErr).
Proof.
  intros. apply ok_or_err_class. apply decode_mtp_total.
Qed.

Lemma c12_dependency_decoder_total_iff_safe :
  forall p : mtpj,
  (mtpj_safe p = true -> (class_of (mt_proof_unmarshal p) = COk \/ class_of (mt_proof_unmarshal p) = CErr)) /\
  (mtpj_safe p = false -> exists w, mt_proof_unmarshal p = Panic w).
Proof.
  intros p. split; [intros H; apply ok_or_err_class; apply mt_proof_unmarshal_total; assumption|apply mt_proof_unmarshal_panics].
Qed.

Lemma c12_proofs_unmarshal_total :
  forall j : proofsj, (class_of (proofs_unmarshal all_guards j) = COk \/ class_of (proofs_unmarshal all_guards j) = CErr).
Proof.
  intros. apply ok_or_err_class. apply proofs_unmarshal_total.
Qed.

Lemma c12_cred_unmarshal_total :
  forall c : credj, (class_of (cred_unmarshal all_guards c) = COk \/ class_of (cred_unmarshal all_guards c) = CErr).
Proof.
  intros. apply ok_or_err_class. apply cred_unmarshal_total.
Qed.

Lemma c12_diddoc_unmarshal_total :
  forall d : diddocj, (class_of (diddoc_unmarshal all_guards d) = COk \/ class_of (diddoc_unmarshal all_guards d) = CErr).
Proof.
  intros. apply ok_or_err_class. apply diddoc_unmarshal_total.
Qed.

Lemma c12_status_unmarshal_total :
  forall s : statusj, (class_of (status_unmarshal all_guards s) = COk \/ class_of (status_unmarshal all_guards s) = CErr).
Proof.
  intros. apply ok_or_err_class. apply status_unmarshal_total.
Qed.

Lemma c12_gist_unmarshal_total :
  forall v : vmj, (class_of (vm_unmarshal all_guards v) = COk \/ class_of (vm_unmarshal all_guards v) = CErr).
Proof.
  intros. apply ok_or_err_class. apply vm_unmarshal_total.
Qed.

Lemma c12_auth_unmarshal_total :
  forall a : authj, (class_of (auth_unmarshal all_guards a) = COk \/ class_of (auth_unmarshal all_guards a) = CErr).
Proof.
  intros. apply ok_or_err_class. apply auth_unmarshal_total.
Qed.

Lemma c12_did_resolve_total :
  forall a : didans, (class_of (did_resolve all_guards a) = COk \/ class_of (did_resolve all_guards a) = CErr).
Proof.
  intros. apply ok_or_err_class. apply did_resolve_total.
Qed.

Lemma c12_validate_status_total :
  forall st : statusf, (class_of (validate_status all_guards st) = COk \/ class_of (validate_status all_guards st) = CErr).
Proof.
  intros. apply ok_or_err_class. apply validate_status_total.
Qed.

Lemma c12_verify_bjj_total :
  forall b : bjjf, (class_of (verify_bjj all_guards b) = COk \/ class_of (verify_bjj all_guards b) = CErr).
Proof.
  intros. apply ok_or_err_class. apply verify_bjj_total.
Qed.

Lemma c12_verify_smt_total :
  forall s : smtf, (class_of (verify_smt all_guards s) = COk \/ class_of (verify_smt all_guards s) = CErr).
Proof.
  intros. apply ok_or_err_class. apply verify_smt_total.
Qed.

Lemma c12_verify_proof_total :
  forall p : proofsel, (class_of (verify_proof all_guards p) = COk \/ class_of (verify_proof all_guards p) = CErr).
Proof.
  intros. apply ok_or_err_class. apply verify_proof_total.
Qed.

Lemma c12_guards_are_needed :
  (* 58805e9 *) (exists P F, hash_value (g_without 0) P F xsd_string (GStr "") = Ok None) /\
  (* ca7ff03 *) (exists P s, class_of (fst (merklizer_unmarshal (list Z) demo_tadd (g_without 1) P [] 40 None s)) = CPanic) /\
  (* ca7ff03 *) (exists P s, snd (merklizer_unmarshal (list Z) demo_tadd (g_without 1) P [] 40 None s) = 2 ^ 40) /\
  (* f02e04b *) (exists s, class_of (verify_smt (g_without 2) s) = CPanic) /\
  (* f02e04b *) (exists s, class_of (verify_smt (g_without 3) s) = CPanic) /\
  (* f02e04b *) (exists s, class_of (verify_smt (g_without 4) s) = CPanic) /\
  (* f02e04b *) (exists s, class_of (verify_smt (g_without 5) s) = CPanic) /\
  (* 88617d1 *) (exists s, class_of (verify_smt (g_without 7) s) = CPanic) /\
  (* 132912a *) (exists a, class_of (auth_unmarshal (g_without 8) a) = CPanic) /\
  (* e2efde3 *) (exists s, class_of (verify_smt (g_without 9) s) = CPanic) /\
  (* c1afc2d *) (exists j, class_of (proofs_unmarshal (g_without 10) j) = CPanic) /\
  (* c1afc2d *) (exists p, class_of (verify_proof (g_without 10) p) = CPanic) /\
  (* c1afc2d *) (exists s, class_of (verify_smt (g_without 10) s) = CPanic).
Proof.
  repeat split.
  - exists demo_prim, demo_floats. exact hash_value_refuted.
  - exists demo_prim. eexists. change (g_without 1) with no_count_guard. rewrite merklizer_count_negative_refuted. reflexivity.
  - exists demo_prim. eexists. change (g_without 1) with no_count_guard. exact merklizer_count_huge_refuted.
  - eexists. rewrite smt_value_guard_refuted. reflexivity.
  - eexists. rewrite smt_mtp_guard_refuted. reflexivity.
  - eexists. rewrite smt_ctr_guard_refuted. reflexivity.
  - eexists. rewrite published_guard_refuted. reflexivity.
  - eexists. rewrite recover_guard_refuted. reflexivity.
  - exists AEmpty. reflexivity.
  - eexists. rewrite didnull_guard_refuted. reflexivity.
  - eexists. rewrite proofs_unmarshal_refuted. reflexivity.
  - eexists. rewrite verify_proof_deep_refuted. reflexivity.
  - eexists. rewrite verify_proof_unsafe_answer_refuted. reflexivity.
Qed.

Lemma c12_redundant_guards :
  (forall p, (class_of (root_from_mtp (g_without 6) p) = COk \/ class_of (root_from_mtp (g_without 6) p) = CErr)) /\
  (forall b, (class_of (verify_bjj (g_without 2) b) = COk \/ class_of (verify_bjj (g_without 2) b) = CErr)).
Proof.
  split; intros; apply ok_or_err_class; [apply aux_guard_redundant|apply bjj_value_guard_redundant].
Qed.

Lemma c12_path_mt_entry_total :
  forall (P : prim) (l : list wpart),
  prim_ok P ->
  (exists z, path_mt_entry all_guards P l = Ok (Some z)) \/
  (exists t, path_mt_entry all_guards P l = Err t).
Proof.
  intros P l HP. apply some_or_err_spec. apply path_mt_entry_some_or_err; assumption.
Qed.

Lemma c12_rdfentry_key_value_total :
  forall (P : prim) (s : list tok),
  prim_ok P -> p_prime P <> 0 ->
  (exists k v, rdfentry_key_value all_guards P s = Ok (Some k, Some v)) \/
  (exists t, rdfentry_key_value all_guards P s = Err t).
Proof.
  intros P s HP Hq. pose proof (rdfentry_key_value_total P s HP Hq) as H.
  destruct (rdfentry_key_value all_guards P s) as [[[k|] [v|]]|t|w|]; try contradiction; eauto.
Qed.

Lemma c12_empty_key_part_needs_the_guard :
  exists P l, class_of (path_mt_entry (g_without 0) P l) = CPanic.
Proof.
  exists demo_prim. eexists. change (g_without 0) with no_empty_guard. rewrite empty_key_part_refuted. reflexivity.
Qed.

Lemma c12_claims_root_check_needed_for_consistent_states :
  class_of (validate_issuer_state consistent_state_without_ctr) = COk /\
  (exists s, i_state (sm_issuer s) = consistent_state_without_ctr /\
             class_of (verify_smt (g_without 4) s) = CPanic) /\
  (exists b, i_state (b_issuer b) = consistent_state_without_ctr /\
             class_of (verify_bjj (g_without 4) b) = CPanic).
Proof.
  split; [reflexivity|]. split.
  - eexists. split; [|rewrite smt_ctr_guard_refuted_consistent; reflexivity]. reflexivity.
  - exists bjj_without_ctr. split; [reflexivity|rewrite bjj_ctr_guard_refuted_consistent; reflexivity].
Qed.

Lemma c12_member_lookup_must_be_case_insensitive :
  exists p : mtpj,
    class_of (decode_mtp_with true all_guards p) = CPanic /\ class_of (decode_mtp all_guards p) = CErr.
Proof.
  exists capital_siblings. split; vm_compute; reflexivity.
Qed.

Lemma c12_ser_attr_total :
  forall attr : string, (class_of (parse_ser_attr attr) = COk \/ class_of (parse_ser_attr attr) = CErr).
Proof.
  intros. apply ok_or_err_class. apply ser_attr_total.
Qed.

Lemma c12_ser_attr_refuted :
  class_of (parse_ser_attr_with false "iden3:v1:slotIndexA=price&slotValueB") = CPanic /\
  class_of (parse_ser_attr "iden3:v1:slotIndexA=price&slotValueB") = CErr.
Proof.
  split; vm_compute; reflexivity.
Qed.

Lemma c12_doc_path_total :
  forall (defined : string -> bool) (parts : list seg) (doc : jv) (accept_array : bool),
  Forall (fun s => match s with SNum z => 0 <= z | SName _ => True end) parts ->
  (class_of (path_from_doc pv_repo defined parts doc accept_array) = COk \/ class_of (path_from_doc pv_repo defined parts doc accept_array) = CErr).
Proof.
  intros. apply ok_or_err_class. apply doc_path_total. assumption.
Qed.

Lemma c12_doc_path_refuted :
  class_of (path_from_doc (mkpv false true) all_defined [SName "items"; SName "label"] items_empty false) = CPanic /\
  class_of (path_from_doc pv_repo all_defined [SName "items"; SName "label"] items_empty false) = CErr /\
  class_of (path_from_doc (mkpv true false) all_defined [SName "items"; SNum 2]
              (JVObj [("items", JVArr [JVScalar; JVScalar])]) false) = CPanic.
Proof.
  repeat split; vm_compute; reflexivity.
Qed.

