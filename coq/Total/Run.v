(* Total/Run.v — evaluation of per-run case files for the totality skeletons
   (property C12).  A case is (id, input, observed class of the implementation);
   `tmismatches` lists the ids on which the skeleton's outcome class differs.
   Classes: 0 result, 1 error, 2 panic, 3 no answer before the watchdog,
   4 (nil, nil).  A table miss is class 9: it agrees with nothing. *)
From Coq Require Import ZArith List String Ascii Bool Uint63.
From GSP Require Import Base.Prelude Base.Decode Value.Time Value.Model Value.Run Total.Model.
Import ListNotations.
Open Scope list_scope.

(* ---- recorded primitives ---- *)
Inductive thres := TV (l : limbs) | TE | TNil.
Record raw_prim := mkrawprim {
  rp_prime : limbs;
  rp_hash  : list (list snum * thres);     (* poseidon.Hash *)
  rp_bytes : list (string * thres)         (* poseidon.HashBytes *)
}.
Definition hres_of (t : thres) : hres :=
  match t with TV l => HV (z_of_limbs l) | TE => HE | TNil => HNil end.

Fixpoint lookup_zs (k : list Z) (t : list (list Z * hres)) : hres :=
  match t with
  | [] => HMiss
  | (a, b) :: r => if zlist_eqb a k then b else lookup_zs k r
  end.

Definition mk_prim (r : raw_prim) : prim :=
  let ht := map (fun kv => (map z_of_snum (fst kv), hres_of (snd kv))) (rp_hash r) in
  let bt := map (fun kv => (fst kv, hres_of (snd kv))) (rp_bytes r) in
  mkprim (z_of_limbs (rp_prime r))
         (fun k => lookup_zs k ht)
         (fun s => match lookup_s s bt with Some h => h | None => HMiss end).

(* ---- the tree behind the merklizer, as far as totality is concerned: the set
   of keys; inserting an existing key is an error (ErrEntryIndexAlreadyExists) ---- *)
Definition ktree := list Z.
Definition kadd (t : ktree) (k v : Z) : option ktree :=
  if existsb (Z.eqb k) t then None else Some (k :: t).

(* ---- raw inputs ---- *)
Inductive rpart := RWS (s : string) | RWI (z : snum) | RWO.
Definition wpart_of (r : rpart) : wpart :=
  match r with RWS s => WStr s | RWI z => WInt (z_of_snum z) | RWO => WOther end.

Inductive rtok :=
| RInt (z : snum) | RUint (z : snum) | RBool (b : bool) | RStr (s : string)
| RBytes (j : jclass) | RBig (z : snum) | RTime (u n : snum)
| RParts (l : list rpart) | REntry (inner : list rtok) | RJunk.

Fixpoint tok_of (r : rtok) : tok :=
  match r with
  | RInt z => TInt (z_of_snum z)
  | RUint z => TUint (z_of_snum z)
  | RBool b => TBool b
  | RStr s => TStr s
  | RBytes j => TBytes j
  | RBig z => TBig (z_of_snum z)
  | RTime u n => TTime (z_of_snum u) (z_of_snum n)
  | RParts l => TParts (map wpart_of l)
  | REntry inner => TEntry (map tok_of inner)
  | RJunk => TJunk
  end.

Definition rwentry := (list rpart * raw_xval)%type.
Definition wentry_of (r : rwentry) : wentry := mkwentry (map wpart_of (fst r)) (xval_of (snd r)).

Inductive rseg := RSNum (z : snum) | RSName (s : string).
Definition seg_of (r : rseg) : seg :=
  match r with RSNum z => SNum (z_of_snum z) | RSName s => SName s end.

Inductive tinput :=
| IVerify (p : proofsel)                     (* W3CCredential.VerifyProof *)
| IStatus (s : statusf)                      (* ValidateCredentialStatus *)
| ICred (c : credj)                          (* json.Unmarshal into W3CCredential *)
| IProofs (j : proofsj)                      (* ... into CredentialProofs *)
| IDidDoc (d : diddocj)                      (* ... into DIDDocument *)
| IStatusJ (s : statusj)                     (* ... into RevocationStatus *)
| IGist (v : vmj)                            (* ... into GistInfoProof *)
| IAuth (a : authj)                          (* Authentication.UnmarshalJSON *)
| IResolve (a : didans)                      (* HTTPDIDResolver.Resolve *)
| IMz (len_in : snum) (given : option limbs) (toks : list rtok)   (* MerklizerFromBytes *)
| IEntry (toks : list rtok)                  (* RDFEntry.UnmarshalBinary *)
| ITail (es : list rwentry) (compact_ok : bool)   (* MerklizeJSONLD after EntriesFromRDF *)
| IHash (dt : string) (v : raw_goval)        (* merklize.HashValue *)
| IPath (l : list rpart)                     (* Path.MtEntry / Merklizer.Entry / Proof on a caller-supplied path *)
| IEntryKV (toks : list rtok)                (* RDFEntry.UnmarshalBinary ; KeyValueMtEntries *)
| ISerAttr (attr : string)                   (* verifiable.ParseSerializationAttr *)
| IDocPath (defined : list string) (doc : jv) (segs : list rseg).   (* merklize.NewPathFromDocument *)

Definition code {A} (r : res A) : int :=
  match r with
  | Ok _ => 0%uint63
  | Err _ => 1%uint63
  | Panic w => if String.eqb w miss || String.eqb w miss_tag then 9%uint63 else 2%uint63
  | Diverge => 3%uint63
  end.

Definition run_input (P : prim) (F : floats) (i : tinput) : int :=
  let g := all_guards in
  match i with
  | IVerify p => code (verify_proof g p)
  | IStatus s => code (validate_status g s)
  | ICred c => code (cred_unmarshal g c)
  | IProofs j => code (proofs_unmarshal g j)
  | IDidDoc d => code (diddoc_unmarshal g d)
  | IStatusJ s => code (status_unmarshal g s)
  | IGist v => code (vm_unmarshal g v)
  | IAuth a => code (auth_unmarshal g a)
  | IResolve a => code (did_resolve g a)
  | IMz n given toks =>
      code (fst (merklizer_unmarshal ktree kadd g P [] (z_of_snum n)
                   (match given with Some l => Some (z_of_limbs l) | None => None end)
                   (map tok_of toks)))
  | IEntry toks => code (rdfentry_unmarshal (map tok_of toks))
  | ITail es c => code (merklize_tail ktree kadd g P [] (map wentry_of es) c)
  | IHash dt v =>
      match hash_value g P F dt (goval_of v) with
      | Ok None => 4%uint63
      | r => code r
      end
  | IPath l =>
      match path_mt_entry g P (map wpart_of l) with
      | Ok None => 4%uint63
      | r => code r
      end
  | ISerAttr attr => code (parse_ser_attr attr)
  | IDocPath defined doc segs =>
      code (path_from_doc pv_repo (fun t => existsb (String.eqb t) defined) (map seg_of segs) doc false)
  | IEntryKV toks =>
      match rdfentry_key_value g P (map tok_of toks) with
      | Ok (None, _) | Ok (_, None) => 4%uint63
      | r => code r
      end
  end.

Definition tcase := (int * tinput * int)%type.

Definition tmismatches (rp : raw_prim) (rf : raw_floats) (cs : list tcase) : list int :=
  let P := mk_prim rp in
  let F := mk_floats rf in
  fold_right (fun c acc =>
      let '(id, i, obs) := c in
      if Uint63.eqb (run_input P F i) obs then acc else id :: acc) [] cs.
