(* Total/Theory.v — totality theorems for the skeletons of Total/Model.v
   (property C12): with the guards that are in /repo now, every entry point
   answers Ok or Err for EVERY value the decoders can deliver; the allocation
   requested by Merklizer.UnmarshalBinary is bounded by the input length.
   For every guard there is a `_refuted` lemma: without it some input panics
   (or, for the count guard, requests unbounded memory) — the Panic outcomes of
   the model are reachable.  Two hypotheses remain and are refuted without them:
   the dependency's proof decoder is only total on `mtpj_safe` inputs (D12), and
   VerifyProof re-marshals the selected proof, which panics on a proof with more
   than 240 siblings (`deep`). *)
From Coq Require Import ZArith List String Ascii Bool Arith Lia.
From GSP Require Import Base.Prelude Value.Time Value.Model Total.Model.
Import ListNotations.
Open Scope Z_scope.

(* ---- the statement ---- *)
Definition ok_or_err {A} (r : res A) : Prop :=
  match r with Ok _ | Err _ => True | _ => False end.

Lemma ok_or_err_class {A} (r : res A) :
  ok_or_err r <-> (class_of r = COk \/ class_of r = CErr).
Proof.
  destruct r; simpl; split; intro H; auto; try (destruct H; discriminate); try contradiction.
Qed.

Lemma ooe_bind {A B} (r : res A) (f : A -> res B) :
  ok_or_err r -> (forall a, r = Ok a -> ok_or_err (f a)) -> ok_or_err (bind r f).
Proof. destruct r; simpl; intros H Hf; auto; contradiction. Qed.

Ltac ooe := simpl; try exact I; auto.

(* result that is a non-nil element, or an error: never (nil, nil) *)
Definition some_or_err (r : res elem) : Prop :=
  match r with Ok (Some _) | Err _ => True | _ => False end.

Lemma some_or_err_spec (r : res elem) :
  some_or_err r <-> ((exists z, r = Ok (Some z)) \/ (exists t, r = Err t)).
Proof.
  destruct r as [[z|]|t|w|]; simpl; split; intro H; auto;
    try (destruct H as [[x H]|[x H]]; discriminate); try contradiction; eauto.
Qed.

(* ---- assumptions about external code, made explicit ---- *)
(* the recorded tables are complete, and poseidon.Hash never answers (nil, nil) *)
Definition prim_ok (P : prim) : Prop :=
  (forall l, p_hash P l <> HMiss /\ p_hash P l <> HNil) /\ (forall s, p_bytes P s <> HMiss).

Definition floats_ok (F : floats) : Prop :=
  (forall s, f_parse F s <> None) /\ (forall b, f_canon F b <> None) /\ (forall z, f_of_int F z <> None).

(* ------------------------------------------------------------------ hashing *)
Lemma hasher_bytes_total P s : prim_ok P -> some_or_err (hasher_bytes all_guards P s).
Proof.
  intros [_ Hb]. unfold hasher_bytes. specialize (Hb s).
  destruct (p_bytes P s); simpl; auto.
Qed.

Lemma all_some_map_some l : all_some (map Some l) = Some l.
Proof. induction l as [|a l IH]; simpl; [reflexivity|]. rewrite IH. reflexivity. Qed.

Lemma hasher_hash_total P (zs : list Z) : prim_ok P -> some_or_err (hasher_hash P (map Some zs)).
Proof.
  intros [Hh _]. unfold hasher_hash. rewrite all_some_map_some.
  destruct (Hh zs) as [H1 H2]. destruct (p_hash P zs); simpl; auto.
Qed.

Lemma mk_value_total P v : prim_ok P -> p_prime P <> 0 -> some_or_err (mk_value all_guards P v).
Proof.
  intros HP Hq. destruct v as [b|z|z|u n|s]; simpl.
  - exact (hasher_hash_total P [if b then 1 else 0] HP).
  - repeat match goal with |- context [if ?c then _ else _] => destruct c end; simpl; exact I.
  - exact I.
  - destruct (p_prime P =? 0) eqn:E; simpl; auto. apply Z.eqb_eq in E. contradiction.
  - apply hasher_bytes_total; assumption.
Qed.

(* the value model's own functions never panic when the float tables are complete *)
Lemma any_to_string_ooe F v dt : floats_ok F -> ok_or_err (any_to_string F v dt).
Proof.
  intros (Hp & Hc & Hi). unfold any_to_string, int_to_double_str.
  repeat match goal with
  | |- ok_or_err (match f_parse F ?s with _ => _ end) =>
      let E := fresh "E" in destruct (f_parse F s) as [[?|]|] eqn:E; [| |exfalso; eapply Hp; eauto]
  | |- ok_or_err (match f_canon F ?b with _ => _ end) =>
      let E := fresh "E" in destruct (f_canon F b) eqn:E; [|exfalso; eapply Hc; eauto]
  | |- ok_or_err (match f_of_int F ?z with _ => _ end) =>
      let E := fresh "E" in destruct (f_of_int F z) eqn:E; [|exfalso; eapply Hi; eauto]
  | |- ok_or_err (if ?c then _ else _) => destruct c
  | |- ok_or_err (match ?x with _ => _ end) => destruct x
  | |- ok_or_err _ => exact I
  end.
Qed.

Lemma convert_ooe F dt s p : floats_ok F -> ok_or_err (convert F dt s p).
Proof.
  intros (Hp & Hc & Hi). unfold convert.
  repeat match goal with
  | |- ok_or_err (match f_parse F ?s with _ => _ end) =>
      let E := fresh "E" in destruct (f_parse F s) as [[?|]|] eqn:E; [| |exfalso; eapply Hp; eauto]
  | |- ok_or_err (match f_canon F ?b with _ => _ end) =>
      let E := fresh "E" in destruct (f_canon F b) eqn:E; [|exfalso; eapply Hc; eauto]
  | |- ok_or_err (let '(_, _) := ?x in _) => destruct x
  | |- ok_or_err (if ?c then _ else _) => destruct c
  | |- ok_or_err (match ?x with _ => _ end) => destruct x
  | |- ok_or_err _ => exact I
  end.
Qed.

(* merklize.HashValue: a field element or an error, never (nil, nil), never a panic *)
Theorem hash_value_total P F dt v :
  prim_ok P -> floats_ok F -> p_prime P <> 0 -> some_or_err (hash_value all_guards P F dt v).
Proof.
  intros HP HF Hq. unfold hash_value.
  pose proof (any_to_string_ooe F v dt HF) as H1.
  destruct (any_to_string F v dt) as [s| | |]; simpl in *; try exact I; try contradiction.
  pose proof (convert_ooe F dt s (p_prime P) HF) as H2.
  destruct (convert F dt s (p_prime P)) as [x| | |]; simpl in *; try exact I; try contradiction.
  apply mk_value_total; assumption.
Qed.

(* without the guard of 58805e9 the empty string gives (nil, nil) *)
Definition no_empty_guard : guards := mkguards false true true true true true true true true true true.
Definition demo_prim : prim :=
  mkprim 97 (fun l => HV (fold_right Z.add 1 l mod 97))
         (fun s => if String.eqb s "" then HNil else HV (Z.of_nat (String.length s))).
Definition demo_floats : floats :=
  {| f_parse := fun _ => Some None; f_canon := fun _ => Some ""%string; f_of_int := fun _ => Some 0 |}.

Lemma demo_prim_ok : prim_ok demo_prim.
Proof.
  split; [intros l; split; discriminate|].
  intros s. simpl. destruct (String.eqb s ""); discriminate.
Qed.
Lemma demo_floats_ok : floats_ok demo_floats.
Proof. repeat split; intros; discriminate. Qed.

Lemma hash_value_refuted :
  hash_value no_empty_guard demo_prim demo_floats xsd_string (GStr "") = Ok None.
Proof. vm_compute. reflexivity. Qed.

Example hash_value_total_example :
  hash_value all_guards demo_prim demo_floats xsd_string (GStr "") = Err "empty-message"
  /\ hash_value all_guards demo_prim demo_floats xsd_string (GStr "abc") = Ok (Some 3).
Proof. split; vm_compute; reflexivity. Qed.

(* ------------------------------------------------- entries, tree, merklizer *)
Lemma parts_elems_total P l :
  prim_ok P ->
  match parts_elems all_guards P l with
  | Ok es => exists zs, es = map Some zs
  | Err _ => True
  | _ => False
  end.
Proof.
  intros HP. induction l as [|p t IH]; simpl.
  - exists []. reflexivity.
  - destruct p as [s|z|].
    + pose proof (hasher_bytes_total P s HP) as Hb.
      destruct (hasher_bytes all_guards P s) as [[z|]| | |]; simpl in *; try exact I; try contradiction.
      destruct (parts_elems all_guards P t) as [es| | |]; simpl in *; try exact I; try contradiction.
      destruct IH as [zs ->]. exists (z :: zs). reflexivity.
    + simpl. destruct (parts_elems all_guards P t) as [es| | |]; simpl in *; try exact I; try contradiction.
      destruct IH as [zs ->]. exists (z :: zs). reflexivity.
    + simpl. exact I.
Qed.

Lemma path_mt_entry_total P l : prim_ok P -> some_or_err (path_mt_entry all_guards P l).
Proof.
  intros HP. unfold path_mt_entry. pose proof (parts_elems_total P l HP) as H.
  destruct (parts_elems all_guards P l) as [es| | |]; simpl in *; try exact I; try contradiction.
  destruct H as [zs ->]. apply hasher_hash_total. assumption.
Qed.

Section TreeTheory.
Variable T : Type.
Variable tadd : T -> Z -> Z -> option T.

Lemma add_entries_total P t es :
  prim_ok P -> p_prime P <> 0 -> ok_or_err (add_entries T tadd all_guards P t es).
Proof.
  intros HP Hq. revert t. induction es as [|e r IH]; intros t; simpl; [exact I|].
  pose proof (path_mt_entry_total P (w_parts e) HP) as Hk.
  destruct (path_mt_entry all_guards P (w_parts e)) as [[k|]| | |]; simpl in *; try exact I; try contradiction.
  pose proof (mk_value_total P (w_val e) HP Hq) as Hv.
  destruct (mk_value all_guards P (w_val e)) as [[v|]| | |]; simpl in *; try exact I; try contradiction.
  destruct (tadd t k v); simpl; [apply IH|exact I].
Qed.

Lemma key_strings_total P es : prim_ok P -> ok_or_err (key_strings all_guards P es).
Proof.
  intros HP. induction es as [|e r IH]; simpl; [exact I|].
  pose proof (path_mt_entry_total P (w_parts e) HP) as Hk.
  destruct (path_mt_entry all_guards P (w_parts e)) as [[k|]| | |]; simpl in *; try exact I; try contradiction.
  exact IH.
Qed.

(* MerklizeJSONLD after EntriesFromRDF *)
Theorem merklize_tail_total P t0 es c :
  prim_ok P -> p_prime P <> 0 -> ok_or_err (merklize_tail T tadd all_guards P t0 es c).
Proof.
  intros HP Hq. unfold merklize_tail.
  pose proof (key_strings_total P es HP) as H1.
  destruct (key_strings all_guards P es); simpl in *; try exact I; try contradiction.
  pose proof (add_entries_total P t0 es HP Hq) as H2.
  destruct (add_entries T tadd all_guards P t0 es); simpl in *; try exact I; try contradiction.
  destruct c; exact I.
Qed.

Lemma dec_int_ooe s : ok_or_err (dec_int s).
Proof. destruct s as [|t r]; [exact I|destruct t; exact I]. Qed.
Lemma dec_uint8_ooe s : ok_or_err (dec_uint8 s).
Proof. destruct s as [|t r]; [exact I|destruct t; simpl; try exact I]. destruct (255 <? z); exact I. Qed.
Lemma dec_bool_ooe s : ok_or_err (dec_bool s).
Proof. destruct s as [|t r]; [exact I|destruct t; exact I]. Qed.
Lemma dec_str_ooe s : ok_or_err (dec_str s).
Proof. destruct s as [|t r]; [exact I|destruct t; exact I]. Qed.
Lemma dec_big_ooe s : ok_or_err (dec_big s).
Proof. destruct s as [|t r]; [exact I|destruct t; exact I]. Qed.
Lemma dec_time_ooe s : ok_or_err (dec_time s).
Proof. destruct s as [|t r]; [exact I|destruct t; exact I]. Qed.
Lemma dec_parts_ooe s : ok_or_err (dec_parts s).
Proof. destruct s as [|t r]; [exact I|destruct t; exact I]. Qed.

(* RDFEntry.UnmarshalBinary *)
Theorem rdfentry_unmarshal_total s : ok_or_err (rdfentry_unmarshal s).
Proof.
  unfold rdfentry_unmarshal.
  apply ooe_bind; [apply dec_int_ooe|]. intros [ver s1] _.
  destruct (negb (ver =? 1)); [exact I|].
  apply ooe_bind; [apply dec_parts_ooe|]. intros [parts s2] _.
  apply ooe_bind; [apply dec_uint8_ooe|]. intros [tp s3] _.
  apply ooe_bind.
  - destruct (tp =? 0); [apply ooe_bind; [apply dec_int_ooe|intros; exact I]|].
    destruct (tp =? 1); [apply ooe_bind; [apply dec_bool_ooe|intros; exact I]|].
    destruct (tp =? 2); [apply ooe_bind; [apply dec_str_ooe|intros; exact I]|].
    destruct (tp =? 3); [apply ooe_bind; [apply dec_time_ooe|intros; exact I]|].
    destruct (tp =? 4); [apply ooe_bind; [apply dec_big_ooe|intros; exact I]|].
    exact I.
  - intros [x s4] _. apply ooe_bind; [apply dec_str_ooe|]. intros; exact I.
Qed.

Lemma dec_entries_total n s acc : ok_or_err (dec_entries n s acc).
Proof.
  revert s acc. induction n as [|n IH]; intros s acc; simpl; [exact I|].
  unfold dec_str. destruct s as [|t r]; simpl; [exact I|].
  destruct t; simpl; try exact I.
  unfold dec_entry. destruct r as [|t2 r2]; simpl; [exact I|].
  destruct t2; simpl; try exact I.
  pose proof (rdfentry_unmarshal_total inner) as He.
  destruct (rdfentry_unmarshal inner); simpl in *; try exact I; try contradiction.
  apply IH.
Qed.

Lemma dec_bytes_ooe s : ok_or_err (dec_bytes s).
Proof. destruct s as [|t r]; [exact I|destruct t; exact I]. Qed.

Lemma merklizer_header_total len_in given s :
  match merklizer_header all_guards len_in given s with
  | Ok h => 0 <= fst h <= len_in
  | Err _ => True
  | _ => False
  end.
Proof.
  unfold merklizer_header.
  pose proof (dec_int_ooe s) as H0. destruct (dec_int s) as [vr| | |]; simpl in *; try exact I; try contradiction.
  destruct (negb (fst vr =? 1)); [exact I|].
  pose proof (dec_bytes_ooe (snd vr)) as H1.
  destruct (dec_bytes (snd vr)) as [sr| | |]; simpl in *; try exact I; try contradiction.
  pose proof (dec_bytes_ooe (snd sr)) as H2.
  destruct (dec_bytes (snd sr)) as [cr| | |]; simpl in *; try exact I; try contradiction.
  assert (Hrest :
    match (rr <- dec_big (snd cr) ;;
           if (match given with Some r => negb (r =? fst rr) | None => false end)
           then Err "root-mismatch" else
           nr <- dec_int (snd rr) ;;
           if true && ((fst nr <? 0) || (len_in <? fst nr)) then Err "entries-count" else Ok nr) with
    | Ok h => 0 <= fst h <= len_in
    | Err _ => True
    | _ => False
    end).
  { pose proof (dec_big_ooe (snd cr)) as H3.
    destruct (dec_big (snd cr)) as [rr| | |]; simpl in *; try exact I; try contradiction.
    destruct (match given with Some r => negb (r =? fst rr) | None => false end); [exact I|].
    pose proof (dec_int_ooe (snd rr)) as H4.
    destruct (dec_int (snd rr)) as [nr| | |]; simpl in *; try exact I; try contradiction.
    destruct ((fst nr <? 0) || (len_in <? fst nr)) eqn:Eg; [exact I|].
    apply orb_false_iff in Eg. destruct Eg as [Eg1 Eg2].
    apply Z.ltb_ge in Eg1. apply Z.ltb_ge in Eg2. simpl. lia. }
  destruct (fst cr); try exact I; exact Hrest.
Qed.

Lemma merklizer_body_total P t0 given h :
  prim_ok P -> p_prime P <> 0 -> 0 <= fst h ->
  ok_or_err (merklizer_body T tadd all_guards P t0 given h).
Proof.
  intros HP Hq Hn. unfold merklizer_body, make_slice.
  destruct (fst h <? 0) eqn:En; [apply Z.ltb_lt in En; lia|]. simpl.
  pose proof (dec_entries_total (Z.to_nat (fst h)) (snd h) []) as Hd.
  destruct (dec_entries (Z.to_nat (fst h)) (snd h) []) as [er| | |]; simpl in *; try exact I; try contradiction.
  assert (Ha : ok_or_err (match given with None => add_entries T tadd all_guards P t0 (fst er) | Some _ => Ok t0 end)).
  { destruct given; [exact I|apply add_entries_total; assumption]. }
  destruct (match given with None => add_entries T tadd all_guards P t0 (fst er) | Some _ => Ok t0 end);
    simpl in *; try exact I; try contradiction.
  pose proof (dec_bool_ooe (snd er)) as Hb.
  destruct (dec_bool (snd er)); simpl in *; try exact I; try contradiction.
Qed.

(* Merklizer.UnmarshalBinary / MerklizerFromBytes: Ok or Err, and the number of
   entry slots requested from the allocator is at most len(in) *)
Theorem merklizer_unmarshal_total P t0 len_in given s :
  prim_ok P -> (p_prime P <> 0) -> (0 <= len_in) ->
  ok_or_err (fst (merklizer_unmarshal T tadd all_guards P t0 len_in given s)) /\
  (0 <= snd (merklizer_unmarshal T tadd all_guards P t0 len_in given s) /\
   snd (merklizer_unmarshal T tadd all_guards P t0 len_in given s) <= len_in).
Proof.
  intros HP Hq Hlen. unfold merklizer_unmarshal.
  pose proof (merklizer_header_total len_in given s) as Hh.
  destruct (merklizer_header all_guards len_in given s) as [h| | |]; simpl in *;
    try (split; [exact I|lia]); try contradiction.
  split; [apply merklizer_body_total; try assumption; lia|lia].
Qed.

End TreeTheory.

(* Path.MtEntry on ANY parts (empty strings included): a field element or an error *)
Theorem path_mt_entry_some_or_err P l : prim_ok P -> some_or_err (path_mt_entry all_guards P l).
Proof. apply path_mt_entry_total. Qed.

(* RDFEntry.UnmarshalBinary ; KeyValueMtEntries: two non-nil elements, or an error *)
Theorem rdfentry_key_value_total P s :
  prim_ok P -> p_prime P <> 0 ->
  match rdfentry_key_value all_guards P s with
  | Ok (Some _, Some _) | Err _ => True
  | _ => False
  end.
Proof.
  intros HP Hq. unfold rdfentry_key_value.
  pose proof (rdfentry_unmarshal_total s) as H0.
  destruct (rdfentry_unmarshal s) as [e| | |]; simpl in *; try exact I; try contradiction.
  pose proof (path_mt_entry_total P (w_parts e) HP) as Hk.
  destruct (path_mt_entry all_guards P (w_parts e)) as [[k|]| | |]; simpl in *; try exact I; try contradiction.
  pose proof (mk_value_total P (w_val e) HP Hq) as Hv.
  destruct (mk_value all_guards P (w_val e)) as [[v|]| | |]; simpl in *; try exact I; try contradiction.
Qed.

Example empty_key_part_is_an_error :
  path_mt_entry all_guards demo_prim [WStr "urn:a"; WStr ""] = Err "empty-message"
  /\ rdfentry_key_value all_guards demo_prim
       [TInt 1; TParts [WStr ""]; TUint 2; TStr "v"; TStr ""] = Err "empty-message"
  /\ fst (merklizer_unmarshal (list Z) (fun t k v => Some (k :: t)) all_guards demo_prim [] 300 None
            [TInt 1; TBytes JObject; TBytes JObject; TBig 0; TInt 1; TStr "k";
             TEntry [TInt 1; TParts [WStr "urn:a"; WStr ""]; TUint 2; TStr "v"; TStr ""]; TBool true])
     = Err "empty-message".
Proof. repeat split; vm_compute; reflexivity. Qed.

(* without the guard (or with the guard on the value side only) an empty key part
   sends a nil element into poseidon.Hash *)
Lemma empty_key_part_refuted :
  path_mt_entry no_empty_guard demo_prim [WStr "urn:a"; WStr ""]
  = Panic "nil element passed to poseidon.Hash".
Proof. vm_compute. reflexivity. Qed.

(* refutations: the code before ca7ff03 and before 58805e9 *)
Definition no_count_guard : guards := mkguards true false true true true true true true true true true.
Definition demo_tadd (t : list Z) (k v : Z) : option (list Z) := Some (k :: t).
Definition stream_with_count (n : Z) : list tok :=
  [TInt 1; TBytes JObject; TBytes JObject; TBig 0; TInt n; TBool true].

Lemma merklizer_count_negative_refuted :
  fst (merklizer_unmarshal (list Z) demo_tadd no_count_guard demo_prim [] 40 None (stream_with_count (-1)))
  = Panic "makeslice: len out of range".
Proof. vm_compute. reflexivity. Qed.

Lemma merklizer_count_huge_refuted :
  snd (merklizer_unmarshal (list Z) demo_tadd no_count_guard demo_prim [] 40 None (stream_with_count (2 ^ 40)))
  = 2 ^ 40.
Proof. lazy. reflexivity. Qed.

Example merklizer_count_guarded :
  fst (merklizer_unmarshal (list Z) demo_tadd all_guards demo_prim [] 40 None (stream_with_count (-1)))
  = Err "entries-count"
  /\ merklizer_unmarshal (list Z) demo_tadd all_guards demo_prim [] 40 None (stream_with_count (2 ^ 40))
  = (Err "entries-count", 0)
  /\ fst (merklizer_unmarshal (list Z) demo_tadd all_guards demo_prim [] 40 None (stream_with_count 0))
  = Ok ([], true).
Proof. repeat split; vm_compute; reflexivity. Qed.

Definition empty_string_entry : wentry := mkwentry [WStr "p"] (XStr "").

Lemma merklize_tail_refuted :
  merklize_tail (list Z) demo_tadd no_empty_guard demo_prim [] [empty_string_entry] true
  = Panic "nil element passed to MerkleTree.Add".
Proof. vm_compute. reflexivity. Qed.

Example merklize_tail_guarded :
  merklize_tail (list Z) demo_tadd all_guards demo_prim [] [empty_string_entry] true = Err "empty-message".
Proof. vm_compute. reflexivity. Qed.

(* ------------------------------------------------ the dependency's proof decoder *)
Definition is_bad (s : sib) : bool := match s with SBad => true | _ => false end.
#[local] Arguments mj_sibs : simpl never.

Lemma new_proof_from_data_spec l : forall lvl,
  existsb is_bad l = false ->
  (sibs_safe lvl l = true -> ok_or_err (new_proof_from_data lvl l)) /\
  (sibs_safe lvl l = false -> exists w, new_proof_from_data lvl l = Panic w).
Proof.
  induction l as [|s t IH]; intros lvl Hb.
  - simpl. split; [intros; exact I|intros; discriminate].
  - destruct s; cbn [sibs_safe new_proof_from_data existsb is_bad orb] in *.
    + split; [intros H; discriminate H|intros _; eexists; reflexivity].
    + apply IH; assumption.
    + destruct (Nat.leb 240 lvl); cbn [negb andb].
      * split; [intros H; discriminate H|intros _; eexists; reflexivity].
      * apply IH; assumption.
    + discriminate Hb.
Qed.

(* go-merkletree-sql's Proof.UnmarshalJSON is total exactly on the `mtpj_safe` inputs ... *)
Theorem mt_proof_unmarshal_total p : mtpj_safe p = true -> ok_or_err (mt_proof_unmarshal p).
Proof.
  unfold mtpj_safe, mt_proof_unmarshal. fold is_bad. intros H.
  destruct (existsb is_bad (mj_sibs p)) eqn:Eb; [exact I|].
  destruct (mj_kinds_ok p); simpl in *; [|exact I].
  apply (proj1 (new_proof_from_data_spec (mj_sibs p) 0%nat Eb)). assumption.
Qed.

(* ... and ONLY there: every other input panics (D12) *)
Theorem mt_proof_unmarshal_panics p :
  mtpj_safe p = false -> exists w, mt_proof_unmarshal p = Panic w.
Proof.
  unfold mtpj_safe, mt_proof_unmarshal. fold is_bad. intros H.
  destruct (existsb is_bad (mj_sibs p)) eqn:Eb; [discriminate|].
  destruct (mj_kinds_ok p); simpl in *; [|discriminate].
  apply (proj2 (new_proof_from_data_spec (mj_sibs p) 0%nat Eb)). assumption.
Qed.

Lemma mt_proof_null_sibling_refuted :
  mt_proof_unmarshal (mkmtpj true [SNull]) = Panic "nil sibling: Hash.Equals".
Proof. reflexivity. Qed.

Lemma mt_proof_level_240_refuted :
  mt_proof_unmarshal (mkmtpj true (repeat SZero 240 ++ [SNonZero]))
  = Panic "index out of range: SetBitBigEndian".
Proof. vm_compute. reflexivity. Qed.

Example mt_proof_240_nonzero_ok :
  mt_proof_unmarshal (mkmtpj true (repeat SNonZero 240)) = Ok tt
  /\ mt_proof_unmarshal (mkmtpj true (repeat SZero 300)) = Ok tt.
Proof. split; vm_compute; reflexivity. Qed.

(* what decodeMTP (c1afc2d) lets through is safe for the dependency's decoder *)
Lemma short_nonnull_safe l : forall lvl,
  (lvl + List.length l <= 240)%nat -> existsb is_null l = false -> sibs_safe lvl l = true.
Proof.
  induction l as [|s t IH]; intros lvl Hl Hn; [reflexivity|].
  cbn [List.length] in Hl.
  destruct s; cbn [sibs_safe existsb is_null orb] in *.
  - discriminate Hn.
  - apply IH; [lia|assumption].
  - rewrite (proj2 (Nat.leb_gt 240 lvl)) by lia. cbn [negb andb]. apply IH; [lia|assumption].
  - apply IH; [lia|assumption].
Qed.

(* verifiable.decodeMTP: total for EVERY shape *)
Theorem decode_mtp_total p : ok_or_err (decode_mtp all_guards p).
Proof.
  unfold decode_mtp, decode_mtp_with. cbn [g_mtpjson all_guards].
  destruct (mj_kinds_ok p) eqn:Ek; cbn [negb]; [|exact I].
  destruct (Nat.ltb 240 (List.length (mj_sibs p))) eqn:El; [exact I|].
  destruct (existsb is_null (mj_sibs p)) eqn:En; [exact I|].
  apply mt_proof_unmarshal_total. unfold mtpj_safe.
  apply Nat.ltb_ge in El.
  assert (Hs : sibs_safe 0 (mj_sibs p) = true).
  { apply short_nonnull_safe; [simpl; lia|exact En]. }
  rewrite Hs. apply orb_true_r.
Qed.

(* a shape check that looks the siblings up by EXACT key misses a member spelled
   "Siblings", which the dependency's decoder (case-insensitive, last wins) does use *)
Definition capital_siblings : mtpj := mkmtpj_m true [("siblings", []); ("Siblings", [SNull])].

Lemma decode_mtp_exact_lookup_refuted :
  decode_mtp_with true all_guards capital_siblings = Panic "nil sibling: Hash.Equals".
Proof. vm_compute. reflexivity. Qed.

Example decode_mtp_case_insensitive :
  decode_mtp all_guards capital_siblings = Err "mtp-null-sibling"
  /\ decode_mtp all_guards (mkmtpj_m true [("SIBLINGS", [SNull]); ("siblings", [SZero])]) = Ok tt.
Proof. split; vm_compute; reflexivity. Qed.

Lemma opt_mtp_total o : ok_or_err (opt_mtp_unmarshal all_guards o).
Proof. destruct o; simpl; [apply decode_mtp_total|exact I]. Qed.
#[local] Arguments opt_mtp_unmarshal : simpl never.

(* ------------------------------------------------------------ decoding proofs *)
Lemma issuer_unmarshal_total o : ok_or_err (issuer_unmarshal all_guards o).
Proof.
  destruct o as [i|]; simpl; [|exact I].
  destruct (ij_kinds_ok i); simpl; [apply opt_mtp_total|exact I].
Qed.
#[local] Arguments issuer_unmarshal : simpl never.

Lemma extract_proof_total p : ok_or_err (extract_proof all_guards p).
Proof.
  unfold extract_proof.
  destruct (pj_obj p); simpl; [|exact I].
  destruct (pj_type p) as [k|]; [|exact I].
  pose proof (issuer_unmarshal_total (pj_issuer p)) as HI.
  pose proof (opt_mtp_total (pj_mtp p)) as HM.
  destruct k; simpl.
  - destruct (pj_kinds_ok p); simpl; [|exact I].
    destruct (issuer_unmarshal all_guards (pj_issuer p)); simpl in *; try exact I; try contradiction.
    destruct (pj_claim_ok p); simpl; [|exact I]. destruct (pj_sig_ok p); exact I.
  - destruct (pj_kinds_ok p); simpl; [|exact I].
    destruct (issuer_unmarshal all_guards (pj_issuer p)); simpl in *; try exact I; try contradiction.
    destruct (pj_claim_ok p); simpl; [|exact I].
    destruct (opt_mtp_unmarshal all_guards (pj_mtp p)); simpl in *; try exact I; try contradiction.
  - destruct (pj_kinds_ok p); simpl; [|exact I].
    destruct (issuer_unmarshal all_guards (pj_issuer p)); simpl in *; try exact I; try contradiction.
    destruct (pj_claim_ok p); simpl; [|exact I].
    destruct (opt_mtp_unmarshal all_guards (pj_mtp p)); simpl in *; try exact I; try contradiction.
  - exact I.
Qed.
#[local] Arguments extract_proof : simpl never.

Lemma extract_all_total l : ok_or_err (extract_all all_guards l).
Proof.
  induction l as [|p t IH]; simpl; [exact I|].
  pose proof (extract_proof_total p) as H1.
  destruct (extract_proof all_guards p); simpl in *; try exact I; try contradiction.
  destruct (extract_all all_guards t); simpl in *; try exact I; try contradiction.
Qed.

(* CredentialProofs.UnmarshalJSON: total for every JSON value *)
Theorem proofs_unmarshal_total j : ok_or_err (proofs_unmarshal all_guards j).
Proof.
  destruct j as [|l|p]; simpl; [exact I|apply extract_all_total|].
  pose proof (extract_proof_total p) as H1.
  destruct (extract_proof all_guards p); simpl in *; try exact I; try contradiction.
Qed.
#[local] Arguments proofs_unmarshal : simpl never.

(* json.Unmarshal into W3CCredential *)
Theorem cred_unmarshal_total c : ok_or_err (cred_unmarshal all_guards c).
Proof.
  unfold cred_unmarshal.
  destruct (cj_proof c) as [j|]; simpl.
  - pose proof (proofs_unmarshal_total j) as H1.
    destruct (proofs_unmarshal all_guards j); simpl in *; try exact I; try contradiction.
    destruct (cj_kinds_ok c); exact I.
  - destruct (cj_kinds_ok c); exact I.
Qed.

Definition null_sibling_proof : proofj :=
  mkproofj true (Some PSMT) true (Some (mkmtpj true [SNull])) (Some (mkissuerj true None)) true true.

Definition g_without (which : nat) : guards :=
  mkguards (negb (Nat.eqb which 0)) (negb (Nat.eqb which 1)) (negb (Nat.eqb which 2)) (negb (Nat.eqb which 3))
           (negb (Nat.eqb which 4)) (negb (Nat.eqb which 5)) (negb (Nat.eqb which 6)) (negb (Nat.eqb which 7))
           (negb (Nat.eqb which 8)) (negb (Nat.eqb which 9)) (negb (Nat.eqb which 10)).

(* before c1afc2d: D12 *)
Lemma proofs_unmarshal_refuted :
  proofs_unmarshal (g_without 10) (PJArray [null_sibling_proof]) = Panic "nil sibling: Hash.Equals".
Proof. reflexivity. Qed.

Example proofs_unmarshal_guarded :
  proofs_unmarshal all_guards (PJArray [null_sibling_proof]) = Err "mtp-null-sibling".
Proof. reflexivity. Qed.

(* ------------------------------------------- DID documents, status answers *)
(* GistInfoProof.UnmarshalJSON / a verification method *)
Theorem vm_unmarshal_total v : ok_or_err (vm_unmarshal all_guards v).
Proof.
  unfold vm_unmarshal. pose proof (opt_mtp_total (vj_gist v)) as Hm.
  destruct (opt_mtp_unmarshal all_guards (vj_gist v)); simpl in *; try exact I; try contradiction.
  destruct (vj_kinds_ok v); exact I.
Qed.
#[local] Arguments vm_unmarshal : simpl never.

(* Authentication.UnmarshalJSON, for every byte slice incl. nil and empty *)
Theorem auth_unmarshal_total a : ok_or_err (auth_unmarshal all_guards a).
Proof.
  destruct a as [| |v|ok|]; simpl; try exact I.
  - pose proof (vm_unmarshal_total v) as Hv.
    destruct (vm_unmarshal all_guards v); simpl in *; try exact I; try contradiction.
  - destruct ok; exact I.
Qed.
#[local] Arguments auth_unmarshal : simpl never.

Lemma auth_unmarshal_refuted :
  auth_unmarshal (g_without 8) AEmpty = Panic "index out of range [0] with length 0".
Proof. reflexivity. Qed.

Lemma each_total {A} (f : A -> res unit) l :
  (forall a, ok_or_err (f a)) -> ok_or_err (each f l).
Proof.
  intros Hf. induction l as [|a t IH]; simpl; [exact I|].
  specialize (Hf a). destruct (f a); simpl in *; try exact I; try contradiction. exact IH.
Qed.

(* json.Unmarshal into DIDDocument *)
Theorem diddoc_unmarshal_total d : ok_or_err (diddoc_unmarshal all_guards d).
Proof.
  unfold diddoc_unmarshal.
  pose proof (each_total (auth_unmarshal all_guards) (dj_auths d) auth_unmarshal_total) as H1.
  destruct (each (auth_unmarshal all_guards) (dj_auths d)); simpl in *; try exact I; try contradiction.
  pose proof (each_total (vm_unmarshal all_guards) (dj_vms d) vm_unmarshal_total) as H2.
  destruct (each (vm_unmarshal all_guards) (dj_vms d)); simpl in *; try exact I; try contradiction.
  destruct (dj_kinds_ok d); exact I.
Qed.
#[local] Arguments diddoc_unmarshal : simpl never.

(* json.Unmarshal into RevocationStatus *)
Theorem status_unmarshal_total s : ok_or_err (status_unmarshal all_guards s).
Proof.
  unfold status_unmarshal. cbn [g_mtpjson all_guards].
  destruct (sj_kinds_ok s); simpl; [apply opt_mtp_total|exact I].
Qed.
#[local] Arguments status_unmarshal : simpl never.

(* ----------------------------------------------------------- verification *)
Lemma validate_tree_state_total s : ok_or_err (validate_tree_state s).
Proof.
  unfold validate_tree_state.
  destruct (s_value s); simpl; try exact I;
    destruct (s_ctr s); simpl; try exact I;
    destruct (s_rtr s); simpl; try exact I;
    destruct (s_ror s); simpl; try exact I;
    destruct (s_pos_ok s); simpl; exact I.
Qed.
#[local] Arguments validate_tree_state : simpl never.

Lemma validate_issuer_state_total s : ok_or_err (validate_issuer_state s).
Proof.
  unfold validate_issuer_state. pose proof (validate_tree_state_total s) as H.
  destruct (validate_tree_state s) as [b| | |]; simpl in *; try exact I; try contradiction.
  destruct b; exact I.
Qed.
#[local] Arguments validate_issuer_state : simpl never.

(* rootFromMerkleTreeProof: whatever the library call did *)
Lemma root_from_mtp_total p : ok_or_err (root_from_mtp all_guards p).
Proof.
  unfold root_from_mtp. destruct p as [m|]; [|exact I].
  destruct (m_aux m) as [[k v]|]; simpl.
  - destruct (negb (k && v)); simpl; [exact I|]. destruct (m_lib m); exact I.
  - destruct (m_lib m); exact I.
Qed.
#[local] Arguments root_from_mtp : simpl never.

Lemma verify_mtp_total p : ok_or_err (verify_mtp all_guards p).
Proof.
  unfold verify_mtp. pose proof (root_from_mtp_total p) as H.
  destruct (root_from_mtp all_guards p); simpl in *; try exact I; try contradiction.
Qed.
#[local] Arguments verify_mtp : simpl never.

(* HTTPDIDResolver.Resolve: total for every HTTP answer *)
Theorem did_resolve_total a : ok_or_err (did_resolve all_guards a).
Proof.
  destruct a as [| |dec info]; simpl; try exact I.
  pose proof (diddoc_unmarshal_total dec) as Hd.
  destruct (diddoc_unmarshal all_guards dec); simpl in *; try exact I; try contradiction.
Qed.
#[local] Arguments did_resolve : simpl never.

Lemma check_published_total i : ok_or_err (check_published all_guards i).
Proof.
  unfold check_published.
  destruct (s_value (i_state i)); simpl; try exact I.
  pose proof (did_resolve_total (i_resolve i)) as Hd.
  destruct (did_resolve all_guards (i_resolve i)) as [info| | |]; simpl in *; try exact I; try contradiction.
  destruct info as [[[|]|]|]; simpl; try exact I;
    destruct (i_id_ok i); simpl; try exact I; destruct (i_genesis i) as [[|]|]; exact I.
Qed.
#[local] Arguments check_published : simpl never.

(* ValidateCredentialStatus: total for every resolver answer *)
Theorem validate_status_total st : ok_or_err (validate_status all_guards st).
Proof.
  unfold validate_status.
  destruct (st_registered st); simpl; [|exact I].
  destruct (st_answer st) as [|dec iss mtp]; simpl in *; [exact I|].
  pose proof (status_unmarshal_total dec) as Hd.
  destruct (status_unmarshal all_guards dec); simpl in *; try exact I; try contradiction.
  pose proof (validate_tree_state_total iss) as Ht.
  destruct (validate_tree_state iss) as [b| | |]; simpl in *; try exact I; try contradiction.
  destruct b; simpl; [|exact I].
  pose proof (verify_mtp_total (Some mtp)) as Hv.
  destruct (s_rtr iss); simpl; try exact I;
    destruct (verify_mtp all_guards (Some mtp)) as [v| | |]; simpl in *; try exact I; try contradiction;
    destruct v; simpl; try exact I; destruct (m_ex mtp); exact I.
Qed.
#[local] Arguments validate_status : simpl never.

(* verifyBJJSignatureProof: total for every combination of absent members *)
Theorem verify_bjj_total b : ok_or_err (verify_bjj all_guards b).
Proof.
  unfold verify_bjj.
  destruct (b_auth_ok b) eqn:Ea; simpl; [|exact I].
  destruct (b_sig b) as [| |valid]; try exact I.
  destruct (b_hihv_ok b); simpl; [|exact I]. destruct valid; simpl; [|exact I].
  assert (H1 : ok_or_err (verify_auth_inclusion all_guards b)).
  { unfold verify_auth_inclusion. destruct (b_mtp b) as [m|]; [|exact I].
    destruct (m_ex m); simpl; [|exact I].
    destruct (s_ctr (i_state (b_issuer b))); try exact I.
    destruct (b_auth_hihv_ok b); simpl; [|exact I].
    pose proof (verify_mtp_total (Some m)) as Hv.
    destruct (verify_mtp all_guards (Some m)) as [v| | |]; simpl in *; try exact I; try contradiction.
    destruct v; exact I. }
  destruct (verify_auth_inclusion all_guards b); simpl in *; try exact I; try contradiction.
  pose proof (validate_issuer_state_total (i_state (b_issuer b))) as H2.
  destruct (validate_issuer_state (i_state (b_issuer b))); simpl in *; try exact I; try contradiction.
  destruct (i_did_ok (b_issuer b)); simpl; [|exact I].
  pose proof (check_published_total (b_issuer b)) as H3.
  destruct (check_published all_guards (b_issuer b)); simpl in *; try exact I; try contradiction.
  unfold validate_auth_revocation. rewrite Ea.
  destruct (st_raw (b_status b)) as [dec ht|]; [|exact I].
  destruct dec; [|exact I]. destruct ht; [|exact I]. simpl.
  destruct (st_nonce_eq (b_status b)); simpl; [|exact I].
  apply validate_status_total.
Qed.
#[local] Arguments verify_bjj : simpl never.

(* verifyIden3SparseMerkleTreeProof: total for every combination of absent members *)
Theorem verify_smt_total s : ok_or_err (verify_smt all_guards s).
Proof.
  unfold verify_smt.
  destruct (i_did_ok (sm_issuer s)); simpl; [|exact I].
  pose proof (check_published_total (sm_issuer s)) as H1.
  destruct (check_published all_guards (sm_issuer s)); simpl in *; try exact I; try contradiction.
  destruct (sm_hihv_ok s); simpl; [|exact I].
  destruct (sm_mtp s) as [m|]; [|exact I].
  destruct (m_ex m); simpl; [|exact I].
  pose proof (root_from_mtp_total (Some m)) as H2.
  destruct (root_from_mtp all_guards (Some m)) as [e| | |]; simpl in *; try exact I; try contradiction.
  destruct (s_ctr (i_state (sm_issuer s))); try exact I.
  destruct e; simpl; [|exact I]. apply validate_issuer_state_total.
Qed.
#[local] Arguments verify_smt : simpl never.

(* W3CCredential.VerifyProof: total, no side condition *)
Theorem verify_proof_total p : ok_or_err (verify_proof all_guards p).
Proof.
  destruct p as [|c deep bd rm b|c deep bd rm s|c deep bd]; simpl; try exact I.
  - destruct c; simpl; [|exact I]. unfold binding. cbn [g_mtpjson all_guards].
    destruct deep; simpl; [exact I|]. destruct bd; simpl; [|exact I].
    destruct rm; simpl; [|exact I]. apply verify_bjj_total.
  - destruct c; simpl; [|exact I]. unfold binding. cbn [g_mtpjson all_guards].
    destruct deep; simpl; [exact I|]. destruct bd; simpl; [|exact I].
    destruct rm; simpl; [|exact I]. apply verify_smt_total.
  - destruct c; simpl; [|exact I]. unfold binding. cbn [g_mtpjson all_guards].
    destruct deep; simpl; [exact I|]. destruct bd; exact I.
Qed.

(* ---- refutations: every repair is needed (the code before it panics on some input) ---- *)
Definition good_state : statef := mkstatef HGood HGood HGood HGood true true.
Definition good_doc : didans := DDoc (mkdiddocj true [] []) (Some (Some true)).
Definition good_issuer : issuerf := mkissuerf true good_state good_doc true (Some true).
Definition good_mtp : mtpf := mkmtpf true None (LRoot true).
Definition good_smt : smtf := mksmtf good_issuer true (Some good_mtp).

Example verify_smt_accepts : verify_smt all_guards good_smt = Ok tt.
Proof. reflexivity. Qed.

Lemma smt_value_guard_refuted :
  verify_smt (g_without 2)
    (mksmtf (mkissuerf true (mkstatef HNil_ HGood HGood HGood true false) good_doc true (Some true)) true (Some good_mtp))
  = Panic "nil dereference: *State.Value".
Proof. reflexivity. Qed.

Lemma smt_mtp_guard_refuted :
  verify_smt (g_without 3) (mksmtf good_issuer true None) = Panic "nil dereference: proof.MTP".
Proof. reflexivity. Qed.

Lemma smt_ctr_guard_refuted :
  verify_smt (g_without 4)
    (mksmtf (mkissuerf true (mkstatef HGood HNil_ HGood HGood true false) good_doc true (Some true)) true (Some good_mtp))
  = Panic "nil dereference: *State.ClaimsTreeRoot".
Proof. reflexivity. Qed.

(* validateTreeState takes an ABSENT claims root as the zero hash, so a state that is
   CONSISTENT with its roots (s_match = true) can still lack the claims root: the nil
   checks are needed wherever validateIssuerState is placed *)
Definition consistent_state_without_ctr : statef := mkstatef HGood HNil_ HGood HGood true true.

Example consistent_state_without_ctr_validates :
  validate_issuer_state consistent_state_without_ctr = Ok tt.
Proof. reflexivity. Qed.

Lemma smt_ctr_guard_refuted_consistent :
  verify_smt (g_without 4)
    (mksmtf (mkissuerf true consistent_state_without_ctr good_doc true (Some true)) true (Some good_mtp))
  = Panic "nil dereference: *State.ClaimsTreeRoot".
Proof. reflexivity. Qed.

Definition good_status : statusf :=
  mkstatusf (RSObj true true) true true
            (RAns (mkstatusj true None) good_state (mkmtpf false None (LRoot true))).
Definition bjj_without_ctr : bjjf :=
  mkbjjf true (SigOk true) true (Some good_mtp) true
         (mkissuerf true consistent_state_without_ctr good_doc true (Some true)) good_status.

Lemma bjj_ctr_guard_refuted_consistent :
  verify_bjj (g_without 4) bjj_without_ctr = Panic "nil dereference: *State.ClaimsTreeRoot".
Proof. reflexivity. Qed.

Example bjj_ctr_guarded :
  verify_bjj all_guards bjj_without_ctr = Err "claims-root-unset"
  /\ verify_bjj all_guards
       (mkbjjf true (SigOk true) true (Some good_mtp) true good_issuer good_status) = Ok tt.
Proof. split; reflexivity. Qed.

Lemma published_guard_refuted :
  verify_smt (g_without 5)
    (mksmtf (mkissuerf true good_state (DDoc (mkdiddocj true [] []) (Some None)) true (Some true)) true (Some good_mtp))
  = Panic "nil dereference: *Published".
Proof. reflexivity. Qed.

Lemma recover_guard_refuted :
  verify_smt (g_without 7) (mksmtf good_issuer true (Some (mkmtpf true None LPanic)))
  = Panic "merkletree.RootFromProof".
Proof. reflexivity. Qed.

Lemma didnull_guard_refuted :
  verify_smt (g_without 9) (mksmtf (mkissuerf true good_state DNull true (Some true)) true (Some good_mtp))
  = Panic "nil dereference: res.DIDDocument".
Proof. reflexivity. Qed.

(* before c1afc2d a decodable proof with more than 240 (zero) siblings made VerifyProof
   panic inside json.Marshal (Proof.MarshalJSON); now such a credential does not decode *)
Lemma verify_proof_deep_refuted :
  verify_proof (g_without 10) (SelSMT true true true true good_smt)
  = Panic "Proof.MarshalJSON: index out of range (more than 240 siblings)".
Proof. reflexivity. Qed.

Example verify_proof_deep_guarded :
  verify_proof all_guards (SelSMT true true true true good_smt) = Err "mtp-too-many-siblings".
Proof. reflexivity. Qed.

(* before c1afc2d D12 reached VerifyProof through the resolver's answer *)
Definition null_sibling_answer : smtf :=
  mksmtf (mkissuerf true good_state
            (DDoc (mkdiddocj true [mkvmj true (Some (mkmtpj true [SNull]))] []) (Some (Some true)))
            true (Some true)) true (Some good_mtp).

Lemma verify_proof_unsafe_answer_refuted :
  verify_smt (g_without 10) null_sibling_answer = Panic "nil sibling: Hash.Equals".
Proof. reflexivity. Qed.

Example verify_proof_unsafe_answer_guarded :
  verify_smt all_guards null_sibling_answer = Err "did-resolve".
Proof. reflexivity. Qed.

(* the NodeAux check of 88617d1 is subsumed by its recover(): without it the outcome
   stays Ok/Err for every input *)
Lemma aux_guard_redundant p : ok_or_err (root_from_mtp (g_without 6) p).
Proof.
  unfold root_from_mtp. destruct p as [m|]; [|exact I]. simpl.
  destruct (m_lib m); exact I.
Qed.

(* in verifyBJJSignatureProof the State.Value nil check of f02e04b has become dead:
   validateIssuerState (added by 6f84aa4) rejects a nil value before it is reached *)
Lemma bjj_value_guard_redundant b : ok_or_err (verify_bjj (g_without 2) b).
Proof.
  unfold verify_bjj.
  destruct (b_auth_ok b) eqn:Ea; simpl; [|exact I].
  destruct (b_sig b) as [| |valid]; try exact I.
  destruct (b_hihv_ok b); simpl; [|exact I]. destruct valid; simpl; [|exact I].
  assert (H1 : ok_or_err (verify_auth_inclusion (g_without 2) b)).
  { unfold verify_auth_inclusion. destruct (b_mtp b) as [m|]; [|exact I].
    destruct (m_ex m); simpl; [|exact I].
    destruct (s_ctr (i_state (b_issuer b))); try exact I.
    destruct (b_auth_hihv_ok b); simpl; [|exact I].
    pose proof (verify_mtp_total (Some m)) as Hv.
    change (verify_mtp (g_without 2) (Some m)) with (verify_mtp all_guards (Some m)).
    destruct (verify_mtp all_guards (Some m)) as [v| | |]; simpl in *; try exact I; try contradiction.
    destruct v; exact I. }
  destruct (verify_auth_inclusion (g_without 2) b); simpl in *; try exact I; try contradiction.
  pose proof (validate_issuer_state_total (i_state (b_issuer b))) as H2.
  destruct (validate_issuer_state (i_state (b_issuer b))) eqn:Evs; simpl in *; try exact I; try contradiction.
  (* validateIssuerState succeeded, hence State.Value is not nil *)
  assert (Hv : s_value (i_state (b_issuer b)) <> HNil_).
  { intro Hn. unfold validate_issuer_state, validate_tree_state in Evs. rewrite Hn in Evs. discriminate Evs. }
  destruct (i_did_ok (b_issuer b)); simpl; [|exact I].
  assert (H3 : ok_or_err (check_published (g_without 2) (b_issuer b))).
  { pose proof (check_published_total (b_issuer b)) as Hc.
    unfold check_published in *.
    destruct (s_value (i_state (b_issuer b))); [contradiction|exact Hc|exact Hc]. }
  destruct (check_published (g_without 2) (b_issuer b)); simpl in *; try exact I; try contradiction.
  unfold validate_auth_revocation. rewrite Ea.
  destruct (st_raw (b_status b)) as [dec ht|]; [|exact I].
  destruct dec; [|exact I]. destruct ht; [|exact I]. simpl.
  destruct (st_nonce_eq (b_status b)); simpl; [|exact I].
  apply (validate_status_total (b_status b)).
Qed.

(* ---------------------------------------------- iden3_serialization attribute *)
Lemma nth_or_panic_ok {A} (l : list A) i : (i < List.length l)%nat -> exists a, nth_or_panic l i = Ok a.
Proof.
  intros H. unfold nth_or_panic. destruct (nth_error l i) eqn:E; [eauto|].
  apply nth_error_None in E. lia.
Qed.

Lemma ser_parts_total parts : forall acc, ok_or_err (ser_parts true parts acc).
Proof.
  induction parts as [|part rest IH]; intros acc; [exact I|].
  cbn [ser_parts]. set (kv := go_split "="%char part).
  destruct (Nat.eqb (List.length kv) 2) eqn:En; cbn [negb]; [|exact I].
  apply Nat.eqb_eq in En.
  destruct (nth_or_panic_ok kv 0 ltac:(lia)) as [k Hk]. rewrite Hk. cbn [bind].
  destruct (nth_or_panic_ok kv 1 ltac:(lia)) as [v Hv]. rewrite Hv. cbn [bind].
  repeat match goal with |- context [if ?c then _ else _] => destruct c end; try apply IH; exact I.
Qed.

(* verifiable.ParseSerializationAttr: Ok or Err for EVERY string *)
Theorem ser_attr_total attr : ok_or_err (parse_ser_attr attr).
Proof.
  unfold parse_ser_attr, parse_ser_attr_with.
  destruct (strip_prefix "iden3:v1:" attr) as [body|]; [|exact I].
  destruct (Nat.ltb 4 (List.length (go_split "&"%char body))); [exact I|].
  apply ser_parts_total.
Qed.

(* the check `len(kv) > 2` lets a slot name without '=' reach kv[1] (seeded C12-m) *)
Lemma ser_attr_refuted :
  parse_ser_attr_with false "iden3:v1:slotIndexA=price&slotValueB" = Panic "index out of range".
Proof. vm_compute. reflexivity. Qed.

Example ser_attr_examples :
  parse_ser_attr "iden3:v1:slotIndexA=price&slotValueB" = Err "part-format"
  /\ parse_ser_attr "iden3:v1:slotIndexA=price&slotValueB=a.0" = Ok (mkslots "price" "" "" "a.0")
  /\ parse_ser_attr "iden3:v1:" = Err "part-format"
  /\ parse_ser_attr "iden3:v1:&&&&" = Err "too-many-parts".
Proof. repeat split; vm_compute; reflexivity. Qed.

(* --------------------------------------------------------- pathFromDocument *)
Lemma nth_or_panic_Z {A} (arr : list A) i :
  0 <= i -> (Z.of_nat (List.length arr) <=? i) = false -> exists a, nth_or_panic arr (Z.to_nat i) = Ok a.
Proof.
  intros H0 H. apply Z.leb_gt in H. apply nth_or_panic_ok. lia.
Qed.

(* merklize pathFromDocument: Ok or Err for every JSON value, every segment list (numeric
   segments being non-negative, as ^\d+$ guarantees), whatever the context defines *)
Theorem doc_path_total defined parts :
  Forall (fun s => match s with SNum z => 0 <= z | SName _ => True end) parts ->
  forall doc accept, ok_or_err (path_from_doc pv_repo defined parts doc accept).
Proof.
  induction parts as [|s rest IH]; intros Hnn doc accept; [exact I|].
  inversion Hnn as [|? ? Hs Hrest]; subst. specialize (IH Hrest).
  destruct s as [i|term]; cbn [path_from_doc].
  - destruct (2147483647 <? i); [exact I|].
    destruct doc as [| |arr|m];
      try (pose proof (IH JVNull true) as H1; pose proof (IH JVScalar true) as H2).
    + destruct (path_from_doc pv_repo defined rest JVNull true); simpl in *; try exact I; contradiction.
    + destruct (path_from_doc pv_repo defined rest JVScalar true); simpl in *; try exact I; contradiction.
    + cbn [pv_bound_ge pv_repo].
      destruct (Z.of_nat (List.length arr) <=? i) eqn:Eb; [exact I|].
      destruct (nth_or_panic_Z arr i Hs Eb) as [e He]. rewrite He. cbn [bind].
      pose proof (IH e false) as H3.
      destruct (path_from_doc pv_repo defined rest e false); simpl in *; try exact I; contradiction.
    + pose proof (IH (JVObj m) true) as H3.
      destruct (path_from_doc pv_repo defined rest (JVObj m) true); simpl in *; try exact I; contradiction.
  - cbn [pv_zero_len pv_repo andb].
    assert (Hobj : forall m, ok_or_err
              (if negb (defined term) then Err "no-term-id"
               else more <- path_from_doc pv_repo defined rest (obj_get m term) true ;; Ok (PPName term :: more))).
    { intros m. destruct (defined term); cbn [negb]; [|exact I].
      pose proof (IH (obj_get m term) true) as H3.
      destruct (path_from_doc pv_repo defined rest (obj_get m term) true); simpl in *; try exact I; contradiction. }
    destruct doc as [| |l|m]; cbn [bind]; try exact I; try apply Hobj.
    destruct l as [|e0 l']; [exact I|]. cbn [List.length Nat.eqb].
    destruct accept; cbn [negb bind]; [|exact I].
    unfold nth_or_panic; cbn [nth_error bind].
    destruct e0 as [| |l2|m2]; cbn [bind]; try exact I; try apply Hobj.
    destruct l2; cbn [List.length Nat.eqb negb bind]; exact I.
Qed.

Definition items_empty : jv := JVObj [("items", JVArr [])].
Definition all_defined (_ : string) : bool := true.

(* `docObjT == nil` instead of `len(docObjT) == 0` (seeded C12-n): {"items": []} / "items.label" *)
Lemma doc_path_zero_len_refuted :
  path_from_doc (mkpv false true) all_defined [SName "items"; SName "label"] items_empty false
  = Panic "index out of range".
Proof. vm_compute. reflexivity. Qed.

(* `idx > len(arr)` instead of `i64 >= len(arr)` (seeded C12-f): index = length *)
Lemma doc_path_bound_refuted :
  path_from_doc (mkpv true false) all_defined [SName "items"; SNum 2]
                (JVObj [("items", JVArr [JVScalar; JVScalar])]) false
  = Panic "index out of range".
Proof. vm_compute. reflexivity. Qed.

Example doc_path_examples :
  path_from_doc pv_repo all_defined [SName "items"; SName "label"] items_empty false = Err "zero-sized-array"
  /\ path_from_doc pv_repo all_defined [SName "items"; SNum 2] (JVObj [("items", JVArr [JVScalar; JVScalar])]) false
     = Err "index-out-of-range"
  /\ path_from_doc pv_repo all_defined [SName "items"; SNum 1; SName "label"]
       (JVObj [("items", JVArr [JVScalar; JVObj [("label", JVScalar)]])]) false
     = Ok [PPName "items"; PPIdx 1; PPName "label"].
Proof. repeat split; vm_compute; reflexivity. Qed.
