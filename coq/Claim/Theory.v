(* Claim/Theory.v — lemmas and theorems about Claim/Model.v for property C05:
   bit-field algebra of a slot integer, the packed normal form of a claim, the
   arithmetic layout of the claim built by to_core_claim, the exact error
   cases, the schema hash, purity (options left as they were), history
   independence, independence of the term-map iteration order. *)
From Coq Require Import ZArith List String Ascii Bool Lia Permutation Znumtheory.
From GSP Require Import Base.Prelude Claim.Model RDF.OrdSort.
Import ListNotations.
Open Scope string_scope.
Open Scope list_scope.
Open Scope Z_scope.

(* ================= bit fields ================= *)

Lemma pow2_pos : forall n, 0 <= n -> 0 < 2 ^ n.
Proof. intros n Hn. apply Z.pow_pos_nonneg; lia. Qed.

Lemma get_field_range : forall x off w, 0 <= w -> 0 <= get_field x off w < 2 ^ w.
Proof.
  intros x off w Hw. unfold get_field. apply Z.mod_pos_bound. now apply pow2_pos.
Qed.

(* a number split at a field: low part, the field, high part *)
Lemma get_field_decomp : forall lo mid hi off w,
  0 <= off -> 0 <= w -> 0 <= lo < 2 ^ off -> 0 <= mid < 2 ^ w ->
  get_field (lo + 2 ^ off * (mid + 2 ^ w * hi)) off w = mid.
Proof.
  intros lo mid hi off w Hoff Hw Hlo Hmid. unfold get_field.
  pose proof (pow2_pos off Hoff) as Po. pose proof (pow2_pos w Hw) as Pw.
  replace (lo + 2 ^ off * (mid + 2 ^ w * hi)) with ((mid + 2 ^ w * hi) * 2 ^ off + lo) by ring.
  rewrite Z.div_add_l by lia. rewrite (Z.div_small lo) by lia. rewrite Z.add_0_r.
  replace (mid + 2 ^ w * hi) with (mid + hi * 2 ^ w) by ring.
  rewrite Z.mod_add by lia. apply Z.mod_small; lia.
Qed.

Lemma set_field_decomp : forall lo mid hi off w v,
  0 <= off -> 0 <= w -> 0 <= lo < 2 ^ off -> 0 <= mid < 2 ^ w ->
  set_field (lo + 2 ^ off * (mid + 2 ^ w * hi)) off w v = lo + 2 ^ off * (v mod 2 ^ w + 2 ^ w * hi).
Proof.
  intros lo mid hi off w v Hoff Hw Hlo Hmid. unfold set_field.
  rewrite get_field_decomp by assumption. ring.
Qed.

(* reading back what was written, and fields that do not overlap *)
Lemma get_set_same : forall x off w v, 0 <= off -> 0 <= w ->
  get_field (set_field x off w v) off w = v mod 2 ^ w.
Proof.
  intros x off w v Hoff Hw.
  pose proof (pow2_pos off Hoff) as Po. pose proof (pow2_pos w Hw) as Pw.
  unfold set_field, get_field.
  rewrite Z.div_add by lia.
  rewrite <- Zplus_mod_idemp_l.
  replace ((x / 2 ^ off) mod 2 ^ w + (v mod 2 ^ w - (x / 2 ^ off) mod 2 ^ w)) with (v mod 2 ^ w) by ring.
  apply Z.mod_mod; lia.
Qed.

(* every x splits as lo + 2^off*(mid + 2^w*hi) *)
Lemma field_split : forall x off w, 0 <= off -> 0 <= w ->
  x = x mod 2 ^ off + 2 ^ off * (get_field x off w + 2 ^ w * (x / 2 ^ off / 2 ^ w)).
Proof.
  intros x off w Hoff Hw. unfold get_field.
  pose proof (pow2_pos off Hoff) as Po. pose proof (pow2_pos w Hw) as Pw.
  pose proof (Z.div_mod (x / 2 ^ off) (2 ^ w) ltac:(lia)) as E1.
  replace ((x / 2 ^ off) mod 2 ^ w + 2 ^ w * (x / 2 ^ off / 2 ^ w)) with (x / 2 ^ off) by lia.
  pose proof (Z.div_mod x (2 ^ off) ltac:(lia)) as E2. lia.
Qed.

Lemma get_set_below : forall x off w v off' w',
  0 <= off' -> 0 <= w' -> off' + w' <= off -> 0 <= w ->
  get_field (set_field x off w v) off' w' = get_field x off' w'.
Proof.
  intros x off w v off' w' Ho' Hw' Hle Hw.
  assert (Hoff : 0 <= off) by lia.
  unfold set_field.
  set (d := v mod 2 ^ w - get_field x off w).
  unfold get_field.
  replace (2 ^ off) with (2 ^ (off - off' - w') * 2 ^ w' * 2 ^ off').
  2:{ rewrite <- !Z.pow_add_r by lia. f_equal. lia. }
  pose proof (pow2_pos off' Ho') as P1. pose proof (pow2_pos w' Hw') as P2.
  rewrite Z.mul_assoc. rewrite Z.div_add by lia.
  rewrite Z.mul_assoc. rewrite Z.mod_add by lia. reflexivity.
Qed.

Lemma get_set_above : forall x off w v off' w',
  0 <= off -> 0 <= w -> off + w <= off' -> 0 <= w' ->
  get_field (set_field x off w v) off' w' = get_field x off' w'.
Proof.
  intros x off w v off' w' Hoff Hw Hle Hw'.
  rewrite (field_split x off w Hoff Hw) at 1.
  pose proof (Z.mod_pos_bound x (2 ^ off) (pow2_pos off Hoff)) as Hlo.
  pose proof (get_field_range x off w Hw) as Hmid.
  rewrite set_field_decomp by assumption.
  pose proof (Z.mod_pos_bound v (2 ^ w) (pow2_pos w Hw)) as Hv.
  set (lo := x mod 2 ^ off) in *. set (hi := x / 2 ^ off / 2 ^ w).
  (* both sides: bits at off' >= off+w depend only on hi *)
  assert (G : forall m, 0 <= m < 2 ^ w ->
            get_field (lo + 2 ^ off * (m + 2 ^ w * hi)) off' w' = get_field hi (off' - off - w) w').
  { intros m Hm. unfold get_field.
    replace (2 ^ off') with (2 ^ (off + w) * 2 ^ (off' - off - w)).
    2:{ rewrite <- Z.pow_add_r by lia. f_equal. lia. }
    rewrite <- Z.div_div by (try apply pow2_pos; lia).
    f_equal. f_equal.
    replace (lo + 2 ^ off * (m + 2 ^ w * hi)) with (hi * 2 ^ (off + w) + (lo + 2 ^ off * m)).
    2:{ rewrite Z.pow_add_r by lia. ring. }
    rewrite Z.div_add_l by (pose proof (pow2_pos (off + w)); lia).
    rewrite Z.div_small; [lia|].
    rewrite Z.pow_add_r by lia.
    pose proof (pow2_pos off Hoff). pose proof (pow2_pos w Hw). nia. }
  rewrite (G _ Hv).
  rewrite (field_split x off w Hoff Hw) at 1. fold lo. fold hi.
  symmetry. apply G. exact Hmid.
Qed.

(* ================= packed normal form of a claim ================= *)

(* index slot 0: schema | subject(3) exp(1) upd(1) mrk(3) | 0 | version *)
Definition P0 (s sj e u m v : Z) : Z :=
  s + 2 ^ 128 * sj + 2 ^ 131 * e + 2 ^ 132 * u + 2 ^ 133 * m + 2 ^ 160 * v.

Definition r0 (s sj e u m v : Z) : Prop :=
  0 <= s < 2 ^ 128 /\ 0 <= sj < 8 /\ 0 <= e < 2 /\ 0 <= u < 2 /\ 0 <= m < 8 /\ 0 <= v < 2 ^ 32.

Ltac pw :=
  change (2 ^ 0) with 1 in *;
  change (2 ^ 1) with 2 in *;
  change (2 ^ 3) with 8 in *;
  change (2 ^ 32) with 4294967296 in *;
  change (2 ^ 64) with 18446744073709551616 in *;
  change (2 ^ 128) with 340282366920938463463374607431768211456 in *;
  change (2 ^ 131) with 2722258935367507707706996859454145691648 in *;
  change (2 ^ 132) with 5444517870735015415413993718908291383296 in *;
  change (2 ^ 133) with 10889035741470030830827987437816582766592 in *;
  change (2 ^ 136) with 87112285931760246646623899502532662132736 in *;
  change (2 ^ 160) with 1461501637330902918203684832716283019655932542976 in *.

Lemma P0_schema : forall s sj e u m v x, r0 s sj e u m v ->
  set_field (P0 s sj e u m v) 0 128 x = P0 (x mod 2 ^ 128) sj e u m v.
Proof.
  intros s sj e u m v x (Hs & Hsj & He & Hu & Hm & Hv). unfold P0.
  replace (s + 2 ^ 128 * sj + 2 ^ 131 * e + 2 ^ 132 * u + 2 ^ 133 * m + 2 ^ 160 * v)
    with (0 + 2 ^ 0 * (s + 2 ^ 128 * (sj + 8 * e + 16 * u + 32 * m + 2 ^ 32 * v))) by (pw; lia).
  rewrite set_field_decomp by (pw; lia). pw. lia.
Qed.

Lemma P0_subject : forall s sj e u m v x, r0 s sj e u m v ->
  set_field (P0 s sj e u m v) 128 3 x = P0 s (x mod 2 ^ 3) e u m v.
Proof.
  intros s sj e u m v x (Hs & Hsj & He & Hu & Hm & Hv). unfold P0.
  replace (s + 2 ^ 128 * sj + 2 ^ 131 * e + 2 ^ 132 * u + 2 ^ 133 * m + 2 ^ 160 * v)
    with (s + 2 ^ 128 * (sj + 2 ^ 3 * (e + 2 * u + 4 * m + 2 ^ 29 * v))) by (pw; lia).
  rewrite set_field_decomp by (pw; lia). pw. lia.
Qed.

Lemma P0_exp : forall s sj e u m v x, r0 s sj e u m v ->
  set_field (P0 s sj e u m v) 131 1 x = P0 s sj (x mod 2 ^ 1) u m v.
Proof.
  intros s sj e u m v x (Hs & Hsj & He & Hu & Hm & Hv). unfold P0.
  replace (s + 2 ^ 128 * sj + 2 ^ 131 * e + 2 ^ 132 * u + 2 ^ 133 * m + 2 ^ 160 * v)
    with ((s + 2 ^ 128 * sj) + 2 ^ 131 * (e + 2 ^ 1 * (u + 2 * m + 2 ^ 28 * v))) by (pw; lia).
  rewrite set_field_decomp by (pw; lia). pw. lia.
Qed.

Lemma P0_upd : forall s sj e u m v x, r0 s sj e u m v ->
  set_field (P0 s sj e u m v) 132 1 x = P0 s sj e (x mod 2 ^ 1) m v.
Proof.
  intros s sj e u m v x (Hs & Hsj & He & Hu & Hm & Hv). unfold P0.
  replace (s + 2 ^ 128 * sj + 2 ^ 131 * e + 2 ^ 132 * u + 2 ^ 133 * m + 2 ^ 160 * v)
    with ((s + 2 ^ 128 * sj + 2 ^ 131 * e) + 2 ^ 132 * (u + 2 ^ 1 * (m + 2 ^ 27 * v))) by (pw; lia).
  rewrite set_field_decomp by (pw; lia). pw. lia.
Qed.

Lemma P0_mrk : forall s sj e u m v x, r0 s sj e u m v ->
  set_field (P0 s sj e u m v) 133 3 x = P0 s sj e u (x mod 2 ^ 3) v.
Proof.
  intros s sj e u m v x (Hs & Hsj & He & Hu & Hm & Hv). unfold P0.
  replace (s + 2 ^ 128 * sj + 2 ^ 131 * e + 2 ^ 132 * u + 2 ^ 133 * m + 2 ^ 160 * v)
    with ((s + 2 ^ 128 * sj + 2 ^ 131 * e + 2 ^ 132 * u) + 2 ^ 133 * (m + 2 ^ 3 * (2 ^ 24 * v))) by (pw; lia).
  rewrite set_field_decomp by (pw; lia). pw. lia.
Qed.

Lemma P0_version : forall s sj e u m v x, r0 s sj e u m v ->
  set_field (P0 s sj e u m v) 160 32 x = P0 s sj e u m (x mod 2 ^ 32).
Proof.
  intros s sj e u m v x (Hs & Hsj & He & Hu & Hm & Hv). unfold P0.
  replace (s + 2 ^ 128 * sj + 2 ^ 131 * e + 2 ^ 132 * u + 2 ^ 133 * m + 2 ^ 160 * v)
    with ((s + 2 ^ 128 * sj + 2 ^ 131 * e + 2 ^ 132 * u + 2 ^ 133 * m) + 2 ^ 160 * (v + 2 ^ 32 * 0)) by (pw; lia).
  rewrite set_field_decomp by (pw; lia). pw. lia.
Qed.

(* value slot 0: nonce | expiration *)
Lemma V0_nonce : forall n x y, 0 <= n < 2 ^ 64 -> 0 <= x < 2 ^ 64 ->
  set_field (n + 2 ^ 64 * x) 0 64 y = y mod 2 ^ 64 + 2 ^ 64 * x.
Proof.
  intros n x y Hn Hx.
  replace (n + 2 ^ 64 * x) with (0 + 2 ^ 0 * (n + 2 ^ 64 * x)) by (pw; lia).
  rewrite set_field_decomp by (pw; lia). pw. lia.
Qed.

Lemma V0_exp : forall n x y, 0 <= n < 2 ^ 64 -> 0 <= x < 2 ^ 64 ->
  set_field (n + 2 ^ 64 * x) 64 64 y = n + 2 ^ 64 * (y mod 2 ^ 64).
Proof.
  intros n x y Hn Hx.
  replace (n + 2 ^ 64 * x) with (n + 2 ^ 64 * (x + 2 ^ 64 * 0)) by (pw; lia).
  rewrite set_field_decomp by (pw; lia). pw. lia.
Qed.

(* identifier slots: the 31 low bytes *)
Lemma ID_set : forall a y, 0 <= a < 2 ^ 248 ->
  set_field a 0 248 y = y mod 2 ^ 248.
Proof.
  intros a y Ha.
  replace a with (0 + 2 ^ 0 * (a + 2 ^ 248 * 0)) by (change (2 ^ 0) with 1; lia).
  rewrite set_field_decomp by (change (2 ^ 0) with 1; lia).
  change (2 ^ 0) with 1. lia.
Qed.

(* the whole claim in packed form: 14 numbers *)
Definition CL (s sj e u m v a b c n x d e2 f : Z) : claim :=
  Build_claim (P0 s sj e u m v) a b c (n + 2 ^ 64 * x) d e2 f.

Definition rc (s sj e u m v a n x d : Z) : Prop :=
  r0 s sj e u m v /\ 0 <= a < 2 ^ 248 /\ 0 <= n < 2 ^ 64 /\ 0 <= x < 2 ^ 64 /\ 0 <= d < 2 ^ 248.

Lemma claim_zero_CL : claim_zero = CL 0 0 0 0 0 0 0 0 0 0 0 0 0 0.
Proof. reflexivity. Qed.

Lemma mod_range : forall x k, 0 <= k -> 0 <= x mod 2 ^ k < 2 ^ k.
Proof. intros x k Hk. apply Z.mod_pos_bound. now apply pow2_pos. Qed.

Lemma b2z_range : forall b, 0 <= b2z b < 2.
Proof. destruct b; cbn; lia. Qed.
Lemma b2z_mod : forall b, b2z b mod 2 ^ 1 = b2z b.
Proof. destruct b; reflexivity. Qed.

Ltac setter L :=
  cbn [i0 i1 i2 i3 v0 v1 v2 v3 with_i0 with_i1 with_i2 with_i3 with_v0 with_v1 with_v2 with_v3];
  unfold off_schema, w_schema, off_subject, w_subject, off_expflag, off_updatable, off_merklized,
         w_merklized, off_version, w_version, w_id;
  rewrite L by assumption; reflexivity.

Section Setters.
  Variables s sj e u m v a b c n x d e2 f : Z.
  Hypothesis R : rc s sj e u m v a n x d.
  Let R0 : r0 s sj e u m v := proj1 R.

  Lemma CL_schema : forall h,
    set_schema_hash (CL s sj e u m v a b c n x d e2 f) h = CL (h mod 2 ^ 128) sj e u m v a b c n x d e2 f.
  Proof. intros h. unfold set_schema_hash, CL. setter P0_schema. Qed.

  Lemma CL_version : forall y,
    set_version (CL s sj e u m v a b c n x d e2 f) y = CL s sj e u m (y mod 2 ^ 32) a b c n x d e2 f.
  Proof. intros y. unfold set_version, CL. setter P0_version. Qed.

  Lemma CL_subject : forall y,
    set_subject (CL s sj e u m v a b c n x d e2 f) y = CL s (y mod 2 ^ 3) e u m v a b c n x d e2 f.
  Proof. intros y. unfold set_subject, CL. setter P0_subject. Qed.

  Lemma CL_expflag : forall y,
    set_flag_expiration (CL s sj e u m v a b c n x d e2 f) y = CL s sj (b2z y) u m v a b c n x d e2 f.
  Proof.
    intros y. unfold set_flag_expiration, CL.
    cbn [i0 i1 i2 i3 v0 v1 v2 v3 with_i0]. unfold off_expflag.
    rewrite P0_exp by assumption. now rewrite b2z_mod.
  Qed.

  Lemma CL_updatable : forall y,
    set_flag_updatable (CL s sj e u m v a b c n x d e2 f) y = CL s sj e (b2z y) m v a b c n x d e2 f.
  Proof.
    intros y. unfold set_flag_updatable, CL.
    cbn [i0 i1 i2 i3 v0 v1 v2 v3 with_i0]. unfold off_updatable.
    rewrite P0_upd by assumption. now rewrite b2z_mod.
  Qed.

  Lemma CL_merklized : forall y,
    set_flag_merklized (CL s sj e u m v a b c n x d e2 f) y = CL s sj e u (y mod 2 ^ 3) v a b c n x d e2 f.
  Proof. intros y. unfold set_flag_merklized, CL. setter P0_mrk. Qed.

  Lemma CL_nonce : forall y,
    set_revocation_nonce (CL s sj e u m v a b c n x d e2 f) y = CL s sj e u m v a b c (y mod 2 ^ 64) x d e2 f.
  Proof.
    intros y. unfold set_revocation_nonce, CL.
    cbn [i0 i1 i2 i3 v0 v1 v2 v3 with_v0].
    pose proof R as (_ & _ & Hn & Hx & _). now rewrite V0_nonce.
  Qed.

  Lemma CL_index_id : forall id,
    set_index_id (CL s sj e u m v a b c n x d e2 f) id = CL s 2 e u m v (id mod 2 ^ 248) b c n x 0 e2 f.
  Proof.
    intros id. unfold set_index_id.
    pose proof R as (_ & Ha & Hn & Hx & Hd).
    assert (E1 : with_v1 (CL s sj e u m v a b c n x d e2 f) (set_field (v1 (CL s sj e u m v a b c n x d e2 f)) 0 w_id 0)
                 = CL s sj e u m v a b c n x 0 e2 f).
    { unfold CL. cbn [i0 i1 i2 i3 v0 v1 v2 v3 with_v1]. unfold w_id. now rewrite ID_set. }
    rewrite E1.
    assert (E2 : set_subject (CL s sj e u m v a b c n x 0 e2 f) subject_index = CL s 2 e u m v a b c n x 0 e2 f).
    { unfold set_subject, CL. cbn [i0 i1 i2 i3 v0 v1 v2 v3 with_i0]. unfold off_subject, w_subject.
      now rewrite P0_subject. }
    rewrite E2. unfold CL. cbn [i0 i1 i2 i3 v0 v1 v2 v3 with_i1]. unfold w_id. now rewrite ID_set.
  Qed.

  Lemma CL_value_id : forall id,
    set_value_id (CL s sj e u m v a b c n x d e2 f) id = CL s 3 e u m v 0 b c n x (id mod 2 ^ 248) e2 f.
  Proof.
    intros id. unfold set_value_id.
    pose proof R as (_ & Ha & Hn & Hx & Hd).
    assert (E1 : with_i1 (CL s sj e u m v a b c n x d e2 f) (set_field (i1 (CL s sj e u m v a b c n x d e2 f)) 0 w_id 0)
                 = CL s sj e u m v 0 b c n x d e2 f).
    { unfold CL. cbn [i0 i1 i2 i3 v0 v1 v2 v3 with_i1]. unfold w_id. now rewrite ID_set. }
    rewrite E1.
    assert (E2 : set_subject (CL s sj e u m v 0 b c n x d e2 f) subject_value = CL s 3 e u m v 0 b c n x d e2 f).
    { unfold set_subject, CL. cbn [i0 i1 i2 i3 v0 v1 v2 v3 with_i0]. unfold off_subject, w_subject.
      now rewrite P0_subject. }
    rewrite E2. unfold CL. cbn [i0 i1 i2 i3 v0 v1 v2 v3 with_v1]. unfold w_id. now rewrite ID_set.
  Qed.

  Lemma CL_expiration : forall y,
    set_expiration_date (CL s sj e u m v a b c n x d e2 f) y = CL s sj 1 u m v a b c n (y mod 2 ^ 64) d e2 f.
  Proof.
    intros y. unfold set_expiration_date. rewrite CL_expflag.
    unfold CL. cbn [i0 i1 i2 i3 v0 v1 v2 v3 with_v0 b2z].
    pose proof R as (_ & _ & Hn & Hx & _). now rewrite V0_exp.
  Qed.

  Lemma CL_index_root : forall r,
    set_index_merklized_root (CL s sj e u m v a b c n x d e2 f) r =
    if in_field r then Ok (CL s sj e u 1 v a r c n x d 0 f) else Err slot_overflow.
  Proof.
    intros r. unfold set_index_merklized_root, set_slot_int.
    assert (E : set_flag_merklized (with_v2 (CL s sj e u m v a b c n x d e2 f) 0) mrk_index
                = CL s sj e u 1 v a b c n x d 0 f).
    { unfold set_flag_merklized, CL. cbn [i0 i1 i2 i3 v0 v1 v2 v3 with_i0 with_v2].
      unfold off_merklized, w_merklized. now rewrite P0_mrk. }
    rewrite E. destruct (in_field r); reflexivity.
  Qed.

  Lemma CL_value_root : forall r,
    set_value_merklized_root (CL s sj e u m v a b c n x d e2 f) r =
    if in_field r then Ok (CL s sj e u 2 v a 0 c n x d r f) else Err slot_overflow.
  Proof.
    intros r. unfold set_value_merklized_root, set_slot_int.
    assert (E : set_flag_merklized (with_i2 (CL s sj e u m v a b c n x d e2 f) 0) mrk_value
                = CL s sj e u 2 v a 0 c n x d e2 f).
    { unfold set_flag_merklized, CL. cbn [i0 i1 i2 i3 v0 v1 v2 v3 with_i0 with_i2].
      unfold off_merklized, w_merklized. now rewrite P0_mrk. }
    rewrite E. destruct (in_field r); reflexivity.
  Qed.
End Setters.

(* ================= the arithmetic layout (specification) ================= *)

Definition rmap {A B} (f : A -> B) (r : res A) : res B :=
  match r with Ok a => Ok (f a) | Err t => Err t | Panic w => Panic w | Diverge => Diverge end.

(* where the subject identifier goes *)
Inductive subj := SNone | SIndex (id : Z) | SValue (id : Z).
(* where the Merkle root goes *)
Inductive rootp := RNone | RIndex | RValue.

Definition subject_flag (sb : subj) : Z := match sb with SNone => 0 | SIndex _ => 2 | SValue _ => 3 end.
Definition merklized_flag (rt : rootp) : Z := match rt with RNone => 0 | RIndex => 1 | RValue => 2 end.
Definition exp_flag (e : option Z) : Z := match e with Some _ => 1 | None => 0 end.

(* the 8 slot integers, slot by slot *)
Definition layout (schema : Z) (sb : subj) (exp : option Z) (upd : bool) (rt : rootp)
                  (version nonce root : Z) (sl : slots) : list Z :=
  [ schema + 2 ^ 128 * (subject_flag sb + 8 * exp_flag exp + 16 * b2z upd + 32 * merklized_flag rt)
           + 2 ^ 160 * version;
    match sb with SIndex id => id mod 2 ^ 248 | _ => 0 end;
    match rt with RIndex => root | RValue => 0 | RNone => s_index_a sl end;
    s_index_b sl;
    nonce + 2 ^ 64 * match exp with Some e => e mod 2 ^ 64 | None => 0 end;
    match sb with SValue id => id mod 2 ^ 248 | _ => 0 end;
    match rt with RValue => root | RIndex => 0 | RNone => s_value_a sl end;
    s_value_b sl ].

Definition slots_in_field (sl : slots) : bool :=
  (s_index_a sl <? q) && (s_index_b sl <? q) && (s_value_a sl <? q) && (s_value_b sl <? q).

Definition subject_spec (O : oracles) (c : cred) (o : opts) : res subj :=
  match c_subject c with
  | None => Ok SNone
  | Some s =>
    match did_to_id O s with
    | None => Err "did"
    | Some id =>
        if String.eqb (o_subject_pos o) "" || String.eqb (o_subject_pos o) pos_index then Ok (SIndex id)
        else if String.eqb (o_subject_pos o) pos_value then Ok (SValue id)
        else Err "unknown-subject-position"
    end
  end.

Definition root_spec (rp : string) : res rootp :=
  if String.eqb rp pos_index then Ok RIndex
  else if String.eqb rp pos_value then Ok RValue
  else if String.eqb rp "" then Ok RNone
  else Err "unknown-root-position".

(* what the claim builder must produce from the working copy of the options *)
Definition spec_build (O : oracles) (c : cred) (mz : mzview) (ty : string) (sl : slots) (work : opts)
  : res (list Z) :=
  if slots_in_field sl then
    sb <- subject_spec O c work ;;
    rt <- root_spec (o_root_pos work) ;;
    if match rt with RNone => true | _ => in_field (m_root mz) end
    then Ok (layout (schema_hash O ty mod 2 ^ 128) sb (c_expiration c) (o_updatable work) rt
                    (o_version work mod 2 ^ 32) (o_nonce work mod 2 ^ 64) (m_root mz) sl)
    else Err slot_overflow
  else Err slot_overflow.

Lemma new_claim_spec : forall sh sl n v,
  new_claim sh sl n v =
  if slots_in_field sl
  then Ok (CL (sh mod 2 ^ 128) 0 0 0 0 (v mod 2 ^ 32) 0 (s_index_a sl) (s_index_b sl) (n mod 2 ^ 64) 0 0
              (s_value_a sl) (s_value_b sl))
  else Err slot_overflow.
Proof.
  intros sh sl n v. unfold new_claim, slots_in_field, set_slot_bytes.
  destruct (s_index_a sl <? q); [|reflexivity].
  destruct (s_index_b sl <? q); [|reflexivity].
  destruct (s_value_a sl <? q); [|reflexivity].
  destruct (s_value_b sl <? q); [|reflexivity].
  cbn [bind andb].
  assert (R1 : rc 0 0 0 0 0 0 0 0 0 0) by (unfold rc, r0; pw; change (2 ^ 248) with (Z.pow_pos 2 248); lia).
  rewrite claim_zero_CL. rewrite (CL_schema _ _ _ _ _ _ _ _ _ _ _ _ _ _ R1).
  assert (H128 := mod_range sh 128 ltac:(lia)).
  assert (R2 : rc (sh mod 2 ^ 128) 0 0 0 0 0 0 0 0 0) by (unfold rc, r0 in *; tauto).
  (* the four data slots are plain assignments *)
  unfold CL at 1. unfold with_i2, with_i3, with_v2, with_v3. cbn [i0 i1 i2 i3 v0 v1 v2 v3].
  change (Build_claim (P0 (sh mod 2 ^ 128) 0 0 0 0 0) 0 (s_index_a sl) (s_index_b sl) (0 + 2 ^ 64 * 0) 0
                      (s_value_a sl) (s_value_b sl))
    with (CL (sh mod 2 ^ 128) 0 0 0 0 0 0 (s_index_a sl) (s_index_b sl) 0 0 0 (s_value_a sl) (s_value_b sl)).
  rewrite (CL_nonce _ _ _ _ _ _ _ _ _ _ _ _ _ _ R2).
  assert (H64 := mod_range n 64 ltac:(lia)).
  assert (R3 : rc (sh mod 2 ^ 128) 0 0 0 0 0 0 (n mod 2 ^ 64) 0 0) by (unfold rc, r0 in *; tauto).
  now rewrite (CL_version _ _ _ _ _ _ _ _ _ _ _ _ _ _ R3).
Qed.

Lemma P0_flags : forall s sj e u m v,
  P0 s sj e u m v = s + 2 ^ 128 * (sj + 8 * e + 16 * u + 32 * m) + 2 ^ 160 * v.
Proof. intros. unfold P0. pw. lia. Qed.

(* the claim builder against its arithmetic specification *)
Lemma tcc_build_spec : forall O c mz ty sl work,
  rmap ints (tcc_build O c mz ty sl work) = spec_build O c mz ty sl work.
Proof.
  intros O c mz ty sl work. unfold tcc_build, spec_build.
  rewrite new_claim_spec. destruct (slots_in_field sl); [|reflexivity].
  cbn [bind].
  set (S := schema_hash O ty mod 2 ^ 128).
  set (V := o_version work mod 2 ^ 32).
  set (N := o_nonce work mod 2 ^ 64).
  assert (HS : 0 <= S < 2 ^ 128) by (apply mod_range; lia).
  assert (HV : 0 <= V < 2 ^ 32) by (apply mod_range; lia).
  assert (HN : 0 <= N < 2 ^ 64) by (apply mod_range; lia).
  (* updatable *)
  assert (EU : (if o_updatable work
                then set_flag_updatable (CL S 0 0 0 0 V 0 (s_index_a sl) (s_index_b sl) N 0 0 (s_value_a sl) (s_value_b sl))
                                        (o_updatable work)
                else CL S 0 0 0 0 V 0 (s_index_a sl) (s_index_b sl) N 0 0 (s_value_a sl) (s_value_b sl))
               = CL S 0 0 (b2z (o_updatable work)) 0 V 0 (s_index_a sl) (s_index_b sl) N 0 0 (s_value_a sl) (s_value_b sl)).
  { destruct (o_updatable work); [|reflexivity].
    apply CL_updatable. unfold rc, r0. pw. change (2 ^ 248) with (Z.pow_pos 2 248). lia. }
  rewrite EU. clear EU.
  pose proof (b2z_range (o_updatable work)) as HU. set (U := b2z (o_updatable work)) in *.
  (* expiration *)
  set (E := exp_flag (c_expiration c)).
  set (X := match c_expiration c with Some e => e mod 2 ^ 64 | None => 0 end).
  assert (EE : match c_expiration c with
               | Some e => set_expiration_date (CL S 0 0 U 0 V 0 (s_index_a sl) (s_index_b sl) N 0 0 (s_value_a sl) (s_value_b sl)) e
               | None => CL S 0 0 U 0 V 0 (s_index_a sl) (s_index_b sl) N 0 0 (s_value_a sl) (s_value_b sl)
               end = CL S 0 E U 0 V 0 (s_index_a sl) (s_index_b sl) N X 0 (s_value_a sl) (s_value_b sl)).
  { unfold E, X. destruct (c_expiration c) as [e|]; [|reflexivity].
    apply CL_expiration. unfold rc, r0. pw. change (2 ^ 248) with (Z.pow_pos 2 248). lia. }
  rewrite EE. clear EE.
  assert (HE : 0 <= E < 2) by (unfold E, exp_flag; destruct (c_expiration c); lia).
  assert (HX : 0 <= X < 2 ^ 64).
  { unfold X. destruct (c_expiration c); [apply mod_range; lia | pw; lia]. }
  (* subject *)
  assert (RS : rc S 0 E U 0 V 0 N X 0)
    by (unfold rc, r0; pw; change (2 ^ 248) with (Z.pow_pos 2 248) in *; lia).
  assert (ES : match c_subject c with
               | None => Ok (CL S 0 E U 0 V 0 (s_index_a sl) (s_index_b sl) N X 0 (s_value_a sl) (s_value_b sl))
               | Some s0 =>
                   id <- of_option (did_to_id O s0) "did" ;;
                   (if String.eqb (o_subject_pos work) "" || String.eqb (o_subject_pos work) pos_index
                    then Ok (set_index_id (CL S 0 E U 0 V 0 (s_index_a sl) (s_index_b sl) N X 0 (s_value_a sl) (s_value_b sl)) id)
                    else if String.eqb (o_subject_pos work) pos_value
                         then Ok (set_value_id (CL S 0 E U 0 V 0 (s_index_a sl) (s_index_b sl) N X 0 (s_value_a sl) (s_value_b sl)) id)
                         else Err "unknown-subject-position")
               end
               = sb <- subject_spec O c work ;;
                 Ok (CL S (subject_flag sb) E U 0 V
                        (match sb with SIndex id => id mod 2 ^ 248 | _ => 0 end)
                        (s_index_a sl) (s_index_b sl) N X
                        (match sb with SValue id => id mod 2 ^ 248 | _ => 0 end)
                        (s_value_a sl) (s_value_b sl))).
  { unfold subject_spec. destruct (c_subject c) as [s0|]; [|reflexivity].
    destruct (did_to_id O s0) as [id|]; [|reflexivity].
    cbn [of_option bind].
    destruct (String.eqb (o_subject_pos work) "" || String.eqb (o_subject_pos work) pos_index).
    - cbn [bind subject_flag]. now rewrite (CL_index_id _ _ _ _ _ _ _ _ _ _ _ _ _ _ RS).
    - destruct (String.eqb (o_subject_pos work) pos_value); [|reflexivity].
      cbn [bind subject_flag]. now rewrite (CL_value_id _ _ _ _ _ _ _ _ _ _ _ _ _ _ RS). }
  rewrite ES. clear ES.
  destruct (subject_spec O c work) as [sb| | |]; try reflexivity.
  cbn [bind].
  set (A := match sb with SIndex id => id mod 2 ^ 248 | _ => 0 end).
  set (D := match sb with SValue id => id mod 2 ^ 248 | _ => 0 end).
  assert (HA : 0 <= A < 2 ^ 248).
  { unfold A. destruct sb; try (apply mod_range; lia); change (2 ^ 248) with (Z.pow_pos 2 248); lia. }
  assert (HD : 0 <= D < 2 ^ 248).
  { unfold D. destruct sb; try (apply mod_range; lia); change (2 ^ 248) with (Z.pow_pos 2 248); lia. }
  assert (HJ : 0 <= subject_flag sb < 8) by (destruct sb; cbn; lia).
  assert (RR : rc S (subject_flag sb) E U 0 V A N X D)
    by (unfold rc, r0; pw; lia).
  (* root *)
  unfold root_spec.
  destruct (String.eqb (o_root_pos work) pos_index).
  { rewrite (CL_index_root _ _ _ _ _ _ _ _ _ _ _ _ _ _ RR). cbn [bind].
    destruct (in_field (m_root mz)); [|reflexivity].
    cbn [rmap]. f_equal. unfold CL, ints, layout. cbn [i0 i1 i2 i3 v0 v1 v2 v3 merklized_flag].
    rewrite P0_flags. fold E. reflexivity. }
  destruct (String.eqb (o_root_pos work) pos_value).
  { rewrite (CL_value_root _ _ _ _ _ _ _ _ _ _ _ _ _ _ RR). cbn [bind].
    destruct (in_field (m_root mz)); [|reflexivity].
    cbn [rmap]. f_equal. unfold CL, ints, layout. cbn [i0 i1 i2 i3 v0 v1 v2 v3 merklized_flag].
    rewrite P0_flags. fold E. reflexivity. }
  destruct (String.eqb (o_root_pos work) ""); [|reflexivity].
  cbn [bind rmap]. f_equal. unfold CL, ints, layout. cbn [i0 i1 i2 i3 v0 v1 v2 v3 merklized_flag].
  rewrite P0_flags. fold E. reflexivity.
Qed.

(* ================= schema hash ================= *)

(* the n low-order bytes of d, most significant first (a big-endian byte string) *)
Fixpoint be_bytes (n : nat) (d : Z) : list Z :=
  match n with
  | O => []
  | S k => be_bytes k (d / 256) ++ [d mod 256]
  end.
(* a byte string read as a little-endian number *)
Definition le_int (l : list Z) : Z := fold_right (fun b acc => b + 256 * acc) 0 l.

Fixpoint bsum (n : nat) (x : Z) : Z :=
  match n with
  | O => 0
  | S k => (x mod 256) * 256 ^ Z.of_nat k + bsum k (x / 256)
  end.

Lemma pow256_S : forall k, 256 ^ Z.of_nat (S k) = 256 * 256 ^ Z.of_nat k.
Proof. intros k. rewrite Nat2Z.inj_succ. rewrite Z.pow_succ_r by lia. reflexivity. Qed.

Lemma bswap_acc_sum : forall n x acc, bswap_acc n x acc = acc * 256 ^ Z.of_nat n + bsum n x.
Proof.
  induction n as [|k IH]; intros x acc.
  - cbn. lia.
  - cbn [bswap_acc bsum]. rewrite IH. rewrite pow256_S. ring.
Qed.

Lemma bsum_range : forall n x, 0 <= bsum n x < 256 ^ Z.of_nat n.
Proof.
  induction n as [|k IH]; intros x.
  - cbn. lia.
  - cbn [bsum]. rewrite pow256_S. specialize (IH (x / 256)).
    pose proof (Z.mod_pos_bound x 256 ltac:(lia)) as Hb.
    assert (0 < 256 ^ Z.of_nat k) by (apply Z.pow_pos_nonneg; lia). nia.
Qed.

Lemma bsum_mod : forall n x, bsum n (x mod 256 ^ Z.of_nat n) = bsum n x.
Proof.
  induction n as [|k IH]; intros x.
  - reflexivity.
  - cbn [bsum]. rewrite pow256_S.
    assert (Pk : 0 < 256 ^ Z.of_nat k) by (apply Z.pow_pos_nonneg; lia).
    rewrite Z.rem_mul_r by lia.
    assert (E1 : (x mod 256 + 256 * ((x / 256) mod 256 ^ Z.of_nat k)) mod 256 = x mod 256).
    { replace (x mod 256 + 256 * ((x / 256) mod 256 ^ Z.of_nat k))
        with (x mod 256 + ((x / 256) mod 256 ^ Z.of_nat k) * 256) by ring.
      rewrite Z.mod_add by lia. apply Z.mod_mod. lia. }
    assert (E2 : (x mod 256 + 256 * ((x / 256) mod 256 ^ Z.of_nat k)) / 256 = (x / 256) mod 256 ^ Z.of_nat k).
    { replace (x mod 256 + 256 * ((x / 256) mod 256 ^ Z.of_nat k))
        with (((x / 256) mod 256 ^ Z.of_nat k) * 256 + x mod 256) by ring.
      rewrite Z.div_add_l by lia.
      rewrite (Z.div_small (x mod 256)) by (apply Z.mod_pos_bound; lia). lia. }
    rewrite E1, E2, IH. reflexivity.
Qed.

Lemma le_int_app1 : forall l b, le_int (l ++ [b]) = le_int l + 256 ^ Z.of_nat (List.length l) * b.
Proof.
  induction l as [|h t IH]; intros b.
  - unfold le_int. cbn [app fold_right List.length]. change (Z.of_nat 0) with 0. rewrite Z.pow_0_r. lia.
  - cbn [app le_int fold_right List.length]. fold (le_int (t ++ [b])). fold (le_int t).
    rewrite IH. rewrite pow256_S. ring.
Qed.

Lemma be_bytes_length : forall n d, List.length (be_bytes n d) = n.
Proof.
  induction n as [|k IH]; intros d; [reflexivity|].
  cbn [be_bytes]. rewrite app_length, IH. cbn. lia.
Qed.

Lemma le_int_be_bytes : forall n d, le_int (be_bytes n d) = bsum n d.
Proof.
  induction n as [|k IH]; intros d; [reflexivity|].
  cbn [be_bytes bsum]. rewrite le_int_app1, be_bytes_length, IH. ring.
Qed.

Lemma be_bytes_app : forall m n d,
  be_bytes (n + m) d = be_bytes n (d / 256 ^ Z.of_nat m) ++ be_bytes m d.
Proof.
  induction m as [|k IH]; intros n d.
  - rewrite Nat.add_0_r. cbn [be_bytes]. rewrite app_nil_r. change (256 ^ Z.of_nat 0) with 1.
    now rewrite Z.div_1_r.
  - replace (n + S k)%nat with (S (n + k)) by lia. cbn [be_bytes]. rewrite IH.
    rewrite pow256_S. rewrite <- Z.div_div by (try apply Z.pow_pos_nonneg; lia).
    now rewrite app_assoc.
Qed.

Lemma skipn_app_length : forall {A} (a b : list A), skipn (List.length a) (a ++ b) = b.
Proof. induction a as [|h t IH]; intros b; [reflexivity|]. cbn. apply IH. Qed.

Lemma schema_hash_range : forall O ty, 0 <= schema_hash O ty < 2 ^ 128.
Proof.
  intros O ty. unfold schema_hash, bswap. rewrite bswap_acc_sum.
  pose proof (bsum_range 16 (keccak O ty mod 2 ^ 128)) as H.
  change (256 ^ Z.of_nat 16) with (2 ^ 128) in H. lia.
Qed.

(* the schema hash is the last 16 bytes of the 32-byte digest, read little-endian *)
Lemma schema_hash_last16 : forall O ty,
  schema_hash O ty = le_int (skipn 16 (be_bytes 32 (keccak O ty))).
Proof.
  intros O ty. unfold schema_hash, bswap. rewrite bswap_acc_sum.
  change (2 ^ 128) with (256 ^ Z.of_nat 16). rewrite bsum_mod.
  change 32%nat with (16 + 16)%nat. rewrite be_bytes_app.
  pose proof (skipn_app_length (be_bytes 16 (keccak O ty / 256 ^ Z.of_nat 16)) (be_bytes 16 (keccak O ty))) as E.
  rewrite be_bytes_length in E. rewrite E. rewrite le_int_be_bytes. lia.
Qed.

(* ================= to_core_claim against the specification ================= *)

Definition eff_opts (caller : option opts) : opts :=
  match caller with Some o => o | None => default_opts end.

(* the options the builder reads: for a merklized schema an empty root position means "index" *)
Definition work_opts (non_merklized : bool) (o : opts) : opts :=
  if negb non_merklized && String.eqb (o_root_pos o) "" then with_root_pos o pos_index else o.

Lemma to_core_claim_unfold : forall O c caller,
  fst (to_core_claim O c caller) =
  match tcc_prefix c with
  | Ok (mz, ty, sl, nm) =>
      if nm && negb (String.eqb (o_root_pos (eff_opts caller)) "") then Err "root-position-not-supported"
      else tcc_build O c mz ty sl (work_opts nm (eff_opts caller))
  | Err t => Err t
  | Panic w => Panic w
  | Diverge => Diverge
  end.
Proof.
  intros O c caller. unfold to_core_claim, to_core_claim_at. cbn [fst].
  fold (eff_opts caller).
  destruct (tcc_prefix c) as [[[[mz ty] sl] nm]| | |]; try reflexivity.
  unfold tcc_root_default, work_opts. cbn [oload st_local].
  destruct nm; cbn [negb andb].
  - destruct (String.eqb (o_root_pos (eff_opts caller)) ""); reflexivity.
  - destruct (String.eqb (o_root_pos (eff_opts caller)) ""); reflexivity.
Qed.

(* master statement: the 8 slot integers or the error, for every input *)
Theorem to_core_claim_spec : forall O c caller,
  rmap ints (fst (to_core_claim O c caller)) =
  match tcc_prefix c with
  | Ok (mz, ty, sl, nm) =>
      if nm && negb (String.eqb (o_root_pos (eff_opts caller)) "") then Err "root-position-not-supported"
      else spec_build O c mz ty sl (work_opts nm (eff_opts caller))
  | Err t => Err t
  | Panic w => Panic w
  | Diverge => Diverge
  end.
Proof.
  intros O c caller. rewrite to_core_claim_unfold.
  destruct (tcc_prefix c) as [[[[mz ty] sl] nm]| | |]; try reflexivity.
  destruct (nm && negb (String.eqb (o_root_pos (eff_opts caller)) "")); [reflexivity|].
  apply tcc_build_spec.
Qed.

Lemma is_ok_rmap : forall {A B} (f : A -> B) (r : res A), is_ok (rmap f r) = is_ok r.
Proof. intros A B f r. destruct r; reflexivity. Qed.

Lemma work_opts_fields : forall nm o,
  o_subject_pos (work_opts nm o) = o_subject_pos o /\ o_updatable (work_opts nm o) = o_updatable o /\
  o_version (work_opts nm o) = o_version o /\ o_nonce (work_opts nm o) = o_nonce o /\
  o_root_pos (work_opts nm o) =
    (if nm then o_root_pos o else if String.eqb (o_root_pos o) "" then pos_index else o_root_pos o).
Proof.
  intros nm o. unfold work_opts. destruct nm; cbn [negb andb]; [tauto|].
  destruct (String.eqb (o_root_pos o) ""); cbn; tauto.
Qed.

Lemma subject_spec_work : forall O c nm o, subject_spec O c (work_opts nm o) = subject_spec O c o.
Proof.
  intros O c nm o. unfold subject_spec.
  destruct (work_opts_fields nm o) as (E & _). now rewrite E.
Qed.

(* the position the root is written to: none for a serialized schema, "index" by default *)
Definition root_pos_eff (non_merklized : bool) (o : opts) : string :=
  if non_merklized then "" else if String.eqb (o_root_pos o) "" then pos_index else o_root_pos o.

(* C05_layout: whenever a claim is produced, its 8 slot integers are the layout *)
Theorem layout_ok : forall O c caller mz ty sl nm cl,
  0 <= o_nonce (eff_opts caller) < 2 ^ 64 -> 0 <= o_version (eff_opts caller) < 2 ^ 32 ->
  tcc_prefix c = Ok (mz, ty, sl, nm) ->
  fst (to_core_claim O c caller) = Ok cl ->
  exists sb rt,
    subject_spec O c (eff_opts caller) = Ok sb /\
    root_spec (root_pos_eff nm (eff_opts caller)) = Ok rt /\
    ints cl = layout (schema_hash O ty) sb (c_expiration c) (o_updatable (eff_opts caller)) rt
                     (o_version (eff_opts caller)) (o_nonce (eff_opts caller)) (m_root mz) sl.
Proof.
  intros O c caller mz ty sl nm cl Hn Hv Hp Hok.
  pose proof (to_core_claim_spec O c caller) as S. rewrite Hp, Hok in S. cbn [rmap] in S.
  set (o := eff_opts caller) in *.
  destruct (work_opts_fields nm o) as (E1 & E2 & E3 & E4 & E5).
  destruct (nm && negb (String.eqb (o_root_pos o) "")) eqn:Hnm; [discriminate|].
  unfold spec_build in S.
  destruct (slots_in_field sl); [|discriminate].
  rewrite subject_spec_work in S.
  destruct (subject_spec O c o) as [sb| | |]; try discriminate. cbn [bind] in S.
  assert (ER : o_root_pos (work_opts nm o) = root_pos_eff nm o).
  { rewrite E5. unfold root_pos_eff. destruct nm; [|reflexivity].
    cbn [andb] in Hnm. destruct (String.eqb (o_root_pos o) "") eqn:He; [|discriminate].
    now apply String.eqb_eq in He. }
  rewrite ER in S.
  destruct (root_spec (root_pos_eff nm o)) as [rt| | |]; try discriminate. cbn [bind] in S.
  exists sb, rt. split; [reflexivity|]. split; [reflexivity|].
  destruct (match rt with RNone => true | _ => in_field (m_root mz) end); [|discriminate].
  apply (f_equal (fun r : res (list Z) => match r with Ok l => l | _ => [] end)) in S.
  cbv beta iota in S. rewrite S, E2, E3, E4.
  pose proof (schema_hash_range O ty) as Hs.
  rewrite (Z.mod_small _ _ Hs), (Z.mod_small _ _ Hv), (Z.mod_small _ _ Hn). reflexivity.
Qed.

(* C05_errors: exactly when a claim is produced *)
Theorem errors_exact : forall O c caller,
  is_ok (fst (to_core_claim O c caller)) = true <->
  exists mz ty sl nm,
    tcc_prefix c = Ok (mz, ty, sl, nm) /\
    (nm = true -> o_root_pos (eff_opts caller) = "") /\
    slots_in_field sl = true /\
    (exists sb, subject_spec O c (eff_opts caller) = Ok sb) /\
    (exists rt, root_spec (root_pos_eff nm (eff_opts caller)) = Ok rt /\
                (rt <> RNone -> in_field (m_root mz) = true)).
Proof.
  intros O c caller. rewrite <- (is_ok_rmap ints). rewrite to_core_claim_spec.
  set (o := eff_opts caller).
  destruct (tcc_prefix c) as [[[[mz ty] sl] nm]| | |].
  2,3,4: (split; [discriminate | intros (mz & ty & sl & nm & H & _); discriminate]).
  destruct (work_opts_fields nm o) as (E1 & E2 & E3 & E4 & E5).
  split.
  - intros H. exists mz, ty, sl, nm. split; [reflexivity|].
    destruct (nm && negb (String.eqb (o_root_pos o) "")) eqn:Hnm; [discriminate|].
    assert (Hroot : nm = true -> o_root_pos o = "").
    { intros ->. cbn [andb] in Hnm. destruct (String.eqb (o_root_pos o) "") eqn:He; [|discriminate].
      now apply String.eqb_eq. }
    split; [exact Hroot|].
    unfold spec_build in H. destruct (slots_in_field sl); [|discriminate]. split; [reflexivity|].
    rewrite subject_spec_work in H.
    destruct (subject_spec O c o) as [sb| | |]; try discriminate. split; [now exists sb|].
    cbn [bind] in H.
    assert (ER : o_root_pos (work_opts nm o) = root_pos_eff nm o).
    { rewrite E5. unfold root_pos_eff. destruct nm; [|reflexivity]. now apply Hroot. }
    rewrite ER in H.
    destruct (root_spec (root_pos_eff nm o)) as [rt| | |]; try discriminate. cbn [bind] in H.
    exists rt. split; [reflexivity|]. intros Hrt. destruct rt; [congruence| |];
      (destruct (in_field (m_root mz)); [reflexivity|discriminate]).
  - intros (mz' & ty' & sl' & nm' & Hp & Hroot & Hsl & (sb & Hsb) & (rt & Hrt & Hin)).
    inversion Hp; subst mz' ty' sl' nm'.
    assert (Hnm : nm && negb (String.eqb (o_root_pos o) "") = false).
    { destruct nm; [|reflexivity]. rewrite (Hroot eq_refl). reflexivity. }
    rewrite Hnm. unfold spec_build. rewrite Hsl. rewrite subject_spec_work, Hsb. cbn [bind].
    assert (ER : o_root_pos (work_opts nm o) = root_pos_eff nm o).
    { rewrite E5. unfold root_pos_eff. destruct nm; [|reflexivity]. now apply Hroot. }
    rewrite ER, Hrt. cbn [bind].
    destruct rt; [reflexivity| |]; (rewrite Hin by discriminate; reflexivity).
Qed.

(* an error of the credential-reading prefix is the error of the call *)
Theorem prefix_error : forall O c caller t, tcc_prefix c = Err t -> fst (to_core_claim O c caller) = Err t.
Proof. intros O c caller t H. rewrite to_core_claim_unfold, H. reflexivity. Qed.

(* ================= purity ================= *)

Lemma store_caller_untouched : forall O c caller,
  st_caller (snd (to_core_claim_at PLocal O c caller)) = eff_opts caller.
Proof.
  intros O c caller. unfold to_core_claim_at. fold (eff_opts caller).
  destruct (tcc_prefix c) as [[[[mz ty] sl] nm]| | |]; try reflexivity.
  unfold tcc_root_default. cbn [oload st_local].
  destruct nm; cbn [negb].
  - destruct (negb (String.eqb (o_root_pos (eff_opts caller)) "")); reflexivity.
  - destruct (String.eqb (o_root_pos (eff_opts caller)) ""); cbn [ostore_w];
      destruct (tcc_build _ _ _ _ _ _); reflexivity.
Qed.

(* C05_pure: the caller's options object is left exactly as it was *)
Theorem pure : forall O c caller, snd (to_core_claim O c caller) = caller.
Proof.
  intros O c caller. unfold to_core_claim. cbn [snd].
  destruct caller as [o|]; [|reflexivity].
  now rewrite store_caller_untouched.
Qed.

(* ================= histories ================= *)

Lemma replace_nth_same : forall {A} (l : list A) n a, nth_error l n = Some a -> replace_nth l n a = l.
Proof.
  induction l as [|h t IH]; intros n a H.
  - destruct n; discriminate.
  - destruct n as [|k]; cbn in *.
    + now inversion H.
    + f_equal. now apply IH.
Qed.

Lemma run_call_pure : forall O creds st k, snd (run_call O creds st k) = st.
Proof.
  intros O creds st k. unfold run_call.
  destruct (nth_error creds (k_cred k)) as [c|]; [|reflexivity].
  destruct (k_opts k) as [j|]; [|reflexivity].
  destruct (nth_error st j) as [o|] eqn:Hj; [|reflexivity].
  cbn [snd]. rewrite pure. now apply replace_nth_same.
Qed.

(* C05_history: after any sequence of calls the shared option objects are as
   before, and the i-th result is the result of that call made first *)
Theorem history_independent : forall O creds ks st,
  snd (run_history O creds st ks) = st /\
  fst (run_history O creds st ks) = map (fun k => fst (run_call O creds st k)) ks.
Proof.
  intros O creds ks. induction ks as [|k rest IH]; intros st.
  - split; reflexivity.
  - cbn [run_history fst snd map]. rewrite run_call_pure.
    destruct (IH st) as (H1 & H2). rewrite H1, H2. split; reflexivity.
Qed.

Corollary history_nth : forall O creds ks st i k,
  nth_error ks i = Some k ->
  nth_error (fst (run_history O creds st ks)) i = Some (fst (run_call O creds st k)).
Proof.
  intros O creds ks st i k H. destruct (history_independent O creds ks st) as (_ & E).
  rewrite E. exact (map_nth_error (fun k0 => fst (run_call O creds st k0)) i ks H).
Qed.

(* ================= independence of the term-map order ================= *)

Lemma find_term_in : forall n ts t, find_term n ts = Some t -> In t ts /\ t_name t = n.
Proof.
  intros n ts t H. unfold find_term in H. apply find_some in H.
  destruct H as (Hi & He). split; [exact Hi|]. now apply String.eqb_eq.
Qed.

Lemma find_term_unique : forall ts t, NoDup (map t_name ts) -> In t ts -> find_term (t_name t) ts = Some t.
Proof.
  induction ts as [|h r IH]; intros t Hnd Hin; [contradiction|].
  cbn [map] in Hnd. inversion Hnd as [|? ? Hni Hnd']; subst.
  unfold find_term. cbn [find].
  destruct Hin as [->|Hin].
  - now rewrite String.eqb_refl.
  - destruct (String.eqb (t_name h) (t_name t)) eqn:He.
    + apply String.eqb_eq in He. exfalso. apply Hni. rewrite He. now apply in_map.
    + now apply IH.
Qed.

Lemma find_term_none : forall n ts, (forall t, In t ts -> t_name t <> n) -> find_term n ts = None.
Proof.
  intros n ts H. unfold find_term.
  destruct (find (fun t => String.eqb (t_name t) n) ts) as [t|] eqn:E; [|reflexivity].
  apply find_some in E. destruct E as (Hi & He). apply String.eqb_eq in He. exfalso. now apply (H t).
Qed.

Lemma find_term_perm : forall n ts ts',
  NoDup (map t_name ts) -> Permutation ts ts' -> find_term n ts = find_term n ts'.
Proof.
  intros n ts ts' Hnd Hp.
  assert (Hnd' : NoDup (map t_name ts')).
  { eapply Permutation_NoDup; [|exact Hnd]. now apply Permutation_map. }
  destruct (find_term n ts) as [t|] eqn:E.
  - apply find_term_in in E. destruct E as (Hi & <-). symmetry.
    apply find_term_unique; [exact Hnd'|]. eapply Permutation_in; eassumption.
  - symmetry. apply find_term_none. intros t Hi Hn.
    assert (Hi' : In t ts) by (eapply Permutation_in; [apply Permutation_sym|]; eassumption).
    rewrite <- Hn in E. rewrite (find_term_unique ts t Hnd Hi') in E. discriminate.
Qed.

Lemma ser_attr_loop_perm : forall names ts ts' tp,
  NoDup (map t_name ts) -> Permutation ts ts' ->
  ser_attr_loop names ts tp = ser_attr_loop names ts' tp.
Proof.
  induction names as [|n rest IH]; intros ts ts' tp Hnd Hp; [reflexivity|].
  cbn [ser_attr_loop]. rewrite <- (find_term_perm n ts ts' Hnd Hp).
  rewrite <- (IH ts ts' tp Hnd Hp). reflexivity.
Qed.

(* the lookup does not depend on the order in which the map presents its terms *)
Theorem ser_attr_perm : forall ts ts' tp,
  NoDup (map t_name ts) -> Permutation ts ts' ->
  serialization_attr_of_context ts tp = serialization_attr_of_context ts' tp.
Proof.
  intros ts ts' tp Hnd Hp. unfold serialization_attr_of_context.
  rewrite (sort_strings_perm (map t_name ts) (map t_name ts')) by now apply Permutation_map.
  now apply ser_attr_loop_perm.
Qed.

Definition with_ctx (c : cred) (ts : option (list term)) : cred :=
  {| c_mz := c_mz c; c_subject := c_subject c; c_expiration := c_expiration c; c_ctx := ts |}.

(* C05_deterministic: claim and options left behind are the same for every
   order of the term definitions *)
Theorem deterministic : forall O c ts ts' caller,
  NoDup (map t_name ts) -> Permutation ts ts' ->
  to_core_claim O (with_ctx c (Some ts)) caller = to_core_claim O (with_ctx c (Some ts')) caller.
Proof.
  intros O c ts ts' caller Hnd Hp.
  assert (E : tcc_prefix (with_ctx c (Some ts)) = tcc_prefix (with_ctx c (Some ts'))).
  { unfold tcc_prefix, with_ctx. cbn [c_mz].
    destruct (c_mz c) as [mz|]; [|reflexivity]. cbn [of_option bind].
    destruct (find_credential_type mz) as [ty| | |]; try reflexivity. cbn [bind].
    unfold parse_slots, get_serialization_attr. cbn [c_ctx of_option bind].
    now rewrite (ser_attr_perm ts ts' ty Hnd Hp). }
  unfold to_core_claim, to_core_claim_at. rewrite E.
  destruct (tcc_prefix (with_ctx c (Some ts'))) as [[[[mz ty] sl] nm]| | |]; try reflexivity.
Qed.

(* ================= expiration: Unix seconds, whatever the fraction ================= *)

Theorem expiration_seconds : forall O mz subj ctx caller t t',
  gt_sec t = gt_sec t' ->
  to_core_claim O (cred_at mz subj (Some t) ctx) caller =
  to_core_claim O (cred_at mz subj (Some t') ctx) caller.
Proof.
  intros O mz subj ctx caller t t' H. unfold cred_at, time_unix. now rewrite H.
Qed.

Lemma layout_v0 : forall schema sb exp upd rt version nonce root sl,
  nth 4 (layout schema sb exp upd rt version nonce root sl) 0 =
  nonce + 2 ^ 64 * match exp with Some e => e mod 2 ^ 64 | None => 0 end.
Proof. intros. unfold layout. reflexivity. Qed.

Lemma layout_i0 : forall schema sb exp upd rt version nonce root sl,
  nth 0 (layout schema sb exp upd rt version nonce root sl) 0 =
  schema + 2 ^ 128 * (subject_flag sb + 8 * exp_flag exp + 16 * b2z upd + 32 * merklized_flag rt)
         + 2 ^ 160 * version.
Proof. intros. unfold layout. reflexivity. Qed.

Lemma expflag_of_i0 : forall s sj u m v,
  0 <= s < 2 ^ 128 -> 0 <= sj < 8 -> 0 <= u < 2 -> 0 <= m < 3 -> 0 <= v ->
  get_field (s + 2 ^ 128 * (sj + 8 * 1 + 16 * u + 32 * m) + 2 ^ 160 * v) 131 1 = 1.
Proof.
  intros s sj u m v Hs Hsj Hu Hm Hv.
  replace (s + 2 ^ 128 * (sj + 8 * 1 + 16 * u + 32 * m) + 2 ^ 160 * v)
    with ((s + 2 ^ 128 * sj) + 2 ^ 131 * (1 + 2 ^ 1 * (u + 2 * m + 2 ^ 28 * v))) by (pw; lia).
  apply get_field_decomp; pw; lia.
Qed.

(* value slot 0 of every claim built from a credential expiring at instant t *)
Theorem expiration_layout : forall O mz subj ctx caller t cl,
  0 <= o_nonce (eff_opts caller) < 2 ^ 64 -> 0 <= o_version (eff_opts caller) < 2 ^ 32 ->
  fst (to_core_claim O (cred_at mz subj (Some t) ctx) caller) = Ok cl ->
  v0 cl = o_nonce (eff_opts caller) + 2 ^ 64 * (gt_sec t mod 2 ^ 64) /\
  get_field (i0 cl) 131 1 = 1.
Proof.
  intros O mz subj ctx caller t cl Hn Hv Hok.
  destruct (tcc_prefix (cred_at mz subj (Some t) ctx)) as [[[[mz' ty] sl] nm]| | |] eqn:Hp;
    try (rewrite to_core_claim_unfold, Hp in Hok; discriminate).
  destruct (layout_ok O _ caller mz' ty sl nm cl Hn Hv Hp Hok) as (sb & rt & _ & _ & Hl).
  assert (H4 : v0 cl = nth 4 (ints cl) 0) by reflexivity.
  assert (H0 : i0 cl = nth 0 (ints cl) 0) by reflexivity.
  rewrite Hl, layout_v0 in H4. rewrite Hl, layout_i0 in H0.
  split; [exact H4|].
  rewrite H0. change (exp_flag (c_expiration (cred_at mz subj (Some t) ctx))) with 1.
  pose proof (schema_hash_range O ty) as Hs.
  apply expflag_of_i0; try exact Hs; try lia.
  - destruct sb; cbn; lia.
  - apply b2z_range.
  - destruct rt; cbn; lia.
Qed.

(* ================= the data slots ================= *)

Theorem parse_slots_spec : forall c mz tp sl nm,
  parse_slots c mz tp = Ok (sl, nm) ->
  exists a, get_serialization_attr c tp = Ok a /\
    (a = "" -> nm = false /\ sl = slots_zero) /\
    (a <> "" -> nm = true /\
       exists sp, parse_serialization_attr a = Ok sp /\
         let enc p := if String.eqb p "" then Ok 0 else v <- m_field mz p ;; Ok (v mod 2 ^ 256) in
         (paths_is_empty sp = true -> sl = slots_zero) /\
         (paths_is_empty sp = false ->
            enc (p_index_a sp) = Ok (s_index_a sl) /\ enc (p_index_b sp) = Ok (s_index_b sl) /\
            enc (p_value_a sp) = Ok (s_value_a sl) /\ enc (p_value_b sp) = Ok (s_value_b sl))).
Proof.
  intros c mz tp sl nm H. unfold parse_slots in H.
  destruct (get_serialization_attr c tp) as [a| | |]; try discriminate. cbn [bind] in H.
  exists a. split; [reflexivity|].
  destruct (String.eqb a "") eqn:Ea.
  - apply String.eqb_eq in Ea. inversion H; subst. split; [tauto|]. intros Hne. congruence.
  - apply String.eqb_neq in Ea. split; [intros He; congruence|]. intros _.
    destruct (parse_serialization_attr a) as [sp| | |]; try discriminate. cbn [bind] in H.
    destruct (paths_is_empty sp) eqn:Hemp.
    + inversion H; subst. split; [reflexivity|]. exists sp. split; [reflexivity|].
      cbv zeta. split; [reflexivity|intros Hf; congruence].
    + unfold fill_slot in H.
      destruct (if String.eqb (p_index_a sp) "" then Ok 0 else v <- m_field mz (p_index_a sp);; Ok (v mod 2 ^ 256))
        as [ia| | |] eqn:E1; try discriminate. cbn [bind] in H.
      destruct (if String.eqb (p_index_b sp) "" then Ok 0 else v <- m_field mz (p_index_b sp);; Ok (v mod 2 ^ 256))
        as [ib| | |] eqn:E2; try discriminate. cbn [bind] in H.
      destruct (if String.eqb (p_value_a sp) "" then Ok 0 else v <- m_field mz (p_value_a sp);; Ok (v mod 2 ^ 256))
        as [va| | |] eqn:E3; try discriminate. cbn [bind] in H.
      destruct (if String.eqb (p_value_b sp) "" then Ok 0 else v <- m_field mz (p_value_b sp);; Ok (v mod 2 ^ 256))
        as [vb| | |] eqn:E4; try discriminate. cbn [bind] in H.
      inversion H; subst. split; [reflexivity|]. exists sp. split; [reflexivity|].
      cbv zeta. split; [intros Ht; congruence|]. intros _. cbn [s_index_a s_index_b s_value_a s_value_b]. tauto.
Qed.

(* ================= examples (non-vacuity) ================= *)

Definition ex_oracles : oracles :=
  {| keccak := fun s => if String.eqb s "urn:T" then 2 ^ 255 + 258 else 7;
     did_to_id := fun s => if String.eqb s "did:x" then Some 12345 else None |}.
Definition ex_mz : mzview :=
  {| m_cs_type := Some (RVStr "urn:T"); m_top_type := None; m_root := 777;
     m_field := fun p => if String.eqb p "a" then Ok 5 else if String.eqb p "b" then Ok 6 else Err "field" |}.
Definition ex_term (ser : string) : term :=
  {| t_name := "T"; t_is_map := true; t_ctx := Some (CtxMap (Some ser)); t_id := "urn:T" |}.
Definition ex_other : term :=
  {| t_name := "Aaa"; t_is_map := true; t_ctx := Some CtxOther; t_id := "urn:A" |}.
(* merklized schema, subject id, expiration before 1970 *)
Definition ex_cred_m : cred :=
  {| c_mz := Some ex_mz; c_subject := Some "did:x"; c_expiration := Some (-1); c_ctx := Some [ex_other] |}.
(* serialized schema: slotIndexA = a, slotValueB = b *)
Definition ex_cred_s : cred :=
  {| c_mz := Some ex_mz; c_subject := None; c_expiration := None;
     c_ctx := Some [ex_term "iden3:v1:slotIndexA=a&slotValueB=b"; ex_other] |}.
Definition ex_opts : opts :=
  {| o_nonce := 9; o_version := 3; o_subject_pos := "value"; o_root_pos := ""; o_updatable := true |}.

Example ex_layout_merklized :
  rmap ints (fst (to_core_claim ex_oracles ex_cred_m (Some ex_opts))) =
  Ok [ (256 ^ 14 + 2 * 256 ^ 15) + 2 ^ 128 * (3 + 8 * 1 + 16 * 1 + 32 * 1) + 2 ^ 160 * 3;
       0; 777; 0; 9 + 2 ^ 64 * (2 ^ 64 - 1); 12345; 0; 0 ].
Proof. vm_compute. reflexivity. Qed.

Example ex_layout_serialized :
  rmap ints (fst (to_core_claim ex_oracles ex_cred_s (Some ex_opts))) =
  Ok [ (256 ^ 14 + 2 * 256 ^ 15) + 2 ^ 128 * (0 + 8 * 0 + 16 * 1 + 32 * 0) + 2 ^ 160 * 3;
       0; 5; 0; 9; 0; 0; 6 ].
Proof. vm_compute. reflexivity. Qed.

Example ex_root_for_serialized_is_error :
  fst (to_core_claim ex_oracles ex_cred_s (Some (with_root_pos ex_opts "index"))) = Err "root-position-not-supported".
Proof. vm_compute. reflexivity. Qed.

(* what purity excludes: the code before commit a78f738 left "index" in the caller's object ... *)
Example ex_unrepaired_writes :
  snd (to_core_claim_unrepaired ex_oracles ex_cred_m (Some ex_opts)) = Some (with_root_pos ex_opts "index").
Proof. vm_compute. reflexivity. Qed.
(* ... so that a later call on a serialized credential with the same object failed *)
Example ex_unrepaired_history :
  fst (to_core_claim ex_oracles ex_cred_s (snd (to_core_claim_unrepaired ex_oracles ex_cred_m (Some ex_opts))))
  = Err "root-position-not-supported" /\
  is_ok (fst (to_core_claim ex_oracles ex_cred_s (snd (to_core_claim ex_oracles ex_cred_m (Some ex_opts))))) = true.
Proof. vm_compute. split; reflexivity. Qed.

Example ex_history :
  fst (run_history ex_oracles [ex_cred_m; ex_cred_s] [ex_opts]
         [ {| k_cred := 0; k_opts := Some 0%nat |}; {| k_cred := 1; k_opts := Some 0%nat |};
           {| k_cred := 0; k_opts := None |} ])
  = [ fst (to_core_claim ex_oracles ex_cred_m (Some ex_opts));
      fst (to_core_claim ex_oracles ex_cred_s (Some ex_opts));
      fst (to_core_claim ex_oracles ex_cred_m None) ].
Proof. vm_compute. reflexivity. Qed.

Example ex_term_order :
  Permutation [ex_term "iden3:v1:slotIndexA=a"; ex_other] [ex_other; ex_term "iden3:v1:slotIndexA=a"] /\
  NoDup (map t_name [ex_term "iden3:v1:slotIndexA=a"; ex_other]) /\
  serialization_attr_of_context [ex_other; ex_term "iden3:v1:slotIndexA=a"] "urn:T" = Ok "iden3:v1:slotIndexA=a".
Proof.
  split; [apply perm_swap|]. split; [|reflexivity].
  repeat constructor; cbn; intuition discriminate.
Qed.

Example ex_schema_hash :
  schema_hash ex_oracles "urn:T" = 256 ^ 14 + 2 * 256 ^ 15 /\
  skipn 16 (be_bytes 32 (keccak ex_oracles "urn:T")) = [0;0;0;0;0;0;0;0;0;0;0;0;0;0;1;2]%Z.
Proof. vm_compute. split; reflexivity. Qed.
