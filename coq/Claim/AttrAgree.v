(* Claim/AttrAgree.v — the serialization attribute at STRING level, against the
   independently written executable model of ParseSerializationAttr in
   Total/Model.v (`parse_ser_attr`: strings.Split with an accumulator, slice
   indexing that can panic).  (1) The two models agree on every string.
   (2) GetFieldSlotIndex's lookup and parseSlots' placement read the same parsed
   attribute: for every attribute STRING and field, the reported index is the data
   slot the claim builder fills with that field. *)
From Coq Require Import ZArith List String Ascii Bool Lia.
From GSP Require Import Base.Prelude Claim.Model Claim.Theory Claim.Slots.
From GSP Require Total.Model.
Import ListNotations.
Open Scope string_scope.
Open Scope list_scope.

Module T := GSP.Total.Model.

Lemma append_nil_r : forall s : string, (s ++ "")%string = s.
Proof. induction s as [|c t IH]; [reflexivity|]. cbn. now rewrite IH. Qed.

Lemma append_assoc : forall a b c : string, ((a ++ b) ++ c)%string = (a ++ (b ++ c))%string.
Proof. induction a as [|x t IH]; intros b c; [reflexivity|]. cbn. now rewrite IH. Qed.

Lemma split_on_nonempty : forall sep s, split_on sep s <> [].
Proof.
  intros sep s. destruct s as [|c t]; cbn; [discriminate|].
  destruct (Ascii.eqb c sep); [discriminate|]. destruct (split_on sep t); discriminate.
Qed.

(* strings.Split written with an accumulator = written by structural recursion *)
Lemma split_equiv : forall sep s cur,
  T.split_on sep s cur =
  match split_on sep s with h :: r => (cur ++ h)%string :: r | [] => [cur] end.
Proof.
  intros sep s. induction s as [|c t IH]; intros cur.
  - cbn. now rewrite append_nil_r.
  - cbn [T.split_on split_on]. destruct (Ascii.eqb c sep).
    + rewrite append_nil_r. f_equal. rewrite IH.
      destruct (split_on sep t) as [|h r] eqn:E; [now apply split_on_nonempty in E|]. reflexivity.
    + rewrite IH. destruct (split_on sep t) as [|h r] eqn:E; [now apply split_on_nonempty in E|].
      f_equal. rewrite append_assoc. reflexivity.
Qed.

Lemma go_split_equiv : forall sep s, T.go_split sep s = split_on sep s.
Proof.
  intros sep s. unfold T.go_split. rewrite split_equiv.
  destruct (split_on sep s) as [|h r] eqn:E; [now apply split_on_nonempty in E|]. reflexivity.
Qed.

Lemma strip_prefix_equiv : forall p s, T.strip_prefix p s = strip_prefix p s.
Proof.
  induction p as [|a p IH]; intros s; [reflexivity|].
  destruct s as [|b s]; [reflexivity|]. cbn. destruct (Ascii.eqb a b); [apply IH|reflexivity].
Qed.

Definition conv (x : T.slot_paths) : slots_paths :=
  {| p_index_a := T.sp_ia x; p_index_b := T.sp_ib x; p_value_a := T.sp_va x; p_value_b := T.sp_vb x |}.

Lemma parts_equiv : forall parts acc,
  rmap conv (T.ser_parts true parts acc) = parse_parts parts (conv acc).
Proof.
  induction parts as [|part rest IH]; intros acc; [reflexivity|].
  cbn [T.ser_parts parse_parts]. rewrite go_split_equiv.
  destruct (split_on "="%char part) as [|k [|v [|w more]]]; try reflexivity.
  cbn [List.length Nat.eqb negb T.nth_or_panic nth_error bind].
  unfold set_path.
  destruct (String.eqb k "slotIndexA"); [cbn [bind]; apply IH|].
  destruct (String.eqb k "slotIndexB"); [cbn [bind]; apply IH|].
  destruct (String.eqb k "slotValueA"); [cbn [bind]; apply IH|].
  destruct (String.eqb k "slotValueB"); [cbn [bind]; apply IH|]. reflexivity.
Qed.

Lemma parse_parts_total : forall parts p,
  match parse_parts parts p with Ok _ | Err _ => True | _ => False end.
Proof.
  induction parts as [|part rest IH]; intros p; [exact I|].
  cbn [parse_parts]. destruct (split_on "="%char part) as [|k [|v [|w more]]]; try exact I.
  unfold set_path.
  destruct (String.eqb k "slotIndexA"); [cbn [bind]; apply IH|].
  destruct (String.eqb k "slotIndexB"); [cbn [bind]; apply IH|].
  destruct (String.eqb k "slotValueA"); [cbn [bind]; apply IH|].
  destruct (String.eqb k "slotValueB"); [cbn [bind]; apply IH|]. exact I.
Qed.

(* (1) the two executable models of ParseSerializationAttr agree on EVERY string: the same parsed
   paths, or both an error (never a panic: the slice indexing of the Go code is in range) *)
Theorem parse_models_agree : forall a,
  match T.parse_ser_attr a, parse_serialization_attr a with
  | Ok x, Ok y => conv x = y
  | Err _, Err _ => True
  | _, _ => False
  end.
Proof.
  intros a. unfold T.parse_ser_attr, T.parse_ser_attr_with, parse_serialization_attr, ser_prefix.
  rewrite strip_prefix_equiv. destruct (strip_prefix "iden3:v1:" a) as [body|]; [|exact I].
  rewrite go_split_equiv.
  destruct (Nat.ltb 4 (List.length (split_on "&"%char body))); [exact I|].
  pose proof (parts_equiv (split_on "&"%char body) (T.mkslots "" "" "" "")) as E.
  change (conv (T.mkslots "" "" "" "")) with paths_empty in E.
  pose proof (parse_parts_total (split_on "&"%char body) paths_empty) as Tot.
  destruct (T.ser_parts true (split_on "&"%char body) (T.mkslots "" "" "" "")); cbn [rmap] in E;
    rewrite <- E in *; try exact I; try contradiction. reflexivity.
Qed.

Lemma named_not_empty : forall sp i f, In i data_slots -> slot_path sp i = f -> f <> "" ->
  paths_is_empty sp = false.
Proof.
  intros sp i f Hin Hpath Hf. unfold paths_is_empty, data_slots, slot_path in *.
  destruct Hin as [Hi|[Hi|[Hi|[Hi|[]]]]]; subst i; cbn in Hpath; rewrite Hpath;
    apply String.eqb_neq in Hf; rewrite Hf; cbn [andb];
    repeat (match goal with |- context [String.eqb ?x ""] => destruct (String.eqb x "") end; cbn [andb]);
    reflexivity.
Qed.

(* (2) C17_attr_parse_agrees *)
Theorem attr_parse_agrees : forall O c caller mz ts tp a f i cl,
  c_mz c = Some mz -> c_ctx c = Some ts -> find_credential_type mz = Ok tp ->
  f <> "" ->
  serialization_attr_of_context ts tp = Ok a ->
  get_field_slot_index f tp (SCtx (Some ts)) = Ok i ->
  fst (to_core_claim O c caller) = Ok cl ->
  exists x, T.parse_ser_attr a = Ok x /\
    In i data_slots /\ slot_path (conv x) i = f /\
    (forall j, In j data_slots -> j < i -> slot_path (conv x) j <> f)%Z /\
    enc_of mz f = Ok (raw_slot cl i) /\
    (forall j, In j data_slots -> enc_of mz (slot_path (conv x) j) = Ok (raw_slot cl j)).
Proof.
  intros O c caller mz ts tp a f i cl Hmz Hctx Hty Hf Ha Hlook Hok.
  destruct (lookup_ok f tp ts i Hlook) as (a' & sp & Ha' & Hne & Hp & Hin & Hpath & Hfirst).
  rewrite Ha in Ha'. inversion Ha'; subst a'.
  pose proof (parse_models_agree a) as E. rewrite Hp in E.
  destruct (T.parse_ser_attr a) as [x| | |]; try contradiction. subst sp.
  exists x. split; [reflexivity|]. split; [exact Hin|]. split; [exact Hpath|]. split; [exact Hfirst|].
  pose proof (named_not_empty (conv x) i f Hin Hpath Hf) as Hemp.
  assert (Hall : forall j, In j data_slots -> enc_of mz (slot_path (conv x) j) = Ok (raw_slot cl j)).
  { intros j Hj. exact (claim_slots_designated O c caller mz ts tp a (conv x) cl j Hmz Hctx Hty Ha Hne Hp Hemp Hok Hj). }
  split; [|exact Hall]. rewrite <- Hpath. now apply Hall.
Qed.

Example ex_models_agree :
  T.parse_ser_attr "iden3:v1:slotIndexA=price&slotValueB=info.insured" =
    Ok (T.mkslots "price" "" "" "info.insured") /\
  parse_serialization_attr "iden3:v1:slotIndexA=price&slotValueB=info.insured" =
    Ok (conv (T.mkslots "price" "" "" "info.insured")) /\
  is_err (T.parse_ser_attr "iden3:v1:slotIndexA=price=count&slotValueB=name") = true /\
  is_err (parse_serialization_attr "iden3:v1:slotIndexA=price=count&slotValueB=name") = true.
Proof. vm_compute. repeat split; reflexivity. Qed.
