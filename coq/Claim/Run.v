(* Claim/Run.v — evaluation of per-run case files for the claim model (C05, C17;
   reused by C06).  Tables recorded by the harness become oracle functions; a
   table miss is reported as a disagreement, never papered over.  Case files
   use the constructor functions below (no record syntax, no nat numerals). *)
From Coq Require Import ZArith List String Ascii Bool Uint63.
From GSP Require Import Base.Prelude Base.Decode Claim.Model Merklizer.SliceModel Claim.OptsSlice.
Import ListNotations.
Open Scope list_scope.

Definition nat_of_int (i : int) : nat := Z.to_nat (Uint63.to_Z i).

Fixpoint lookup_str {V} (k : string) (t : list (string * V)) : option V :=
  match t with
  | [] => None
  | (a, b) :: r => if String.eqb a k then Some b else lookup_str k r
  end.

(* ---- primitive oracles: Keccak-256 and DID -> ID ----
   A miss is visible: keccak answers -1 (no digest is negative), did_to_id
   answers None, and [oracles_cover] (checked for every call) reports whether the
   keys the model is going to ask for are present. *)
Record raw_oracles := {
  ro_keccak : list (string * limbs);
  ro_did : list (string * option limbs)     (* None = ParseDID / IDFromDID returned an error *)
}.
Definition mk_raw_oracles (k : list (string * limbs)) (d : list (string * option limbs)) : raw_oracles :=
  {| ro_keccak := k; ro_did := d |}.
Definition mk_oracles (r : raw_oracles) : oracles :=
  {| keccak := fun s => match lookup_str s (ro_keccak r) with Some l => z_of_limbs l | None => (-1)%Z end;
     did_to_id := fun s => match lookup_str s (ro_did r) with
                           | Some (Some l) => Some (z_of_limbs l)
                           | _ => None end |}.

(* ---- credentials ---- *)
Definition mk_term (name : string) (is_map : bool) (ctx : option ctxshape) (id : string) : term :=
  {| t_name := name; t_is_map := is_map; t_ctx := ctx; t_id := id |}.

(* field table: path |-> Some encoding / None (ResolveDocPath, Entry or ValueMtEntry failed) *)
Definition mk_mz (cs top : option rawv) (root : limbs) (fields : list (string * option limbs)) : mzview :=
  {| m_cs_type := cs; m_top_type := top; m_root := z_of_limbs root;
     m_field := fun p => match lookup_str p fields with
                         | Some (Some l) => Ok (z_of_limbs l)
                         | Some None => Err "field"
                         | None => Panic "oracle-miss" end |}.

Definition mk_cred (mz : option mzview) (subj : option string) (exp : option snum)
  (ctx : option (list term)) : cred :=
  {| c_mz := mz; c_subject := subj;
     c_expiration := match exp with Some e => Some (z_of_snum e) | None => None end;
     c_ctx := ctx |}.

(* expiration as the instant (Unix seconds, nanoseconds) read from vc.Expiration *)
Definition mk_cred_t (mz : option mzview) (subj : option string) (exp : option (snum * limbs))
  (ctx : option (list term)) : cred :=
  cred_at mz subj
    (match exp with
     | Some (s, n) => Some {| gt_sec := z_of_snum s; gt_nanos := z_of_limbs n |}
     | None => None end) ctx.

Definition mk_opts (nonce ver : limbs) (sp rp : string) (upd : bool) : opts :=
  {| o_nonce := z_of_limbs nonce; o_version := z_of_limbs ver; o_subject_pos := sp;
     o_root_pos := rp; o_updatable := upd |}.

(* does the oracle table hold what the model will ask for on this credential? *)
Definition oracles_cover (r : raw_oracles) (c : cred) : bool :=
  (match tcc_prefix c with
   | Ok (_, ty, _, _) => match lookup_str ty (ro_keccak r) with Some _ => true | None => false end
   | _ => true
   end) &&
  (match c_subject c with
   | Some s => match lookup_str s (ro_did r) with Some _ => true | None => false end
   | None => true
   end).

(* ---- what the implementation did ---- *)
Inductive cobs :=
| OClaim (slots : list limbs)     (* the 8 raw slot integers decoded from MarshalBinary *)
| OErr | OPanic.

Definition obs_agree (r : res claim) (o : cobs) : bool :=
  match r, o with
  | Ok cl, OClaim l => list_eqb Z.eqb (ints cl) (map z_of_limbs l)
  | Err _, OErr => true
  | _, _ => false            (* includes every Panic (oracle miss) and Diverge *)
  end.

(* ---- C05: a history of calls over shared credentials and option objects ---- *)
Definition kc (ci : int) (oi : option int) : call :=
  {| k_cred := nat_of_int ci;
     k_opts := match oi with Some j => Some (nat_of_int j) | None => None end |}.

Record hcase := {
  h_id : int;
  h_opts : list opts;          (* the shared option objects before the first call *)
  h_calls : list call;
  h_obs : list cobs;           (* one per call *)
  h_after : list opts          (* the option objects after the last call, as the implementation left them *)
}.
Definition mkh (id : int) (os : list opts) (ks : list call) (ob : list cobs) (after : list opts) : hcase :=
  {| h_id := id; h_opts := os; h_calls := ks; h_obs := ob; h_after := after |}.

Fixpoint all2 {A B} (f : A -> B -> bool) (a : list A) (b : list B) : bool :=
  match a, b with
  | [], [] => true
  | x :: a', y :: b' => f x y && all2 f a' b'
  | _, _ => false
  end.

Definition calls_covered (r : raw_oracles) (creds : list cred) (ks : list call) : bool :=
  forallb (fun k => match nth_error creds (k_cred k) with
                    | Some c => oracles_cover r c
                    | None => false end) ks.

Definition hcase_ok (r : raw_oracles) (creds : list cred) (h : hcase) : bool :=
  let O := mk_oracles r in
  let rs := run_history O creds (h_opts h) (h_calls h) in
  calls_covered r creds (h_calls h) &&
  all2 obs_agree (fst rs) (h_obs h) &&
  all2 opts_eqb (snd rs) (h_after h).

Definition hmismatches (r : raw_oracles) (creds : list cred) (hs : list hcase) : list int :=
  fold_right (fun h acc => if hcase_ok r creds h then acc else h_id h :: acc) [] hs.

(* ---- C17: slot index lookups (direct parser and processor facade) ---- *)
Inductive lobs := LIdx (i : int) | LErr | LPanic.

Inductive lroute :=
| RParser            (* json.Parser{}.GetFieldSlotIndex *)
| RFacade            (* processor with the json parser configured *)
| RFacadeNoParser.   (* processor without a parser *)

Record lcase := {
  l_id : int; l_route : lroute; l_doc : int; l_field : string; l_type : string; l_obs : lobs
}.
Definition mkl (id : int) (rt : lroute) (doc : int) (field ty : string) (o : lobs) : lcase :=
  {| l_id := id; l_route := rt; l_doc := doc; l_field := field; l_type := ty; l_obs := o |}.

(* json.Parser behind the processor: C = credential, S = schema document, Opt = options pointer *)
Definition json_parser (O : oracles) : parser cred schema_doc (option opts) :=
  {| ps_parse_claim := parser_parse_claim O;
     ps_slot_index := get_field_slot_index |}.
Definition proc_with (p : option (parser cred schema_doc (option opts)))
  : processor cred schema_doc unit (option opts) :=
  {| pr_validator := None; pr_loader := None; pr_parser := p |}.
Definition no_oracles : oracles := {| keccak := fun _ => (-1)%Z; did_to_id := fun _ => None |}.

Definition run_lookup (docs : list schema_doc) (c : lcase) : res Z :=
  match nth_error docs (nat_of_int (l_doc c)) with
  | None => Panic "bad-document-index"
  | Some d =>
    match l_route c with
    | RParser => get_field_slot_index (l_field c) (l_type c) d
    | RFacade => facade_slot_index _ _ _ _ (proc_with (Some (json_parser no_oracles))) (l_field c) (l_type c) d
    | RFacadeNoParser => facade_slot_index _ _ _ _ (proc_with None) (l_field c) (l_type c) d
    end
  end.

Definition lobs_agree (r : res Z) (o : lobs) : bool :=
  match r, o with
  | Ok z, LIdx i => Z.eqb z (Uint63.to_Z i)
  | Err _, LErr => true
  | _, _ => false
  end.

Definition lmismatches (docs : list schema_doc) (cs : list lcase) : list int :=
  fold_right (fun c acc => if lobs_agree (run_lookup docs c) (l_obs c) then acc else l_id c :: acc) [] cs.

(* ---- C17: where claim building put the fields.  For a credential and the
   parsed attribute paths the implementation reports, per field path, the
   set of raw slots holding that field's encoding; the model's claim must have
   the encoding exactly at the index the model's lookup reports. ---- *)
Record acase := {
  a_id : int; a_cred : int; a_doc : int; a_field : string; a_type : string;
  a_enc : option limbs            (* the field's value encoding in the credential, None = field absent *)
}.
Definition mka (id cr doc : int) (field ty : string) (enc : option limbs) : acase :=
  {| a_id := id; a_cred := cr; a_doc := doc; a_field := field; a_type := ty; a_enc := enc |}.

(* model-internal agreement on concrete data (the theorem C17_agree says this
   for all inputs; evaluating it per case ties the theorem's two functions to
   the tables recorded from the implementation) *)
Definition acase_ok (r : raw_oracles) (creds : list cred) (docs : list schema_doc) (a : acase) : bool :=
  match nth_error creds (nat_of_int (a_cred a)), nth_error docs (nat_of_int (a_doc a)) with
  | Some c, Some d =>
    match get_field_slot_index (a_field a) (a_type a) d,
          fst (to_core_claim (mk_oracles r) c None), a_enc a with
    | Ok i, Ok cl, Some e => Z.eqb (raw_slot cl i) (z_of_limbs e)
    | Ok _, Ok _, None => false         (* a claim although the designated field is absent *)
    | Ok _, Err _, _ => true            (* some designated field is absent: building fails *)
    | Err _, _, _ => true
    | _, _, _ => false
    end
  | _, _ => false
  end.
Definition amismatches (r : raw_oracles) (creds : list cred) (docs : list schema_doc) (cs : list acase)
  : list int :=
  fold_right (fun a acc => if acase_ok r creds docs a then acc else a_id a :: acc) [] cs.

(* ---- C17: ParseClaim through the processor facade vs the parser called directly ---- *)
Record fcase := { f_id : int; f_route : lroute; f_cred : int; f_opts : option opts; f_obs : cobs }.
Definition mkf (id : int) (rt : lroute) (cr : int) (o : option opts) (ob : cobs) : fcase :=
  {| f_id := id; f_route := rt; f_cred := cr; f_opts := o; f_obs := ob |}.

Definition run_parse_claim (r : raw_oracles) (creds : list cred) (c : fcase) : res claim :=
  match nth_error creds (nat_of_int (f_cred c)) with
  | None => Panic "bad-credential-index"
  | Some cr =>
    if negb (oracles_cover r cr) then Panic "oracle-miss" else
    let O := mk_oracles r in
    match f_route c with
    | RParser => parser_parse_claim O cr (f_opts c)
    | RFacade => facade_parse_claim _ _ _ _ (proc_with (Some (json_parser O))) cr (f_opts c)
    | RFacadeNoParser => facade_parse_claim _ _ _ _ (proc_with None) cr (f_opts c)
    end
  end.

Definition fmismatches (r : raw_oracles) (creds : list cred) (cs : list fcase) : list int :=
  fold_right (fun c acc => if obs_agree (run_parse_claim r creds c) (f_obs c) then acc else f_id c :: acc) [] cs.

(* ---- C17: the processor with every subset of {validator, parser, loader}, stub components ----
   The stubs answer: validator Err "verdict"; parser index 6 / the zero claim; loader a document.
   The implementation's answer is observed as: the component's own answer, or the method's
   "X is not defined" error (X recorded), or anything else. *)
Inductive fmethod := MValidate | MSlotIndex | MParseClaim | MLoad.
Inductive sobs := SComponent | SNotDefined (what : string) | SOther.

Definition stub_processor (hasV hasP hasL : bool) : processor unit unit unit unit :=
  {| pr_validator := if hasV then Some (fun _ _ => Err "verdict") else None;
     pr_parser := if hasP then Some {| ps_parse_claim := fun _ _ => Ok claim_zero;
                                       ps_slot_index := fun _ _ _ => Ok 6%Z |} else None;
     pr_loader := if hasL then Some (fun _ => Ok tt) else None |}.

Definition not_defined_of (t : string) : sobs :=
  if String.eqb t "validator-not-defined" then SNotDefined "validator"
  else if String.eqb t "parser-not-defined" then SNotDefined "parser"
  else if String.eqb t "loader-not-defined" then SNotDefined "loader"
  else SOther.

Definition run_subset (hasV hasP hasL : bool) (m : fmethod) : sobs :=
  let p := stub_processor hasV hasP hasL in
  match m with
  | MValidate => match facade_validate _ _ _ _ p tt tt with
                 | Err t => if String.eqb t "verdict" then SComponent else not_defined_of t
                 | _ => SOther end
  | MSlotIndex => match facade_slot_index _ _ _ _ p "f" "t" tt with
                  | Ok i => if Z.eqb i 6 then SComponent else SOther
                  | Err t => not_defined_of t
                  | _ => SOther end
  | MParseClaim => match facade_parse_claim _ _ _ _ p tt tt with
                   | Ok cl => if claim_eqb cl claim_zero then SComponent else SOther
                   | Err t => not_defined_of t
                   | _ => SOther end
  | MLoad => match facade_load _ _ _ _ p "u" with
             | Ok _ => SComponent
             | Err t => not_defined_of t
             | _ => SOther end
  end.

Definition sobs_eqb (a b : sobs) : bool :=
  match a, b with
  | SComponent, SComponent => true
  | SNotDefined x, SNotDefined y => String.eqb x y
  | _, _ => false          (* SOther (a panic, a foreign error) never agrees *)
  end.

Record scase := { sc_id : int; sc_v : bool; sc_p : bool; sc_l : bool; sc_m : fmethod; sc_obs : sobs }.
Definition mks (id : int) (v p l : bool) (m : fmethod) (o : sobs) : scase :=
  {| sc_id := id; sc_v := v; sc_p := p; sc_l := l; sc_m := m; sc_obs := o |}.
Definition smismatches (cs : list scase) : list int :=
  fold_right (fun c acc => if sobs_eqb (run_subset (sc_v c) (sc_p c) (sc_l c) (sc_m c)) (sc_obs c)
                           then acc else sc_id c :: acc) [] cs.

(* ---- C05: the backing arrays of the options' MerklizerOpts (Claim/OptsSlice.v) ----
   Elements are small integers naming the options (by code pointer, numbered per history; 0 = empty
   cell).  The case gives the heap before the history, the option objects' slices, the calls; the
   implementation's observation is every object's window up to its capacity after the history. *)
Definition mk_slice (a len cap : int) : slice :=
  mkslice (nat_of_int a) 0 (nat_of_int len) (nat_of_int cap).
Record zcase := { z_id : int; z_heap : list (list int); z_objs : list slice; z_calls : list int;
                  z_after : list (list int) }.
Definition mkz (id : int) (h : list (list int)) (objs : list slice) (calls : list int)
  (after : list (list int)) : zcase :=
  {| z_id := id; z_heap := h; z_objs := objs; z_calls := calls; z_after := after |}.

Definition zcase_ok (c : zcase) : bool :=
  let calls := map (fun i => nth (nat_of_int i) (z_objs c) (mkslice 0 0 0 0)) (z_calls c) in
  let h' := fst (run_mz int 0%uint63 (fun _ => O) (VRepo int) (z_heap c) calls) in
  list_eqb (list_eqb Uint63.eqb) (map (fun o => view int h' (full o)) (z_objs c)) (z_after c).
Definition zmismatches (cs : list zcase) : list int :=
  fold_right (fun c acc => if zcase_ok c then acc else z_id c :: acc) [] cs.
